"""Case generation for C08 (storage concurrency): request sets for a few workers plus a schedule.

A case line:
  conc <I> <E> <M> <NOW> <ncl> c.. <npre> op.. <nw> {<nreq> op..} <nsched> w..
    I intervals, E expire-group (s), M min-distance (s), NOW clock (s); `pre` = sequential preamble;
    then one request queue per worker; the schedule is a list of worker ids (a step of a worker = from where it is
    parked in front of a lock acquisition, or from the start of its next request, to its next acquisition / the end
    of the handler); after the schedule everything is drained, lowest enabled worker first.
  ops:  B c t p cnt off | C c g t p off order ts | O c g t p owner client | X c g | DT c t | DG c g t |
        FC | FG c | FT c | FX c g | FO c t | FU c t
The model line is the same line followed by `prio n g..` (the order in which the implementation's map iteration
visited the groups; taken from the implementation's lock trace).
"""
import itertools

NOW = 1700000000
KINDS9 = ["B", "C", "O", "X", "DT", "DG", "FX", "FU", "FO"]
KINDS12 = KINDS9 + ["FC", "FG", "FT"]
GROUP_KEYED = {"C", "O", "X", "DG", "FX"}
# number of steps (prologue + lock acquisitions) a request can take at most, with up to 2 groups in the cluster
MAXSTEPS = {"B": 2, "C": 4, "O": 4, "X": 3, "DT": 5, "DG": 3, "FX": 4, "FU": 4, "FO": 2, "FC": 1, "FG": 2, "FT": 2}


class Env:
    """Small name universe: 1 cluster (sometimes 2), 2 groups, 2 topics, <=3 partitions."""

    def __init__(self, rng, two_clusters=False):
        self.rng = rng
        self.clusters = [1, 2] if two_clusters else [1]
        self.order = 100
        self.off = 1000

    def nxt_order(self):
        self.order += self.rng.choice([1, 1, 2, 5])
        return self.order

    def nxt_off(self):
        self.off += self.rng.choice([0, 1, 7, 50])
        return self.off


def mk_req(env, kind, g=None, t=None, c=None, cnt=None, p=None, old=False):
    r = env.rng
    c = c if c is not None else r.choice(env.clusters)
    g = g if g is not None else r.choice([1, 2])
    t = t if t is not None else r.choice([1, 1, 2])
    cnt = cnt if cnt is not None else r.choice([1, 2, 2, 3])
    p = p if p is not None else r.randrange(cnt)
    if kind == "B":
        return ["B", c, t, p, cnt, env.nxt_off()]
    if kind == "C":
        ts = NOW * 1000 + r.choice([0, 1000, 5000, 20000])
        if old:
            ts = (NOW - 100000) * 1000
        return ["C", c, g, t, p, env.nxt_off() - r.choice([0, 3, 2000]), env.nxt_order(), ts]
    if kind == "O":
        return ["O", c, g, t, p, r.choice([1, 2]), r.choice([1, 2])]
    if kind == "X":
        return ["X", c, g]
    if kind == "DT":
        return ["DT", c, t]
    if kind == "DG":
        return ["DG", c, g, r.choice([0, 0, t, t, 2])]
    if kind == "FC":
        return ["FC"]
    if kind == "FG":
        return ["FG", c]
    if kind == "FT":
        return ["FT", c]
    if kind == "FX":
        return ["FX", c, g]
    if kind == "FO":
        return ["FO", c, t]
    if kind == "FU":
        return ["FU", c, t]
    raise ValueError(kind)


def group_of(op):
    """(cluster, group) of a group-keyed request, else None."""
    if op[0] in GROUP_KEYED:
        return (op[1], op[2])
    return None


def preamble(env, richness):
    """Sequential history that populates brokers and groups so that the concurrent part starts from a busy state."""
    r = env.rng
    ops = []
    if richness == 0:
        return ops
    for c in env.clusters:
        for t in ([1, 2] if richness > 1 else [1]):
            cnt = r.choice([1, 2, 3])
            for p in range(cnt):
                if r.random() < 0.85:
                    ops.append(["B", c, t, p, cnt, env.nxt_off()])
            for g in [1, 2]:
                if r.random() < 0.7:
                    for _ in range(r.choice([1, 2, 4])):
                        ops.append(mk_req(env, "C", g=g, t=t, c=c, cnt=cnt))
                if r.random() < 0.3:
                    ops.append(mk_req(env, "O", g=g, t=t, c=c, cnt=cnt))
    return ops


def assign_workers(env, reqs, nw):
    """Router-consistent assignment: group-keyed requests of one (cluster, group) share a worker (and keep their
    submission order there); the others go anywhere."""
    r = env.rng
    home = {}
    queues = [[] for _ in range(nw)]
    for op in reqs:
        k = group_of(op)
        if k is not None:
            if k not in home:
                home[k] = r.randrange(nw)
            queues[home[k]].append(op)
        else:
            queues[r.randrange(nw)].append(op)
    return queues


def fmt_case(intervals, expire, mindist, clusters, pre, queues, sched):
    f = ["conc", intervals, expire, mindist, NOW, len(clusters)] + clusters
    f.append(len(pre))
    for op in pre:
        f += op
    f.append(len(queues))
    for q in queues:
        f.append(len(q))
        for op in q:
            f += op
    f.append(len(sched))
    f += sched
    return " ".join(str(x) for x in f)


def random_schedule(rng, queues):
    steps = []
    for w, q in enumerate(queues):
        steps += [w] * sum(MAXSTEPS[op[0]] for op in q)
    rng.shuffle(steps)
    # sometimes run one worker ahead in bursts
    if rng.random() < 0.3:
        steps.sort(key=lambda w: (rng.random() < 0.5, w))
    return steps


def gen_random(rng, idx):
    """One sampled case: 2-3 requests (sometimes more, with same-group sequences) over 2-3 workers."""
    env = Env(rng, two_clusters=rng.random() < 0.15)
    intervals = rng.choice([1, 2, 3, 3, 5])
    expire = rng.choice([100000, 100000, 600])
    mindist = rng.choice([0, 0, 3])
    pre = preamble(env, rng.choice([0, 1, 2, 2]))
    n = rng.choice([2, 2, 3, 3, 3, 4, 5])
    focus = rng.random()
    kinds = []
    for _ in range(n):
        if focus < 0.35:
            kinds.append(rng.choice(["DT", "C", "B", "FX", "DT", "C", "O", "DG"]))
        else:
            kinds.append(rng.choice(KINDS12))
    t = rng.choice([1, 1, 2]) if focus < 0.5 else None
    reqs = [mk_req(env, k, t=t, old=(k == "C" and rng.random() < 0.05)) for k in kinds]
    nw = rng.choice([2, 2, 3])
    queues = assign_workers(env, reqs, nw)
    sched = random_schedule(rng, queues)
    tags = ["random", "n%d" % n] + sorted(set(kinds))
    return fmt_case(intervals, expire, mindist, env.clusters, pre, queues, sched), tags


def interleavings(counts):
    """All sequences over worker ids with counts[w] occurrences of w."""
    total = sum(counts)

    def go(rem, acc):
        if len(acc) == total:
            yield list(acc)
            return
        for w in range(len(rem)):
            if rem[w] > 0:
                rem[w] -= 1
                acc.append(w)
                yield from go(rem, acc)
                acc.pop()
                rem[w] += 1
    yield from go(list(counts), [])


def gen_tuple_exhaustive(rng, kinds, limit=None, variant=None):
    """Every interleaving of one request of each kind (one per worker; same-group keyed requests are put on one
    worker), on a populated state where all of them concern topic 1 / group 1 of cluster 1."""
    env = Env(rng)
    intervals = 2
    pre = []
    cnt = 2
    for p in range(cnt):
        pre.append(["B", 1, 1, p, cnt, env.nxt_off()])
    for g in (1, 2):
        pre.append(mk_req(env, "C", g=g, t=1, c=1, cnt=cnt, p=1))
    reqs = []
    for k in kinds:
        if k == "B":
            reqs.append(["B", 1, 1, 0, 1, env.nxt_off()])      # re-creation with fewer partitions after a delete
        elif k == "DG":
            reqs.append(["DG", 1, 1, rng.choice([0, 1]) if variant is None else variant])
        else:
            reqs.append(mk_req(env, k, g=1, t=1, c=1, cnt=cnt, p=1))
    home = {}
    queues = []
    for op in reqs:
        k = group_of(op)
        if k is not None and k in home:
            queues[home[k]].append(op)
            continue
        if k is not None:
            home[k] = len(queues)
        queues.append([op])
    counts = [sum(MAXSTEPS[op[0]] for op in q) for q in queues]
    out = []
    allil = interleavings(counts)
    if limit is not None:
        allil = itertools.islice(allil, 0, None)
        pool = list(itertools.islice(allil, 200000))
        if len(pool) > limit:
            pool = rng.sample(pool, limit)
        allil = pool
    for s in allil:
        out.append((fmt_case(intervals, 100000, 0, [1], pre, queues, s), ["tuple", "+".join(kinds)]))
    return out


def gen_stale_topic(rng, idx):
    """A group consuming k = 2..4 topics, all with fresh broker offsets and non-zero lag.  A commit on ONE topic s passes its
    broker lookup, the whole deleteTopic(s) runs, the commit then re-creates the group's entry for s (the state of
    conc_group_linearisable_refuted): the group now holds a topic the broker map lacks.  The group is then fetched several
    times (Go's map order decides whether the stale topic comes before the live ones); a third worker may refresh broker
    offsets of the live topics or re-create s meanwhile.  Every partition of every topic of every reply is checked."""
    env = Env(rng)
    k = rng.choice([2, 2, 3, 4])
    topics = list(range(1, k + 1))
    s = rng.choice(topics)
    intervals = rng.choice([2, 3, 3, 5])
    cnts = {t: rng.choice([1, 2, 2, 3]) for t in topics}
    pre = []
    for rnd in range(rng.choice([1, 2, 3])):
        for t in topics:
            for p in range(cnts[t]):
                pre.append(["B", 1, t, p, cnts[t], env.nxt_off() + 100 * (rnd + 1)])
    groups = [1] if rng.random() < 0.6 else [1, 2]
    for g in groups:
        for t in topics:
            for p in range(cnts[t]):
                if rng.random() < 0.9:
                    for _ in range(rng.choice([1, 2, 3])):
                        # commits well below the broker offsets: non-zero lag everywhere
                        pre.append(["C", 1, g, t, p, rng.randrange(10, 900), env.nxt_order(), NOW * 1000 + rng.choice([0, 1000, 5000])])
    ps = rng.randrange(cnts[s])
    nfetch = rng.choice([3, 4, 6])
    q0 = [["C", 1, 1, s, ps, rng.randrange(10, 900), env.nxt_order(), NOW * 1000 + 6000]] + [["FX", 1, 1] for _ in range(nfetch)]
    q1 = [["DT", 1, s]]
    q2 = []
    mode = rng.choice(["plain", "refresh", "recreate", "random"])
    if mode == "refresh":
        live = [t for t in topics if t != s]
        for _ in range(rng.choice([1, 2, 3])):
            t = rng.choice(live)
            q2.append(["B", 1, t, rng.randrange(cnts[t]), cnts[t], env.nxt_off() + 5000])
    elif mode == "recreate":
        c2 = rng.choice([1, cnts[s], cnts[s] + 1])
        q2.append(["B", 1, s, rng.randrange(c2), c2, env.nxt_off() + 5000])
    queues = [q0, q1] + ([q2] if q2 else [])
    if mode == "random":
        sched = random_schedule(rng, queues)
    else:
        # commit: prologue + broker lookup ; the whole deleteTopic (prologue, consumer list, one step per group, broker) ;
        # the rest of the commit ; then fetches, with the third worker's steps sprinkled in
        sched = [0, 0] + [1] * (3 + len(groups)) + [0, 0]
        tail = [0] * (4 * nfetch) + [2] * sum(MAXSTEPS[op[0]] for op in q2)
        if rng.random() < 0.5:
            rng.shuffle(tail)
        sched += tail
    return fmt_case(intervals, 100000, rng.choice([0, 0, 3]), [1], pre, queues, sched), ["stale", mode, "k%d" % k]


# the schedules behind the findings (kept in corpus/C08/cases.txt as well)
def crash_schedule_f6iii():
    """deleteTopic(consumer half) ; commit (re-creates the consumer topic with the OLD partition count) ;
    deleteTopic(broker half) ; broker update re-creating the topic with FEWER partitions ; fetchConsumer"""
    pre = [["B", 1, 1, 0, 2, 1000], ["B", 1, 1, 1, 2, 1001], ["C", 1, 1, 1, 1, 990, 101, NOW * 1000]]
    queues = [[["DT", 1, 1]], [["C", 1, 1, 1, 1, 995, 102, NOW * 1000 + 1000], ["FX", 1, 1]], [["B", 1, 1, 0, 1, 1100]]]
    #          DT: prologue, consumer RLock(+group steps)           commit: 4 steps      DT broker   B        FX
    sched = [0, 0, 0, 1, 1, 1, 1, 0, 2, 2, 1, 1, 1, 1]
    return fmt_case(2, 100000, 0, [1], pre, queues, sched)
