"""Generators for the evaluator layer (C03 calc cases, C04 group cases)."""
I64MAX = 2**63 - 1
I64MIN = -2**63
U64MAX = 2**64 - 1


def fmt_offsets(offs):
    out = [str(len(offs))]
    for o in offs:
        if o is None:
            out += ["0", "0", "0", "0", "0", "0"]
        else:
            off, order, ts, lag = o
            out += ["1", str(off), str(order), str(ts), "1" if lag is not None else "0", str(lag if lag is not None else 0)]
    return " ".join(out)


def fmt_list(l):
    return " ".join([str(len(l))] + [str(x) for x in l])


def base_window(rng, n=None):
    """A window of n commits: offsets follow a random walk (advance / stall / rewind), timestamps increase."""
    if n is None:
        n = rng.choice([1, 1, 2, 2, 3, 4, 5, 6, 8, 10, 12])
    mode = rng.choice(["advance", "stall", "mixed", "mixed", "rewind"])
    off = rng.choice([0, 1, 1000, 10**6, rng.randrange(0, 10**9)])
    ts = rng.choice([0, 1000, 1500000000000, rng.randrange(0, 2 * 10**12)])
    order = rng.randrange(0, 10**6)
    w = []
    for i in range(n):
        if i > 0:
            if mode == "advance":
                off += rng.choice([1, 5, 100, 1000])
            elif mode == "stall":
                pass
            elif mode == "rewind":
                off += rng.choice([-50, -1, 0, 1, 10, 100])
            else:
                off += rng.choice([-3, -1, 0, 0, 1, 2, 10])
            ts += rng.choice([0, 1, 999, 1000, 1000, 5000, 60000])
            order += rng.choice([1, 2, 10])
        lag = None
        r = rng.random()
        if r < 0.7:
            lag = rng.choice([0, 1, 2, 5, 10, 100, rng.randrange(0, 1000)])
        elif r < 0.75:
            lag = rng.choice([U64MAX, 2**63, 2**63 - 1])
        w.append([off, order, ts, lag])
    return w


def stop_boundary_now(w, d):
    """A clock value (seconds) sitting d*1000 ms away from the stop boundary when timestamps are multiples of 1000."""
    first, last = w[0][2], w[-1][2]
    # now*1000 - last  vs  last - first   <=> now*1000 vs 2*last - first
    return (2 * last - first) // 1000 + d


def gen_calc(rng, idx):
    """Boundary-directed: picks one comparison atom of the documented procedure and places the input at
    difference -1 / 0 / +1 from where it flips.  Returns (line, tags)."""
    atom = rng.choice(["lagallowed", "stop", "recent", "rewind", "recover", "rewind2", "lagok", "stall", "lagdec", "random",
                       "extreme", "nilfirst", "two"])
    d = rng.choice([-1, 0, 1])
    w = base_window(rng)
    allowed = rng.choice([0, 0, 0, 1, 10, 100, 1000])
    curlag = allowed + rng.choice([1, 1, 5, 1000])
    brokers = [w[-1][0] + rng.choice([1, 5, 100]) + i for i in range(rng.randrange(0, 6))]
    now = stop_boundary_now(w, rng.choice([-5, -1, 0, 1, 1, 5, 100]))
    if atom in ("rewind", "recover", "rewind2", "lagok", "stall", "lagdec") and rng.random() < 0.7:
        # the rules after STOP: keep most of these cases from ending at the STOP exit (clock inside the window's span)
        now = stop_boundary_now(w, rng.choice([-5, -1, 0]))
    tags = [atom, "d=%d" % d]

    def apply(atom, d):
        nonlocal curlag, allowed, brokers, now, w
        if atom == "lagallowed":
            curlag = max(0, allowed + d)
        elif atom == "stop":
            for o in w:
                o[2] = (o[2] // 1000) * 1000
            now = stop_boundary_now(w, 0)
            # boundary: now*1000 - last == last - first (not stopped); shift last by one ms either way
            k = rng.choice(["now", "last", "first"])
            if k == "now":
                now += d
            elif k == "last" and len(w) > 1:
                w[-1][2] -= d
            elif len(w) > 1:
                w[0][2] += d
            else:
                now += d
        elif atom == "recent":
            now = stop_boundary_now(w, 5)
            brokers = [w[-1][0] + 10 + i for i in range(rng.randrange(0, 4))]
            pos = rng.randrange(0, len(brokers) + 1)
            brokers.insert(pos, w[-1][0] + d)
        elif atom == "rewind" and len(w) >= 2:
            i = rng.randrange(1, len(w))
            w[i][0] = w[i - 1][0] + d
        elif atom == "recover" and len(w) >= 3:
            i = rng.randrange(1, len(w) - 1)
            w[i][0] = w[i - 1][0] - rng.choice([1, 5])
            for j in range(i + 1, len(w)):
                w[j][0] = w[i][0] + rng.choice([0, 0, 1])
                if w[j][0] >= w[i - 1][0]:
                    w[j][0] = w[i - 1][0] - 1
            j = rng.randrange(i + 1, len(w))
            w[j][0] = w[i - 1][0] + d
        elif atom == "rewind2" and len(w) >= 4:
            # a first backward step that IS recovered, then a second one at distance d from "no step"; after it either
            # nothing gets back to the offset before the second step (unrecovered) or one commit does, at distance d2
            for j in range(1, len(w)):
                w[j][0] = w[j - 1][0] + rng.choice([1, 2, 5])
            i = rng.randrange(1, len(w) - 2)
            top = w[i - 1][0]
            w[i][0] = top - rng.choice([1, 5])
            w[i + 1][0] = top + rng.choice([0, 1])          # recovered
            m = rng.randrange(i + 2, len(w))
            for j in range(i + 2, m):
                w[j][0] = w[j - 1][0] + rng.choice([0, 1])
            w[m][0] = w[m - 1][0] + d                        # d = -1: the second backward step
            for j in range(m + 1, len(w)):
                w[j][0] = min(w[m - 1][0] - 1, w[j - 1][0] + rng.choice([0, 1]))
            if m + 1 < len(w) and rng.random() < 0.4:
                w[rng.randrange(m + 1, len(w))][0] = w[m - 1][0] + rng.choice([-1, 0, 1])
        elif atom == "lagok":
            for o in w:
                if o[3] is not None and o[3] <= allowed:
                    o[3] = allowed + 1 + rng.randrange(0, 5)
            i = rng.randrange(0, len(w))
            w[i][3] = max(0, allowed + d)
        elif atom == "stall":
            base = w[0][0]
            for o in w:
                o[0] = base
                if o[3] is not None and o[3] <= allowed:
                    o[3] = allowed + 3
            if len(w) >= 2 and d != 0:
                w[rng.randrange(1, len(w))][0] = base + d
        elif atom == "lagdec":
            lg = allowed + 10
            for o in w:
                o[0] = w[0][0] + 1 + w.index(o)
                o[3] = lg if rng.random() < 0.8 else None
                lg += rng.choice([0, 1, 3])
            pres = [i for i in range(len(w)) if w[i][3] is not None]
            if len(pres) >= 2:
                k = rng.randrange(1, len(pres))
                w[pres[k]][3] = max(allowed + 1, w[pres[k - 1]][3] + d)
        elif atom == "extreme":
            for o in w:
                if rng.random() < 0.3:
                    o[0] = rng.choice([I64MAX, I64MIN, 0, -1])
                if rng.random() < 0.3:
                    o[2] = rng.choice([I64MAX, I64MIN, 0, -1, 2**62])
            now = rng.choice([now, I64MAX, I64MIN, 2**52, -2**52, 9223372036854775, 9223372036854776])
            curlag = rng.choice([curlag, U64MAX, 2**63])
            allowed = rng.choice([allowed, U64MAX, U64MAX - 1, 2**63])
            brokers = [rng.choice([I64MAX, I64MIN, 0]) for _ in range(rng.randrange(0, 3))]
        elif atom == "random":
            now = rng.choice([now, rng.randrange(0, 2 * 10**9)])
            curlag = rng.randrange(0, 50)
            allowed = rng.randrange(0, 20)

    if atom == "two":
        a1, a2 = rng.sample(["stop", "recent", "rewind", "recover", "rewind2", "lagok", "stall", "lagdec"], 2)
        apply(a1, rng.choice([-1, 0, 1]))
        apply(a2, d)
        tags = ["two:%s+%s" % (a1, a2), "d=%d" % d]
    elif atom == "nilfirst":
        pass
    else:
        apply(atom, d)
    offs = [tuple(o) for o in w]
    if atom == "nilfirst":
        k = rng.randrange(1, len(offs) + 1)
        offs = [None] * k + offs[k:]
        curlag = rng.choice([0, allowed, allowed + 1])
    line = "calc %d %d %d %s %s" % (curlag, now, allowed, fmt_list(brokers), fmt_offsets(offs))
    return line, tags


def fmt_part(p):
    owner, client, curlag, brokers, offs = p
    return "%d %d %d %s %s" % (owner, client, curlag, fmt_list(brokers), fmt_offsets(offs))


def gen_partition(rng, intervals, allowed, now_s):
    """A partition as storage could report it: nil entries only as a prefix; last slot nil => current lag 0."""
    kind = rng.choice(["full", "full", "partial", "empty-ring", "no-ring", "owner-only", "warn", "warn"])
    if kind == "warn":
        # advancing offsets, present lags non-decreasing and all above the allowed lag, recent timestamps: the WARN rule
        n = intervals
        off0 = rng.randrange(0, 10**6)
        lag0 = allowed + 1 + rng.randrange(0, 50)
        offs = []
        for i in range(n):
            lag0 += rng.choice([0, 1, 5])
            offs.append((off0 + 10 * i, 1000 + i, now_s * 1000 - (n - i) * 1000, lag0))
        brokers = [offs[-1][0] + lag0 + rng.choice([0, 1, 7])]
        return (rng.choice([0, 1]), 0, max(allowed + 1, brokers[-1] - offs[-1][0]), brokers, offs)
    owner = rng.choice([0, 0, 1, 2, 3])
    client = rng.choice([0, 1, 2]) if owner else 0
    if kind == "no-ring":
        return (owner, client, 0, [], [])
    if kind in ("empty-ring", "owner-only"):
        return (owner, client, 0, [rng.randrange(0, 1000) for _ in range(rng.randrange(1, 3))], [None] * intervals)
    n = intervals if kind == "full" else rng.randrange(1, intervals + 1)
    w = base_window(rng, n)
    # bring timestamps near the clock so that both stopped and running partitions occur
    shift = now_s * 1000 - w[-1][2] - rng.choice([0, 1000, 5000, 10**6])
    for o in w:
        o[2] += shift
    offs = [None] * (intervals - n) + [tuple(o) for o in w]
    last = w[-1][0]
    brokers = [last + rng.choice([-5, 0, 1, 10, 1000]) for _ in range(rng.randrange(1, 4))]
    curlag = max(0, brokers[-1] - last)
    if rng.random() < 0.15:
        curlag = rng.choice([0, allowed, allowed + 1, 7])
    return (owner, client, curlag, brokers, offs)


def gen_group(rng, idx):
    intervals = rng.choice([1, 2, 3, 4, 10])
    allowed = rng.choice([0, 0, 1, 10])
    now = rng.choice([1500000000, 1600000000 + rng.randrange(0, 10**6)])
    minimum = rng.choice([0, 0, 0x3E99999A, 0x3F000000, 0x3F800000, 0x3F4CCCCD, 0x3F19999A])  # 0, .3, .5, 1, .8, .6
    ntop = rng.choice([1, 1, 1, 2, 2, 3, 4]) if rng.random() > 0.05 else 0      # empty groups: about 5 %
    topics = []
    tie = rng.random() < 0.3
    for t in range(ntop):
        nparts = rng.choice([1, 1, 2, 3, 6]) if rng.random() > 0.08 else 0
        parts = [gen_partition(rng, intervals, allowed, now) for _ in range(nparts)]
        topics.append((t + 1, parts))
    if tie:
        allp = [(ti, pi) for ti, (_, ps) in enumerate(topics) for pi in range(len(ps))]
        if len(allp) >= 2:
            big = rng.choice([5, 1000, 10**12])
            for (ti, pi) in rng.sample(allp, 2):
                p = topics[ti][1][pi]
                if p[4] and p[4][-1] is not None:
                    topics[ti][1][pi] = (p[0], p[1], big, p[3], p[4])
    return dict(minimum=minimum, allowed=allowed, now=now, topics=topics, intervals=intervals)


def fmt_group(g, order=None):
    topics = g["topics"]
    if order is not None:
        byid = {t: ps for t, ps in topics}
        seen = [t for t in order if t in byid]
        rest = [t for t, _ in topics if t not in seen]
        topics = [(t, byid[t]) for t in seen + rest]
    if g.get("minimum_dec") is not None:
        # "groupd": the module is configured with the decimal TEXT (float64 through viper, then Configure's float32 cast);
        # the model gets the float32 bits of that decimal
        parts = ["groupd", str(g["minimum"]), g["minimum_dec"], str(g["allowed"]), str(g["now"]), str(len(topics))]
    else:
        parts = ["group", str(g["minimum"]), str(g["allowed"]), str(g["now"]), str(len(topics))]
    for t, ps in topics:
        parts += [str(t), str(len(ps))] + [fmt_part(p) for p in ps]
    return " ".join(parts)


def f32bits(x):
    import struct
    return struct.unpack(">I", struct.pack(">f", x))[0]


def gen_gate_group(rng, idx):
    """C03's completeness gate and nil-prefix slicing, boundary-directed: one topic, 1-3 partitions whose window has k of N
    slots filled, minimum-complete placed at (k-1)/N, k/N, (k+1)/N (as float32, the way Configure computes it) or at
    1.0 / just below / 0; windows are pushed towards not-OK (lag above allowed, old timestamps or flat offsets) so that the
    gate decides the visible status."""
    intervals = rng.choice([1, 2, 3, 4, 5, 10, 10])
    allowed = rng.choice([0, 0, 1, 10])
    now = 1600000000 + rng.randrange(0, 10**6)
    k = rng.randrange(1, intervals + 1)
    d = rng.choice([-1, 0, 0, 0, 1])
    kk = max(0, min(intervals, k + d))
    minimum = f32bits(kk / intervals)
    minimum_dec = None
    if rng.random() < 0.1:
        minimum = rng.choice([0x3F800000, 0x3F7FFFFF, 0, 0x3F800001])
    elif rng.random() < 0.3:
        # a decimal setting whose float64 and float32 roundings differ (0.7 -> 0.699999988 as float32), with the window
        # exactly that complete: the gate must compare float32 with float32 as Configure's cast makes it
        intervals = 10
        kk = rng.choice([1, 2, 3, 6, 7, 9])
        k = max(1, min(10, kk + rng.choice([-1, 0, 0, 0, 1])))
        minimum_dec = "0.%d" % kk
        minimum = f32bits(float(minimum_dec))
    parts = []
    for pi in range(rng.choice([1, 1, 2, 3])):
        kf = k if pi == 0 else rng.randrange(1, intervals + 1)
        if pi > 0 and rng.random() < 0.25:
            # a partition known only through an owner update: every slot unfilled (finding F4: an empty window is not complete)
            parts.append((rng.choice([1, 2]), 1, rng.choice([0, 0, allowed + 1]), [rng.randrange(0, 1000)], [None] * intervals))
            continue
        w = base_window(rng, kf)
        flavour = rng.choice(["stall", "stop", "warn", "any"])
        if flavour == "stall":
            for o in w:
                o[0] = w[0][0]
        age = rng.choice([0, 1000, 10**6]) if flavour != "stop" else 10**7
        shift = now * 1000 - w[-1][2] - age
        for o in w:
            o[2] += shift
        offs = [None] * (intervals - kf) + [tuple(o) for o in w]
        last = w[-1][0]
        brokers = [last + rng.choice([100, 1000, 10**6]) for _ in range(rng.randrange(1, 4))]
        curlag = max(allowed + 1, brokers[-1] - last)
        parts.append((rng.choice([0, 1]), 0, curlag, brokers, offs))
    tags = ["gate:min=%s" % ("k/N%+d/N" % d if minimum == f32bits(kk / intervals) else "special"), "N=%d" % intervals]
    if minimum_dec is not None:
        tags = ["gate:min=decimal-" + minimum_dec, "N=%d" % intervals]
    return dict(minimum=minimum, minimum_dec=minimum_dec, allowed=allowed, now=now, topics=[(1, parts)], intervals=intervals), tags
