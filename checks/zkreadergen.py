"""Generator for the Zookeeper consumer reader (C10, ZK half): a scripted /consumers tree, allow/deny patterns from a
small pool (evaluated here with Python's re only to tell the model the four booleans; the probe prints what the real
regexp package answered and the two are compared), and a few tree mutations."""
import re

PATTERNS = ["-", "-", "^a", "b$", ".*", "^$", "^(foo|bar)", "test.*", "[0-9]+", "^x-", "a|b"]
NAMES = ["alpha", "ab", "b", "foo1", "barb", "testgroup", "x-1", "zzz", "a9b", "burrow-x", "9", "mytest", "foo", "xb"]
DATA = ["0", "1", "81234", "-5", "+7", "007", "9223372036854775807", "9223372036854775808", "abc", "~", "12x",
        "-9223372036854775808", "4294967296"]


def parse_int64(s):
    if s == "~":
        return None
    if not re.match(r"^[+-]?[0-9]+$", s):
        return None
    v = int(s)
    if v < -2**63 or v > 2**63 - 1:
        return None
    return v


def verdict(allow, deny, name):
    a_set, d_set = allow != "-", deny != "-"
    a_m = bool(re.search(allow, name)) if a_set else False
    d_m = bool(re.search(deny, name)) if d_set else False
    return a_set, a_m, d_set, d_m


def accepted(v):
    a_set, a_m, d_set, d_m = v
    return ((not a_set) or a_m) and not (d_set and d_m)


def gen_part(rng):
    data = rng.choice(DATA) if rng.random() < 0.5 else str(rng.randrange(0, 10**6))
    v = parse_int64(data)
    return {"exists": rng.random() < 0.9, "data": data, "parsed": v, "mtime": rng.randrange(1, 2 * 10**12),
            "mzxid": rng.randrange(1, 10**9), "owner": rng.choice([0, 1, 2, 3])}


def fmt_part(p, with_exists=True):
    t = [("1" if p["exists"] else "0")] if with_exists else []
    t += [p["data"], "1" if p["parsed"] is not None else "0", str(p["parsed"] if p["parsed"] is not None else 0),
          str(p["mtime"]), str(p["mzxid"]), str(p["owner"])]
    return " ".join(t)


def gen_topic(rng, tid):
    return {"id": tid, "parts": [gen_part(rng) for _ in range(rng.choice([0, 1, 1, 2, 3]))]}


def fmt_topic(t):
    return " ".join([str(t["id"]), str(len(t["parts"]))] + [fmt_part(p) for p in t["parts"]])


def gen_group(rng, gid, name, allow, deny):
    tids = rng.sample(range(1, 8), rng.choice([0, 1, 1, 2, 3]))
    return {"id": gid, "name": name, "v": verdict(allow, deny, name), "offsets": rng.random() < 0.85,
            "topics": [gen_topic(rng, t) for t in tids]}


def fmt_group(g):
    v = g["v"]
    return " ".join([str(g["id"]), g["name"]] + ["1" if x else "0" for x in v] +
                    ["1" if g["offsets"] else "0", str(len(g["topics"]))] + [fmt_topic(t) for t in g["topics"]])


def gen_zk(rng, idx):
    """Returns (line, tags, info)."""
    allow, deny = rng.choice(PATTERNS), rng.choice(PATTERNS)
    if rng.random() < 0.5:
        deny = "-" if rng.random() < 0.6 else deny
    names = rng.sample(NAMES, rng.randrange(1, 6))
    groups = [gen_group(rng, i + 1, n, allow, deny) for i, n in enumerate(names)]
    toks = ["zk", allow, deny, str(len(groups))] + [fmt_group(g) for g in groups]
    muts = []
    tags = set()
    nxt = len(groups) + 1
    for _ in range(rng.choice([0, 1, 2, 3, 4, 5])):
        kind = rng.choice(["setoff", "setoff", "setoff", "addgroup", "addtopic", "addpart", "mkoffsets", "expire"])
        if kind == "setoff":
            cands = [(g, t, i) for g in groups for t in g["topics"] for i in range(len(t["parts"]))]
            if not cands:
                continue
            g, t, i = rng.choice(cands)
            np = gen_part(rng)
            np["exists"] = t["parts"][i]["exists"]
            t["parts"][i] = np
            muts.append("setoff %d %d %d %s" % (g["id"], t["id"], i, fmt_part(np, with_exists=False)))
        elif kind == "addgroup":
            free = [n for n in NAMES if n not in [g["name"] for g in groups]]
            if not free:
                continue
            g = gen_group(rng, nxt, rng.choice(free), allow, deny)
            nxt += 1
            groups.append(g)
            muts.append("addgroup " + fmt_group(g))
        elif kind == "addtopic":
            g = rng.choice(groups)
            free = [t for t in range(1, 10) if t not in [x["id"] for x in g["topics"]]]
            t = gen_topic(rng, rng.choice(free))
            g["topics"].append(t)
            muts.append("addtopic %d %s" % (g["id"], fmt_topic(t)))
        elif kind == "addpart":
            cands = [(g, t) for g in groups for t in g["topics"]]
            if not cands:
                continue
            g, t = rng.choice(cands)
            p = gen_part(rng)
            t["parts"].append(p)
            muts.append("addpart %d %d %s" % (g["id"], t["id"], fmt_part(p)))
        elif kind == "mkoffsets":
            cands = [g for g in groups if not g["offsets"]]
            if not cands:
                continue
            g = rng.choice(cands)
            g["offsets"] = True
            muts.append("mkoffsets %d" % g["id"])
        else:
            muts.append("expire")
        tags.add("mut:" + kind)
    toks += [str(len(muts))] + muts
    rej = [g for g in groups if not accepted(g["v"])]
    acc = [g for g in groups if accepted(g["v"])]

    def has_data(g):
        return g["offsets"] and any(p["exists"] and p["parsed"] is not None for t in g["topics"] for p in t["parts"])
    tags.add("lists:%s%s" % ("A" if allow != "-" else "-", "D" if deny != "-" else "-"))
    for g in groups:
        v = g["v"]
        tags.add("verdict:%d%d%d%d" % tuple(int(x) for x in v))
    info = {"rejected_with_data": sum(1 for g in rej if has_data(g)), "accepted_with_data": sum(1 for g in acc if has_data(g)),
            "rejected": len(rej), "accepted": len(acc)}
    return " ".join(toks), sorted(tags), info
