"""Generators for the evaluation-gate layer (C15): fault sequences for manageEvalLoop and pacing cases for
sendEvaluatorRequests / processConsumerList.  The shadow state kept here only steers the generator towards applicable
actions; it is not an oracle (the oracle is the extracted Coq model)."""

NS = 10**9
MS = 10**6
T0 = 1_700_000_000 * NS


def gen_loop(rng, idx, f8=False):
    """One fault sequence: 1-5 expiry/reconnect cycles, lock errors in between, lost broadcasts and connection flaps as
    noise.  Returns (line, tags, info).  With f8=True one lock grant delivers the expiry before Lock() returns."""
    conn = rng.random() < 0.85
    steps = []
    tags = set()
    cycles = rng.randrange(1, 6)
    f8_at = rng.randrange(0, cycles) if f8 else -1
    ph = "L"
    delivered = 0

    def noise(p):
        nonlocal conn
        r = rng.random()
        if r < 0.25:
            steps.append("x")          # Broadcast with nobody waiting (or a second expiry)
            tags.add("lost-broadcast@" + p)
        elif r < 0.4:
            conn = not conn
            steps.append("c" if conn else "d")
            tags.add("flap@" + p)

    line0 = "loop %d" % (1 if conn else 0)
    skip_lock = False
    for cyc in range(cycles):
        # --- Locking
        if skip_lock:
            skip_lock = False
        else:
            for _ in range(rng.choice([0, 0, 1, 1, 2, 3])):
                steps.append("err")
                tags.add("lockerr")
                if rng.random() < 0.3:
                    noise("L")
            noise("L")
            if cyc == f8_at:
                steps.append(rng.choice(["okx", "okx", "okx+d"]) if conn else "okx")
                if steps[-1].endswith("+d"):
                    conn = False
                tags.add("expiry-before-wait")
            else:
                steps.append("ok")
        # --- Evaluating
        if rng.random() < 0.3:
            noise("E") if rng.random() < 0.5 else None
        if cyc == cycles - 1 and rng.random() < 0.25:
            tags.add("ends-evaluating")
            break
        v = rng.choice(["d+x", "d+x", "x", "d,x", "x+d", "d+x+c", "x+x"])
        tags.add("expiry:" + v)
        if v == "d,x":
            steps += ["d", "x"]
            conn = False
        else:
            steps.append(v)
            if v in ("d+x", "x+d"):
                conn = False
            elif v == "d+x+c":
                conn = True
        delivered += 1
        # --- WaitReconnect
        if not conn:
            for _ in range(rng.choice([0, 0, 1, 2])):
                r = rng.random()
                if r < 0.5:
                    steps.append("x")
                    tags.add("lost-broadcast@W")
                else:
                    steps.append("d")
            if cyc == cycles - 1 and rng.random() < 0.15:
                tags.add("ends-disconnected")
                break
            steps.append("c")
            conn = True
        # --- Unlocking
        if rng.random() < 0.3:
            r = rng.random()
            if r < 0.5:
                steps.append("x")
                tags.add("lost-broadcast@U")
            else:
                conn = not conn
                steps.append("c" if conn else "d")
                tags.add("flap@U")
        if cyc == cycles - 1 and rng.random() < 0.15:
            tags.add("ends-unlocking")
            break
        u = rng.choice(["uok", "uok", "uok", "uok+err", "uok+ok"])
        if u == "uok+ok" and cyc + 1 < cycles and cyc + 1 != f8_at:
            # released and re-acquired back to back; the next cycle's grant is this one
            steps.append("uok+ok")
            tags.add("relock-back-to-back")
            skip_lock = True
        elif u == "uok+err":
            steps.append("uok+err")
            tags.add("lockerr")
        else:
            steps.append("uok")
    line = line0 + " " + " ".join(steps)
    info = {"cycles": cycles, "delivered": delivered, "steps": len(steps), "f8": f8}
    return line, sorted(tags), info


FIXED_F8 = [
    # the DESIGN.md section 5 F8 replay: expiry lands after the lock is granted and before the loop waits for it
    "loop 1 okx d c x c uok ok",
    "loop 1 err okx+d c d+x c uok ok d+x c uok",
]


def gen_pace(rng, idx):
    """sendEvaluatorRequests under the virtual clock: groups with LastEval placed around the pacing boundary, a clock
    sequence (mostly non-decreasing) that visits -1/0/+1 ns around 'LastEval + minInterval', and group-list refreshes
    (entries created with a scripted random draw, removed, re-created)."""
    mi = rng.choice([0, 1, 1, 5, 5, 60, 310536000])
    ng = rng.randrange(1, 6)
    ids = rng.sample(range(1, 10), ng)
    now = T0 + rng.randrange(0, 10**6) * MS
    groups = {}
    for g in ids:
        groups[g] = now - mi * NS + rng.choice([-NS, -1, 0, 1, NS, -rng.randrange(0, mi * NS + 1), mi * NS // 2])
    toks = ["pace", str(mi), str(ng)]
    for g in ids:
        toks += [str(g), str(groups[g])]
    nev = rng.randrange(3, 9)
    evs = []
    tags = set(["mi=%d" % mi])
    known = dict(groups)
    for k in range(nev):
        r = rng.random()
        if r < 0.2 and (mi > 0 or rng.random() < 0.2):
            # refresh
            pres = [g for g in known if rng.random() < 0.7]
            newc = [g for g in range(1, 10) if g not in known and rng.random() < 0.25]
            lst = []
            for g in pres + newc:
                draw = rng.randrange(0, mi * 1000) if mi > 0 else 0
                if mi > 0 and rng.random() < 0.3:
                    draw = rng.choice([0, mi * 1000 - 1])
                lst.append((g, draw))
            rng.shuffle(lst)
            evs.append("r %d %d %s" % (now, len(lst), " ".join("%d %d" % x for x in lst)))
            tags.add("refresh")
            if newc:
                tags.add("refresh-new")
                if mi == 0:
                    tags.add("refresh-panic")
            if len(pres) < len(known):
                tags.add("refresh-drop")
            known = {g: known.get(g, now) for g, _ in lst}
            if mi == 0 and newc:
                break
            continue
        # advance the clock: to a boundary of some group, by a fraction of the interval, or not at all
        r = rng.random()
        if r < 0.45 and known:
            g = rng.choice(sorted(known))
            target = known[g] + mi * NS + rng.choice([-1, 0, 1, 1, 2])
            if target >= now or rng.random() < 0.1:
                now = target
        elif r < 0.8:
            now += rng.choice([1, MS, NS, mi * NS // 2, mi * NS, mi * NS + 1, 2 * mi * NS + 5])
        elif r < 0.9:
            pass
        else:
            now -= rng.choice([1, NS])
            tags.add("clock-back")
        evs.append("t %d" % now)
        for g in known:
            if known[g] < now - mi * NS:
                known[g] = now
    toks += [str(len(evs))] + evs
    return " ".join(toks), sorted(tags)
