"""Generators for the evaluation-gate layer (C15): fault sequences for manageEvalLoop and pacing cases for
sendEvaluatorRequests / processConsumerList.  The shadow state kept here only steers the generator towards applicable
actions; it is not an oracle (the oracle is the extracted Coq model)."""

NS = 10**9
MS = 10**6
T0 = 1_700_000_000 * NS


def gen_loop(rng, idx, f8=False):
    """One fault sequence: 1-5 expiry/reconnect cycles, lock errors in between, lost broadcasts and connection flaps as
    noise.  Returns (line, tags, info).  With f8=True one lock grant delivers the expiry before Lock() returns."""
    conn = rng.random() < 0.85
    steps = []
    tags = set()
    cycles = rng.randrange(1, 6)
    f8_at = rng.randrange(0, cycles) if f8 else -1
    ph = "L"
    delivered = 0

    def noise(p):
        nonlocal conn
        r = rng.random()
        if r < 0.25:
            steps.append("x")          # Broadcast with nobody waiting (or a second expiry)
            tags.add("lost-broadcast@" + p)
        elif r < 0.4:
            conn = not conn
            steps.append("c" if conn else "d")
            tags.add("flap@" + p)

    line0 = "loop %d" % (1 if conn else 0)
    skip_lock = False
    for cyc in range(cycles):
        # --- Locking
        if skip_lock:
            skip_lock = False
        else:
            for _ in range(rng.choice([0, 0, 1, 1, 2, 3])):
                steps.append("err")
                tags.add("lockerr")
                if rng.random() < 0.3:
                    noise("L")
            noise("L")
            if cyc == f8_at:
                steps.append(rng.choice(["okx", "okx", "okx+d"]) if conn else "okx")
                if steps[-1].endswith("+d"):
                    conn = False
                tags.add("expiry-before-wait")
            else:
                steps.append("ok")
        # --- Evaluating
        if rng.random() < 0.3:
            noise("E") if rng.random() < 0.5 else None
        if cyc == cycles - 1 and rng.random() < 0.25:
            tags.add("ends-evaluating")
            break
        v = rng.choice(["d+x", "d+x", "x", "d,x", "x+d", "d+x+c", "x+x"])
        tags.add("expiry:" + v)
        if v == "d,x":
            steps += ["d", "x"]
            conn = False
        else:
            steps.append(v)
            if v in ("d+x", "x+d"):
                conn = False
            elif v == "d+x+c":
                conn = True
        delivered += 1
        # --- WaitReconnect
        if not conn:
            for _ in range(rng.choice([0, 0, 1, 2])):
                r = rng.random()
                if r < 0.5:
                    steps.append("x")
                    tags.add("lost-broadcast@W")
                else:
                    steps.append("d")
            if cyc == cycles - 1 and rng.random() < 0.15:
                tags.add("ends-disconnected")
                break
            steps.append("c")
            conn = True
        # --- Unlocking
        if rng.random() < 0.3:
            r = rng.random()
            if r < 0.5:
                steps.append("x")
                tags.add("lost-broadcast@U")
            else:
                conn = not conn
                steps.append("c" if conn else "d")
                tags.add("flap@U")
        if cyc == cycles - 1 and rng.random() < 0.15:
            tags.add("ends-unlocking")
            break
        u = rng.choice(["uok", "uok", "uok", "uok+err", "uok+ok"])
        if u == "uok+ok" and cyc + 1 < cycles and cyc + 1 != f8_at:
            # released and re-acquired back to back; the next cycle's grant is this one
            steps.append("uok+ok")
            tags.add("relock-back-to-back")
            skip_lock = True
        elif u == "uok+err":
            steps.append("uok+err")
            tags.add("lockerr")
        else:
            steps.append("uok")
    line = line0 + " " + " ".join(steps)
    info = {"cycles": cycles, "delivered": delivered, "steps": len(steps), "f8": f8}
    return line, sorted(tags), info


FIXED_F8 = [
    # the DESIGN.md section 5 F8 replay: expiry lands after the lock is granted and before the loop waits for it
    "loop 1 okx d c x c uok ok",
    "loop 1 err okx+d c d+x c uok ok d+x c uok",
]


def gen_pace(rng, idx):
    """sendEvaluatorRequests under the virtual clock: groups with LastEval placed around the pacing boundary, a clock
    sequence (mostly non-decreasing) that visits -1/0/+1 ns around 'LastEval + minInterval', and group-list refreshes
    (entries created with a scripted random draw, removed, re-created)."""
    mi = rng.choice([0, 1, 1, 5, 5, 60, 310536000])
    ng = rng.randrange(1, 6)
    ids = rng.sample(range(1, 10), ng)
    now = T0 + rng.randrange(0, 10**6) * MS
    groups = {}
    for g in ids:
        groups[g] = now - mi * NS + rng.choice([-NS, -1, 0, 1, NS, -rng.randrange(0, mi * NS + 1), mi * NS // 2])
    toks = ["pace", str(mi), str(ng)]
    for g in ids:
        toks += [str(g), str(groups[g])]
    nev = rng.randrange(3, 9)
    evs = []
    tags = set(["mi=%d" % mi])
    known = dict(groups)
    for k in range(nev):
        r = rng.random()
        if r < 0.2 and (mi > 0 or rng.random() < 0.2):
            # refresh
            pres = [g for g in known if rng.random() < 0.7]
            newc = [g for g in range(1, 10) if g not in known and rng.random() < 0.25]
            lst = []
            for g in pres + newc:
                draw = rng.randrange(0, mi * 1000) if mi > 0 else 0
                if mi > 0 and rng.random() < 0.3:
                    draw = rng.choice([0, mi * 1000 - 1])
                lst.append((g, draw))
            rng.shuffle(lst)
            evs.append("r %d %d %s" % (now, len(lst), " ".join("%d %d" % x for x in lst)))
            tags.add("refresh")
            if newc:
                tags.add("refresh-new")
                if mi == 0:
                    tags.add("refresh-panic")
            if len(pres) < len(known):
                tags.add("refresh-drop")
            known = {g: known.get(g, now) for g, _ in lst}
            if mi == 0 and newc:
                break
            continue
        # advance the clock: to a boundary of some group, by a fraction of the interval, or not at all
        r = rng.random()
        if r < 0.45 and known:
            g = rng.choice(sorted(known))
            target = known[g] + mi * NS + rng.choice([-1, 0, 1, 1, 2])
            if target >= now or rng.random() < 0.1:
                now = target
        elif r < 0.8:
            now += rng.choice([1, MS, NS, mi * NS // 2, mi * NS, mi * NS + 1, 2 * mi * NS + 5])
        elif r < 0.9:
            pass
        else:
            now -= rng.choice([1, NS])
            tags.add("clock-back")
        evs.append("t %d" % now)
        for g in known:
            if known[g] < now - mi * NS:
                known[g] = now
    toks += [str(len(evs))] + evs
    return " ".join(toks), sorted(tags)


# ---- configuration cases: the real Coordinator.Configure, then the loop it configured -------------------------------

DEFAULT_INTERVAL = 60
NO_MODULE_INTERVAL = 310536000
MAX_INTERVAL = 9223372036          # largest interval with interval * 10^9 < 2^63 (time.Duration)
LARGE_INTERVAL = 7000000000        # large, and T0 + interval * 10^9 still a valid UnixNano clock value
I64_MAX = 2**63 - 1
# beyond MAX_INTERVAL the int64 products of the code wrap: -Duration(interval)*Second (first: 9223372037; twice:
# 18446744074 = an effective 0.29 s), interval*1000 (positive up to 9223372036854775, negative from ...776 on)
WRAP_INTERVALS = [9223372037, 9223372038, 10000000000, 18446744074, 9223372036854775, 9223372036854776, 2**63 - 2]


def _tokval(tok):
    if tok == "-":
        return None
    return int(tok[1:]) if tok[0] in "LFS" else int(tok)


def parse_cfg(case):
    """cfg <src> <root> <slow> <nm> {id class iv sv th}* <now0> <ng> {g le}* <nev> events
    events: k <now> | t <now> | e | x | r <now> <n> {g draw}* | rs <now> <c|g> <n> {g draw}* | ue <now> | a <mode> | af <mode> | rp <now> <n> {g draw}*"""
    f = case.split()
    assert f[0] == "cfg"
    c = {"src": f[1], "root": f[2], "slow": f[3] == "1", "mods": [], "groups": [], "events": []}
    i = 4
    nm = int(f[i]); i += 1
    for _ in range(nm):
        c["mods"].append({"id": f[i], "class": f[i + 1], "iv": _tokval(f[i + 2]), "sv": _tokval(f[i + 3]),
                          "th": _tokval(f[i + 4]), "toks": f[i + 2:i + 5]})
        i += 5
    c["now0"] = int(f[i]); i += 1
    ng = int(f[i]); i += 1
    for _ in range(ng):
        c["groups"].append((f[i], int(f[i + 1]))); i += 2
    nev = int(f[i]); i += 1
    for _ in range(nev):
        k = f[i]
        if k in ("k", "t", "ue"):
            c["events"].append((k, int(f[i + 1]))); i += 2
        elif k == "rs":
            n = int(f[i + 3])
            lst = [(f[i + 4 + 2 * j], int(f[i + 5 + 2 * j])) for j in range(n)]
            c["events"].append(("rs", int(f[i + 1]), f[i + 2], lst)); i += 4 + 2 * n
        elif k in ("e", "x"):
            c["events"].append((k,)); i += 1
        elif k in ("a", "af"):
            c["events"].append((k, f[i + 1])); i += 2
        elif k in ("r", "rp"):
            n = int(f[i + 2])
            lst = [(f[i + 3 + 2 * j], int(f[i + 4 + 2 * j])) for j in range(n)]
            c["events"].append((k, int(f[i + 1]), lst)); i += 3 + 2 * n
        else:
            raise ValueError("bad cfg event " + k)
    return c


def shortest_configured(mods):
    """The property's reference value, from the configuration alone: the minimum over the configured notifier modules of
    their interval (a module without the key has the documented default, 60 s).  None when no module is configured."""
    if not mods:
        return None
    return min(DEFAULT_INTERVAL if m["iv"] is None else m["iv"] for m in mods)


def accepted(mods):
    """Configure accepts the configuration (since /repo 38fa1ff): every module's interval, default 60 included, is a
    positive time.Duration in seconds, 1 .. 9223372036.  A refused configuration prints CFGPANIC on both sides."""
    return all(1 <= (DEFAULT_INTERVAL if m["iv"] is None else m["iv"]) <= MAX_INTERVAL for m in mods)


def cfg_line(src, root, slow, mods, now0, groups, events):
    toks = ["cfg", src, root, "1" if slow else "0", str(len(mods))]
    for m in mods:
        toks += [str(m["id"]), m["class"]] + list(m["toks"])
    toks += [str(now0), str(len(groups))]
    for g, le in groups:
        toks += [str(g), str(le)]
    toks.append(str(len(events)))
    for e in events:
        if e[0] in ("k", "t", "ue"):
            toks += [e[0], str(e[1])]
        elif e[0] == "rs":
            toks += ["rs", str(e[1]), e[2], str(len(e[3]))] + ["%s %d" % (g, d) for g, d in e[3]]
        elif e[0] in ("a", "af"):
            toks += [e[0], e[1]]
        elif e[0] in ("r", "rp"):
            toks += [e[0], str(e[1]), str(len(e[2]))] + ["%s %d" % (g, d) for g, d in e[2]]
        else:
            toks.append(e[0])
    return " ".join(toks)


def focus_case(case_or_mods, src="set"):
    """The shortest scenario that separates every wrong pace from the configured one: one group, due when the lock is
    granted at T0; not due again 1 ns before / exactly `shortest` seconds later (a request at -1 ns is "more often than
    the shortest configured interval"); due one nanosecond after that."""
    mods = parse_cfg(case_or_mods)["mods"] if isinstance(case_or_mods, str) else case_or_mods
    if isinstance(case_or_mods, str):
        src = parse_cfg(case_or_mods)["src"]
    exp = shortest_configured(mods)
    if exp is None:
        return None
    if not accepted(mods):
        # refused by Configure: both sides print CFGPANIC; if an implementation accepts an interval beyond 9223372036 s
        # these three ticks show what it does with it
        return cfg_line(src, "/burrow", False, mods, T0, [(1, 0)] if exp > MAX_INTERVAL else [],
                        [("k", T0), ("t", T0 + MS), ("t", T0 + 2 * MS)] if exp > MAX_INTERVAL else [])
    now = min(T0, I64_MAX - exp * NS - 10)
    return cfg_line(src, "/burrow", False, mods, now, [(1, now - exp * NS - 1)],
                    [("k", now), ("t", now + exp * NS - 1), ("t", now + exp * NS), ("t", now + exp * NS + 1)])


def _fmt_val(rng, v):
    r = rng.random()
    if r < 0.72:
        return str(v)
    if r < 0.86:
        return "L%d" % v
    if r < 0.93 and abs(v) < 2**50:
        return "F%d" % v
    return "S%d" % v


INVALID_INTERVALS = [0, 0, -1, -5, -60] + WRAP_INTERVALS + [MAX_INTERVAL + 1]


def gen_mods(rng):
    """Mostly configurations Configure accepts (every interval in 1 .. 9223372036, values around a common base, the
    boundaries 1 and 9223372036 included); about one in eight has ONE module with a refused interval."""
    mods = _gen_mods(rng)
    for m in mods:
        if m["iv"] is not None and not 1 <= m["iv"] <= MAX_INTERVAL:
            m["iv"] = rng.choice([1, 1, 2, MAX_INTERVAL])
            m["toks"][0] = _fmt_val(rng, m["iv"])
    if mods and rng.random() < 0.12:
        m = rng.choice(mods)
        m["iv"] = rng.choice(INVALID_INTERVALS)
        m["toks"][0] = _fmt_val(rng, m["iv"])
    return mods


def _gen_mods(rng):
    nm = rng.choice([0, 1, 1, 1, 2, 2, 2, 2, 2, 3, 3, 3, 3, 4, 4, 4])
    base = rng.choice([0, 1, 2, 5, 30, 59, 60, 61, 300, 1000, LARGE_INTERVAL, MAX_INTERVAL])
    ids = rng.sample(range(1, 10), nm)
    mods = []
    for k in range(nm):
        r = rng.random()
        if r < 0.25:
            iv = None
        elif r < 0.72:
            iv = min(MAX_INTERVAL, max(0, base + rng.choice([-1, 0, 0, 1, 2, 7])))
        elif r < 0.94:
            iv = rng.choice([0, 1, 5, 30, 59, 60, 61, 120, 300, 3600, 86400, LARGE_INTERVAL, MAX_INTERVAL])
        elif r < 0.97:
            iv = rng.choice(WRAP_INTERVALS)
        else:
            iv = -rng.choice([1, 5, 60])
        r = rng.random()
        if r < 0.35:
            sv = None
        elif r < 0.6:
            sv = rng.choice([0, 1, 2, 3, 5, 10])
        else:
            sv = max(0, rng.choice([30, 60, 300, 3600, base - 1, base + 1, 2 * base + 1, 86400]))
        th = rng.choice([None, None, 1, 2, 3])
        toks = ["-" if v is None else _fmt_val(rng, v) for v in (iv, sv, th)]
        mods.append({"id": ids[k], "class": rng.choice(["null", "null", "http", "email"]), "iv": iv, "sv": sv, "th": th,
                     "toks": toks})
    return mods


def cfg_tags(mods):
    """What the configuration can tell apart (counted in the input distribution)."""
    tags = ["nm=%d" % len(mods)]
    exp = shortest_configured(mods)
    if exp is None:
        return tags + ["no-module"]
    if not accepted(mods):
        bad = [m["iv"] for m in mods if m["iv"] is not None and not 1 <= m["iv"] <= MAX_INTERVAL]
        return tags + ["refused", "refused:" + ("zero" if 0 in bad else "negative" if min(bad) < 0 else "too-large")]
    eff = [DEFAULT_INTERVAL if m["iv"] is None else m["iv"] for m in mods]
    effs = [m["sv"] if m["sv"] is not None else e for m, e in zip(mods, eff)]
    byname = [e for _, e in sorted(zip([str(m["id"]) for m in mods], eff))]
    if exp < 0:
        tags.append("negative-interval")
    if exp == 0:
        tags.append("zero-interval")
    if exp == MAX_INTERVAL:
        tags.append("largest-interval")
    if any(m["iv"] is None for m in mods):
        tags.append("interval-absent")
        if exp == DEFAULT_INTERVAL and all(m["iv"] is None or m["iv"] > DEFAULT_INTERVAL for m in mods):
            tags.append("shortest-is-the-default")
    wrong = {
        "send-interval": min(effs),
        "max": max(eff),
        "first-by-name": byname[0],
        "last-by-name": byname[-1],
        "first-listed": eff[0],
        "last-listed": eff[-1],
        "default-after-read": min(0 if m["iv"] is None else m["iv"] for m in mods),
        "always-default": DEFAULT_INTERVAL,
    }
    for k, v in wrong.items():
        if v != exp:
            tags.append("separates:" + k)
    return tags


def gen_cfg(rng, idx, scenario=True):
    """One configuration (0-4 modules) and, with scenario=True, a run of the loop it configures: lock grant at T, the
    three ticks at T + shortest -1 / 0 / +1 ns for a group that was due at T, then a random mix of ticks
    (boundary-directed), group-list refreshes, expiries, lock errors and re-acquisitions."""
    mods = gen_mods(rng)
    src = rng.choice(["set", "toml"])
    root = rng.choice(["/burrow", "/burrow", "/b%d" % idx, "/a/b"])
    exp = shortest_configured(mods)
    mi = NO_MODULE_INTERVAL if exp is None else exp
    tags = set(cfg_tags(mods))
    tags.add("src=" + src)
    now = T0 + rng.randrange(0, 10**6) * MS
    if not scenario or not accepted(mods) or now + mi * NS + 10 > I64_MAX:
        tags.add("config-only")
        return cfg_line(src, root, False, mods, now, [], []), sorted(tags)
    slow = rng.random() < 0.35
    if slow:
        tags.add("slow-evaluator")
    ng = rng.randrange(1, 5)
    ids = rng.sample(range(1, 10), ng)
    groups = {ids[0]: now - mi * NS - 1 - rng.choice([0, 0, 1, NS])}
    for g in ids[1:]:
        groups[g] = max(-I64_MAX, now - mi * NS + rng.choice([-NS, -1, 0, 1, NS, -rng.randrange(0, mi * NS + 1), mi * NS // 2]))
    now0 = now
    known = dict(groups)
    evs = []
    gate = False
    phase = "L"          # L: Lock() pending, E: evaluating, U: Unlock() pending

    def tick(t):
        for g in known:
            if known[g] < t - mi * NS:
                known[g] = t

    if rng.random() < 0.15:
        evs.append(("e",)); tags.add("lockerr")
    evs.append(("k", now)); gate = True; phase = "E"; tick(now)
    now += mi * NS - 1
    evs.append(("t", now)); tick(now)
    now += 1
    evs.append(("t", now)); tick(now)
    now += 1
    evs.append(("t", now)); tick(now)
    for _ in range(rng.randrange(2, 8)):
        r = rng.random()
        if phase == "E":
            if r < 0.12:
                evs.append(("x",)); gate = False; phase = "U"; tags.add("expiry")
                continue
            if r < 0.27 and (mi > 0 or rng.random() < 0.15):
                pres = [g for g in known if rng.random() < 0.7]
                newc = [g for g in range(1, 10) if g not in known and rng.random() < 0.25]
                lst = []
                for g in pres + newc:
                    draw = rng.randrange(0, mi * 1000) if mi > 0 else 0
                    if mi > 0 and rng.random() < 0.3:
                        draw = rng.choice([0, mi * 1000 - 1])
                    lst.append((g, draw))
                rng.shuffle(lst)
                evs.append(("r", now, lst))
                tags.add("refresh")
                if newc:
                    tags.add("refresh-new")
                if len(pres) < len(known):
                    tags.add("refresh-drop")
                known = {g: known.get(g, now - d * MS) for g, d in lst}
                if mi <= 0 and newc:
                    tags.add("refresh-panic")
                    break
                continue
        else:
            if r < 0.1:
                evs.append(("x",)); tags.add("lost-broadcast")
                continue
            if r < 0.2:
                evs.append(("e",)); phase = "L"; tags.add("lockerr")
                continue
        # advance the clock: to a boundary of some group, by a fraction of the interval, or not at all
        q = rng.random()
        if q < 0.5 and known:
            g = rng.choice(sorted(known))
            target = known[g] + mi * NS + rng.choice([-1, 0, 1, 1, 2])
            if target >= now:
                now = target
        elif q < 0.85:
            now += rng.choice([1, MS, NS, mi * NS // 2, mi * NS, mi * NS + 1, 2 * mi * NS + 5])
        if now > I64_MAX:
            break
        if phase == "E" or r < 0.55:
            evs.append(("t", now))
            if gate:
                tick(now)
            else:
                tags.add("tick-without-lock")
        else:
            evs.append(("k", now)); gate = True; phase = "E"; tick(now); tags.add("relock")
    return cfg_line(src, root, slow, mods, now0, sorted(groups.items()), evs), sorted(tags)


# one null module with interval 1: the configuration of the loop scenarios
LOOP_CFG = cfg_line("set", "/burrow", False, [{"id": 1, "class": "null", "iv": 1, "sv": None, "th": 1, "toks": ["1", "-", "1"]}],
                    T0, [], [])


def _m(i, cls, iv, sv, th):
    return {"id": i, "class": cls, "iv": iv, "sv": sv, "th": th, "toks": ["-" if v is None else str(v) for v in (iv, sv, th)]}


FIXED_CFG = [
    # the Example of props/C15.v: intervals 30 / 60, send-intervals 300 / 5
    focus_case([_m(1, "null", 30, 300, None), _m(2, "http", 60, 5, 1)], "toml"),
    focus_case([_m(2, "null", 30, 300, None), _m(1, "email", 60, 5, 1)], "set"),
    # the shortest interval is a default; no module; one module with everything absent
    focus_case([_m(3, "null", None, 5, None), _m(4, "null", 61, None, None)], "toml"),
    cfg_line("toml", "/burrow", False, [], T0, [], []),
    focus_case([_m(5, "email", None, None, None)], "set"),
    focus_case([_m(5, "null", 0, None, None), _m(6, "null", None, None, None)], "set"),
]


# ---- the session publisher (zookeeper coordinator mainLoop) -------------------------------------------------------

ZK_STATES = ["exp", "con", "dis", "cing", "has", "ro"]


def gen_zk(rng, idx):
    """A sequence of zk.Events as the client library delivers them: expiry cycles (dis, exp, cing, con, has), connection
    losses without expiry, repeated / out-of-order states, node events carrying session-like states."""
    conn0 = rng.random() < 0.8
    evs = []
    tags = set()
    for _ in range(rng.randrange(1, 5)):
        r = rng.random()
        if r < 0.45:
            evs += [("s", "dis"), ("s", "exp"), ("s", "cing"), ("s", "con"), ("s", "has")][rng.randrange(0, 2):rng.randrange(2, 6)]
            tags.add("expiry-cycle")
        elif r < 0.65:
            evs += [("s", "dis"), ("s", "cing"), ("s", "con"), ("s", "has")]
            tags.add("reconnect-without-expiry")
        elif r < 0.8:
            evs += [("s", "exp"), ("s", "exp")] if rng.random() < 0.5 else [("s", "con"), ("s", "con")]
            tags.add("repeated")
        else:
            evs.append(("n", rng.choice(ZK_STATES)))
            tags.add("node-event")
        if rng.random() < 0.3:
            evs.append((rng.choice(["s", "s", "n"]), rng.choice(ZK_STATES)))
            tags.add("random-state")
    return "zk %d %d %s" % (1 if conn0 else 0, len(evs), " ".join("%s %s" % e for e in evs)), sorted(tags)


# ---- isolated scenarios (one child process each): a failing Unlock(), a stalled storage request -------------------

def _iso_mods(rng, positive):
    for _ in range(50):
        mods = gen_mods(rng)
        exp = shortest_configured(mods)
        if exp is None or exp > 100000 or exp < 1 or not accepted(mods):
            continue
        return mods, exp
    m = _m(1, "null", 30, None, None)
    return [m], 30


def gen_cfg_unlock_error(rng, idx):
    """Expiry, then lock.Unlock() fails (go-zk: the ephemeral node went with the expired session) -- at the first cycle
    or after one or two complete expiry / release / re-acquire cycles.  Afterwards the clock moves on so that every
    group is due: HEAD panics (nothing is issued any more); a loop that carries on without the lock evaluates."""
    mods, mi = _iso_mods(rng, False)
    src = rng.choice(["set", "toml"])
    now = T0 + rng.randrange(0, 10**6) * MS
    ids = rng.sample(range(1, 10), rng.randrange(1, 4))
    groups = [(g, now - mi * NS - 1 - rng.choice([0, 1, NS])) for g in sorted(ids)]
    tags = set(["unlock-error"] + cfg_tags(mods))
    evs = []
    now0 = now
    if rng.random() < 0.2:
        evs.append(("e",)); tags.add("lockerr")
    evs.append(("k", now))
    cycles = rng.choice([0, 0, 1, 1, 2])
    tags.add("unlock-error@cycle%d" % (cycles + 1))
    for _ in range(cycles):
        now += rng.choice([1, mi * NS // 2 + 1, mi * NS + 1])
        evs.append(("t", now))
        evs.append(("x",))
        if rng.random() < 0.5:
            now += mi * NS + 1
            evs.append(("t", now))
        now += rng.choice([0, 1, mi * NS + 1])
        evs.append(("k", now))
    now += rng.choice([1, mi * NS + 1])
    evs.append(("t", now))
    evs.append(("x",))
    now += mi * NS + 1 + rng.choice([0, 5, NS])
    evs.append(("ue", now))
    now += 1
    evs.append(("t", now))
    now += mi * NS + 2
    evs.append(("t", now))
    return cfg_line(src, "/burrow", False, mods, now0, groups, evs), sorted(tags)


def gen_cfg_storage_stall(rng, idx):
    """One refresh whose storage request is not taken off App.StorageChannel within the 1 s timeout (cluster list: mode
    c; first consumer list: mode g), listing exactly the known groups; then a normal refresh (draws at the upper end of
    their range, so that a record that was lost and re-created is due at once) and ticks.  HEAD: a stalled refresh
    leaves every record untouched."""
    mods, mi = _iso_mods(rng, True)
    src = rng.choice(["set", "toml"])
    now = T0 + rng.randrange(0, 10**6) * MS
    ids = sorted(rng.sample(range(1, 10), rng.randrange(2, 5)))
    groups = [(g, now - mi * NS - 1 - rng.choice([0, 1, NS])) for g in ids]
    mode = rng.choice(["c", "g"])
    tags = set(["storage-stall", "storage-stall:" + ("cluster-list" if mode == "c" else "consumer-list")] + cfg_tags(mods))
    now0 = now
    evs = [("k", now)]
    now += mi * NS + 1
    evs.append(("t", now))                     # every group evaluated a second time: LastEval = now
    if rng.random() < 0.4:
        evs.append(("r", now, [(g, rng.randrange(0, mi * 1000)) for g in ids]))
        tags.add("refresh-before")
    lst = [(g, mi * 1000 - 1) for g in ids]
    rng.shuffle(lst)
    evs.append(("rs", now, mode, list(lst)))
    if rng.random() < 0.5:
        tags.add("stall-then-tick")
        now += mi * NS + 1
        evs.append(("t", now))                 # all due: a wiped record is missing here
    evs.append(("r", now, list(lst)))
    now += 2 * MS
    evs.append(("t", now))                     # a re-created record (LastEval = now - (mi s - 1 ms)) is due here
    now += mi * NS // 2
    evs.append(("t", now))
    return cfg_line(src, "/burrow", False, mods, now0, groups, evs), sorted(tags)


FIXED_ISO = [
    # interval 30: lock, evaluate, expiry, Unlock fails, 31 s later everything is due
    cfg_line("set", "/burrow", False, [_m(1, "null", 30, 300, None)], T0, [(1, T0 - 31 * NS)],
             [("k", T0), ("t", T0 + NS), ("x",), ("ue", T0 + 32 * NS), ("t", T0 + 32 * NS + 1), ("t", T0 + 63 * NS)]),
    # interval 5: evaluated at T and T+5s+1ns, the cluster list request stalls, a normal refresh, 2 ms later
    cfg_line("set", "/burrow", False, [_m(1, "null", 5, None, None)], T0, [(1, T0 - 6 * NS), (2, T0 - 6 * NS)],
             [("k", T0), ("t", T0 + 5 * NS + 1), ("rs", T0 + 5 * NS + 1, "c", [(1, 4999), (2, 4999)]),
              ("r", T0 + 5 * NS + 1, [(1, 4999), (2, 4999)]), ("t", T0 + 5 * NS + 1 + 2 * MS)]),
    cfg_line("toml", "/burrow", False, [_m(1, "null", 5, None, None)], T0, [(1, T0 - 6 * NS), (2, T0 - 6 * NS), (3, T0 - 6 * NS)],
             [("k", T0), ("t", T0 + 5 * NS + 1), ("rs", T0 + 5 * NS + 1, "g", [(1, 4999), (2, 4999), (3, 4999)]),
              ("t", T0 + 10 * NS + 2), ("r", T0 + 10 * NS + 2, [(1, 4999), (2, 4999), (3, 4999)]), ("t", T0 + 10 * NS + 2 + 2 * MS)]),
]


# ---- round 3: evaluator replies through the real response path; re-locks inside the interval ------------------------

def _null_mods(rng):
    """1-3 null modules (a reply ends in module.Notify: no http / email module may be configured), shortest interval
    in 1 .. 3600."""
    nm = rng.randrange(1, 4)
    ids = rng.sample(range(1, 10), nm)
    base = rng.choice([1, 2, 5, 30, 60, 61, 300, 3600])
    mods = []
    for k in range(nm):
        iv = rng.choice([None, base, base + 1, base + 7, 2 * base])
        sv = rng.choice([None, 0, 1, 5, base, 10 * base])
        th = rng.choice([None, 1, 2, 3])
        mods.append({"id": ids[k], "class": "null", "iv": iv, "sv": sv, "th": th,
                     "toks": ["-" if v is None else str(v) for v in (iv, sv, th)]})
    return mods, shortest_configured(mods)


ANSWERS_BAD = ["warn", "err", "err", "stop", "stall", "rewind"]


def gen_cfg_replies(rng, idx):
    """The evaluator answers every request through the real reply path while the ticks go on: an incident opens (a bad
    status), stays open, closes (OK) -- then ticks 1 ms and 2 ms later, at interval - 1 ns and interval + 1 ns after the
    last evaluation; NOTFOUND and nil replies; optionally an expiry / re-lock in between."""
    mods, mi = _null_mods(rng)
    src = rng.choice(["set", "toml"])
    now = T0 + rng.randrange(0, 10**6) * MS
    ids = sorted(rng.sample(range(1, 10), rng.randrange(1, 4)))
    groups = [(g, now - mi * NS - 1 - rng.choice([0, 1, NS])) for g in ids]
    tags = set(["replies"] + cfg_tags(mods))
    now0 = now
    evs = [("a", rng.choice(ANSWERS_BAD)), ("k", now)]          # evaluated at now, incident opens
    last = now
    for _ in range(rng.randrange(1, 4)):
        r = rng.random()
        if r < 0.3:
            evs.append(("a", rng.choice(ANSWERS_BAD + ["nf", "nil", "none"]))); tags.add("replies:still-open")
        elif r < 0.45:
            evs.append(("x",)); evs.append(("k", last + rng.choice([MS, mi * NS // 2]))); tags.add("replies:relock")
        last += mi * NS + rng.choice([1, 2, MS])
        evs.append(("t", last))
    evs.append(("a", "ok"))
    last += mi * NS + 1
    evs.append(("t", last))                                     # evaluated, reply OK: the incident closes
    tags.add("replies:incident-closes")
    evs.append(("t", last + MS))
    evs.append(("t", last + 2 * MS))
    if rng.random() < 0.4:
        evs.append(("x",)); evs.append(("k", last + 3 * MS)); tags.add("replies:relock")
    evs.append(("t", last + mi * NS - 1))
    evs.append(("t", last + mi * NS))
    last += mi * NS + 1
    evs.append(("t", last))                                     # evaluated again, reply OK with no incident open
    evs.append(("t", last + MS))
    if rng.random() < 0.5:
        evs.append(("a", rng.choice(ANSWERS_BAD)))
        last += mi * NS + 1
        evs.append(("t", last))
        evs.append(("t", last + MS))
    return cfg_line(src, "/burrow", rng.random() < 0.2, mods, now0, groups, evs), sorted(tags)


def gen_cfg_relock(rng, idx):
    """Groups evaluated just before the expiry; expiry, release and re-acquisition complete well inside the shortest
    interval (1 ms .. interval / 2 after the last evaluation); then ticks 1 ms later, at interval - 1 ns and
    interval + 1 ns after the last evaluation.  One to three such cycles."""
    mods, mi = _null_mods(rng) if rng.random() < 0.5 else _iso_mods(rng, True)
    src = rng.choice(["set", "toml"])
    now = T0 + rng.randrange(0, 10**6) * MS
    ids = sorted(rng.sample(range(1, 10), rng.randrange(1, 4)))
    groups = [(g, now - mi * NS - 1 - rng.choice([0, 1, NS])) for g in ids]
    tags = set(["relock-inside-interval"] + cfg_tags(mods))
    evs = [("k", now)]
    last = now
    for cyc in range(rng.randrange(1, 4)):
        if rng.random() < 0.7:
            last += mi * NS + 1
            evs.append(("t", last))                             # evaluated just before the expiry
        evs.append(("x",))
        if rng.random() < 0.3:
            evs.append(("e",)); tags.add("lockerr")
        t = last + rng.choice([MS, 2 * MS, mi * NS // 2])
        evs.append(("k", t))                                    # re-lock well inside the interval: nothing is due
        evs.append(("t", t + MS))
        evs.append(("t", last + mi * NS - 1))
        evs.append(("t", last + mi * NS))
        last += mi * NS + 1
        evs.append(("t", last))                                 # due again
    return cfg_line(src, "/burrow", False, mods, now, groups, evs), sorted(tags)


FIXED_R3 = [
    # interval 30: incident opens at T, closes at T+30s+1ns (reply OK); 1 ms, 2 ms, 30 s - 1 ns later nothing; then again
    cfg_line("set", "/burrow", False, [_m(1, "null", 30, None, 1)], T0, [(1, T0 - 31 * NS)],
             [("a", "err"), ("k", T0), ("a", "ok"), ("t", T0 + 30 * NS + 1), ("t", T0 + 30 * NS + 1 + MS), ("t", T0 + 30 * NS + 1 + 2 * MS),
              ("t", T0 + 60 * NS), ("t", T0 + 60 * NS + 2)]),
    # interval 30: evaluated at T and T+30s+1ns, expiry, re-lock 2 ms later, ticks inside the interval, then due
    cfg_line("toml", "/burrow", False, [_m(1, "null", 30, 5, None), _m(2, "null", 60, 1, None)], T0, [(1, T0 - 31 * NS), (4, T0 - 31 * NS)],
             [("k", T0), ("t", T0 + 30 * NS + 1), ("x",), ("k", T0 + 30 * NS + 1 + 2 * MS), ("t", T0 + 30 * NS + 1 + 3 * MS),
              ("t", T0 + 60 * NS), ("t", T0 + 60 * NS + 2)]),
]


# ---- round 4 (audit D): beyond the bound of the pacing theorems; the Int63n panic; a late reply ----------------------

def gen_cfg_wrap(rng, idx):
    """Every module's interval is beyond 9223372036 s, where -time.Duration(interval) * time.Second would wrap.  Since
    /repo 38fa1ff Configure refuses such a configuration: both sides print CFGPANIC and the scripted events are not
    reached (before the fix the loop ran and requested every entry every millisecond: C15_pacing_wrap_refuted)."""
    nm = rng.randrange(1, 3)
    ids = rng.sample(range(1, 10), nm)
    mods = []
    for k in range(nm):
        iv = rng.choice(WRAP_INTERVALS)
        mods.append({"id": ids[k], "class": "null", "iv": iv, "sv": rng.choice([None, 5, 60]), "th": None,
                     "toks": [rng.choice(["%d", "L%d"]) % iv, "-", "-"]})
        mods[-1]["toks"][1] = "-" if mods[-1]["sv"] is None else str(mods[-1]["sv"])
    now = T0 + rng.randrange(0, 10**6) * MS
    gids = sorted(rng.sample(range(1, 10), rng.randrange(1, 4)))
    groups = [(g, now - rng.choice([1, MS, NS, 3600 * NS])) for g in gids]
    evs = [("k", now)]
    t = now
    for _ in range(rng.randrange(2, 6)):
        r = rng.random()
        if r < 0.15 and evs[-1][0] != "x":
            evs.append(("x",)); t += rng.choice([MS, NS]); evs.append(("k", t))
        else:
            t += rng.choice([MS, 2 * MS, 100 * MS, 290448384, 290448385, NS])
            evs.append(("t", t))
    tags = ["duration-wrap"] + cfg_tags(mods)
    return cfg_line(rng.choice(["set", "toml"]), "/burrow", False, mods, now, groups, evs), sorted(set(tags))


def duration_wraps(mods):
    exp = shortest_configured(mods)
    return exp is not None and exp > MAX_INTERVAL


FIXED_R4 = [
    # C15_pacing_wrap_refuted: interval 9223372037, evaluated at T and 1 ms later
    cfg_line("set", "/burrow", False, [_m(1, "null", 9223372037, None, None)], T0, [(1, 0)],
             [("k", T0), ("t", T0 + MS), ("t", T0 + 2 * MS)]),
    # interval 18446744074 wraps twice: paced by 0.290448384 s
    cfg_line("toml", "/burrow", False, [_m(1, "null", 18446744074, None, None)], T0, [(1, T0 - NS)],
             [("k", T0), ("t", T0 + 290448384), ("t", T0 + 290448385), ("t", T0 + 290448386)]),
    # rand.Int63n(minInterval*1000) panics: interval 0 / interval 9223372036854776, a refresh that lists a new group --
    # through the real storage path, in a child process (rp), and in-process under recover (r)
    cfg_line("set", "/burrow", False, [_m(1, "null", 0, None, None)], T0, [(1, T0 - 1)],
             [("k", T0), ("rp", T0, [(1, 0), (2, 0)]), ("t", T0 + 1)]),
    cfg_line("toml", "/burrow", False, [_m(1, "null", 9223372036854776, None, None)], T0, [(1, T0 - 1)],
             [("k", T0), ("rp", T0, [(1, 0), (5, 0)]), ("t", T0 + 1)]),
    cfg_line("set", "/burrow", False, [_m(1, "null", 9223372036854776, None, None), _m(2, "null", 2**63 - 2, None, None)], T0, [(1, T0 - 1)],
             [("k", T0), ("r", T0, [(1, 0)]), ("t", T0 + MS), ("r", T0 + MS, [(1, 0), (5, 0)])]),
    # C15_notifications_only_while_locked_refuted: the request of T is answered (ERR) after the expiry; a module is notified
    cfg_line("set", "/burrow", False, [_m(1, "null", 30, None, 1)], T0, [(1, T0 - 31 * NS)],
             [("a", "hold"), ("k", T0), ("x",), ("af", "err"), ("t", T0 + 31 * NS)]),
    cfg_line("toml", "/burrow", False, [_m(3, "null", 5, 1, 2), _m(4, "null", None, None, 1)], T0, [(1, T0 - 6 * NS), (2, T0 - 6 * NS)],
             [("a", "hold"), ("k", T0), ("t", T0 + 5 * NS + 1), ("x",), ("af", "stall"), ("k", T0 + 5 * NS + 2), ("af", "ok")]),
]
