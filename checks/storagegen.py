"""History generators for the storage layer (C01, C02, C09, C10).  One text line per history."""
I64MAX = 2**63 - 1
I64MIN = -2**63


class Hist:
    def __init__(self, rng, intervals, expire, mindist, clusters, mode, rej):
        self.rng = rng
        self.intervals, self.expire, self.mindist = intervals, expire, mindist
        self.clusters, self.mode, self.rej = clusters, mode, rej
        self.ops = []
        self.now = 1600000000 + rng.randrange(0, 10**6)
        self.tags = set()

    def add(self, *toks):
        self.ops.append(" ".join(str(x) for x in toks))

    def line(self):
        head = ["hist", self.intervals, self.expire, self.mindist, len(self.clusters)] + self.clusters + \
               [self.mode, len(self.rej)] + sorted(self.rej) + [len(self.ops)]
        return " ".join(str(x) for x in head) + " " + " ".join(self.ops)


def gen_general(rng, focus="general"):
    intervals = rng.choice([1, 2, 3, 4, 10]) if focus != "ring" else rng.choice([1, 2, 3, 3, 4, 5, 10])
    expire = rng.choice([100, 1000, 604800])
    mindist = rng.choice([0, 0, 0, 1, 5]) if focus != "topn" else 0
    clusters = [1] if rng.random() < 0.6 else [1, 2]
    rej = set()
    mode = "deny"
    if focus == "lists" or rng.random() < 0.25:
        mode = rng.choice(["deny", "allow", "both"])
        rej = set(rng.sample(range(1, 6), rng.choice([1, 2, 3])))
    h = Hist(rng, intervals, expire, mindist, clusters, mode, rej)
    ntopics = rng.choice([1, 2, 3, 4]) if focus != "ring" else 1
    ngroups = rng.choice([1, 2, 3]) if focus != "ring" else 1
    topics = list(range(1, ntopics + 1))
    groups = list(range(1, ngroups + 1))
    if rej:
        groups = sorted(set(groups) | set(list(rej)[:2]))
    pcount = {}        # (cluster, topic) -> partition count announced so far
    boff = {}          # (cluster, topic, partition) -> last broker offset
    order = {}         # (cluster, group, topic, partition) -> next order
    base_off = rng.choice([0, 1000, 10**6, 2**40, I64MAX - 10**6])
    nops = rng.randrange(5, 45) if focus != "ring" else rng.randrange(3, 30)
    weights = {"general": dict(B=28, C=42, O=6, X=2, DT=2, DG=2, F=18),
               "ring": dict(B=8, C=72, O=2, X=0, DT=0, DG=0, F=18),
               "topn": dict(B=8, C=72, O=0, X=0, DT=0, DG=0, F=20),
               "delete": dict(B=22, C=30, O=6, X=3, DT=9, DG=12, F=18),
               "lists": dict(B=20, C=35, O=15, X=8, DT=2, DG=2, F=18)}[focus if focus in ("general", "ring", "topn", "delete", "lists") else "general"]
    kinds = [k for k, w in weights.items() for _ in range(w)]

    def cl():
        c = rng.choice(clusters)
        if rng.random() < 0.03:
            c = 9  # unknown cluster
            h.tags.add("unknown-cluster")
        return c

    def fetch_all(c):
        h.add("FG", h.now, c)
        h.add("FT", h.now, c)
        for t in topics + [7]:
            h.add("FO", h.now, c, t)
            h.add("FU", h.now, c, t)
        for g in groups + [8]:
            h.add("FX", h.now, c, g)

    # always start by announcing some broker offsets so that commits have something to land on
    def broker(c=None, t=None):
        c = c if c is not None else cl()
        t = t if t is not None else rng.choice(topics)
        cnt = pcount.get((c, t), 0)
        r = rng.random()
        if cnt == 0 or r < 0.15:
            cnt = min(6, cnt + rng.choice([1, 1, 2, 3]))
        elif r < 0.2 and cnt > 1:
            cnt_msg = cnt - 1  # a smaller count is announced (ignored by storage)
            p = rng.randrange(0, cnt_msg)
            off = min(I64MAX, boff.get((c, t, p), base_off) + rng.choice([0, 1, 10, 1000]))
            boff[(c, t, p)] = off
            h.add("B", h.now, c, t, p, cnt_msg, off)
            h.tags.add("smaller-count")
            return
        pcount[(c, t)] = cnt
        p = rng.randrange(0, cnt)
        off = boff.get((c, t, p), base_off + rng.choice([0, 5, 100])) + rng.choice([0, 1, 10, 1000])
        if rng.random() < 0.03:
            off = rng.choice([I64MAX, 0, -1, I64MIN])
        off = max(I64MIN, min(I64MAX, off))
        boff[(c, t, p)] = off
        h.add("B", h.now, c, t, p, cnt, off)

    def commit():
        c, g, t = cl(), rng.choice(groups), rng.choice(topics)
        cnt = pcount.get((c, t), 0)
        p = rng.randrange(0, cnt) if cnt > 0 and rng.random() < 0.9 else rng.choice([0, 1, 5, 7, -1])
        key = (c, g, t, p)
        nxt = order.get(key, rng.randrange(0, 1000))
        r = rng.random()
        if r < 0.70:
            o = nxt
            order[key] = nxt + rng.choice([1, 1, 2, 5])
        elif r < 0.85:
            o = nxt - rng.choice([1, 2, 3, 4, 6, 12])   # out of order / duplicate
            h.tags.add("out-of-order")
        else:
            o = nxt - 1
            h.tags.add("duplicate")
        b = boff.get((c, t, p), base_off)
        off = b + rng.choice([-1000, -10, -1, 0, 0, 1, 5])
        if rng.random() < 0.04:
            off = rng.choice([I64MAX, I64MIN, 0, -1, b])
            h.tags.add("extreme-offset")
        off = max(I64MIN, min(I64MAX, off))
        if off > b:
            h.tags.add("consumer-ahead")
        ts = h.now * 1000 - rng.choice([0, 1, 500, 999, 1000, 1001, 4999, 5000, 5001, 60000])
        if focus == "topn":
            ts = 1600000000000 + o * 1000      # timestamps non-decreasing in log position
        if rng.random() < 0.04:
            ts = (h.now - h.expire) * 1000 + rng.choice([-1, 0, 1])   # around the too-old boundary
            h.tags.add("too-old-boundary")
        h.add("C", h.now, c, g, t, p, off, o, ts)

    # initial broker offsets
    for _ in range(rng.randrange(1, 4)):
        broker()
    for _ in range(nops):
        if rng.random() < 0.5:
            h.now += rng.choice([0, 1, 1, 2, 5, 60])
        k = rng.choice(kinds)
        if k == "B":
            broker()
        elif k == "C":
            commit()
        elif k == "O":
            c, g, t = cl(), rng.choice(groups), rng.choice(topics + [7])
            cnt = pcount.get((c, t), 0)
            p = rng.randrange(0, cnt) if cnt > 0 else 0
            h.add("O", h.now, c, g, t, p, rng.choice([1, 2, 3]), rng.choice([0, 1, 2]))
            h.tags.add("owner")
        elif k == "X":
            h.add("X", h.now, cl(), rng.choice(groups + [8]))
        elif k == "DT":
            c, t = cl(), rng.choice(topics + [7])
            h.add("DT", h.now, c, t)
            for key in [x for x in pcount if x == (c, t)]:
                del pcount[key]
            for key in [x for x in boff if x[0] == c and x[1] == t]:
                del boff[key]
            h.tags.add("delete-topic")
            if focus == "delete":
                fetch_all(c)
        elif k == "DG":
            c, g = cl(), rng.choice(groups + [8])
            t = rng.choice([0, 0] + topics + [7])
            h.add("DG", h.now, c, g, t)
            h.tags.add("delete-group" if t == 0 else "delete-group-topic")
            if focus == "delete":
                fetch_all(c)
        else:
            r = rng.random()
            c = cl()
            if r < 0.55:
                h.add("FX", h.now, c, rng.choice(groups + [8]))
            elif r < 0.65:
                h.add("FG", h.now, c)
            elif r < 0.75:
                h.add("FT", h.now, c)
            elif r < 0.85:
                h.add("FO", h.now, c, rng.choice(topics + [7]))
            elif r < 0.95:
                h.add("FU", h.now, c, rng.choice(topics + [7]))
            else:
                h.add("FC", h.now)
        if rng.random() < 0.02:
            h.now += h.expire + rng.choice([-1, 0, 1, 100])   # let groups expire
            h.tags.add("expiry-jump")
    # closing reads of everything
    h.add("FC", h.now)
    for c in clusters:
        fetch_all(c)
    return h


def gen_lag(rng, flavour="mix"):
    """C01 generator (DESIGN 4.1): broker offsets and commits around a boundary pool, consumer ahead of the broker,
    partition counts growing, out-of-order / duplicate commits, a fetch after most changes.
    flavour: mix | extreme (int64 extremes on both sides) | ahead (consumer mostly ahead) | moving (broker moves between commits)."""
    intervals = rng.choice([1, 2, 3, 4, 10])
    expire = rng.choice([1000, 604800])
    mindist = rng.choice([0, 0, 0, 0, 1, 5])
    clusters = [1] if rng.random() < 0.7 else [1, 2]
    # configuration path of the probe (every option goes through the real Configure): viper.Set per key, a TOML document
    # read with viper.ReadConfig (@toml), or that document without intervals / expire-group / min-distance (@dflt: the
    # documented defaults 10 / 604800 / 0 are in force and are what the header tells the model)
    via = ""
    r = rng.random()
    if r < 0.10:
        intervals, expire, mindist, via = 10, 604800, 0, "@dflt"
    elif r < 0.25:
        via = "@toml"
    h = Hist(rng, intervals, expire, mindist, clusters, "deny" + via, set())
    h.tags.add("via:" + (via[1:] or "set"))
    topics = list(range(1, rng.choice([1, 1, 2, 3, 4]) + 1))
    groups = list(range(1, rng.choice([1, 1, 2, 3]) + 1))
    pcount, boff, order = {}, {}, {}
    walk_base = rng.choice([0, 5, 1000, 10**9, 2**40, 2**62 - 3, I64MAX - 2000, -5, I64MIN + 7])
    nops = rng.randrange(6, 40)
    h.tags.add("lag:" + flavour)

    def clamp(v):
        return max(I64MIN, min(I64MAX, v))

    def pool(b):
        return [0, 1, b - 1, b, b + 1, 2**62, I64MAX, -1, I64MIN]

    def broker(c=None, t=None, p=None):
        c = c if c is not None else rng.choice(clusters)
        t = t if t is not None else rng.choice(topics)
        cnt = pcount.get((c, t), 0)
        if cnt == 0 or rng.random() < 0.2:
            cnt = min(5, cnt + rng.choice([1, 1, 2]))      # partition count grows over time
            h.tags.add("count-grows")
        pcount[(c, t)] = cnt
        if p is None or p >= cnt:
            p = rng.randrange(0, cnt)
        cur = boff.get((c, t, p))
        r = rng.random()
        if cur is None:
            off = walk_base + rng.choice([0, 1, 7, 100])
        elif flavour == "extreme" and r < 0.5 or r < 0.12:
            off = rng.choice(pool(cur))
            h.tags.add("broker-pool")
        elif r < 0.2:
            off = cur - rng.choice([1, 10, 1000])            # broker offset going backwards (truncation)
            h.tags.add("broker-back")
        else:
            off = cur + rng.choice([0, 1, 1, 10, 1000, 10**6])
        off = clamp(off)
        boff[(c, t, p)] = off
        h.add("B", h.now, c, t, p, cnt, off)

    def commit(c=None, g=None, t=None, p=None):
        c = c if c is not None else rng.choice(clusters)
        g = g if g is not None else rng.choice(groups)
        t = t if t is not None else rng.choice(topics)
        cnt = pcount.get((c, t), 0)
        if p is None:
            p = rng.randrange(0, cnt) if cnt > 0 and rng.random() < 0.93 else rng.choice([0, 1, 4, 5, -1])
        key = (c, g, t, p)
        nxt = order.get(key, rng.randrange(0, 100))
        r = rng.random()
        if r < 0.68:
            o = nxt
            order[key] = nxt + rng.choice([1, 1, 2, 5])
        elif r < 0.88:
            o = nxt - rng.choice([1, 2, 3, 4, 6, 12])        # out of order
            h.tags.add("out-of-order")
        else:
            o = nxt - 1                                      # duplicate of the newest
            h.tags.add("duplicate")
        b = boff.get((c, t, p), walk_base)
        r = rng.random()
        if flavour == "ahead" and r < 0.7:
            off = b + rng.choice([1, 2, 10, 1000, 2**40])
        elif flavour == "extreme" and r < 0.6 or r < 0.25:
            off = rng.choice(pool(b))
            h.tags.add("commit-pool")
        else:
            off = b + rng.choice([-10**6, -1000, -10, -2, -1, 0, 0, 1, 2, 5])
        off = clamp(off)
        if off > b:
            h.tags.add("consumer-ahead")
        elif off == b:
            h.tags.add("consumer-at")
        ts = h.now * 1000 - rng.choice([0, 0, 1, 500, 999, 1000, 1001, 4999, 5000, 5001])
        if rng.random() < 0.06:
            # around the too-old cut-off of the configured expire-group, and at a day / an hour (other plausible defaults)
            ts = (h.now - rng.choice([h.expire, h.expire, 86400, 3600])) * 1000 + rng.choice([-1, 0, 1])
            h.tags.add("old-timestamp")
        h.add("C", h.now, c, g, t, p, off, o, ts)
        return c, g

    for c in clusters:
        for t in topics:
            if rng.random() < 0.8:
                broker(c, t)
    for _ in range(nops):
        if rng.random() < 0.4:
            h.now += rng.choice([0, 1, 1, 2, 5, 30])
        r = rng.random()
        if r < 0.30:
            broker()
        elif r < 0.80:
            if flavour == "moving" and rng.random() < 0.5 and boff:
                # broker moves between two commits of the same partition
                (c, t, p) = rng.choice(sorted(boff))
                g = rng.choice(groups)
                commit(c, g, t, p)
                broker(c, t, p)
                commit(c, g, t, p)
                h.tags.add("broker-between-commits")
            else:
                commit()
        elif r < 0.95:
            h.add("FX", h.now, rng.choice(clusters), rng.choice(groups))
        else:
            k = rng.random()
            c = rng.choice(clusters)
            if k < 0.3:
                h.add("DT", h.now, c, rng.choice(topics))
                t_ = int(h.ops[-1].split()[-1])
                pcount.pop((c, t_), None)
                for key in [x for x in boff if x[0] == c and x[1] == t_]:
                    del boff[key]
                h.tags.add("delete-topic")
            elif k < 0.55:
                h.add("DG", h.now, c, rng.choice(groups), rng.choice([0] + topics))
                h.tags.add("delete-group")
            elif k < 0.8:
                t_ = rng.choice(topics)
                cnt = pcount.get((c, t_), 0)
                h.add("O", h.now, c, rng.choice(groups), t_, rng.randrange(0, cnt) if cnt else 0, rng.choice([1, 2]), rng.choice([0, 1]))
                h.tags.add("owner")
            else:
                h.now += h.expire + rng.choice([-1, 0, 1])
                h.tags.add("expiry-jump")
    for c in clusters:
        for g in groups:
            h.add("FX", h.now, c, g)
    return h
