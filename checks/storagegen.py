"""History generators for the storage layer (C01, C02, C09, C10).  One text line per history."""
I64MAX = 2**63 - 1
I64MIN = -2**63


class Hist:
    def __init__(self, rng, intervals, expire, mindist, clusters, mode, rej):
        self.rng = rng
        self.intervals, self.expire, self.mindist = intervals, expire, mindist
        self.clusters, self.mode, self.rej = clusters, mode, rej
        self.ops = []
        self.now = 1600000000 + rng.randrange(0, 10**6)
        self.tags = set()

    def add(self, *toks):
        self.ops.append(" ".join(str(x) for x in toks))

    def line(self):
        head = ["hist", self.intervals, self.expire, self.mindist, len(self.clusters)] + self.clusters + \
               [self.mode, len(self.rej)] + sorted(self.rej) + [len(self.ops)]
        return " ".join(str(x) for x in head) + " " + " ".join(self.ops)


def gen_general(rng, focus="general"):
    intervals = rng.choice([1, 2, 3, 4, 10]) if focus != "ring" else rng.choice([1, 2, 3, 3, 4, 5, 10])
    expire = rng.choice([100, 1000, 604800])
    mindist = rng.choice([0, 0, 0, 1, 5]) if focus != "topn" else 0
    clusters = [1] if rng.random() < 0.6 else [1, 2]
    rej = set()
    mode = "deny"
    if focus == "lists" or rng.random() < 0.25:
        mode = rng.choice(["deny", "allow", "both"])
        rej = set(rng.sample(range(1, 6), rng.choice([1, 2, 3])))
    h = Hist(rng, intervals, expire, mindist, clusters, mode, rej)
    ntopics = rng.choice([1, 2, 3, 4]) if focus != "ring" else 1
    ngroups = rng.choice([1, 2, 3]) if focus != "ring" else 1
    topics = list(range(1, ntopics + 1))
    groups = list(range(1, ngroups + 1))
    if rej:
        groups = sorted(set(groups) | set(list(rej)[:2]))
    pcount = {}        # (cluster, topic) -> partition count announced so far
    boff = {}          # (cluster, topic, partition) -> last broker offset
    order = {}         # (cluster, group, topic, partition) -> next order
    base_off = rng.choice([0, 1000, 10**6, 2**40, I64MAX - 10**6])
    nops = rng.randrange(5, 45) if focus != "ring" else rng.randrange(3, 30)
    weights = {"general": dict(B=28, C=42, O=6, X=2, DT=2, DG=2, F=18),
               "ring": dict(B=8, C=72, O=2, X=0, DT=0, DG=0, F=18),
               "topn": dict(B=8, C=72, O=0, X=0, DT=0, DG=0, F=20),
               "delete": dict(B=22, C=30, O=6, X=3, DT=9, DG=12, F=18),
               "lists": dict(B=20, C=35, O=15, X=8, DT=2, DG=2, F=18)}[focus if focus in ("general", "ring", "topn", "delete", "lists") else "general"]
    kinds = [k for k, w in weights.items() for _ in range(w)]

    def cl():
        c = rng.choice(clusters)
        if rng.random() < 0.03:
            c = 9  # unknown cluster
            h.tags.add("unknown-cluster")
        return c

    def fetch_all(c):
        h.add("FG", h.now, c)
        h.add("FT", h.now, c)
        for t in topics + [7]:
            h.add("FO", h.now, c, t)
            h.add("FU", h.now, c, t)
        for g in groups + [8]:
            h.add("FX", h.now, c, g)

    # always start by announcing some broker offsets so that commits have something to land on
    def broker(c=None, t=None):
        c = c if c is not None else cl()
        t = t if t is not None else rng.choice(topics)
        cnt = pcount.get((c, t), 0)
        r = rng.random()
        if cnt == 0 or r < 0.15:
            cnt = min(6, cnt + rng.choice([1, 1, 2, 3]))
        elif r < 0.2 and cnt > 1:
            cnt_msg = cnt - 1  # a smaller count is announced (ignored by storage)
            p = rng.randrange(0, cnt_msg)
            off = min(I64MAX, boff.get((c, t, p), base_off) + rng.choice([0, 1, 10, 1000]))
            boff[(c, t, p)] = off
            h.add("B", h.now, c, t, p, cnt_msg, off)
            h.tags.add("smaller-count")
            return
        pcount[(c, t)] = cnt
        p = rng.randrange(0, cnt)
        off = boff.get((c, t, p), base_off + rng.choice([0, 5, 100])) + rng.choice([0, 1, 10, 1000])
        if rng.random() < 0.03:
            off = rng.choice([I64MAX, 0, -1, I64MIN])
        off = max(I64MIN, min(I64MAX, off))
        boff[(c, t, p)] = off
        h.add("B", h.now, c, t, p, cnt, off)

    def commit():
        c, g, t = cl(), rng.choice(groups), rng.choice(topics)
        cnt = pcount.get((c, t), 0)
        p = rng.randrange(0, cnt) if cnt > 0 and rng.random() < 0.9 else rng.choice([0, 1, 5, 7, -1])
        key = (c, g, t, p)
        nxt = order.get(key, rng.randrange(0, 1000))
        r = rng.random()
        if r < 0.70:
            o = nxt
            order[key] = nxt + rng.choice([1, 1, 2, 5])
        elif r < 0.85:
            o = nxt - rng.choice([1, 2, 3, 4, 6, 12])   # out of order / duplicate
            h.tags.add("out-of-order")
        else:
            o = nxt - 1
            h.tags.add("duplicate")
        b = boff.get((c, t, p), base_off)
        off = b + rng.choice([-1000, -10, -1, 0, 0, 1, 5])
        if rng.random() < 0.04:
            off = rng.choice([I64MAX, I64MIN, 0, -1, b])
            h.tags.add("extreme-offset")
        off = max(I64MIN, min(I64MAX, off))
        if off > b:
            h.tags.add("consumer-ahead")
        ts = h.now * 1000 - rng.choice([0, 1, 500, 999, 1000, 1001, 4999, 5000, 5001, 60000])
        if focus == "topn":
            ts = 1600000000000 + o * 1000      # timestamps non-decreasing in log position
        if rng.random() < 0.04:
            ts = (h.now - h.expire) * 1000 + rng.choice([-1, 0, 1])   # around the too-old boundary
            h.tags.add("too-old-boundary")
        h.add("C", h.now, c, g, t, p, off, o, ts)

    # initial broker offsets
    for _ in range(rng.randrange(1, 4)):
        broker()
    for _ in range(nops):
        if rng.random() < 0.5:
            h.now += rng.choice([0, 1, 1, 2, 5, 60])
        k = rng.choice(kinds)
        if k == "B":
            broker()
        elif k == "C":
            commit()
        elif k == "O":
            c, g, t = cl(), rng.choice(groups), rng.choice(topics + [7])
            cnt = pcount.get((c, t), 0)
            p = rng.randrange(0, cnt) if cnt > 0 else 0
            h.add("O", h.now, c, g, t, p, rng.choice([1, 2, 3]), rng.choice([0, 1, 2]))
            h.tags.add("owner")
        elif k == "X":
            h.add("X", h.now, cl(), rng.choice(groups + [8]))
        elif k == "DT":
            c, t = cl(), rng.choice(topics + [7])
            h.add("DT", h.now, c, t)
            for key in [x for x in pcount if x == (c, t)]:
                del pcount[key]
            for key in [x for x in boff if x[0] == c and x[1] == t]:
                del boff[key]
            h.tags.add("delete-topic")
            if focus == "delete":
                fetch_all(c)
        elif k == "DG":
            c, g = cl(), rng.choice(groups + [8])
            t = rng.choice([0, 0] + topics + [7])
            h.add("DG", h.now, c, g, t)
            h.tags.add("delete-group" if t == 0 else "delete-group-topic")
            if focus == "delete":
                fetch_all(c)
        else:
            r = rng.random()
            c = cl()
            if r < 0.55:
                h.add("FX", h.now, c, rng.choice(groups + [8]))
            elif r < 0.65:
                h.add("FG", h.now, c)
            elif r < 0.75:
                h.add("FT", h.now, c)
            elif r < 0.85:
                h.add("FO", h.now, c, rng.choice(topics + [7]))
            elif r < 0.95:
                h.add("FU", h.now, c, rng.choice(topics + [7]))
            else:
                h.add("FC", h.now)
        if rng.random() < 0.02:
            h.now += h.expire + rng.choice([-1, 0, 1, 100])   # let groups expire
            h.tags.add("expiry-jump")
    # closing reads of everything
    h.add("FC", h.now)
    for c in clusters:
        fetch_all(c)
    return h
