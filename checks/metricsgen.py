"""Generator, output parser and oracle for C17 (served data equals ingested state; nothing outlives its deletion).

A case is one line `sys <intervals> <expire> <mindist> <mincomplete bits> <allowed> <ncl> <cluster ids> <ngroups> <ntopics> <nops> ops`
(see probes/metrics/verif_metrics_probe_test.go for the op grammar).  Every case owns its cluster ids (the gauge
vectors are process-global)."""
import struct

F32_ONE = 1065353216
BIG = [2 ** 53 + 1, 2 ** 53 + 3, 2 ** 62 + 12345, 2 ** 63 - 1, 2 ** 60 + 7]


def f32bits(x):
    return struct.unpack("<I", struct.pack("<f", x))[0]


class Hist:
    """Builds one history and remembers, per op index, what was ingested (for the oracle)."""

    def __init__(self, rng, base, force=None):
        self.rng = rng
        r = rng
        self.tags = []
        self.intervals = r.choice([1, 1, 1, 2, 2, 3, 4, 10])
        self.expire = r.choice([100, 300, 604800, 604800])
        self.mindist = r.choice([0, 0, 0, 5])
        self.mincomplete = r.choice([0.0, 0.0, 0.3, 0.5, 1.0])
        self.allowed = r.choice([0, 0, 5, 100])
        ncl = r.choice([1, 1, 2])
        self.clusters = [base + i for i in range(ncl)]
        self.ngroups = r.randint(1, 3)
        self.ntopics = r.randint(1, 3)
        if force:
            for k, v in force.items():
                setattr(self, k, v)
        self.now = 10000 + r.randint(0, 1000)
        self.ops = []
        # per (c,t): partition count now, set of partitions that never get a broker offset ("leaderless")
        self.cnt, self.dead, self.boff = {}, {}, {}
        for c in self.clusters:
            for t in range(1, self.ntopics + 1):
                n = r.randint(1, 4)
                self.cnt[(c, t)] = n
                self.dead[(c, t)] = {p for p in range(n) if r.random() < 0.08}
        self.order = 100

    def tick(self, lo=0, hi=12):
        self.now += self.rng.randint(lo, hi)

    def add(self, *toks):
        self.ops.append(" ".join(str(x) for x in toks))

    # ---- ingest ----
    def broker(self, c=None, t=None, p=None):
        r = self.rng
        c = c if c is not None else r.choice(self.clusters)
        t = t if t is not None else r.randint(1, self.ntopics)
        if r.random() < 0.06 and self.cnt[(c, t)] < 6:
            self.cnt[(c, t)] += 1                       # the topic grew a partition
            if r.random() < 0.3:
                self.dead[(c, t)].add(self.cnt[(c, t)] - 1)
        n = self.cnt[(c, t)]
        live = [q for q in range(n) if q not in self.dead[(c, t)]]
        if not live:
            return
        p = p if p is not None else r.choice(live)
        prev = self.boff.get((c, t, p))
        if prev is None:
            off = r.choice(BIG) if r.random() < 0.04 else r.randint(0, 2000)
        else:
            off = prev + r.choice([0, 1, 5, 50, 1000])
            if off > 2 ** 63 - 1:
                off = prev
        self.boff[(c, t, p)] = off
        self.tick(0, 3)
        self.add("B", self.now, c, t, p, n, off)

    def commit(self, c=None, g=None, t=None, p=None):
        r = self.rng
        c = c if c is not None else r.choice(self.clusters)
        g = g if g is not None else r.randint(1, self.ngroups)
        t = t if t is not None else r.randint(1, self.ntopics)
        n = self.cnt[(c, t)]
        if p is None:
            p = r.randint(0, n - 1) if r.random() < 0.93 else r.choice([n, n + 1, -1])
        b = self.boff.get((c, t, p), r.randint(0, 100))
        k = r.random()
        if k < 0.5:
            off = max(0, b - r.choice([0, 0, 1, 3, 10, 200]))
        elif k < 0.6:
            off = b + r.randint(1, 5)                    # consumer ahead of the broker
        elif k < 0.65:
            off = max(0, b - 2 ** 53 - 1) if b > 2 ** 53 else r.choice(BIG[:2])
        else:
            off = r.randint(0, max(1, b))
        off = min(off, 2 ** 63 - 1)
        if r.random() < 0.15:
            order = self.order - r.randint(0, 6)         # duplicate / out of order
        else:
            self.order += r.randint(1, 3)
            order = self.order
        self.tick(0, 8)
        ts = self.now * 1000 - r.randint(0, 900)
        if r.random() < 0.07:
            ts -= (self.expire + r.randint(0, 50)) * 1000   # too old: dropped
        self.add("C", self.now, c, g, t, p, off, order, ts)

    def owner(self, c=None, g=None, t=None, p=None):
        r = self.rng
        c = c if c is not None else r.choice(self.clusters)
        g = g if g is not None else r.randint(1, self.ngroups)
        t = t if t is not None else r.randint(1, self.ntopics)
        n = self.cnt[(c, t)]
        p = p if p is not None else r.randint(0, n - 1)
        self.tick(0, 2)
        self.add("O", self.now, c, g, t, p, r.randint(1, 5), r.randint(0, 3))

    def clear(self):
        r = self.rng
        self.tick(0, 2)
        self.add("X", self.now, r.choice(self.clusters), r.randint(1, self.ngroups))

    def ingest(self, n):
        r = self.rng
        for _ in range(n):
            k = r.random()
            if k < 0.30:
                self.broker()
            elif k < 0.82:
                self.commit()
            elif k < 0.96:
                self.owner()
            else:
                self.clear()

    def fill(self):
        """Fill one partition's window so that it is complete (orders ascending, spaced by more than min-distance)."""
        r = self.rng
        c, g, t = r.choice(self.clusters), r.randint(1, self.ngroups), r.randint(1, self.ntopics)
        live = [q for q in range(self.cnt[(c, t)]) if q not in self.dead[(c, t)]]
        if not live:
            return
        p = r.choice(live)
        if (c, t, p) not in self.boff:
            self.broker(c, t, p)
        for _ in range(self.intervals + r.randint(0, 1)):
            b = self.boff[(c, t, p)]
            self.order += 1
            self.now += self.mindist + r.randint(0, 2)
            self.add("C", self.now, c, g, t, p, max(0, b - r.choice([0, 2, 30])), self.order, self.now * 1000)
            if r.random() < 0.5:
                self.broker(c, t, p)
        self.tags.append("filled-window")

    # ---- deletions ----
    def deletion(self):
        r = self.rng
        kind = r.choice(["DT", "DGall", "DGtopic", "GG", "expire", "expire"])
        c = r.choice(self.clusters)
        self.tick(0, 3)
        if kind == "DT":
            t = r.randint(1, self.ntopics)
            self.add("DT", self.now, c, t)
            for p in range(8):
                self.boff.pop((c, t, p), None)
        elif kind == "DGall":
            self.add("DG", self.now, c, r.randint(1, self.ngroups), 0)
        elif kind == "DGtopic":
            self.add("DG", self.now, c, r.randint(1, self.ngroups), r.randint(1, self.ntopics))
        elif kind == "GG":
            self.add("GG", self.now, c, r.randint(1, self.ngroups))
        else:
            self.now += self.expire + r.randint(-3, 30)
            if r.random() < 0.5:                          # somebody keeps committing
                self.commit()
        self.tags.append("del:" + kind)

    def read(self):
        k = self.rng.choice(["R", "R", "RJ"])
        self.tick(0, 2)
        self.add(k, self.now)
        self.tags.append("read:" + k)

    def line(self):
        head = ["sys", self.intervals, self.expire, self.mindist, f32bits(self.mincomplete), self.allowed,
                len(self.clusters)] + self.clusters + [self.ngroups, self.ntopics, len(self.ops)]
        return " ".join(str(x) for x in head) + " " + " ".join(self.ops)


def gen_case(rng, base, idx):
    """Returns (line, tags)."""
    shape = idx % 8
    force = None
    if shape == 0:
        force = {"intervals": 1}                          # owner-only partitions are all-nil windows with Complete = 1.0
    h = Hist(rng, base, force)
    # every partition that has a leader gets a broker offset early on (so gaps are the leaderless ones)
    for c in h.clusters:
        for t in range(1, h.ntopics + 1):
            for p in range(h.cnt[(c, t)]):
                if p not in h.dead[(c, t)] and rng.random() < 0.85:
                    h.broker(c, t, p)
    h.ingest(rng.randint(6, 25))
    if rng.random() < 0.7:
        h.fill()
    if shape == 0:
        # a live group with a partition known only through an owner update
        c, g, t = rng.choice(h.clusters), rng.randint(1, h.ngroups), rng.randint(1, h.ntopics)
        live = [q for q in range(h.cnt[(c, t)]) if q not in h.dead[(c, t)] and (c, t, q) in h.boff]
        if len(live) >= 2:
            h.commit(c, g, t, live[0])
            h.owner(c, g, t, live[1])
            h.tags.append("owner-only-partition")
    h.read()
    rounds = rng.choice([1, 1, 2, 3])
    for _ in range(rounds):
        for _ in range(rng.randint(1, 3)):
            h.deletion()
        if rng.random() < 0.4:
            h.ingest(rng.randint(1, 8))
        h.read()
        if rng.random() < 0.5:
            h.ingest(rng.randint(2, 10))                  # re-creation after deletion
            if rng.random() < 0.4:
                h.fill()
            h.read()
    if any(any(q not in h.dead[k] for q in range(min(h.dead[k]) + 1, h.cnt[k])) for k in h.dead if h.dead[k]):
        h.tags.append("gap-in-topic")
    return h.line(), h.tags


def gen_warm_case(rng, base, idx):
    """A history read through a WARM evaluator cache (expire-cache = 1 real second): cold read, mutations, warm read
    (the cached status is served), sleep past the lifetime, read again (no flush: the entries have expired)."""
    h = Hist(rng, base, {"intervals": rng.choice([1, 1, 2]), "expire": 604800, "mindist": 0})
    h.clusters = h.clusters[:1]
    c = h.clusters[0]
    h.ngroups = rng.randint(1, 2)
    h.ntopics = rng.randint(2, 3)
    # swap variant (every third case; seed C17-r5-1): the groups consume topics 1..n-1 completely and topic n not at all; topic 1
    # is deleted, the warm read re-creates its series from the cached status, then the groups start on topic n with as many
    # partitions - the fresh read after the cache lifetime has to drop topic 1's series although the series count has not shrunk
    swap = idx % 3 == 0
    if swap:
        h.ntopics = 3
        same = rng.randint(1, 2)
    for t in range(1, h.ntopics + 1):
        h.cnt.setdefault((c, t), same if swap else rng.randint(1, 3))
        h.dead[(c, t)] = set()
        for p in range(h.cnt[(c, t)]):
            h.broker(c, t, p)
    # every group of the universe exists before the first read (a cached NOTFOUND for a group that appears later is
    # refreshed in the background by goswarm: not deterministic), with at least two topics
    for g in range(1, h.ngroups + 1):
        for t in range(1, h.ntopics + 1):
            for p in range(h.cnt[(c, t)]):
                if swap and t == h.ntopics:
                    continue
                if (c, t, p) in h.boff and (swap or rng.random() < 0.8 or p == 0):
                    for _ in range(h.intervals if rng.random() < 0.7 else 1):
                        h.order += 1
                        h.now += 1
                        b = h.boff[(c, t, p)]
                        h.add("C", h.now, c, g, t, p, max(0, b - rng.choice([0, 3, 40])), h.order, h.now * 1000)
    h.add("XC", h.now, 1)
    h.add(rng.choice(["R", "RJ"]), h.now)
    kinds = []
    for _ in range(1 if swap else rng.randint(1, 2)):
        k = "DT" if swap else rng.choice(["DT", "DGtopic", "DGtopic", "DT", "DGall", "GG", "commit", "broker"])
        kinds.append(k)
        h.now += 1
        if k == "DT":
            h.add("DT", h.now, c, 1 if swap else rng.randint(1, h.ntopics))
        elif k == "DGtopic":
            h.add("DG", h.now, c, rng.randint(1, h.ngroups), rng.randint(1, h.ntopics))
        elif k == "DGall":
            h.add("DG", h.now, c, rng.randint(1, h.ngroups), 0)
        elif k == "GG":
            h.add("GG", h.now, c, rng.randint(1, h.ngroups))
        elif k == "commit":
            g, t = rng.randint(1, h.ngroups), rng.randint(1, h.ntopics)
            p = rng.randrange(h.cnt[(c, t)])
            if (c, t, p) in h.boff:
                h.order += 1
                h.add("C", h.now, c, g, t, p, max(0, h.boff[(c, t, p)] - rng.choice([0, 1, 7])), h.order, h.now * 1000)
        else:
            t = rng.randint(1, h.ntopics)
            p = rng.randrange(h.cnt[(c, t)])
            if (c, t, p) in h.boff:
                h.boff[(c, t, p)] = min(h.boff[(c, t, p)] + rng.choice([1, 10, 100]), 2 ** 63 - 1)
                h.add("B", h.now, c, t, p, h.cnt[(c, t)], h.boff[(c, t, p)])
    h.add(rng.choice(["RW", "RW", "RJW"]), h.now)
    if swap:
        kinds.append("swap")
        t = h.ntopics
        for g in range(1, h.ngroups + 1):
            for p in range(h.cnt[(c, t)]):
                if (c, t, p) in h.boff:
                    h.order += 1
                    h.now += 1
                    h.add("C", h.now, c, g, t, p, max(0, h.boff[(c, t, p)] - rng.choice([0, 3, 40])), h.order, h.now * 1000)
    h.add("SL", h.now, 1250)
    h.now += 2
    h.add(rng.choice(["RW", "RJW"]), h.now)
    if rng.random() < 0.4:
        h.add("SL", h.now, 1250)
        h.add("RW", h.now)
    return h.line(), ["warm-cache"] + ["warm:" + k for k in kinds]


# ------------------------------------------------------------------------------------------------------
# parsing of a case and of an output line
# ------------------------------------------------------------------------------------------------------

ARITY = {"B": 5, "C": 7, "O": 6, "X": 2, "DT": 2, "GG": 2, "DG": 3, "R": 0, "RJ": 0, "RW": 0, "RJW": 0, "XC": 1, "SL": 1}
READS = ("R", "RJ", "RW", "RJW")


def parse_case(line):
    f = line.split()
    i = 1
    d = {"kind": f[0]}
    d["intervals"], d["expire"], d["mindist"], d["mincomplete"], d["allowed"] = (int(x) for x in f[i:i + 5])
    i += 5
    ncl = int(f[i])
    i += 1
    d["clusters"] = [int(x) for x in f[i:i + ncl]]
    i += ncl
    d["ngroups"], d["ntopics"], nops = int(f[i]), int(f[i + 1]), int(f[i + 2])
    i += 3
    ops = []
    for _ in range(nops):
        op, now = f[i], int(f[i + 1])
        n = ARITY[op]
        ops.append((op, now, [int(x) for x in f[i + 2:i + 2 + n]]))
        i += 2 + n
    d["ops"] = ops
    return d


def render_case(d, ops=None):
    ops = d["ops"] if ops is None else ops
    head = [d["kind"], d["intervals"], d["expire"], d["mindist"], d["mincomplete"], d["allowed"], len(d["clusters"])] + \
        d["clusters"] + [d["ngroups"], d["ntopics"], len(ops)]
    return " ".join(str(x) for x in head) + "".join(" %s %d%s" % (o, n, "".join(" %d" % a for a in args)) for o, n, args in ops)


def parse_offset(tok):
    if tok == "nil":
        return None
    a = tok.strip("()").split(",")
    return {"offset": int(a[0]), "ts": int(a[1]), "lag": None if a[2] == "n" else int(a[2])}


def parse_block(block):
    """One read phase: {'M': {key: value} | 'PANIC', 'CL':.., 'TL':{c:..}, 'TD':{(c,t):[..]|None}, 'TC', 'GL', 'GD', 'GS', 'GA'}.
    Raises ValueError on anything it does not understand (reported as a mismatch by the caller)."""
    segs = [s.strip() for s in block.split(" ; ")]
    out = {"TL": {}, "TD": {}, "TC": {}, "GL": {}, "GD": {}, "GS": {}, "GA": {}}
    m = segs[0].split()
    if m[:2] == ["M", "PANIC"]:
        out["M"] = "PANIC"
    elif m[0] == "M":
        ser = {}
        for s in m[2:]:
            k, v = s.split("=")
            if k in ser:
                raise ValueError("duplicate series " + k)
            ser[tuple(k.split(":"))] = v
        if len(ser) != int(m[1]):
            raise ValueError("series count")
        out["M"] = ser
    else:
        raise ValueError("no M segment: " + segs[0][:60])

    def ids(tok):
        if tok[0] == "NIL":
            return None
        if tok[0] != "L":
            raise ValueError("list: " + " ".join(tok)[:60])
        return [int(x) for x in tok[2:2 + int(tok[1])]]

    for s in segs[1:]:
        f = s.split()
        k = f[0]
        if k == "CL":
            out["CL"] = ids(f[1:])
        elif k in ("TL", "GL"):
            out[k][int(f[1])] = ids(f[2:])
        elif k == "TC":
            out[k][(int(f[1]), int(f[2]))] = ids(f[3:])
        elif k == "TD":
            r = f[3:]
            if r[0] == "NIL":
                v = None
            elif r[0] == "I":
                v = [int(x) for x in r[2:2 + int(r[1])]]
            else:
                raise ValueError("TD: " + s[:60])
            out[k][(int(f[1]), int(f[2]))] = v
        elif k == "GD":
            r = f[3:]
            if r[0] == "NIL":
                v = None
            elif r[0] == "K":
                v, j = {}, 2
                for _ in range(int(r[1])):
                    t, n = int(r[j]), int(r[j + 1])
                    j += 2
                    parts = []
                    for _ in range(n):
                        owner, client, lag, no = int(r[j]), int(r[j + 1]), int(r[j + 2]), int(r[j + 3])
                        j += 4
                        offs = [parse_offset(x) for x in r[j:j + no]]
                        j += no
                        parts.append({"owner": owner, "client": client, "lag": lag, "offsets": offs})
                    v[t] = parts
            else:
                raise ValueError("GD: " + s[:60])
            out[k][(int(f[1]), int(f[2]))] = v
        elif k in ("GS", "GA"):
            r = f[3:]
            if r[0] != "S":
                raise ValueError(k + ": " + s[:60])
            v = {"code": int(r[1]), "status": int(r[2]), "complete": int(r[3]), "count": int(r[4]), "totallag": int(r[5]),
                 "maxlag": None if r[6] == "n" else int(r[6]), "parts": []}
            j = 8
            for _ in range(int(r[7])):
                v["parts"].append({"topic": int(r[j]), "partition": int(r[j + 1]), "owner": int(r[j + 2]), "client": int(r[j + 3]),
                                   "status": int(r[j + 4]), "start": parse_offset(r[j + 5]), "end": parse_offset(r[j + 6]),
                                   "lag": int(r[j + 7]), "complete": int(r[j + 8])})
                j += 9
            out[k][(int(f[1]), int(f[2]))] = v
        else:
            raise ValueError("segment: " + s[:60])
    return out


def fl(v):
    """float64(v) as the exact integer it denotes (what a gauge holding v shows)."""
    return int(float(v))


def project(line):
    """Canonical form for the comparison: gauge values through the float64 conversion (the model keeps exact integers)."""
    out = []
    for block in line.split(" | "):
        segs = block.split(" ; ")
        m = segs[0].split()
        if m and m[0] == "M" and len(m) > 1 and m[1] != "PANIC":
            conv = []
            for s in m[2:]:
                k, _, v = s.partition("=")
                try:
                    v = str(fl(int(v)))
                except ValueError:
                    pass
                conv.append(k + "=" + v)
            segs[0] = " ".join(m[:2] + sorted(conv))
        out.append(" ; ".join(segs))
    return " | ".join(out)


# ------------------------------------------------------------------------------------------------------
# the property's oracle, applied to the implementation's own output and the ingest history
# ------------------------------------------------------------------------------------------------------

def oracle(case, impl_line):
    """Returns a list of (rule, detail, info) violations of C17 on the implementation's output.
    Rules (no more than the property states):
      panic        a read did not answer
      json-shape   a documented JSON key (offset, timestamp, lag, owner, client_id, current-lag, current_lag, status, start, end,
                   complete, partition_count, totallag, maxlag, ...) is missing or not of its documented type
      outlives     /metrics reports a series labelled with a group / topic / group-topic that the JSON detail endpoint
                   of the same read phase reports as not found (deleted or expired)
      listed       a list endpoint names a group / topic whose detail endpoint answers 404 in the same read phase
      disagree     /metrics and the JSON status (or topic detail) of the same read phase disagree (value, or a series
                   without its JSON counterpart, or a JSON value without its series)
      attribution  a topic offset reported for partition p (JSON position p, or series partition="p") is not the last
                   broker offset ingested for partition p of that topic
      provenance   an offset / owner shown for a consumer partition was never ingested for that partition"""
    d = parse_case(case)
    bad = []
    blocks = impl_line.split(" | ")
    reads = [b for b in blocks if b.startswith("M ")]
    extra = [b for b in blocks if not b.startswith("M ")]
    if extra:
        bad.append(("panic", extra[0][:200], {}))
    # ingest bookkeeping
    last_b = {}          # (c,t,p) -> last broker offset since the topic's (re)creation
    commits = {}         # (c,g,t,p) -> set of offsets ever sent
    owners = {}          # (c,g,t,p) -> set of owners ever sent
    ri = 0
    del_groups, del_topics = set(), set()   # deleted (tombstone / API delete / topic deletion) and not ingested again since
    lcache = 3600000     # expire-cache in ms (the probe's default)
    cold = True          # no cache entry filled before the next read can still be valid
    for op, now, a in d["ops"]:
        if op == "B":
            last_b[(a[0], a[1], a[2])] = a[4]
            del_topics.discard((a[0], a[1]))
        elif op == "C":
            commits.setdefault((a[0], a[1], a[2], a[3]), set()).add(a[4])
            del_groups.discard((a[0], a[1]))
        elif op == "O":
            owners.setdefault((a[0], a[1], a[2], a[3]), set()).add((a[4], a[5]))
            del_groups.discard((a[0], a[1]))
        elif op == "GG" or (op == "DG" and a[2] == 0):
            del_groups.add((a[0], a[1]))
        elif op == "DT":
            del_topics.add((a[0], a[1]))
            for k in [k for k in last_b if k[0] == a[0] and k[1] == a[1]]:
                del last_b[k]
        elif op == "XC":
            lcache = a[0] * 1000
            cold = True
        elif op == "SL":
            if a[0] > lcache:
                cold = True
        elif op in READS:
            if op in ("R", "RJ"):
                cold = True
            if ri >= len(reads):
                bad.append(("panic", "read phase %d missing" % ri, {}))
                break
            try:
                blk = parse_block(reads[ri])
            except (ValueError, IndexError) as e:
                bad.append(("json-shape", "read phase %d: a documented JSON field / series is missing or malformed (%s)" % (ri, e), {}))
                ri += 1
                continue
            bad += check_block(d, blk, ri, op, dict(last_b), commits, owners, cold)
            bad += check_deleted(blk, ri, del_groups, del_topics, cold)
            ri += 1
            cold = False
    return bad


def check_block(d, blk, ri, op, last_b, commits, owners, cold=True):
    bad = []
    M = blk["M"]
    if M == "PANIC":
        return [("panic", "GET /metrics did not answer in read phase %d" % ri, {"read": ri})]
    where = {"read": ri}
    gone_keys = set()
    # ---- outlives / listed ----
    # A warm read (the evaluator cache may hold a status older than the last ingest / deletion, for at most expire-cache
    # seconds - C05 bounds that) is judged on what does not go through the cache, and on /metrics agreeing with the lag
    # endpoint (same cache) for the groups storage lists; "nothing outlives" is demanded of the cold reads.
    for (c, g), v in (blk["GD"].items() if cold else []):
        gone = v is None and blk["GA"].get((c, g), {}).get("code") == 404
        if gone:
            ks = [k for k in M if k[1] == str(c) and k[2] == str(g)]
            gone_keys.update(ks)
            if ks:
                bad.append(("outlives", "series %s for group g%d of k%d which is not found" % (":".join(ks[0]), g, c),
                            dict(where, group=(c, g))))
            if g in (blk["GL"].get(c) or []):
                rule = "listed" if op == "R" else "listed-before-purge"
                bad.append((rule, "consumer list of k%d names g%d, whose detail (asked after it) is 404" % (c, g),
                            dict(where, group=(c, g))))
        elif v is not None:
            ks = [k for k in M if k[1] == str(c) and k[2] == str(g) and k[3] != "-" and int(k[3]) not in v]
            gone_keys.update(ks)
            if ks:
                bad.append(("outlives", "series %s for topic t%s which group g%d no longer consumes" % (":".join(ks[0]), ks[0][3], g),
                            dict(where, group=(c, g))))
    for (c, t), v in blk["TD"].items():
        if v is None:
            ks = [k for k in M if k[1] == str(c) and k[3] == str(t) and (cold or k[0] == "TO")]
            gone_keys.update(ks)
            if ks:
                bad.append(("outlives", "series %s for topic t%d of k%d which is not found" % (":".join(ks[0]), t, c),
                            dict(where, topic=(c, t))))
            if t in (blk["TL"].get(c) or []):
                bad.append(("listed", "topic list of k%d names t%d whose detail is 404" % (c, t), dict(where, topic=(c, t))))
    # ---- /metrics vs the JSON views of the same read phase ----
    exp, opt = {}, {}
    unlisted = set()
    for (c, g), st in blk["GA"].items():
        if st["code"] != 200:
            continue
        if not cold and g not in (blk["GL"].get(c) or []):
            unlisted.add((str(c), str(g)))           # a cached status of a group storage no longer lists: not scraped
            continue
        exp[("TL", str(c), str(g), "-", "-")] = fl(st["totallag"])
        exp[("ST", str(c), str(g), "-", "-")] = st["status"]
        for p in st["parts"]:
            lab = (str(c), str(g), str(p["topic"]), str(p["partition"]))
            exp[("PL",) + lab] = fl(p["lag"])
            if p["end"] is not None:
                # required for a complete window; for an incomplete one the code chooses not to report (allowed either way)
                tgt = exp if p["complete"] == F32_ONE else opt
                tgt[("PO",) + lab] = fl(p["end"]["offset"])
                tgt[("PS",) + lab] = p["status"]
        gs = blk["GS"].get((c, g))
        if gs and (gs["code"], gs["status"], gs["complete"], gs["count"], gs["totallag"], gs["maxlag"]) != \
                (st["code"], st["status"], st["complete"], st["count"], st["totallag"], st["maxlag"]):
            bad.append(("disagree", "status and lag endpoints differ on the summary of g%d" % g, dict(where, group=(c, g))))
    for (c, t), v in blk["TD"].items():
        for i, o in enumerate(v or []):
            exp[("TO", str(c), "-", str(t), str(i))] = fl(o)
    nd = 0
    for k, v in exp.items():
        if k not in M:
            nd += 1
            if nd <= 3:
                bad.append(("disagree", "JSON holds %s = %d but /metrics has no such series" % (":".join(k), v), dict(where, key=k)))
        elif M[k] != str(v):
            nd += 1
            if nd <= 3:
                bad.append(("disagree", "series %s = %s but the JSON view of the same moment gives %d" % (":".join(k), M[k], v),
                            dict(where, key=k)))
    for k in M:
        if k in opt:
            if M[k] != str(opt[k]):
                bad.append(("disagree", "series %s = %s but the JSON view of the same moment gives %d" % (":".join(k), M[k], opt[k]),
                            dict(where, key=k)))
            continue
        if k not in exp and k not in gone_keys and (k[1], k[2]) not in unlisted:
            nd += 1
            if nd <= 3:
                bad.append(("disagree", "series %s = %s has no counterpart in the JSON views of the same moment" % (":".join(k), M[k]),
                            dict(where, key=k)))
    # ---- attribution of topic offsets: what is shown for partition p is partition p's own last broker offset ----
    for (c, t), v in blk["TD"].items():
        if v is None:
            continue
        have = sorted(p for (cc, tt, p) in last_b if (cc, tt) == (c, t))
        gap = bool(have) and len(have) != have[-1] + 1           # a partition with a smaller id has no broker offset
        msg = None
        for i, o in enumerate(v):
            if last_b.get((c, t, i)) != o:
                msg = "position %d shows %d, partition %d was last given %s" % (i, o, i, last_b.get((c, t, i)))
                break
        if msg is None:
            for p in have:
                if p >= len(v):
                    msg = "partition %d was given %d but only %d offsets are shown" % (p, last_b[(c, t, p)], len(v))
                    break
        if msg:
            bad.append(("attribution", "topic t%d of k%d: %s" % (t, c, msg), dict(where, topic=(c, t), gap=gap)))
    # ---- provenance of consumer data ----
    for (c, g), v in blk["GD"].items():
        for t, parts in (v or {}).items():
            for p, part in enumerate(parts):
                for o in part["offsets"]:
                    if o is not None and o["offset"] not in commits.get((c, g, t, p), ()):
                        bad.append(("provenance", "g%d t%d partition %d shows offset %d never committed for it" % (g, t, p, o["offset"]),
                                    dict(where, group=(c, g))))
                if part["owner"] != 0 and (part["owner"], part["client"]) not in owners.get((c, g, t, p), ()):
                    bad.append(("provenance", "g%d t%d partition %d shows owner o%d never announced for it" % (g, t, p, part["owner"]),
                                dict(where, group=(c, g))))
    return bad


def check_deleted(blk, ri, del_groups, del_topics, cold):
    """Once a group or topic has been deleted (and nothing was ingested for it since) no endpoint and no series names it.
    Topics are never cached: demanded of every read; groups: of the cold reads (a cached status may be served for the cache
    lifetime), except the storage-backed endpoints, which are demanded always."""
    bad = []
    M = blk["M"] if blk["M"] != "PANIC" else {}
    for (c, g) in sorted(del_groups):
        if blk["GD"].get((c, g)) is not None or g in (blk["GL"].get(c) or []):
            bad.append(("outlives", "group g%d of k%d was deleted and is still listed / detailed" % (g, c), {"read": ri, "group": (c, g)}))
        elif cold and (blk["GA"].get((c, g), {}).get("code") == 200 or any(k[1] == str(c) and k[2] == str(g) for k in M)):
            bad.append(("outlives", "group g%d of k%d was deleted and is still served (status / series)" % (g, c), {"read": ri, "group": (c, g)}))
    for (c, t) in sorted(del_topics):
        if blk["TD"].get((c, t)) is not None or t in (blk["TL"].get(c) or []) or any(k[0] == "TO" and k[1] == str(c) and k[3] == str(t) for k in M):
            bad.append(("outlives", "topic t%d of k%d was deleted and is still listed / detailed / has offset series" % (t, c),
                        {"read": ri, "topic": (c, t)}))
        elif cold and any(k[1] == str(c) and k[3] == str(t) for k in M):
            bad.append(("outlives", "topic t%d of k%d was deleted and a group still has series for it" % (t, c), {"read": ri, "topic": (c, t)}))
    return bad


def classify(case, rule, info):
    """Key of the recorded finding that explains this oracle failure, or None."""
    if rule == "attribution" and info.get("gap"):
        return "C17:topic-offset-position"
    if rule == "listed-before-purge":
        return "C17:expired-group-listed"
    return None


def shrink(case, fails):
    """Greedy removal of ops (keeping the last read) while `fails(line)` stays true."""
    d = parse_case(case)
    ops = list(d["ops"])
    changed = True
    budget = 60
    while changed and budget > 0:
        changed = False
        for i in range(len(ops) - 1, -1, -1):
            if budget <= 0:
                break
            cand = ops[:i] + ops[i + 1:]
            if not any(o[0] in READS for o in cand):
                continue
            budget -= 1
            if fails(render_case(d, cand)):
                ops = cand
                changed = True
    return render_case(d, ops)
