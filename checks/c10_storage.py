"""C10, storage half: the real InMemoryStorage with REAL allow/deny regexps (the probe `storage` compiles
group-allowlist / group-denylist patterns such that exactly the ids listed in the history header are rejected) against the
extracted model Burrow.Storage whose cf_accept is that id set.  The lead's checks/c10.py calls run_part(chk).

Oracles on the implementation's replies alone (delgen.py):
  * negative half (storage_rejected_never_enters): no FetchConsumers / FetchConsumersForTopic listing shows a rejected group
    and FetchConsumer of a rejected group answers not-found — whichever of the three ingestion paths (offset commit, owner
    update, owner clear) it arrived on;
  * positive half (storage_lists_only_filter): the same history with the lists switched off and the rejected groups'
    ingestion requests removed must produce exactly the same replies — accepted groups are processed as if no lists existed.
Modes: deny (denylist only), allow (allowlist only), both (complementary lists), wide (allowlist matching every name + denylist:
rejected names are matched by both lists); in allow/both the ids 0 (empty name) and >= 10 are matched by neither list and must
be rejected through the allowlist alone.
Present-but-empty keys (a deployed burrow.toml ships `group-allowlist=""`): modes edeny / eallow / eboth (only empty keys:
NOTHING may be rejected — the positive half then says the replies equal those of the list-free run of the same history),
edeny_allow / eallow_deny (an empty key next to a real pattern on the other list).  Configuration path suffix @set / @toml /
@dflt: every option (lists, intervals, expire-group, min-distance, workers, queue-depth) reaches the module through the real
Configure, from viper.Set keys or from a TOML document read with viper.ReadConfig; @dflt leaves intervals / expire-group /
min-distance out so that the documented defaults (10, 604800, 0 — the header values given to the model) are exercised."""
import common as C
import storage_common as SC
import storagegen
import delgen as G


def _impl(chk, lines, name):
    return chk.run_impl("storage", "TestVerifProbeStorage", lines, name=name)


def _verdict(chk, lines, impls=None, name="lists_pos"):
    """per line: list of failure descriptions (negative-half oracle + positive-half comparison)"""
    if impls is None:
        impls = _impl(chk, lines, name + "_a")
    stripped = [G.strip_rejected(ln) for ln in lines]
    impl2 = _impl(chk, stripped, name + "_b")
    out = []
    for ln, a, s, b in zip(lines, impls, stripped, impl2):
        fs = [f[2] for f in G.oracle_c10(ln, a)]
        if a != b:
            sa, sb = SC.segments(a), SC.segments(b)
            k = next((i for i, (x, y) in enumerate(zip(sa, sb)) if x != y), min(len(sa), len(sb)))
            fs.append("accepted groups are treated differently with the lists configured: reply #%d is %r, but %r when no lists are "
                      "set and the rejected groups' requests are left out" % (k, sa[k][:160] if k < len(sa) else None,
                                                                              sb[k][:160] if k < len(sb) else None))
        out.append(fs)
    return out


def run_part(chk, n=None):
    rng = chk.rng
    if n is None:
        n = 220 if not chk.thorough else 6000
    lines, tags = [], []
    for ln in C.read_corpus(chk.pid, "storage_cases.txt"):
        lines.append(ln)
        tags.append({"corpus"})
    for i in range(n):
        h = G.gen_lists(rng, i)
        lines.append(h.line())
        tags.append(h.tags)
    for i in range(n // 3):
        h = storagegen.gen_general(rng, "lists")
        lines.append(h.line())
        tags.append({"storagegen-lists", "mode-" + h.mode})
    impl, model = SC.run_both(chk, lines, "lists")
    chk.evaluations += len(lines)
    chk.traces_validated += len(lines)
    verdicts = _verdict(chk, lines, impl)

    for ln, tg, a in zip(lines, tags, impl):
        chk.count("st:histories")
        for t in tg:
            chk.count("st:" + t)
        # non-trivial: a rejected group arrived on an ingestion path AND an accepted group is reported with data
        head, ops = SC.split_history(ln)
        rej = set(G.parse_header(head)["rej"])
        rej_ingest = any(o[0] in ("C", "O", "X") and int(o[3]) in rej for o in ops)
        acc_data = any(seg.startswith("K ") and not seg.startswith("K 0") for seg in SC.segments(a))
        if rej_ingest and acc_data:
            chk.nontrivial.add(C.case_hash(ln))
            chk.count("st:rejected-ingested-and-accepted-reported")
        mode_tok = G.parse_header(head)["mode"]
        if mode_tok.startswith("e") and acc_data:
            chk.nontrivial.add(C.case_hash(ln))
            chk.count("st:empty-list-key-and-group-reported")
    for i in (0, len(lines) // 2):
        chk.sample({"case": lines[i][:600], "impl": impl[i][:600], "model": model[i][:600]})

    # The four booleans of acceptConsumerGroup (allowlist set? matches? denylist set? matches?) for every group name a history uses,
    # from the pattern texts the probe configures: StorageDelProofs.storage_accept of them must be the model's cf_accept (membership
    # in the header's rejected-id set).  The real regexps' verdicts are tied to that set by the differential above; this closes the
    # chain  real acceptConsumerGroup = cf_accept = storage_accept(a_set, a_m, d_set, d_m)  (theorem C10_accept_spec_storage).
    bad_lists = []
    for ln in lines:
        head, ops = SC.split_history(ln)
        cfg = G.parse_header(head)
        rej = set(cfg["rej"])
        for g in sorted({int(o[3]) for o in ops if o[0] in ("C", "O", "X", "FX", "DG")}):
            v = G.list_verdicts(cfg, g)
            chk.count("st:accept a_set=%d a_m=%d d_set=%d d_m=%d -> %s" % (v + ("accept" if G.storage_accept(*v) else "reject",)))
            if G.storage_accept(*v) != (g not in rej):
                bad_lists.append((ln, g, v))
    if bad_lists:
        ln, g, v = bad_lists[0]
        chk.violation("storage_four_booleans", {"kind": "history", "case": ln, "broken": "corr:storage.acceptConsumerGroup four booleans "
                      "(StorageDelProofs.storage_accept) vs cf_accept", "oracle_verdict": "group id %d: (a_set, a_m, d_set, d_m) = %r gives %s "
                      "but the header's rejected set says %s" % (g, v, G.storage_accept(*v), g not in rej)}, found_input=False)

    found = 0
    for i, (ln, fs) in enumerate(zip(lines, verdicts)):
        if not fs:
            continue
        found += 1
        if found > 3:
            continue
        small = G.ddmin(ln, lambda ls: [bool(v) for v in _verdict(chk, ls, name="lists_shrink")])
        a, m = SC.run_both(chk, [small], "lists_report")
        chk.violation("storage_%d" % i, {"kind": "history", "probe": "storage/TestVerifProbeStorage", "case": small,
                                         "impl_output": a[0], "model_output": m[0],
                                         "oracle_verdict": _verdict(chk, [small], name="lists_report2")[0][:4],
                                         "broken": "StorageDelProofs.storage_rejected_never_enters / storage_lists_only_filter",
                                         "cmd": "bin/check C10 --replay <this file>"})
    mism = [(i, ln, a, b) for i, (ln, a, b) in enumerate(zip(lines, impl, model)) if a != b]
    if mism and not found:
        extra = [G.gen_lists(rng, i).line() for i in range(4 * n)]
        ev = _verdict(chk, extra, name="lists_search")
        hit = next(((ln, fs) for ln, fs in zip(extra, ev) if fs), None)
        if hit:
            small = G.ddmin(hit[0], lambda ls: [bool(v) for v in _verdict(chk, ls, name="lists_shrink")])
            a, m = SC.run_both(chk, [small], "lists_report")
            chk.violation("storage_search", {"kind": "history", "probe": "storage/TestVerifProbeStorage", "case": small,
                                             "impl_output": a[0], "model_output": m[0],
                                             "oracle_verdict": _verdict(chk, [small], name="lists_report2")[0][:4],
                                             "broken": "StorageDelProofs.storage_rejected_never_enters / storage_lists_only_filter",
                                             "cmd": "bin/check C10 --replay <this file>"})
            found += 1
        else:
            i, ln, a, b = mism[0]
            small = SC.shrink(chk, ln, lambda x, y: x != y)
            a, m = SC.run_both(chk, [small], "lists_report")
            chk.violation("storage_mismatch_%d" % i, {"kind": "history", "probe": "storage/TestVerifProbeStorage", "case": small,
                                                      "impl_output": a[0], "model_output": m[0],
                                                      "oracle_verdict": "no rejected group listed and accepted groups unaffected; the implementation differs from Burrow.Storage.step",
                                                      "broken": "corr:storage.acceptConsumerGroup call sites (Burrow.Storage.step)",
                                                      "cmd": "bin/check C10 --replay <this file>"}, found_input=False)
    chk.assumptions += [
        "storage lists: the probe turns the header's rejected-id set into real group-allowlist / group-denylist regexps (deny: ^(g3|g5)$; "
        "allow: ^(g1|g2|..)$ over ids 0..9; both: both; wide: allowlist ^(g[0-9]+)?$ + the denylist, so rejected names match BOTH lists); "
        "the model's cf_accept is membership in that id set; ids 0 (empty name) and >= 10 are matched by NEITHER list in allow/both mode",
        "a list key that is present but empty means `no list` (model: cf_accept accepts; HEAD: GetString(key) != \"\"); modes edeny/eallow/eboth/"
        "edeny_allow/eallow_deny set such keys through viper.Set and through a TOML document (viper.ReadConfig); @dflt exercises Configure's defaults",
    ]
    return {"cases": len(lines), "mismatches": len(mism), "oracle_failures": found}


def replay_case(chk, case):
    """used by the lead's c10.replay for storage histories (case lines starting with `hist`)"""
    a, m = SC.run_both(chk, [case], "replay")
    fs = _verdict(chk, [case], a, name="replay_v")[0]
    print("case  : %s\nimpl  : %s\nmodel : %s" % (case, a[0], m[0]))
    for f in fs:
        print("oracle: " + f)
    if not fs:
        print("oracle: accepts")
    return 1 if (fs or a[0] != m[0]) else 0
