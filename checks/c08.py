"""C08 — storage stays safe, ordered and snapshot-consistent under concurrency."""
import json
import os
import re
import subprocess
import time

import common as C
import concgen
from framework import ProbeBroken

PROBE_KEY = "storageconc"
TEST = "TestVerifProbeStorageconc"
LOCK_FIELDS = ("brokerLock", "consumerLock", "lock")
OPS = {"Lock": "vOpLock", "RLock": "vOpRLock", "Unlock": "vOpUnlock", "RUnlock": "vOpRUnlock"}
LOCK_CALL = re.compile(r"((?:\w+\.)+)(brokerLock|consumerLock|lock)\.(Lock|RLock|Unlock|RUnlock)\(\)")
ANY_LOCK_CALL = re.compile(r"\.(Lock|RLock|Unlock|RUnlock|TryLock|TryRLock)\(\)")


# ---------------------------------------------------------------------------------------------
# translator tables
# ---------------------------------------------------------------------------------------------

def pre(chk):
    """Regenerate coq/gen/{LocksetTable,RouterTable}.v from /repo before the proof obligations are checked."""
    C.write_gen("LocksetTable", C.run_translator("lockset", ["locks"]))
    C.write_gen("RouterTable", C.run_translator("lockset", ["router"]))


# ---------------------------------------------------------------------------------------------
# the scheduler build: overlay = clock rewrite + probe (common.make_overlay) + lock-call rewrite of inmemory.go
# ---------------------------------------------------------------------------------------------

def rewrite_locks(src):
    """x.<lockfield>.Lock() -> verifLockOp(x.<lockfield>, vOpLock) etc., token for token (no line added).
    Returns (new source, number rewritten, number of lock-like calls left alone)."""
    n = [0]

    def sub(m):
        n[0] += 1
        return "verifLockOp(%s%s, %s)" % (m.group(1), m.group(2), OPS[m.group(3)])
    new = LOCK_CALL.sub(sub, src)
    left = len(ANY_LOCK_CALL.findall(new))
    return new, n[0], left


def build_conc_probe(race=False):
    """go test -c of core/internal/storage with the probe injected and inmemory.go's lock calls turned into scheduler
    yield points.  Returns (binary, None, info) or (None, compiler output, info)."""
    with C.Lock("probe_" + PROBE_KEY):
        overlay = C.make_overlay(PROBE_KEY)
        ov = json.load(open(overlay))
        target = os.path.join(C.REPO, "core/internal/storage/inmemory.go")
        srcpath = ov["Replace"].get(target, target)
        new, n, left = rewrite_locks(open(srcpath).read())
        dst = os.path.join(C.BUILD, "overlay_src", PROBE_KEY, "storage__inmemory_sched.go")
        open(dst, "w").write(new)
        ov["Replace"][target] = dst
        json.dump(ov, open(overlay, "w"), indent=1)
        out = os.path.join(C.BUILD, "probes", PROBE_KEY + (".race" if race else "") + ".test")
        os.makedirs(os.path.dirname(out), exist_ok=True)
        env = dict(C.GO_ENV)
        if race:
            env["CGO_ENABLED"] = "1"
        cmd = ["go", "test", "-c", "-tags", "verif", "-vet=off", "-overlay", overlay, "-o", out]
        if race:
            cmd.append("-race")
        cmd.append("./core/internal/storage")
        p = C.sh(cmd, cwd=C.REPO, env=env, timeout=1500, check=False)
        info = {"lock_calls_rewritten": n, "lock_like_calls_left": left}
        if p.returncode != 0:
            return None, p.stdout, info
        return out, None, info


def run_impl(chk, binp, cases, name):
    cpath = os.path.join(chk.work, name + ".txt")
    with open(cpath, "w") as f:
        for c in cases:
            f.write(c + "\n")
    ipath = os.path.join(chk.work, name + ".impl")
    if os.path.exists(ipath):
        os.remove(ipath)
    rc, out = C.run_probe(binp, TEST, cpath, ipath, timeout=1800)
    impl = open(ipath).read().splitlines() if os.path.exists(ipath) else []
    return rc, out, impl


def run_model_lines(chk, lines, name):
    cpath = os.path.join(chk.work, name + ".mtxt")
    with open(cpath, "w") as f:
        for c in lines:
            f.write(c + "\n")
    mpath = os.path.join(chk.work, name + ".model")
    C.run_model("storageconc", cpath, mpath)
    model = open(mpath).read().splitlines()
    if len(model) != len(lines):
        raise C.BuildError("model produced %d lines for %d cases" % (len(model), len(lines)))
    return model


TOK = re.compile(r"^(\d+)\.(\S+?)/(\w+)$")


def trace_tokens(line):
    head = line.split(" | ")[0]
    return head.split()[1:] if head.startswith("T") else []


def prios_from_trace(impl_line):
    """One visiting order per step that read-locks a consumer list (in the order these steps happen): the groups whose
    locks the same worker takes next, until it takes another kind of lock or finishes."""
    cur, prios = {}, []
    for tok in trace_tokens(impl_line):
        m = TOK.match(tok)
        if not m:
            continue
        w, acq = int(m.group(1)), m.group(2)
        if acq.startswith("C") and acq.endswith("r"):
            cur[w] = []
            prios.append(cur[w])
        elif acq.startswith("G") and w in cur:
            try:
                cur[w].append(int(acq[1:-1].split(".")[1]))
            except (ValueError, IndexError):
                pass
        else:
            cur.pop(w, None)
    return prios


def model_line(case, impl_line):
    pr = prios_from_trace(impl_line)
    f = [case, "prio", str(len(pr))]
    for p in pr:
        f.append(str(len(p)))
        f += [str(g) for g in p]
    return " ".join(f)


def norm(line):
    """What is compared with the model: the panic text and the broker views (oracle input only) are dropped."""
    line = re.sub(r" \| v\d+: V[^|]*(?= \||$)", "", line)
    line = re.sub(r"^CONFIG-REFUSED \S*", "CONFIG-REFUSED", line)
    return re.sub(r"\| CRASH \S*", "| CRASH", line).rstrip()


def parse_view(seg):
    """'V nt {t np {x|n|off}}' -> {topic: [None | 'n' | int]}"""
    f = seg.split()
    out, i = {}, 2
    for _ in range(int(f[1])):
        t, npart = int(f[i]), int(f[i + 1]); i += 2
        out[t] = [None if x == "x" else ("n" if x == "n" else int(x)) for x in f[i:i + npart]]
        i += npart
    return out


def interleaved(impl_line):
    """True if some worker's request was overtaken: executed steps do not form one block per worker."""
    seq = []
    for tok in trace_tokens(impl_line):
        m = TOK.match(tok)
        if m:
            seq.append(m.group(1))
    blocks = [k for i, k in enumerate(seq) if i == 0 or seq[i - 1] != k]
    return len(blocks) > len(set(blocks))


U64 = 1 << 64


def stale_reached(impl_line):
    """Some fetchConsumer reply holds a topic the broker map lacked at delivery (the resurrected entry)."""
    secs = impl_line.split(" | ")
    for s in secs:
        if re.match(r"v\d+: V ", s):
            try:
                if any(v and all(x is None for x in v) for v in parse_view(s.split(": ", 1)[1]).values()):
                    return True
            except Exception:
                pass
    return False


def parse_consumer(seg):
    import storage_common
    return storage_common.parse_consumer(seg)


def oracle(impl_line, case=None):
    """The property's own demands evaluated on the implementation's output alone.  Returns a list of failures.
    (The hypothesis 1 <= intervals of conc_no_crash is discharged by InMemoryStorage.Configure, which refuses smaller
    values since c110ef6 - the probe then prints CONFIG-REFUSED and nothing runs; a crash is a crash for every
    configuration that Configure accepts.)"""
    bad = []
    secs = impl_line.split(" | ")
    for s in secs[1:]:
        if s.startswith("CRASH"):
            bad.append("crash: a handler panicked (%s) - worker goroutines have no recover, the process dies" % s[6:])
        elif s == "DEADLOCK":
            bad.append("deadlock: requests remain but every worker waits for a lock held by a parked worker")
        elif s == "HANG":
            bad.append("hang: a handler neither reached a lock operation nor returned within 5 s")
        elif s == "alias=1":
            bad.append("reply altered: a delivered reply read differently after later writes (it aliases live storage state)")
    # every partition of every topic of every fetchConsumer reply, against the broker side at delivery
    for j, s in enumerate(secs):
        if not re.match(r"r\d+: K ", s):
            continue
        try:
            reply = parse_consumer(s.split(": ", 1)[1])
            view = parse_view(secs[j + 1].split(": ", 1)[1]) if j + 1 < len(secs) and re.match(r"v\d+: V ", secs[j + 1]) else None
            for t, parts in reply.items():
                for i, p in enumerate(parts):
                    offs = p["offsets"]
                    newest = view[t][i] if view is not None else None
                    if isinstance(newest, int):
                        # the broker map has this topic and partition with an offset: the reply must carry it ...
                        if not p["brokers"] or p["brokers"][-1] != newest:
                            bad.append("reply inconsistent: topic %d partition %d: the broker map holds offset %d but the reply has BrokerOffsets=%s"
                                       % (t, i, newest, p["brokers"]))
                            continue
                    if p["brokers"] and offs and offs[-1] is not None:
                        # ... and the lag is max 0 (newest broker offset - newest commit)
                        want = max(0, p["brokers"][-1] - offs[-1][0]) % U64
                        if p["lag"] != want:
                            bad.append("reply inconsistent: topic %d partition %d CurrentLag=%d but last broker offset %d - last commit %d"
                                       % (t, i, p["lag"], p["brokers"][-1], offs[-1][0]))
        except Exception as e:  # unparsable reply
            bad.append("reply unparsable: %s" % e)
    return bad


def coq_query(chk, body):
    """Evaluates a term over the regenerated tables with coqc (the checkers themselves, not a re-implementation)."""
    d = os.path.join(chk.work, "query")
    os.makedirs(d, exist_ok=True)
    src = os.path.join(d, "Q.v")
    open(src, "w").write(
        "From Coq Require Import String List NArith Bool.\nFrom Burrow Require Import Lockset.\nOpen Scope bool_scope.\n"
        "From BurrowGen Require Import LocksetTable RouterTable.\nImport ListNotations.\n"
        "Definition keyed := handler_keyed routes handlers.\n" + body + "\n")
    with C.Lock("coq", shared=True):
        p = C.sh(["timeout", "300", "coqc", "-Q", os.path.join(C.COQ, "theories"), "Burrow", "-Q", os.path.join(C.COQ, "gen"), "BurrowGen", src],
                 cwd=d, check=False)
    return p.stdout or ""


def table_diagnostics(chk):
    """Which rows / pairs / acquisitions / routes make the table obligations fail (file:line of inmemory.go)."""
    out = coq_query(chk, """
Definition show_row (r : row) := (r_handler r, r_func r, r_line r, r_class r, r_rw r, r_locks r, r_own r, keyed (r_handler r)).
Eval vm_compute in ("RACE_FREE", race_free keyed table, "LOCK_ORDER", lock_order_ok acquires, "ROUTER", router_check constants routes handlers problems table).
Eval vm_compute in ("BADROWS", map show_row (bad_rows table)).
Eval vm_compute in ("BADPAIRS", map (fun p => (show_row (fst p), show_row (snd p))) (bad_pairs keyed table)).
Eval vm_compute in ("BADACQS", map (fun a => (a_handler a, a_func a, a_line a, a_class a, a_mode a, a_before a)) (bad_acqs acquires)).
Eval vm_compute in ("ROUTES", routes, "PROBLEMS", problems,
  "UNHASHED_WRITERS", filter (fun ch => writes_own_group table (snd ch) && negb (match route_of routes (fst ch) with Some RHashed => true | _ => false end)) handlers,
  "UNHANDLED", filter (fun c => negb (match route_of routes c with Some RAny | Some RHashed => true | _ => false end && existsb (fun ch => String.eqb (fst ch) c) handlers)) constants).
""")
    flat = re.sub(r"\s+", " ", out)
    res = {"raw": flat[-6000:]}
    m = re.search(r'"RACE_FREE", (\w+), "LOCK_ORDER", (\w+), "ROUTER", (\w+)', flat)
    if m:
        res["race_free"], res["lock_order_ok"], res["router_check"] = (x == "true" for x in m.groups())
    rows, unclassified = [], []
    for mm in re.finditer(r'\("(\w+)", "(\w+)", (\d+)%N, \(?(C\w+(?: "[^"]*")?)\)?, ([RW]),', flat):
        txt = "core/internal/storage/inmemory.go:%s %s (in %s) %s %s" % (mm.group(3), mm.group(2), mm.group(1), mm.group(4), mm.group(5))
        if mm.group(4).startswith("CUnknown"):
            # not a classified access that breaks the discipline: something the translator could not classify
            unclassified.append("core/internal/storage/inmemory.go:%s %s (in %s): %s" % (mm.group(3), mm.group(2), mm.group(1), mm.group(4)[9:]))
        else:
            rows.append(txt)
    for mm in re.finditer(r'\("(\w+)", "(\w+)", (\d+)%N, (L\w+), (M\w), (\[[^\]]*\])\)', flat):
        rows.append("core/internal/storage/inmemory.go:%s %s (in %s) acquires %s %s while holding %s"
                    % (mm.group(3), mm.group(2), mm.group(1), mm.group(4), mm.group(5), mm.group(6)))
    m = re.search(r'"UNHASHED_WRITERS", (.*?), "UNHANDLED", (.*?)\)\s*:', flat)
    route_line = dict((mm.group(1), mm.group(3)) for mm in re.finditer(r'\("(Storage\w+)", (R\w+), (\d+)%N\)', flat))
    route_kind = dict((mm.group(1), mm.group(2)) for mm in re.finditer(r'\("(Storage\w+)", (R\w+), (\d+)%N\)', flat))
    mp = re.search(r'"PROBLEMS", (\[.*?\]), "UNHASHED_WRITERS"', flat)
    if mp:
        for mm in re.finditer(r'"((?:[^"]|"")*)"', mp.group(1)):
            unclassified.append("core/internal/storage/inmemory.go (dispatch): " + mm.group(1))
    for k, kind in sorted(route_kind.items()):
        if kind == "RUnknown":
            unclassified.append("core/internal/storage/inmemory.go:%s mainLoop: the way the worker for %s is chosen is not understood" % (route_line[k], k))
    if m:
        for mm in re.finditer(r'\("(Storage\w+)", "(\w+)"\)', m.group(1)):
            if route_kind.get(mm.group(1)) == "RUnknown":
                continue
            rows.append("core/internal/storage/inmemory.go:%s mainLoop dispatches %s as %s but its handler %s writes the state of its own group"
                        % (route_line.get(mm.group(1), "?"), mm.group(1), route_kind.get(mm.group(1), "not at all"), mm.group(2)))
        for mm in re.finditer(r'"(Storage\w+)"', m.group(2)):
            if route_kind.get(mm.group(1)) == "RUnknown":
                continue
            rows.append("core/internal/storage/inmemory.go mainLoop / the handler table do not handle %s" % mm.group(1))
    res["unclassified"] = sorted(set(unclassified))
    res["rows"] = sorted(set(rows))
    return res


CONSTANTS = ["StorageSetBrokerOffset", "StorageSetConsumerOffset", "StorageSetConsumerOwner", "StorageSetDeleteTopic",
             "StorageSetDeleteGroup", "StorageFetchClusters", "StorageFetchConsumers", "StorageFetchTopics", "StorageFetchConsumer",
             "StorageFetchTopic", "StorageClearConsumerOwners", "StorageFetchConsumersForTopic"]
KEYED_CONSTANTS = {"StorageSetConsumerOffset", "StorageSetConsumerOwner", "StorageSetDeleteGroup", "StorageFetchConsumer",
                   "StorageClearConsumerOwners"}


def router_probe(chk, binp):
    """Behavioural side of the router table: 48 requests of each type for one (cluster, group) through mainLoop of a
    4-worker module; group-keyed types (the ones StorageConc.keyed_group names) must always reach the same worker."""
    opath = os.path.join(chk.work, "router.out")
    if os.path.exists(opath):
        os.remove(opath)
    rc, out = C.run_probe(binp, "TestVerifProbeStorageconcRouter", os.devnull, opath, timeout=300)
    if rc != 0 or not os.path.exists(opath):
        return None, "router probe failed rc=%s: %s" % (rc, out[-800:])
    line = open(opath).read().strip()
    seen = {}
    for tok in line.split()[1:]:
        k, v = tok.split("=")
        seen[int(k)] = v
    bad = []
    for i, name in enumerate(CONSTANTS):
        v = seen.get(i, "")
        if name in KEYED_CONSTANTS and (len(v) != 1 or not v.isdigit()):
            bad.append("%s: 48 requests for cluster k1 / group g7 reached workers {%s} - requests of one group are no longer "
                       "handled by one worker in submission order" % (name, v))
        if "closed" in v or v == "":
            bad.append("%s: not dispatched to any worker (%s)" % (name, v or "lost"))
    return line, bad


def table_violation(chk, failed_names, diag, extra=None, dynamic_found=False):
    """A failed table obligation.
    * A CLASSIFIED row that breaks the discipline (lock missing / wrong mode / cyclic order / keyed type not hashed / shared
      pointer put into a reply): the replay is those rows (file:line) - a concrete table row.
    * Only because the translator could NOT classify something (CUnknown rows, dispatch it cannot read): no claim of a
      failing input is made from the table; the dynamic search (scheduler schedules, router probe, -race stress) has been
      run by the caller; if it found nothing the verdict carries `no-failing-input-found` and the replay names the
      constructs.  Rows that fail next to an unclassified construct may be artefacts of it and are listed separately."""
    flagged = [n for n, k in (("lockset_table_race_free", "race_free"), ("lock_order_table_ok", "lock_order_ok"),
                              ("router_table_ok", "router_check")) if diag.get(k) is False]
    unclassified = diag.get("unclassified") or []
    rep = {"kind": "table", "broken": flagged or failed_names, "all_failed_obligations": failed_names,
           "probe": "translator/lockset (coq/gen/LocksetTable.v, RouterTable.v)",
           "race_free": diag.get("race_free"), "lock_order_ok": diag.get("lock_order_ok"), "router_check": diag.get("router_check"),
           "coq_output": diag.get("raw"), "cmd": "bin/check C08 --tier quick"}
    if unclassified:
        rep["unclassified_constructs"] = unclassified
        rep["rows_possibly_artefacts_of_the_unclassified_constructs"] = diag.get("rows")
        rep["oracle_verdict"] = ("the translator could not classify the constructs listed under unclassified_constructs, so the lockset / "
                                 "lock-order / router theorems do not apply to this tree; this is NOT a classified access that breaks the "
                                 "discipline. Dynamic search (scheduler schedules + router probe + -race stress): %s"
                                 % ("found failing inputs, reported separately" if dynamic_found else "found nothing"))
        found = False
    else:
        rep["rows"] = diag.get("rows")
        rep["oracle_verdict"] = ("the lock discipline / lock order / router table regenerated from the working tree fails its checker on "
                                 "CLASSIFIED rows: the listed accesses conflict without a common lock (or a lock is requested against the "
                                 "order, a channel operation happens under a lock, or a group-keyed type is not hashed), so lockset_sound no "
                                 "longer applies. Dynamic search (scheduler schedules + router probe + -race stress): %s"
                                 % ("confirmed by failing inputs, reported separately" if dynamic_found else
                                    "found nothing - the rows may also come from an imprecision of the translator; no failing input is claimed"))
        # a table row alone is a claim about the code only as far as the translator is precise: without a confirming
        # schedule / race report the verdict says so
        found = bool(diag.get("rows")) and dynamic_found
    if extra:
        rep.update(extra)
    chk.violation("table", rep, found_input=found)


def stress(chk, seconds):
    """-race stress through the public channel: only to FIND a concrete replay, never as the proof."""
    binp, err, _ = build_conc_probe(race=True)
    if binp is None:
        return {"error": (err or "")[-1500:]}
    env = dict(os.environ)
    env.update({"VERIF_STRESS": str(seconds), "VERIF_SEED": str(chk.seed)})
    p = subprocess.run("ulimit -v 12000000; exec timeout %d %s -test.run '^TestVerifProbeStorageconcStress$' -test.count=1" % (seconds + 120, binp),
                       shell=True, env=env, stdout=subprocess.PIPE, stderr=subprocess.STDOUT, text=True, cwd=os.path.dirname(binp))
    txt = p.stdout or ""
    pairs = {}
    for r in txt.split("=================="):
        if "DATA RACE" not in r:
            continue
        blocks = r.split("Previous")
        a = re.findall(r"inmemory\.go:(\d+)", blocks[0])
        b = re.findall(r"inmemory\.go:(\d+)", blocks[1].split("Goroutine")[0]) if len(blocks) > 1 else []
        k = "inmemory.go:%s / inmemory.go:%s" % (a[0] if a else "?", b[0] if b else "?")
        pairs[k] = pairs.get(k, 0) + 1
    fatal = re.findall(r"^(fatal error: .*|panic: .*)$", txt, flags=re.M)
    return {"rc": p.returncode, "data_races": pairs, "fatal": fatal[:3], "tail": txt[-1500:] if (pairs or fatal or p.returncode) else ""}


def gen_cases(chk):
    cases, tags = [], []
    for ln in C.read_corpus(chk.pid):
        cases.append(ln)
        tags.append(["corpus"])
    n_random = 1500 if not chk.thorough else 40000
    for i in range(n_random):
        ln, tg = concgen.gen_random(chk.rng, i)
        cases.append(ln)
        tags.append(tg)
    n_stale = 250 if not chk.thorough else 6000
    for i in range(n_stale):
        ln, tg = concgen.gen_stale_topic(chk.rng, i)
        cases.append(ln)
        tags.append(tg)
    kinds = concgen.KINDS9
    import itertools
    pairs = list(itertools.combinations_with_replacement(kinds, 2))
    for pr in pairs:
        for ln, tg in concgen.gen_tuple_exhaustive(chk.rng, list(pr), limit=(14 if not chk.thorough else None)):
            cases.append(ln)
            tags.append(tg)
    triples = list(itertools.combinations_with_replacement(kinds, 3))
    if not chk.thorough:
        triples = chk.rng.sample(triples, 40)
    for tr in triples:
        for ln, tg in concgen.gen_tuple_exhaustive(chk.rng, list(tr), limit=(6 if not chk.thorough else 250)):
            cases.append(ln)
            tags.append(tg)
    return cases, tags


def differential(chk, binp, cases, name):
    rc, out, impl = run_impl(chk, binp, cases, name)
    if rc != 0 or len(impl) != len(cases):
        return impl, None, [("probe", rc, out[-3000:], cases[len(impl)] if len(impl) < len(cases) else None)]
    mlines = [model_line(c, a) for c, a in zip(cases, impl)]
    model = run_model_lines(chk, mlines, name)
    mism = [(i, c, a, b) for i, (c, a, b) in enumerate(zip(cases, impl, model)) if norm(a) != norm(b)]
    chk.evaluations += len(cases)
    chk.traces_validated += len(cases)
    return impl, model, mism


def run(chk, failed):
    chk.rule = ("schedules: request queues for 2-3 workers (router-consistent: group-keyed requests of one (cluster, group) on one worker, in "
                "submission order) + a list of worker ids; the real handlers run under the deterministic lock-boundary scheduler and are "
                "compared with the extracted StorageConc.sched_run on: the lock acquired by every step (and blocked / idle steps), every reply, "
                "the full final state of every map and ring, crash / deadlock, and replies re-read after later writes. Cases: corpus, random "
                "request sets on a populated state, directed stale-topic cases (a group consuming 2-4 topics with fresh broker offsets and non-zero lag; "
                "a commit on ONE topic passes its broker lookup, the whole deleteTopic of that topic runs, the commit re-creates the entry; then the "
                "group is fetched 3-6 times so that Go's map order puts the stale topic before the live ones), and interleavings of every pair (and sampled triples) of the 9 request kinds "
                "B C O X DT DG FX FU FO concerning one topic / group. Non-trivial = some request was overtaken by another worker between two of "
                "its steps; distinct by the case line")
    table_failed = [n for n, _ in failed if n.startswith("theorem:") or n.startswith("props/")]
    diag = None
    if failed:
        diag = table_diagnostics(chk)

    binp, err, info = build_conc_probe()
    chk.notes.append("scheduler rewrite: %s" % info)
    if binp is None:
        raise ProbeBroken("probe %s does not compile against the tree:\n%s" % (PROBE_KEY, (err or "")[-3000:]))
    if info["lock_calls_rewritten"] == 0 or info["lock_like_calls_left"] != 0:
        chk.violation("scheduler_rewrite", {"kind": "schedule", "broken": "tie:scheduler-rewrite",
                                            "detail": "lock operations the rewriter does not recognise (%s): the scheduler cannot control them" % info},
                      found_input=False)

    rline, rbad = router_probe(chk, binp)
    chk.notes.append("router probe: %s" % (rline,))
    chk.evaluations += 1
    if rline is None:
        chk.violation("router_probe", {"kind": "input", "broken": "tie:router", "detail": rbad}, found_input=False)
    elif rbad:
        chk.violation("router", {"kind": "input", "probe": "storage/TestVerifProbeStorageconcRouter", "case": "48 requests per StorageRequestConstant, "
                                 "cluster k1, group g7, 4 workers, through module.requestChannel", "impl_output": rline,
                                 "broken": "router_group_keyed_complete / conc_group_one_worker (wf_queues)", "oracle_verdict": rbad,
                                 "cmd": "bin/check C08 --tier quick"})

    cases, tags = gen_cases(chk)
    if diag and diag.get("lock_order_ok") is False:
        # the lock order of the table is cyclic: look for the deadlock itself, every interleaving of every pair
        import itertools
        for pr in itertools.combinations_with_replacement(concgen.KINDS9, 2):
            for variant in range(2):
                for ln, tg in concgen.gen_tuple_exhaustive(chk.rng, list(pr), limit=None, variant=variant):
                    cases.append(ln)
                    tags.append(["deadlock-search", tg[1]])
    impl, model, mism = differential(chk, binp, cases, "sched")
    if model is None:
        kind, rc, out, case = mism[0]
        chk.violation("probe_died", {"kind": "schedule", "probe": "storage/" + TEST, "case": case, "impl_output": out,
                                     "broken": "conc_no_crash", "oracle_verdict": "the probe process died on this case (rc %s)" % rc,
                                     "cmd": "bin/check C08 --replay <this file>"})
        return
    for c, tg, a in zip(cases, tags, impl):
        chk.count("src:" + tg[0])
        for k in tg[2:] if tg[0] == "random" else []:
            chk.count("kind:" + k)
        if tg[0] == "stale":
            chk.count("stale:" + tg[1])
            chk.count("stale-entry-reached", 1 if stale_reached(a) else 0)
        if tg[0] == "tuple":
            chk.count("tuple-size:%d" % (tg[1].count("+") + 1))
        toks = trace_tokens(a)
        chk.count("steps", len(toks))
        chk.count("blocked-steps", sum(1 for t in toks if t.endswith(".b")))
        if interleaved(a):
            chk.nontrivial.add(C.case_hash(c))
    for i in (0, len(cases) // 2, len(cases) - 1):
        chk.sample({"case": cases[i], "impl": impl[i], "model": model[i]})

    # 1. the property's own oracle on EVERY implementation output (crash, deadlock, altered reply, inconsistent reply)
    reported = 0
    oracle_hits = []
    for i, (c, a) in enumerate(zip(cases, impl)):
        bad = oracle(a, c)
        if bad:
            oracle_hits.append((i, c, a, bad))
    for (i, c, a, bad) in oracle_hits[:4]:
        chk.violation("sched_%d" % i, {"kind": "schedule", "probe": "storage/" + TEST, "case": c, "impl_output": a, "model_output": model[i],
                                       "broken": "conc_no_crash / conc_reply_consistent / conc_deadlock_free", "oracle_verdict": bad,
                                       "cmd": "bin/check C08 --replay <this file>"})
        reported += 1

    # 2. failed proof obligations: classified bad rows are a concrete replay; unclassifiable constructs are reported as such,
    #    after the dynamic search (the schedules above, the router probe, and a -race stress run) - never as a found input
    tables_fine = bool(diag) and diag.get("race_free") and diag.get("lock_order_ok") and diag.get("router_check") and not diag.get("unclassified")
    if failed and tables_fine:
        # the regenerated tables pass their checkers: what failed is a proof obligation itself (Coq build, gate, a theorem)
        chk.violation("obligation", {"kind": "theorem", "broken": [n for n, _ in failed], "detail": [d[-800:] for _, d in failed][:4],
                                     "oracle_verdict": "a proof obligation of props/C08.v (or the build / the no-admit gate) failed while the "
                                                       "regenerated lockset / lock-order / router tables pass their checkers"},
                      found_input=False)
        reported += 1
    elif failed:
        stress_rep = None
        unclassified = bool(diag and diag.get("unclassified"))
        found_so_far = bool(oracle_hits or mism or rbad)
        if diag and (unclassified or not found_so_far) and os.environ.get("VERIF_C08_STRESS", "1") != "0":
            stress_rep = stress(chk, 10)
            if stress_rep.get("data_races") or stress_rep.get("fatal"):
                chk.violation("race_stress", {"kind": "schedule", "probe": "storage/TestVerifProbeStorageconcStress (-race)", "report": stress_rep,
                                              "broken": "lockset_sound (data race observed at run time)",
                                              "oracle_verdict": "the Go race detector / runtime reported a race in inmemory.go",
                                              "cmd": "VERIF_STRESS=10 <race binary> -test.run TestVerifProbeStorageconcStress"})
        dynamic_found = bool(oracle_hits or mism or rbad or (stress_rep and (stress_rep.get("data_races") or stress_rep.get("fatal"))))
        table_violation(chk, [n for n, _ in failed], diag or {}, extra={"race_stress": stress_rep, "details": [d[-800:] for _, d in failed][:3]},
                        dynamic_found=dynamic_found)
        reported += 1

    # 3. the implementation left the verified model on some schedule
    if mism and not oracle_hits:
        for (i, c, a, b) in mism[:3]:
            chk.violation("corr_%d" % i, {"kind": "schedule", "probe": "storage/" + TEST, "case": c, "impl_output": a, "model_output": b,
                                          "broken": "corr:StorageConc.sched_run (conc_group_order / conc_reply_consistent are proved of the model; "
                                                    "on this schedule the implementation takes other locks, answers differently or ends in another state)",
                                          "oracle_verdict": "implementation differs from the verified interleaving model on a concrete schedule",
                                          "cmd": "bin/check C08 --replay <this file>"},
                          found_input=True)
        reported += 1
    chk.notes.append("mismatches: %d of %d; oracle failures: %d" % (len(mism), len(cases), len(oracle_hits)))

    if chk.thorough:
        st = stress(chk, 30)
        chk.notes.append("race stress (30 s, 16 goroutines, public channel): %s" % st)
        if st.get("data_races") or st.get("fatal"):
            chk.violation("race_stress", {"kind": "schedule", "probe": "storage/TestVerifProbeStorageconcStress (-race)", "report": st,
                                          "broken": "lockset_sound (data race observed at run time)",
                                          "oracle_verdict": "the Go race detector / runtime reported a race in inmemory.go",
                                          "cmd": "VERIF_STRESS=30 <race binary> -test.run TestVerifProbeStorageconcStress"})
    chk.assumptions += [
        "lock granularity: between two lock operations a handler is atomic; the Go memory model below that (word tearing, compiler/CPU "
        "reordering, the runtime's concurrent-map fault) is NOT exhibited by the model - covered only through the lockset theorem over the "
        "regenerated access table (every conflicting access pair shares a lock or a worker)",
        "router: requests are put on worker queues directly (same (cluster, group) => same worker); mainLoop's dispatch is tied by gen/RouterTable.v",
        "requests are well formed (0 <= partition < TopicPartitionCount for broker offsets); TimeoutSendStorageRequest dropping requests is not modelled",
        "1 <= intervals (hypothesis of conc_no_crash, conc_group_one_worker_partial, conc_group_final_state_partial, run_alone_refines): discharged by "
        "InMemoryStorage.Configure, which refuses intervals < 1 (/repo c110ef6; workers < 1: 746d605) - tied by the corpus case intervals = 0 => "
        "CONFIG-REFUSED on implementation and driver; C19's model has the site StorageIntervals",
        "Go map iteration order is taken from the implementation's own lock trace and handed to the model as `prio`",
    ]
    chk.trusted += ["translator/lockset (go/ast + go/types walk of inmemory.go; unclassifiable => failing row)",
                    "scheduler rewrite of lock call sites in the overlay copy of inmemory.go (checks/c08.py rewrite_locks) and the scheduler in probes/storageconc",
                    "Go race detector: only to find replays"]


def replay(path):
    rep = json.load(open(path))
    case = rep.get("case")
    if not case:
        print(json.dumps(rep, indent=1)[:4000])
        return 0
    class _Scratch:      # own scratch directory: a replay must not wipe the work directory of a running check
        work = C.work_dir("C08_replay")
    chk = _Scratch()
    binp, err, info = build_conc_probe()
    if binp is None:
        print(err)
        return 2
    rc, out, impl = run_impl(chk, binp, [case], "replay")
    print("impl :", impl[0] if impl else "(probe died rc=%s)\n%s" % (rc, out[-2000:]))
    if impl:
        model = run_model_lines(chk, [model_line(case, impl[0])], "replay")
        print("model:", model[0])
        print("oracle:", oracle(impl[0], case) or "ok")
        return 1 if (oracle(impl[0], case) or norm(impl[0]) != norm(model[0])) else 0
    return 1
