"""Deletion / expiry / allow-deny-list histories for the storage layer (C09, C10 storage half), and the executable
oracles of those two properties.  The oracles are functions of the history line (the inputs) and of the
IMPLEMENTATION's reply line alone; the model's output is never consulted.

A history line is the format of storagegen.Hist.line():
    hist <intervals> <expire> <mindist> <ncl> <cl..> <mode> <nrej> <rej..> <nops> <op..>
Every op is `<KIND> <clock-seconds> <args..>`; the probe prints one reply per fetch op (` | ` separated) and the token CRASH
when a handler panicked (the history ends there).

Events.  The oracles look for the pattern  <run of fetch ops> <op> <run of fetch ops>  with all clocks equal:
  * op = DG / DT                     : removal + frame (property sentence 1)
  * op = C with ts < (now-expire)*1000: a too-old commit must change no reply (sentence 2, last clause)
  * op = FX whose before-run holds no FX: an expiry probe: reported not found => unlisted afterwards and nothing else changes;
                                        all commits older than the expiry time => must be reported not found;
                                        all commits recent and the group was reported before => must still be reported
`fetch_all` issues the FX of every group FIRST: FX is the only fetch that writes (lazy purge), so once every group has been
asked at clock T no further purge can happen at clock T and the two runs around an op are comparable.
"""
import storage_common as SC

I64MAX = 2**63 - 1


# ---------------------------------------------------------------------------------------------------------------------
# parsing
# ---------------------------------------------------------------------------------------------------------------------

def parse_header(head):
    """head = tokens up to (excluding) nops, as returned by storage_common.split_history."""
    intervals, expire, mindist = int(head[1]), int(head[2]), int(head[3])
    ncl = int(head[4])
    clusters = [int(x) for x in head[5:5 + ncl]]
    mode = head[5 + ncl]
    nrej = int(head[6 + ncl])
    rej = [int(x) for x in head[7 + ncl:7 + ncl + nrej]]
    return dict(intervals=intervals, expire=expire, mindist=mindist, clusters=clusters, mode=mode, rej=rej)


def align(ops, outline):
    """reply string per op index (None for ops without a reply or not reached); second result: index of the op that crashed."""
    segs = SC.segments(outline)
    replies = [None] * len(ops)
    k = 0
    crashed_at = None
    fetch_idx = [i for i, o in enumerate(ops) if o[0] in SC.FETCH]
    for i in fetch_idx:
        if k >= len(segs):
            break
        if segs[k] == "CRASH":
            break
        replies[i] = segs[k]
        k += 1
    if k < len(segs) and segs[k] == "CRASH":
        crashed_at = -1
    return replies, crashed_at


def parse_list(rep):
    """'L n a b c' -> set, 'NIL' -> None"""
    if rep is None or rep == "NIL":
        return None
    f = rep.split()
    assert f[0] == "L", rep
    return [int(x) for x in f[2:]]


def consumer_topics(rep):
    """FX reply -> {topic: canonical text of its partitions} or None for NIL"""
    if rep is None or rep == "NIL":
        return None
    d = SC.parse_consumer(rep)
    return {t: repr(v) for t, v in d.items()}


def key_of(op):
    return (op[0],) + tuple(int(x) for x in op[2:])


def fetch_run_before(ops, i):
    j = i
    while j > 0 and ops[j - 1][0] in SC.FETCH and ops[j - 1][1] == ops[i][1]:
        j -= 1
    return range(j, i)


def fetch_run_after(ops, i):
    j = i + 1
    while j < len(ops) and ops[j][0] in SC.FETCH and ops[j][1] == ops[i][1]:
        j += 1
    return range(i + 1, j)


def snapshot(ops, replies, rng_, before=None, explained=()):
    """{fetch key: reply} over a run of fetch ops; None if some op of the run has no reply (crash).
    FetchConsumer is the one fetch that writes (it purges an expired group), so group listings are only comparable when no
    purge can lie between them and the bracketed op:
      * in a BEFORE run (before=None) the FG/FU replies issued ahead of a later not-found FX are dropped;
      * in an AFTER run (before = the before-snapshot) the FG/FU replies issued after a not-found FX are dropped unless that
        FX was already not-found in the before run (then it purged nothing now) or is the group the bracketed op deleted
        (`explained`)."""
    idx = list(rng_)
    for j in idx:
        if replies[j] is None:
            return None
    snap = {}
    if before is None:
        last_nil = max([j for j in idx if ops[j][0] == "FX" and replies[j] == "NIL"], default=-1)
        for j in idx:
            if ops[j][0] in ("FG", "FU") and j < last_nil:
                continue
            snap[key_of(ops[j])] = replies[j]
    else:
        dirty = False
        for j in idx:
            k = key_of(ops[j])
            if ops[j][0] == "FX" and replies[j] == "NIL" and before.get(k) != "NIL" and k not in explained:
                dirty = True
            if ops[j][0] in ("FG", "FU") and dirty:
                continue
            snap[k] = replies[j]
    return snap


# ---------------------------------------------------------------------------------------------------------------------
# the C09 oracle
# ---------------------------------------------------------------------------------------------------------------------

def _minus(lst, x):
    return sorted(v for v in lst if v != x)


def check_deletion(op, before, after):
    """Removal and frame for one DG/DT op.  Returns a list of failure descriptions (empty = property holds here)."""
    kind = op[0]
    bad = []
    if kind == "DG":
        c, g, t = int(op[2]), int(op[3]), int(op[4])
    else:
        c, t = int(op[2]), int(op[3])
        g = None
    for k, a in after.items():
        b = before.get(k)
        if b is None:
            b = a          # not fetched before the deletion: only the removal clauses below can fail for this key
        fk, kc = k[0], (k[1] if len(k) > 1 else None)
        if fk == "FC":
            if a != b:
                bad.append("frame: cluster list changed %r -> %r" % (b, a))
            continue
        if kc != c:
            if a != b:
                bad.append("frame: other cluster, %s: %r -> %r" % (k, b, a))
            continue
        # same cluster
        if kind == "DG" and t == 0:
            if fk == "FX" and k[2] == g:
                if a != "NIL":
                    bad.append("removal: FetchConsumer of the deleted group answers %r" % a)
            elif fk in ("FG", "FU"):
                la, lb = parse_list(a), parse_list(b)
                if (la is None) != (lb is None):
                    bad.append("frame: %s: %r -> %r" % (k, b, a))
                elif la is not None:
                    if g in la:
                        bad.append("removal: %s still lists the deleted group: %r" % (k, a))
                    if sorted(la) != _minus(lb, g):
                        bad.append("frame: %s: %r -> %r (expected the old list without group %d)" % (k, b, a, g))
            elif a != b:
                bad.append("frame: %s: %r -> %r" % (k, b, a))
        elif kind == "DG":
            if fk == "FX" and k[2] == g:
                ta, tb = consumer_topics(a), consumer_topics(b)
                if ta is not None and t in ta:
                    bad.append("removal: topic %d still in the detail of group %d: %r" % (t, g, a))
                if tb is None:
                    if ta is not None:
                        bad.append("frame: group %d was not found before the deletion and is reported after it: %r" % (g, a))
                else:
                    rest = {x: v for x, v in tb.items() if x != t}
                    if ta is None:
                        if rest:
                            bad.append("frame: group %d lost its other topics %s" % (g, sorted(rest)))
                    elif ta != rest and not (t in ta and {x: v for x, v in ta.items() if x != t} == rest):
                        bad.append("frame: remaining topics of group %d differ: %r -> %r" % (g, b, a))
            elif fk == "FU":
                la, lb = parse_list(a), parse_list(b)
                if (la is None) != (lb is None):
                    bad.append("frame: %s: %r -> %r" % (k, b, a))
                elif la is not None:
                    if k[2] == t:
                        if g in la:
                            bad.append("removal: %s still lists group %d: %r" % (k, g, a))
                        if sorted(la) != _minus(lb, g):
                            bad.append("frame: %s: %r -> %r" % (k, b, a))
                    elif sorted(la) != sorted(lb):
                        bad.append("frame: %s: %r -> %r" % (k, b, a))
            elif fk == "FG":
                la, lb = parse_list(a), parse_list(b)
                if (la is None) != (lb is None):
                    bad.append("frame: %s: %r -> %r" % (k, b, a))
                elif la is not None and sorted(la) != sorted(lb):
                    # the group itself may disappear, but only when nothing of it is left
                    tb = consumer_topics(before.get(("FX", c, g)))
                    fu = parse_list(before.get(("FU", c, t)))
                    rest = {x for x in (tb or {}) if x != t}
                    if not (sorted(la) == _minus(lb, g) and not rest):
                        bad.append("frame: %s: %r -> %r" % (k, b, a))
                    elif (tb is not None and t in tb) or (fu is not None and g in fu):
                        pass        # its last topic was deleted: the group goes with it (the documented mechanism)
                    elif tb is not None or fu is not None:
                        # the bracket shows that the group did NOT consume the topic: a group without topics was unlisted by
                        # deleting something that does not exist
                        bad.append("frame: group %d does not consume topic %d (deleting what does not exist) yet it is dropped from %s: "
                                   "%r -> %r" % (g, t, k, b, a))
                    # else: undecidable from this bracket (neither the group's detail nor the topic's consumer list was fetched)
            elif a != b:
                bad.append("frame: %s: %r -> %r" % (k, b, a))
        else:  # DT
            if fk == "FT":
                la, lb = parse_list(a), parse_list(b)
                if (la is None) != (lb is None):
                    bad.append("frame: %s: %r -> %r" % (k, b, a))
                elif la is not None:
                    if t in la:
                        bad.append("removal: deleted topic still in the topic list: %r" % a)
                    if sorted(la) != _minus(lb, t):
                        bad.append("frame: %s: %r -> %r" % (k, b, a))
            elif fk == "FO" and k[2] == t:
                if a != "NIL":
                    bad.append("removal: FetchTopic of the deleted topic answers %r" % a)
            elif fk == "FU" and k[2] == t:
                la = parse_list(a)
                if la:
                    bad.append("removal: groups still listed for the deleted topic: %r" % a)
                if (la is None) != (parse_list(b) is None):
                    bad.append("frame: %s: %r -> %r" % (k, b, a))
            elif fk == "FX":
                ta, tb = consumer_topics(a), consumer_topics(b)
                if ta is not None and t in ta:
                    bad.append("removal: deleted topic still in the detail of group %d: %r" % (k[2], a))
                if (ta is None) != (tb is None):
                    bad.append("frame: %s: %r -> %r" % (k, b, a))
                elif ta is not None and {x: v for x, v in ta.items() if x != t} != {x: v for x, v in tb.items() if x != t}:
                    bad.append("frame: other topics of group %d changed: %r -> %r" % (k[2], b, a))
            elif a != b:
                bad.append("frame: %s: %r -> %r" % (k, b, a))
    return bad


def threshold(cfg, now):
    return (now - cfg["expire"]) * 1000


def _track(op, i, replies, commits, found):
    """updates the book-keeping with op i (called before op i is judged; an FX's own reply is recorded afterwards)"""
    k = op[0]
    if k == "C":
        key = (int(op[2]), int(op[3]))
        ts = int(op[8])
        mm = commits.get(key)
        commits[key] = [ts, ts] if mm is None else [min(mm[0], ts), max(mm[1], ts)]
    elif k == "DG":
        found.pop((int(op[2]), int(op[3])), None)
    elif k == "DT":
        for key in [x for x in found if x[0] == int(op[2])]:
            del found[key]


def _track_stored(op, i, cfg, st):
    """Book-keeping for the clause `only commits OLDER than the expiry time are ignored on arrival`: st["must"][(c, g)] = (i, t)
    when op i is a commit that nothing but the too-old rule could drop: known cluster, group not rejected by the lists, the
    partition has a broker offset (a B op for exactly that partition, not deleted since), it is the first commit for that
    (cluster, group, topic, partition) since the last deletion touching it (so it appends to an empty ring), and its timestamp is
    not older than the expiry time.  Cleared by any deletion that touches the group or the topic."""
    k = op[0]
    if k == "B":
        c, t, p, cnt = int(op[2]), int(op[3]), int(op[4]), int(op[5])
        if 0 <= p < cnt:
            st["bpart"].add((c, t, p))
    elif k == "C":
        c, g, t, p, ts = int(op[2]), int(op[3]), int(op[4]), int(op[5]), int(op[8])
        thr = threshold(cfg, int(op[1]))
        if (c in cfg["clusters"] and g not in cfg["rej"] and (c, t, p) in st["bpart"] and (c, g, t, p) not in st["seen"]
                and -2**63 <= thr < 2**63 and ts >= thr and not (cfg["mode"].split("@")[0] in ("allow", "both", "edeny_allow") and (g == 0 or g > 9))):
            st["must"][(c, g)] = (i, t)
        # "sure": the largest timestamp among the commits of the group that were CERTAINLY stored - handed to the ring (known
        # cluster, accepted by the lists, broker offset for the partition, not too old on arrival) and either the partition's
        # first commit or one with a log position above every earlier one of that partition (then it is placed as the newest).
        # The timestamp is the ARRIVED commit's own: a min-distance merge rewrites the ring slot, not the group's newest time.
        order = int(op[7])
        if (c in cfg["clusters"] and storage_accept(*list_verdicts(cfg, g)) and (c, t, p) in st["bpart"]
                and -2**63 <= thr < 2**63 and ts >= thr):
            top = st["ord"].get((c, g, t, p))
            if top is None or order > top:
                cur = st["sure"].get((c, g))
                if cur is None or ts > cur[0]:
                    st["sure"][(c, g)] = (ts, i)
        if (c, g, t, p) not in st["ord"] or order > st["ord"][(c, g, t, p)]:
            st["ord"][(c, g, t, p)] = order
        st["seen"].add((c, g, t, p))
    elif k == "DT":
        c, t = int(op[2]), int(op[3])
        st["bpart"] = {x for x in st["bpart"] if not (x[0] == c and x[1] == t)}
        st["seen"] = {x for x in st["seen"] if not (x[0] == c and x[2] == t)}
        st["ord"] = {x: v for x, v in st["ord"].items() if not (x[0] == c and x[2] == t)}
        for key in [x for x, v in st["must"].items() if x[0] == c and v[1] == t]:
            del st["must"][key]
    elif k == "DG":
        c, g, t = int(op[2]), int(op[3]), int(op[4])
        st["seen"] = {x for x in st["seen"] if not (x[0] == c and x[1] == g and (t == 0 or x[2] == t))}
        st["ord"] = {x: v for x, v in st["ord"].items() if not (x[0] == c and x[1] == g and (t == 0 or x[2] == t))}
        st["must"].pop((c, g), None)
        st["sure"].pop((c, g), None)


def oracle_c09(line, impl_line):
    """All C09 failures of one history: list of (op index, kind, description)."""
    head, ops = SC.split_history(line)
    cfg = parse_header(head)
    replies, _ = align(ops, impl_line)
    out = []
    commits = {}     # (cluster, group) -> [min ts, max ts] of the commits sent so far
    found = {}       # (cluster, group) -> index of the last FetchConsumer that reported it, reset by deletions touching it
    stored = {"bpart": set(), "seen": set(), "must": {}, "ord": {}, "sure": {}}
    foundts = {}     # (cluster, group) -> newest commit timestamp visible in the reply recorded in `found`
    for i, op in enumerate(ops):
        k = op[0]
        now = int(op[1])
        _track(op, i, replies, commits, found)
        _track_stored(op, i, cfg, stored)
        if k in ("DG", "DT"):
            rb, ra = fetch_run_before(ops, i), fetch_run_after(ops, i)
            if not len(ra):
                continue
            before = snapshot(ops, replies, rb)
            expl = {("FX", int(op[2]), int(op[3]))} if k == "DG" else set()
            after = snapshot(ops, replies, ra, before if before is not None else {}, expl)
            if before is None or after is None:
                continue
            for d in check_deletion(op, before, after):
                if d.startswith("known:"):
                    key, _, msg = d[6:].partition(": ")
                    out.append((i, "known:" + key, "%s: %s" % (" ".join(op), msg)))
                else:
                    out.append((i, "delete", "%s: %s" % (" ".join(op), d)))
        elif k == "C":
            ts = int(op[8])
            if not (-2**63 <= threshold(cfg, now) < 2**63) or ts >= threshold(cfg, now):
                continue
            rb, ra = fetch_run_before(ops, i), fetch_run_after(ops, i)
            if not len(rb) or not len(ra):
                continue
            before = snapshot(ops, replies, rb)
            after = snapshot(ops, replies, ra, before if before is not None else {})
            if before is None or after is None:
                continue
            for key, a in after.items():
                if key in before and before[key] != a:
                    out.append((i, "too-old", "%s is older than the expiry time but changed %s: %r -> %r"
                                % (" ".join(op), key, before[key], a)))
        elif k == "FX":
            if replies[i] is None:
                continue
            c, g = int(op[2]), int(op[3])
            thr = threshold(cfg, now)
            if not (-2**63 <= thr < 2**63):
                continue
            # what is known about the group's commits from the inputs (book-keeping below, one pass over the history)
            tss = commits.get((c, g), [])
            last_found = found.get((c, g))
            # (thr > 0: a group created by an owner update has lastCommit 0, which is only "older" for a positive cut-off)
            if tss and tss[1] < thr and thr > 0 and replies[i] != "NIL":
                out.append((i, "expiry", "%s: every commit of the group is older than the expiry time (newest %d < %d) but it is reported: %r"
                            % (" ".join(op), tss[1], thr, replies[i][:200])))
            if tss and tss[0] >= thr and last_found is not None and replies[i] == "NIL":
                out.append((i, "expiry", "%s: every commit of the group is within the expiry time (oldest %d >= %d) and the group was reported at op %d, "
                            "but it is now reported as not found" % (" ".join(op), tss[0], thr, last_found)))
            m = stored["must"].get((c, g))
            if m is not None and tss and tss[0] >= thr:
                tops = consumer_topics(replies[i])
                if tops is None or m[1] not in tops:
                    out.append((i, "expiry", "%s: the commit at op %d (%s) is not older than the expiry time (expire-group %d, cutoff %d) and "
                                "nothing else could drop it, yet the group / its topic %d is not reported: %r"
                                % (" ".join(op), m[0], " ".join(ops[m[0]]), cfg["expire"], thr, m[1], replies[i][:160])))
            sure = stored["sure"].get((c, g))
            if replies[i] == "NIL" and sure is not None and sure[0] >= thr:
                out.append((i, "expiry", "%s: the commit at op %d (%s) was stored (placed as the partition's newest) and its own timestamp %d is "
                            "not older than the cut-off %d (expire-group %d, min-distance %d), yet the group is reported as not found"
                            % (" ".join(op), sure[1], " ".join(ops[sure[1]]), sure[0], thr, cfg["expire"], cfg["mindist"])))
            vis = foundts.get((c, g))
            if replies[i] == "NIL" and last_found is not None and vis is not None and vis >= thr:
                # the group was reported at op last_found with a stored commit that is still inside the expiry time and nothing
                # deleted it since: its newest commit is not older than the expiry time, so it must not be purged (whatever older
                # commits arrived later on other partitions; repaired by 989bf1d, C09_g_last_monotone)
                out.append((i, "expiry",
                            "%s: the group stores a commit inside the expiry time (timestamp %d >= cut-off %d, reported at op %d) but is "
                            "reported as not found" % (" ".join(op), vis, thr, last_found)))
            if replies[i] == "NIL":
                found.pop((c, g), None)         # absent from here on: later not-found replies say nothing new
                foundts.pop((c, g), None)
            else:
                found[(c, g)] = i
                ent = [e[2] for parts in SC.parse_consumer(replies[i]).values() for pt in parts for e in pt["offsets"] if e is not None]
                foundts[(c, g)] = max(ent) if ent else None
            # the read itself: a run of non-purging fetches before, any run after
            rb, ra = fetch_run_before(ops, i), fetch_run_after(ops, i)
            if not len(rb) or not len(ra) or any(ops[j][0] == "FX" for j in rb):
                continue
            before = snapshot(ops, replies, rb)
            after = snapshot(ops, replies, ra, before if before is not None else {})
            if before is None or after is None:
                continue
            for key, a in after.items():
                if key not in before or key[0] == "FX":
                    continue
                b = before[key]
                if replies[i] == "NIL" and key[0] in ("FG", "FU") and key[1] == c:
                    la, lb = parse_list(a), parse_list(b)
                    if la is not None and g in la:
                        out.append((i, "expiry", "%s reported not found but %s still lists the group: %r" % (" ".join(op), key, a)))
                    if (la is None) != (lb is None) or (la is not None and sorted(la) != _minus(lb, g)):
                        out.append((i, "expiry", "%s reported not found: %s should be the old list without the group: %r -> %r"
                                    % (" ".join(op), key, b, a)))
                elif a != b:
                    out.append((i, "expiry", "%s (a read) changed %s: %r -> %r" % (" ".join(op), key, b, a)))
    return out


# ---------------------------------------------------------------------------------------------------------------------
# the C10 (storage) oracle
# ---------------------------------------------------------------------------------------------------------------------

def list_verdicts(cfg, g):
    """(a_set, a_m, d_set, d_m) for group id g: is an allowlist / denylist configured and does its pattern match the group's name.
    The pattern texts are those the probe builds from the header (probes/storage, `shistory`); an empty pattern text is `no list`
    (Configure tests != ""); matching is Python's re on these alternation-only patterns (same semantics as Go's regexp)."""
    import re
    lists = cfg["mode"].split("@")[0]
    rej = set(cfg["rej"])
    denied = ["g%d" % x for x in range(10) if x in rej]
    allowed = ["g%d" % x for x in range(10) if x not in rej]
    deny_pat = "^(" + "|".join(denied) + ")$"
    allow_pat = "^(" + "|".join(allowed) + ")$"
    a_pat = d_pat = ""
    if lists == "deny":
        d_pat = deny_pat if denied else ""
    elif lists == "allow":
        a_pat = allow_pat
    elif lists == "both":
        a_pat, d_pat = allow_pat, (deny_pat if denied else "")
    elif lists == "wide":
        a_pat, d_pat = "^(g[0-9]+)?$", (deny_pat if denied else "")
    elif lists == "edeny_allow":
        a_pat = allow_pat
    elif lists == "eallow_deny":
        d_pat = deny_pat if denied else ""
    elif lists in ("edeny", "eallow", "eboth"):
        pass
    else:
        raise ValueError("unknown list mode " + lists)
    name = "" if g == 0 else "g%d" % g
    a_set, d_set = a_pat != "", d_pat != ""
    a_m = bool(a_set and re.search(a_pat, name))
    d_m = bool(d_set and re.search(d_pat, name))
    return a_set, a_m, d_set, d_m


def storage_accept(a_set, a_m, d_set, d_m):
    """StorageDelProofs.storage_accept, clause by clause (inmemory.go acceptConsumerGroup)"""
    if a_set and not a_m:
        return False
    if d_set and d_m:
        return False
    return True


def oracle_c10(line, impl_line):
    """A rejected group (header `rej`, turned into real regexps by the probe) must never be listed or reported."""
    head, ops = SC.split_history(line)
    cfg = parse_header(head)
    acc = {}

    class _Rej:
        """rejected = storage_accept of the four list booleans is false (not the header's id set)"""
        def __contains__(self, g):
            if g not in acc:
                acc[g] = storage_accept(*list_verdicts(cfg, g))
            return not acc[g]
    rej = _Rej()
    replies, _ = align(ops, impl_line)
    out = []
    for i, op in enumerate(ops):
        r = replies[i]
        if r is None:
            continue
        if op[0] in ("FG", "FU"):
            l = parse_list(r)
            for g in (l or []):
                if g in rej:
                    out.append((i, "rejected-listed", "%s lists group %d which the lists reject: %r" % (" ".join(op), g, r)))
        elif op[0] == "FX" and int(op[3]) in rej and r != "NIL":
            out.append((i, "rejected-reported", "%s reports a group which the lists reject: %r" % (" ".join(op), r[:200])))
    return out


def strip_rejected(line):
    """The same history with the lists switched off and every ingestion request for a rejected group removed: an accepted
    group must be processed exactly as if no lists were configured (storage_lists_only_filter)."""
    head, ops = SC.split_history(line)
    cfg = parse_header(head)
    rej = set(cfg["rej"])
    keep = [o for o in ops if not (o[0] in ("C", "O", "X") and int(o[3]) in rej)]
    ncl = len(cfg["clusters"])
    head2 = head[:5 + ncl] + ["deny", "0"]
    return SC.join_history(head2, keep)


def ddmin(line, batch_pred, rounds=60, max_evals=2500):
    """Delta debugging over the operation list.  batch_pred(lines) -> [bool] says for each candidate history whether it still
    fails (the callers evaluate the property's oracle on the implementation's replies).  Returns the smallest failing line found."""
    head, ops = SC.split_history(line)
    chunk = max(1, len(ops) // 2)
    evals = 0
    for _ in range(rounds):
        cands = []
        i = 0
        while i < len(ops):
            c = ops[:i] + ops[i + chunk:]
            if c:
                cands.append(c)
            i += chunk
        if not cands or evals + len(cands) > max_evals:
            break
        evals += len(cands)
        verdicts = batch_pred([SC.join_history(head, c) for c in cands])
        hit = next((c for c, v in zip(cands, verdicts) if v), None)
        if hit is not None:
            ops = hit
            chunk = min(chunk, max(1, len(ops) // 2))
        elif chunk == 1:
            break
        else:
            chunk = max(1, chunk // 2)
    return SC.join_history(head, ops)


# ---------------------------------------------------------------------------------------------------------------------
# generators
# ---------------------------------------------------------------------------------------------------------------------

class H:
    def __init__(self, rng, intervals, expire, mindist, clusters, mode="deny", rej=()):
        self.rng = rng
        self.intervals, self.expire, self.mindist = intervals, expire, mindist
        self.clusters, self.mode, self.rej = list(clusters), mode, sorted(rej)
        self.ops = []
        self.now = 1600000000 + rng.randrange(0, 10**6)
        self.tags = set()

    def add(self, *toks):
        self.ops.append(" ".join(str(x) for x in toks))

    def line(self):
        head = ["hist", self.intervals, self.expire, self.mindist, len(self.clusters)] + self.clusters + \
               [self.mode, len(self.rej)] + self.rej + [len(self.ops)]
        return " ".join(str(x) for x in head) + " " + " ".join(self.ops)


class World:
    """Book-keeping of what the generator has sent (used only to aim the next operation, never by an oracle)."""

    def __init__(self, h, topics, groups):
        self.h, self.topics, self.groups = h, topics, groups
        self.pcount = {}      # (c, t) -> partitions
        self.boff = {}        # (c, t, p) -> broker offset
        self.order = {}       # (c, g, t, p) -> next order
        self.gtopics = {}     # (c, g) -> set of topics committed to

    def all_clusters(self):
        return self.h.clusters + [9]

    def fetch_all(self):
        h = self.h
        for c in self.all_clusters():
            for g in self.groups + [8]:
                h.add("FX", h.now, c, g)
        self.fetch_lists()

    def fetch_lists(self):
        h = self.h
        h.add("FC", h.now)
        for c in self.all_clusters():
            h.add("FG", h.now, c)
            h.add("FT", h.now, c)
            for t in self.topics + [7]:
                h.add("FO", h.now, c, t)
                h.add("FU", h.now, c, t)

    def broker(self, c, t, p=None, cnt=None):
        h, rng = self.h, self.h.rng
        if cnt is None:
            cnt = self.pcount.get((c, t)) or rng.choice([1, 1, 2, 3])
        self.pcount[(c, t)] = cnt
        for q in (range(cnt) if p is None else [p]):
            off = self.boff.get((c, t, q), rng.choice([0, 100, 10**6])) + rng.choice([0, 1, 10, 1000])
            self.boff[(c, t, q)] = off
            h.add("B", h.now, c, t, q, cnt, off)

    def commit(self, c, g, t, p=None, ts=None, fresh=True):
        h, rng = self.h, self.h.rng
        cnt = self.pcount.get((c, t), 0)
        if p is None:
            p = rng.randrange(0, cnt) if cnt else 0
        key = (c, g, t, p)
        o = self.order.get(key, rng.randrange(0, 100))
        self.order[key] = o + rng.choice([1, 1, 2])
        b = self.boff.get((c, t, p), 0)
        off = max(0, b - rng.choice([0, 0, 1, 5, 50]))
        if ts is None:
            ts = h.now * 1000 - (0 if fresh else rng.choice([0, 1, 500, 1000, 5000]))
        h.add("C", h.now, c, g, t, p, off, o, ts)
        if cnt:
            self.gtopics.setdefault((c, g), set()).add(t)

    def owner(self, c, g, t, p=None):
        h, rng = self.h, self.h.rng
        cnt = self.pcount.get((c, t), 0)
        if p is None:
            p = rng.randrange(0, cnt) if cnt else 0
        h.add("O", h.now, c, g, t, p, rng.choice([1, 2, 3]), rng.choice([0, 1, 2]))
        if cnt:
            self.gtopics.setdefault((c, g), set()).add(t)


def gen_delete(rng, i=0):
    """One deletion / expiry history.  Clusters share group and topic names; groups share topics; some groups have one topic."""
    intervals = rng.choice([1, 2, 3, 4, 10])
    expire = rng.choice([100, 1000, 604800])
    mindist = rng.choice([0, 0, 0, 1, 5, 5, 30])
    clusters = rng.choice([[1, 2], [1, 2], [1, 2], [1], [1, 2, 3]])
    via = ""
    if probe_supports_empty():
        # configuration path of the storage probe: @toml = a TOML document through viper.ReadConfig; @dflt = that document without
        # intervals / expire-group / min-distance, so that Configure's documented defaults (10, 604800, 0) are what is in force
        r = rng.random()
        if r < 0.15:
            intervals, expire, mindist, via = 10, 604800, 0, "@dflt"
        elif r < 0.30:
            via = "@toml"
    h = H(rng, intervals, expire, mindist, clusters, "deny" + via)
    if via:
        h.tags.add("via-" + via[1:])
    huge = via != "@dflt" and rng.random() < 0.25
    if huge:
        # large but legal expire-group ("never expire" settings), all inside the guard in_i64((now - expire) * 1000) of
        # expired_spec / too_old_spec; EDGE is the largest value for which the product still fits at the first clock value.
        # expire * 10^9 does not fit in int64 from 9223372037 s on, so anything that goes through nanoseconds breaks here.
        edge = h.now + (2**63) // 1000
        expire = rng.choice([9223372036, 9223372037, 10**10, 31536000000, 2**40, 10**15, edge - 10**6, edge - 1, edge])
        h.expire = expire
        h.tags.add("huge-expire" + ("-edge" if expire >= edge - 10**6 else ""))
    ntop = rng.choice([2, 3, 3, 4])
    ngrp = rng.choice([2, 3, 3, 4])
    topics = list(range(1, ntop + 1))
    groups = list(range(1, ngrp + 1))
    if rng.random() < 0.1:
        groups.append(0)                      # the empty group name
    w = World(h, topics, groups)
    # ---- populate: the same topic and group names in every cluster
    for c in clusters:
        for t in topics:
            if rng.random() < 0.9:
                w.broker(c, t)
    for c in clusters:
        for g in groups:
            r = rng.random()
            if r < 0.15:
                continue                      # group absent in this cluster
            mine = [rng.choice(topics)] if r < 0.45 else rng.sample(topics, rng.randrange(1, ntop + 1))
            for t in mine:
                if (c, t) not in w.pcount:
                    continue
                for _ in range(rng.choice([1, 1, 2, 3])):
                    w.commit(c, g, t)
                if rng.random() < 0.3:
                    w.owner(c, g, t)
    if rng.random() < 0.2:
        c = rng.choice(clusters)
        h.add("O", h.now, c, rng.choice(groups), 7, 0, 1, 1)   # owner for a topic the broker does not know: an empty group
        h.tags.add("empty-group")
    # ---- events
    for _ in range(rng.randrange(2, 7)):
        if rng.random() < 0.5:
            h.now += rng.choice([0, 1, 2, 5, 60])
        r = rng.random()
        c = rng.choice(clusters) if rng.random() < 0.95 else 9
        if r < 0.30:
            # delete a whole group
            g = rng.choice(groups + [8]) if rng.random() < 0.85 else 8
            w.fetch_all()
            h.add("DG", h.now, c, g, 0)
            w.fetch_all()
            w.gtopics.pop((c, g), None)
            h.tags.add("dg-whole" if g != 8 and c != 9 else "dg-nonexistent")
        elif r < 0.58:
            # delete one topic of a group: its last one, one of several, one it does not consume, an unknown one
            g = rng.choice(groups + [8]) if rng.random() < 0.9 else 8
            mine = sorted(w.gtopics.get((c, g), ()))
            rr = rng.random()
            if mine and rr < 0.7:
                t = rng.choice(mine)
                h.tags.add("dg-last-topic" if len(mine) == 1 else "dg-one-of-several")
            elif rr < 0.85:
                t = rng.choice(topics)
                h.tags.add("dg-topic-maybe-foreign")
            else:
                t = 7
                h.tags.add("dg-unknown-topic")
            w.fetch_all()
            h.add("DG", h.now, c, g, t)
            w.fetch_all()
            if (c, g) in w.gtopics:
                w.gtopics[(c, g)].discard(t)
                if not w.gtopics[(c, g)]:
                    del w.gtopics[(c, g)]
        elif r < 0.78:
            t = rng.choice(topics) if rng.random() < 0.85 else 7
            w.fetch_all()
            h.add("DT", h.now, c, t)
            w.fetch_all()
            shared = sum(1 for (cc, _g), ts_ in w.gtopics.items() if cc == c and t in ts_)
            h.tags.add("dt-shared" if shared > 1 else ("dt-single" if shared == 1 else "dt-unconsumed"))
            for key in list(w.gtopics):
                if key[0] == c:
                    w.gtopics[key].discard(t)
            w.pcount.pop((c, t), None)
            for key in [k for k in w.boff if k[0] == c and k[1] == t]:
                del w.boff[key]
        elif r >= 0.78 and r < 0.84 and not huge and h.mindist > 0:
            # the group's newest commit is MERGED into the previous ring slot (it arrives less than min-distance after it; the slot
            # keeps the previous timestamp): the group's newest commit time is still the arrived commit's own.  Asked exactly
            # expire-group after it (cut-off = its timestamp: not older, must be reported) and one second later (may go).
            cands = [(cc, t) for (cc, t), n in sorted(w.pcount.items()) if cc in clusters]
            if not cands:
                continue
            cc, t = rng.choice(cands)
            g = rng.choice(groups)
            p0 = rng.randrange(0, w.pcount[(cc, t)])
            w.broker(cc, t, p=p0)
            gap = rng.choice([1, 300, 999, min(h.mindist * 1000 - 1, 4000), h.mindist * 1000 - 1])
            w.commit(cc, g, t, p=p0, ts=h.now * 1000 - gap)
            w.commit(cc, g, t, p=p0, ts=h.now * 1000)
            w.fetch_all()
            h.now += expire
            w.fetch_lists()
            h.add("FX", h.now, cc, g)
            w.fetch_lists()
            h.now += 1
            w.fetch_lists()
            h.add("FX", h.now, cc, g)
            w.fetch_lists()
            h.now += 1
            w.fetch_all()
            h.tags.add("merged-newest-commit-at-expiry-boundary")
        elif r >= 0.84 and r < 0.90 and not huge:
            # the most recently appended commit is OLDER than the group's newest one: a fresh commit on one partition, then the
            # first commit of another partition with an old (but not too old) timestamp; the clock then passes the old one only
            cands = [(cc, t) for (cc, t), n in sorted(w.pcount.items()) if n >= 2 and cc in clusters]
            if not cands:
                continue
            cc, t = rng.choice(cands)
            g = rng.choice(groups)
            free = [q for q in range(w.pcount[(cc, t)]) if (cc, g, t, q) not in w.order]
            if not free:
                continue
            q = rng.choice(free)
            p0 = rng.choice([x for x in range(w.pcount[(cc, t)]) if x != q])
            d = rng.choice([1, 2, max(2, expire // 4)])
            w.commit(cc, g, t, p=p0)                                   # newest commit: now
            w.commit(cc, g, t, p=q, ts=(h.now - expire + d) * 1000)    # appended last, d seconds from being too old
            w.fetch_all()
            h.now += d + 1
            w.fetch_lists()
            h.add("FX", h.now, cc, g)
            w.fetch_lists()
            h.now += 1
            w.fetch_all()
            h.tags.add("lastcommit-backwards")
        elif r < 0.90:
            # expiry: jump the clock, refresh some groups, then ask
            w.fetch_all()
            if huge:
                # the clock is int64 nanoseconds in the probe: jump seconds .. years instead; nothing may expire
                h.now += rng.choice([60, 86400, 30 * 86400, 10**8])
            else:
                h.now += expire + rng.choice([-1, 0, 1, 1, 2, 100])
            for (cc, g), ts_ in sorted(w.gtopics.items()):
                if ts_ and rng.random() < 0.4:
                    t = rng.choice(sorted(ts_))
                    if (cc, t) in w.pcount:
                        w.broker(cc, t, p=0)
                        w.commit(cc, g, t, p=0)
            cands = [(cc, g) for cc in clusters for g in groups]
            rng.shuffle(cands)
            for (cc, g) in cands[:rng.randrange(1, 4)]:
                h.now += 1                      # a new clock value separates this probe's fetch runs from the previous one's
                w.fetch_lists()
                h.add("FX", h.now, cc, g)
                w.fetch_lists()
            h.now += 1
            w.fetch_all()
            h.tags.add("expiry-jump" if not huge else "huge-expire-clock-jump")
        else:
            # a commit around the too-old boundary on a live partition
            live = [(cc, g, t) for (cc, g), ts_ in sorted(w.gtopics.items()) for t in sorted(ts_) if (cc, t) in w.pcount]
            if not live:
                continue
            cc, g, t = rng.choice(live)
            d = rng.choice([-60000, -1000, -1, -1, 0, 1])
            if huge and rng.random() < 0.6:
                # a commit that is seconds .. a year old: far inside the expiry time, must be stored and reported; preferably
                # the first commit of a group on that topic (then nothing but the too-old rule could drop it)
                fresh = [(c2, g2, t2) for c2 in clusters for g2 in groups for t2 in topics
                         if (c2, t2) in w.pcount and t2 not in w.gtopics.get((c2, g2), ())]
                if fresh:
                    cc, g, t = rng.choice(fresh)
                w.fetch_all()
                w.commit(cc, g, t, ts=(h.now - rng.choice([5, 86400, 30 * 86400, 365 * 86400])) * 1000)
                w.fetch_all()
                h.tags.add("huge-expire-old-commit-kept")
                continue
            ts = max(-2**63, (h.now - expire) * 1000 + d)
            w.fetch_all()
            w.commit(cc, g, t, ts=ts)
            w.fetch_all()
            h.tags.add("too-old" if ts < (h.now - expire) * 1000 else "too-old-boundary-kept")
        # re-creation and plain traffic between events
        for _ in range(rng.randrange(0, 4)):
            cc = rng.choice(clusters)
            t = rng.choice(topics)
            rr = rng.random()
            if rr < 0.35:
                w.broker(cc, t)
            elif rr < 0.85:
                if (cc, t) in w.pcount:
                    w.commit(cc, rng.choice(groups), t, fresh=rng.random() < 0.7)
                    h.tags.add("re-ingest")
            elif rr < 0.95:
                w.owner(cc, rng.choice(groups), t)
            else:
                h.add("X", h.now, cc, rng.choice(groups))
    w.fetch_all()
    return h


_WIDE = None


def probe_supports_wide():
    """the optional 4th list mode of the storage probe (allowlist matching every name + denylist); used only if present"""
    global _WIDE
    if _WIDE is None:
        import os
        p = os.path.join(os.path.dirname(os.path.abspath(__file__)), "..", "probes", "storage", "verif_storage_probe_test.go")
        try:
            _WIDE = '"wide"' in open(p).read()
        except OSError:
            _WIDE = False
    return _WIDE


_EMPTY = None


def probe_supports_empty():
    """the present-but-empty list modes and the @set/@toml/@dflt configuration paths of the storage probe; used only if present"""
    global _EMPTY
    if _EMPTY is None:
        import os
        p = os.path.join(os.path.dirname(os.path.abspath(__file__)), "..", "probes", "storage", "verif_storage_probe_test.go")
        try:
            _EMPTY = '"edeny_allow"' in open(p).read()
        except OSError:
            _EMPTY = False
    return _EMPTY


def gen_lists(rng, i=0):
    """Allow/deny-list history: the probe compiles real regexps such that exactly the ids of `rej` are rejected.
    mode deny : denylist ^(g<rej>|..)$                         (ids 0..9 only)
    mode allow: allowlist ^(g<not rej>|..)$  over ids 0..9 -> every other name (id 0 = "", ids >= 10) is rejected too,
                so those ids are put into `rej` when they are used
    mode both : both of the above.
    Present-but-empty list keys ("" = no list configured; Configure must not compile it into the match-everything regexp):
    mode edeny / eallow / eboth      : only empty keys -> NOTHING is rejected (rej = {}), whatever the name
    mode edeny_allow                 : denylist "" + the real allowlist of mode allow
    mode eallow_deny                 : allowlist "" + the real denylist of mode deny
    Configuration path (suffix): none/@set = viper.Set per key; @toml = a TOML document through viper.ReadConfig;
    @dflt = TOML without intervals / expire-group / min-distance (header carries the documented defaults 10 604800 0)."""
    intervals = rng.choice([1, 2, 3, 10])
    expire = rng.choice([1000, 604800])
    clusters = rng.choice([[1], [1, 2]])
    modes = ["deny", "allow", "both"] + (["wide", "wide", "wide"] if probe_supports_wide() else [])
    if probe_supports_empty():
        modes += ["edeny", "eallow", "eboth", "edeny_allow", "eallow_deny"]
    mode = rng.choice(modes)
    rej = set(rng.sample(range(1, 7), rng.choice([1, 2, 3])))
    if mode in ("edeny", "eallow", "eboth"):
        rej = set()
    groups = sorted(set(range(1, rng.choice([3, 4, 5]) + 1)) | set(sorted(rej)[:2]))
    lists_mode = mode
    if mode in ("edeny", "eallow", "eboth"):
        # no list in force: every name is accepted, also the empty one and ids the patterns never mention
        if rng.random() < 0.5:
            groups += [0, 12]
        mode = "none"
    elif mode == "edeny_allow":
        mode = "allow"
    elif mode == "eallow_deny":
        mode = "deny"
    if mode == "none":
        pass
    elif mode == "wide":
        # allowlist ^(g[0-9]+)?$ matches every name, denylist as in mode deny: the rejected ids are matched by BOTH lists
        if rng.random() < 0.4:
            groups += [0, 12]
    elif mode != "deny":
        rej.add(0)
        if rng.random() < 0.5:
            rej.add(rng.choice([10, 11, 23]))      # matched by neither list
            groups.append(max(rej))
        if rng.random() < 0.3:
            groups.append(0)
    via = ""
    if probe_supports_empty():
        via = rng.choice(["", "", "@set", "@toml", "@toml", "@dflt"])
        if via == "@dflt":
            intervals, expire = 10, 604800
    h = H(rng, intervals, expire, 0, clusters, lists_mode + via, rej)
    mode = lists_mode
    topics = [1, 2, 3][:rng.choice([1, 2, 3])]
    w = World(h, topics, groups)
    for c in clusters:
        for t in topics:
            w.broker(c, t)
    paths = set()
    for _ in range(rng.randrange(8, 40)):
        if rng.random() < 0.3:
            h.now += rng.choice([1, 2, 5])
        c, g, t = rng.choice(clusters), rng.choice(groups), rng.choice(topics)
        r = rng.random()
        if r < 0.12:
            w.broker(c, t)
        elif r < 0.52:
            w.commit(c, g, t)
            paths.add(("C", g in rej))
        elif r < 0.72:
            w.owner(c, g, t if rng.random() < 0.85 else 7)
            paths.add(("O", g in rej))
        elif r < 0.80:
            h.add("X", h.now, c, g)
            paths.add(("X", g in rej))
        elif r < 0.84:
            h.add("DG", h.now, c, g, rng.choice([0, 0, t]))
        elif r < 0.86:
            h.add("DT", h.now, c, t)
            w.pcount.pop((c, t), None)
        else:
            rr = rng.random()
            if rr < 0.5:
                h.add("FX", h.now, c, g)
            elif rr < 0.75:
                h.add("FG", h.now, c)
            else:
                h.add("FU", h.now, c, t)
    w.fetch_all()
    h.tags |= {"mode-" + mode, "via-" + (via[1:] or "set")} | {"path-%s-%s" % (k, "rejected" if rj else "accepted") for k, rj in paths}
    return h
