"""C10, Kafka (offsets-topic) reader half: the real processConsumerOffsetsMessage of a module configured with an allowlist /
denylist pair against the extracted model Burrow.Wire.  The lead's checks/c10.py calls run_part(chk).

Two phases per case: the probe runs the message through a module with the lists and through a module without any list, and
reports what the real regexp package answers for the two patterns on the message's group (a_set a_m d_set d_m); the model
then runs with accept := reader_accept a_set a_m d_set d_m (Wire.v), so no regular expression is re-implemented on the model
side.  Theorems: WireProofs.reader_rejected_silent / reader_rejected_nothing / reader_no_group_nothing /
reader_accepted_as_unfiltered, WireRoundtripProofs.reader_accept_spec / reader_lists_enforced.

The module's own `burrow-<name>` progress marker is emitted by partitionConsumer, not by processConsumerOffsetsMessage: it is
outside what this part drives (DESIGN 4.10: exempt)."""
import json

import common as C
import wiregen as W

GUARDED = ("offset ", "owner ", "clear ")     # the requests the property names: offset update, ownership update, owner clear


def parse_impl(line):
    """'B a_set a_m d_set d_m => <with> || <without>' -> ((a_set, a_m, d_set, d_m), with, without) or None."""
    try:
        head, rest = line.split(" => ", 1)
        f = head.split()
        if f[0] != "B" or len(f) != 5:
            return None
        with_, without = rest.split(" || ", 1)
        return tuple(x == "1" for x in f[1:5]), with_.strip(), without.strip()
    except ValueError:
        return None


def verdict(b):
    a_set, a_m, d_set, d_m = b
    return (not a_set or a_m) and not (d_set and d_m)


def reqs_of(out):
    f = out.split(" ", 2)
    if f[0] != "OK" or len(f) < 3:
        return []
    return [r.strip() for r in f[2].split(" ; ")]


def oracle(case, impl_line):
    """C10 on the implementation's own output; returns None or a reason."""
    p = parse_impl(impl_line)
    if p is None:
        return None
    b, with_, without = p
    g = case.split()[7]
    if not verdict(b):
        bad = [r for r in reqs_of(with_) if r.startswith(GUARDED)]
        if bad:
            return ("the lists reject group %s (allow set=%d match=%d, deny set=%d match=%d) but the reader forwarded: %s"
                    % ((g,) + tuple(int(x) for x in b) + (bad[0],)))
    elif with_ != without:
        return ("the lists accept group %s but the message is not processed as without lists: with=%r without=%r"
                % (g, with_, without))
    return None


def model_line(case, impl_line):
    p = parse_impl(impl_line)
    f = case.split()
    b = p[0] if p else (False, False, False, False)
    return "c10m %s %s %s %d %d %d %d %s %s %s" % (f[1], f[2], f[3], int(b[0]), int(b[1]), int(b[2]), int(b[3]), f[6], f[8], f[9])


def run_part(chk, n=None):
    rng = chk.rng
    if n is None:
        n = 150 if not chk.thorough else 6000
    gen = []
    for ln in C.read_corpus(chk.pid, "wire_cases.txt"):
        gen.append((ln, ["corpus"], b""))
    gen += W.gen_c10(rng, n)
    cases = [g[0] for g in gen]
    impl = chk.run_impl("wire", "TestVerifProbeWire", cases, name="c10wire")
    mlines = [model_line(c, a) for c, a in zip(cases, impl)]
    model = chk.run_model("wire", mlines, name="c10wire")
    chk.evaluations += len(cases)
    chk.traces_validated += len(cases)
    mism, found = [], 0
    for i, ((c, tags, g), a, m) in enumerate(zip(gen, impl, model)):
        chk.count("wire:cases")
        for t in tags:
            chk.count("wire:" + t)
        p = parse_impl(a)
        if p is None:
            mism.append((i, c, a, m))
            continue
        b, with_, without = p
        # the generator's idea of the patterns agrees with the real regexp (keeps the class counts honest)
        f = c.split()
        allow, deny = int(f[4]), int(f[5])
        if tags != ["corpus"]:
            want = (W.is_set(allow), W.is_set(allow) and W.pat_match(allow, g), W.is_set(deny), W.is_set(deny) and W.pat_match(deny, g))
            if want != b:
                chk.count("wire:generator-pattern-semantics-differs-from-regexp")
        if W.EMPTY in (allow, deny) and not W.is_set(allow) and not W.is_set(deny):
            chk.count("wire:only-empty-string-lists")
        if (not verdict(b) and reqs_of(without)) or (verdict(b) and (allow or deny) and reqs_of(with_)):
            chk.nontrivial.add(C.case_hash(c))
        if with_ + " || " + without != m.strip():
            mism.append((i, c, a, m))
        why = oracle(c, a)
        if why:
            found += 1
            if found <= 3:
                chk.violation("wire_%d" % i, {"kind": "input", "probe": "consumer/TestVerifProbeWire", "case": c,
                                              "impl_output": a, "model_output": m,
                                              "broken": "WireProofs.reader_rejected_silent / reader_accepted_as_unfiltered",
                                              "oracle_verdict": why, "part": "wire",
                                              "cmd": "bin/check C10 --replay <this file>"})
    for i in (0, len(cases) // 2):
        chk.sample({"case": cases[i][:600], "impl": impl[i][:600], "model": model[i][:600]})
    if mism and not found:
        for (i, c, a, m) in mism[:3]:
            chk.violation("wire_%d" % i, {"kind": "input", "probe": "consumer/TestVerifProbeWire", "case": c,
                                          "impl_output": a, "model_output": m, "part": "wire",
                                          "broken": "corr:consumer.processConsumerOffsetsMessage (lists)",
                                          "oracle_verdict": "differs from Wire.process_message; no offset / owner / clear request "
                                                            "for a rejected group and no difference for an accepted group observed",
                                          "cmd": "bin/check C10 --replay <this file>"}, found_input=False)
    chk.assumptions += [
        "Kafka reader: the four list booleans handed to the model are what Go's regexp package answers for the configured pattern "
        "text on the group named in the message key; the module itself is configured through viper with the same pattern text; "
        "TimeoutSendStorageRequest is assumed to deliver (App.StorageChannel is buffered); the reader's own burrow-<name> progress "
        "marker (partitionConsumer) is not an ingested group and is not driven here",
    ]
    return {"cases": len(cases), "mismatches": len(mism), "oracle_failures": found}


def replay_part(obj):
    """Re-runs one recorded case on the current tree; returns 1 if it still fails."""
    import framework
    chk = framework.Check(obj.get("property", "C10"), "quick", obj.get("seed", 1))
    case = obj["case"]
    impl = chk.run_impl("wire", "TestVerifProbeWire", [case], name="c10wire_replay")
    model = chk.run_model("wire", [model_line(case, impl[0])], name="c10wire_replay")
    why = oracle(case, impl[0])
    p = parse_impl(impl[0])
    differs = p is None or (p[1] + " || " + p[2] != model[0].strip())
    print("case :", case)
    print("impl :", impl[0])
    print("model:", model[0])
    print("oracle:", why or "holds")
    print("MISMATCH" if differs else "agree")
    return 1 if (why or differs) else 0
