"""Generators and Python-side oracles for the wire layer (C06 hostile stream, C07 valid stream, C10 reader half).

Case line formats: see /verif/ocaml/drv_wire.ml.  The encoder here is the third independent one (Coq WireEnc,
Go probe, this); the checks compare all three byte for byte on the valid stream."""
import struct

# index 0: the list's key is absent; 1..6: a pattern; 7: the key is present with the empty string (config/burrow.toml ships
# group-allowlist=""), which means "no list" exactly like an absent key
PATTERNS = ["", "^a", "b$", ".*", "^$", "^(a|b)", "x", ""]
EMPTY = 7


def is_set(idx):
    return idx not in (0, EMPTY)
I16 = (-2**15, 2**15 - 1)
I32 = (-2**31, 2**31 - 1)
I64 = (-2**63, 2**63 - 1)


# ---------------------------------------------------------------------------------------------
# accept oracle (same pool as the probe / driver; the `re` cases tie it to the real regexp)
# ---------------------------------------------------------------------------------------------

def pat_match(idx, g):
    if idx == 1:
        return g[:1] == b"a"
    if idx == 2:
        return g[-1:] == b"b"
    if idx == 3:
        return True
    if idx == 4:
        return g == b""
    if idx == 5:
        return g[:1] in (b"a", b"b")
    if idx == 6:
        return b"x" in g
    raise ValueError(idx)


def accept(allow, deny, g):
    return (not is_set(allow) or pat_match(allow, g)) and not (is_set(deny) and pat_match(deny, g))


# ---------------------------------------------------------------------------------------------
# encoder that remembers where the version / length / count fields are
# ---------------------------------------------------------------------------------------------

class Enc:
    def __init__(self):
        self.b = bytearray()
        self.marks = []      # (pos, width, kind, scope_id)
        self.scopes = [None]  # scope_id -> end position (filled when closed); scope 0 = whole buffer
        self.cur = 0

    def i16(self, v, kind=None):
        if kind:
            self.marks.append((len(self.b), 2, kind, self.cur))
        self.b += struct.pack(">h", v)

    def i32(self, v, kind=None):
        if kind:
            self.marks.append((len(self.b), 4, kind, self.cur))
        self.b += struct.pack(">i", v)

    def i64(self, v):
        self.b += struct.pack(">q", v)

    def string(self, s, kind="strlen"):
        if s is None:
            self.i16(-1, kind)
        else:
            self.i16(len(s), kind)
            self.b += s

    def bytes_(self, s, kind="byteslen"):
        if s is None:
            self.i32(-1, kind)
        else:
            self.i32(len(s), kind)
            self.b += s

    def open_scope(self):
        self.scopes.append(None)
        prev = self.cur
        self.cur = len(self.scopes) - 1
        return prev

    def close_scope(self, prev):
        self.scopes[self.cur] = len(self.b)
        self.cur = prev

    def done(self):
        self.scopes[0] = len(self.b)
        return bytes(self.b)


def enc_offset(f):
    """f: dict(keyver, group, topic, partition, valver ('T' or int), offset, epoch, metadata, ts, expire)"""
    k = Enc()
    k.i16(f["keyver"], "keyver")
    k.string(f["group"])
    k.string(f["topic"])
    k.i32(f["partition"])
    key = k.done()
    v = Enc()
    if f["valver"] != "T":
        v.i16(f["valver"], "valver")
        v.i64(f["offset"])
        if f["valver"] == 3:
            v.i32(f["epoch"])
        v.string(f["metadata"])
        v.i64(f["ts"])
        if f["valver"] == 1:
            v.i64(f["expire"])
    value = v.done()
    return key, value, k, v


def enc_assignment_into(v, a):
    """a: None (null) | 'E' (empty) | dict(ver, topics=[(name, [parts])], userdata)"""
    if a is None:
        v.i32(-1, "asglen")
        return
    if a == "E":
        v.i32(0, "asglen")
        return
    sub = Enc()
    sub.i16(a["ver"], "asgver")
    sub.i32(len(a["topics"]), "ntopics")
    for name, parts in a["topics"]:
        sub.string(name)
        sub.i32(len(parts), "nparts")
        for p in parts:
            sub.i32(p)
    sub.bytes_(a["userdata"], "userdatalen")
    body = sub.done()
    v.i32(len(body), "asglen")
    base = len(v.b)
    prev = v.open_scope()
    for (pos, w, kind, _sc) in sub.marks:
        v.marks.append((base + pos, w, kind, v.cur))
    v.b += body
    v.close_scope(prev)


def enc_meta(f):
    """f: dict(group, valver ('T' or int), ptype, generation, protocol, leader, statets, members=[...])
    member: dict(id, instance, clientid, host, rebalance, session, subscription, assignment)"""
    k = Enc()
    k.i16(2, "keyver")
    k.string(f["group"])
    key = k.done()
    v = Enc()
    if f["valver"] != "T":
        ver = f["valver"]
        v.i16(ver, "valver")
        v.string(f["ptype"])
        v.i32(f["generation"])
        v.string(f["protocol"])
        v.string(f["leader"])
        if ver >= 2:
            v.i64(f["statets"])
        v.i32(len(f["members"]), "nmembers")
        for m in f["members"]:
            v.string(m["id"])
            if ver == 3:
                v.string(m["instance"])
            v.string(m["clientid"])
            v.string(m["host"])
            if ver >= 1:
                v.i32(m["rebalance"])
            v.i32(m["session"])
            v.bytes_(m["subscription"], "sublen")
            enc_assignment_into(v, m["assignment"])
    value = v.done()
    return key, value, k, v


# ---------------------------------------------------------------------------------------------
# case lines
# ---------------------------------------------------------------------------------------------

def hx(b):
    return b.hex() if b else "-"


def tok(s):
    return "N" if s is None else hx(s)


# The consumer module's own name and the cluster it is configured for: different strings in most cases (a request must name
# the cluster, never the module), equal in some (as in every fixture of the unit tests).
CFGS = [(b"rdr", b"test"), (b"kafka-reader", b"east"), (b"test", b"c2"), (b"east", b"test"), (b"test", b"test"), (b"c2", b"c2")]
DEFAULT_CFG = CFGS[0] + ("S",)


def rnd_cfg(rng):
    """(module name, cluster, mode): mode S = configured with viper.Set, T = from a TOML document (viper.ReadConfig)."""
    return rng.choice(CFGS) + ("T" if rng.random() < 0.35 else "S",)


def line_msg(allow, deny, order, key, value, cfg=DEFAULT_CFG):
    return "msg %s %s %s %d %d %d %s %s" % (hx(cfg[0]), hx(cfg[1]), cfg[2], allow, deny, order, hx(key), hx(value))


def line_vo(allow, deny, order, f, cfg=DEFAULT_CFG):
    return "vo %s %s %s %d %d %d %d %s %s %d %s %d %d %s %d %d" % (
        hx(cfg[0]), hx(cfg[1]), cfg[2], allow, deny, order, f["keyver"], tok(f["group"]), tok(f["topic"]), f["partition"], f["valver"],
        f["offset"], f["epoch"], tok(f["metadata"]), f["ts"], f["expire"])


def fmt_assignment(a):
    if a is None:
        return "N"
    if a == "E":
        return "E"
    out = ["A", str(a["ver"]), str(len(a["topics"]))]
    for name, parts in a["topics"]:
        out += [tok(name), str(len(parts))] + [str(p) for p in parts]
    out.append(tok(a["userdata"]))
    return " ".join(out)


def line_vm(allow, deny, order, f, cfg=DEFAULT_CFG):
    out = ["vm", hx(cfg[0]), hx(cfg[1]), cfg[2], str(allow), str(deny), str(order), tok(f["group"]), str(f["valver"]), tok(f["ptype"]),
           str(f["generation"]), tok(f["protocol"]), tok(f["leader"]), str(f["statets"]), str(len(f["members"]))]
    for m in f["members"]:
        out += [tok(m["id"]), tok(m["instance"]), tok(m["clientid"]), tok(m["host"]), str(m["rebalance"]),
                str(m["session"]), tok(m["subscription"]), fmt_assignment(m["assignment"])]
    return " ".join(out)


# ---------------------------------------------------------------------------------------------
# expected requests of a well-formed message (the property's own words, computed from the fields)
# ---------------------------------------------------------------------------------------------

def sval(s):
    return b"" if s is None else s


def fmt_req(kind, cluster, g=b"", t=b"", p=0, off=0, ts=0, order=0, owner=b"", cid=b""):
    return "%s %s %s %s %d %d %d %d %s %s" % (kind, hx(cluster), hx(g), hx(t), p, off, ts, order, hx(owner), hx(cid))


def expect_offset(allow, deny, order, f, cluster):
    g = sval(f["group"])
    if not accept(allow, deny, g) or f["valver"] == "T" or f["valver"] not in (0, 1, 3):
        return []
    return [fmt_req("offset", cluster, g, sval(f["topic"]), f["partition"], f["offset"], f["ts"], order)]


def expect_meta(allow, deny, f, cluster):
    g = sval(f["group"])
    if not accept(allow, deny, g):
        return []
    if f["valver"] == "T":
        return [fmt_req("delete", cluster, g)]
    if sval(f["ptype"]) != b"consumer":
        return []
    if not f["members"]:
        return [fmt_req("clear", cluster, g)]
    out = []
    for m in f["members"]:
        a = m["assignment"]
        if a is None or a == "E":
            continue
        topics = {}
        for name, parts in a["topics"]:
            topics[sval(name)] = parts        # a repeated topic name: the later entry wins (Go map assignment)
        for name, parts in topics.items():
            for p in parts:
                out.append(fmt_req("owner", cluster, g, name, p, owner=sval(m["host"]), cid=sval(m["clientid"])))
    return sorted(out)


def fmt_expected(reqs):
    return "OK %d" % len(reqs) + (" " + " ; ".join(reqs) if reqs else "")


# ---------------------------------------------------------------------------------------------
# strict reading of an offset commit (oracle for "a commit with a short or impossible field yields no update")
# ---------------------------------------------------------------------------------------------

class Short(Exception):
    pass


class Rd:
    def __init__(self, b):
        self.b, self.i = b, 0

    def take(self, n):
        if n < 0 or self.i + n > len(self.b):
            raise Short()
        r = self.b[self.i:self.i + n]
        self.i += n
        return r

    def i16(self):
        return struct.unpack(">h", self.take(2))[0]

    def i32(self):
        return struct.unpack(">i", self.take(4))[0]

    def i64(self):
        return struct.unpack(">q", self.take(8))[0]

    def string(self):
        n = self.i16()
        if n == -1:
            return b""
        if n < 0:
            raise Short()
        return self.take(n)


def strict_commit(key, value):
    """The (group, topic, partition, offset, timestamp) of an offset commit every field of which is completely present
    with a possible length, or None."""
    try:
        k = Rd(key)
        if k.i16() not in (0, 1):
            return None
        g, t, p = k.string(), k.string(), k.i32()
        v = Rd(value)
        ver = v.i16()
        if ver in (0, 1):
            off = v.i64()
            v.string()
            ts = v.i64()
        elif ver == 3:
            off = v.i64()
            v.i32()
            v.string()
            ts = v.i64()
        else:
            return None
        return (g, t, p, off, ts)
    except Short:
        return None


# ---------------------------------------------------------------------------------------------
# how far the decoder gets: bytes actually consumed by successful field reads, and the requests that follow
# (independent re-statement of the decoding order; the memory oracle of C06 allows allocation per byte consumed and per
# request emitted, nothing for what a message merely announces)
# ---------------------------------------------------------------------------------------------

class Walk:
    def __init__(self, b):
        self.b, self.i, self.consumed = b, 0, 0

    def left(self):
        return len(self.b) - self.i

    def take(self, n):
        if n < 0 or n > self.left():
            raise Short()
        r = self.b[self.i:self.i + n]
        self.i += n
        self.consumed += n
        return r

    def i16(self):
        return struct.unpack(">h", self.take(2))[0]

    def i32(self):
        return struct.unpack(">i", self.take(4))[0]

    def i64(self):
        return struct.unpack(">q", self.take(8))[0]

    def string(self):
        n = self.i16()
        if n == -1:
            return b""
        if n < 0:
            raise Short()
        return self.take(n)

    def skip(self, n):
        """buf.Next(n): clamps; skipped bytes are not decoded (and cost nothing)"""
        n = min(n, self.left())
        r = self.b[self.i:self.i + n]
        self.i += n
        return r


def walk(allow, deny, key, value):
    """(bytes consumed by successful reads in key and value, number of requests the message yields)."""
    k, v = Walk(key), Walk(value)
    subs = []
    reqs = 0

    def total():
        return k.consumed + v.consumed + sum(x.consumed for x in subs)
    try:
        kv = k.i16()
        if kv in (0, 1):
            g = k.string()
            k.string()
            k.i32()
            if not accept(allow, deny, g) or not value:
                return total(), 0
            vv = v.i16()
            if vv in (0, 1):
                v.i64(), v.string(), v.i64()
            elif vv == 3:
                v.i64(), v.i32(), v.string(), v.i64()
            else:
                return total(), 0
            return total(), 1
        if kv != 2:
            return total(), 0
        g = k.string()
        if not accept(allow, deny, g):
            return total(), 0
        if not value:
            return total(), 1
        vv = v.i16()
        if not 0 <= vv <= 3:
            return total(), 0
        pt = v.string()
        v.i32(), v.string(), v.string()
        if vv >= 2:
            v.i64()
        if pt != b"consumer":
            return total(), 0
        mc = v.i32()
        if mc == 0:
            return total(), 1
        for _ in range(max(mc, 0)):
            v.string()
            if vv == 3:
                v.string()
            v.string(), v.string()
            if vv >= 1:
                v.i32()
            v.i32()
            sb = v.i32()
            if sb > 0:
                v.skip(sb)
            ab = v.i32()
            topics = {}
            if ab > 0:
                a = Walk(v.skip(ab))
                subs.append(a)
                if a.i16() < 0:
                    raise Short()
                nt = a.i32()
                if nt < -1:
                    raise Short()
                for _t in range(max(nt, 0)):
                    name = a.string()
                    np = a.i32()
                    if np < 0 or np > a.left() // 4:
                        raise Short()
                    a.take(4 * np)
                    topics[name] = np
                ud = a.i32()
                if ud > 0:
                    a.skip(ud)
            reqs += sum(topics.values())
    except (Short, struct.error):
        pass
    return total(), reqs


# ---------------------------------------------------------------------------------------------
# random well-formed messages
# ---------------------------------------------------------------------------------------------

GROUPS = [b"a", b"ab", b"b", b"", None, b"xa", b"axb", b"group1", b"bx", b"a b", b"grp\xff\xfe", b"\x00"]
NAMES = [b"t1", b"topic", b"", None, b"x", b"t-2", b"\xc3\xa9", b"a" * 40]


def rnd_str(rng, pool=NAMES, allow_null=True, long_ok=True):
    r = rng.random()
    if not long_ok:
        r = min(r, 0.96)
    if r < 0.6:
        s = rng.choice(pool)
        if s is None and not allow_null:
            s = b""
        return s
    if r < 0.9:
        return bytes(rng.randrange(32, 127) for _ in range(rng.randrange(0, 12)))
    if r < 0.97:
        return bytes(rng.randrange(0, 256) for _ in range(rng.randrange(0, 20)))
    return bytes(rng.randrange(0, 256) for _ in range(rng.choice([255, 256, 300, 1000])))


def rnd_int(rng, rngpair):
    lo, hi = rngpair
    r = rng.random()
    if r < 0.35:
        return rng.choice([0, 1, -1, 2, 11, 255, 256, 65535, 65536])
    if r < 0.6:
        return rng.choice([lo, hi, lo + 1, hi - 1])
    if r < 0.8:
        return rng.randrange(0, 10**6)
    return rng.randrange(lo, hi + 1)


def clampi(v, rngpair):
    return max(rngpair[0], min(rngpair[1], v))


def rnd_lists(rng):
    r = rng.random()
    if r < 0.45:
        return 0, 0
    if r < 0.55:
        # only empty lists: the key is there, its value is "" - no list at all
        return rng.choice([(EMPTY, 0), (0, EMPTY), (EMPTY, EMPTY)])
    if r < 0.63:
        # an empty list next to a real pattern on the other list
        return rng.choice([(EMPTY, rng.randrange(1, EMPTY)), (rng.randrange(1, EMPTY), EMPTY)])
    if r < 0.78:
        return rng.randrange(1, EMPTY), 0
    if r < 0.9:
        return 0, rng.randrange(1, EMPTY)
    return rng.randrange(1, EMPTY), rng.randrange(1, EMPTY)


def gen_offset_fields(rng, valver=None):
    if valver is None:
        valver = rng.choice([0, 1, 3, 0, 1, 3, 0, 1, 3, "T"])
    return dict(keyver=rng.choice([0, 1]), group=rnd_str(rng, GROUPS), topic=rnd_str(rng),
                partition=clampi(rnd_int(rng, I32), I32), valver=valver,
                offset=rnd_int(rng, I64), epoch=clampi(rnd_int(rng, I32), I32), metadata=rnd_str(rng),
                ts=rnd_int(rng, I64), expire=rnd_int(rng, I64))


def gen_assignment(rng, maxt, maxp, dup=False, long_ok=True):
    r = rng.random()
    if r < 0.08:
        return None
    if r < 0.16:
        return "E"
    nt = rng.randrange(0, maxt + 1)
    topics, seen = [], set()
    for _ in range(nt):
        for _try in range(20):
            name = rnd_str(rng, long_ok=long_ok)
            if sval(name) not in seen:
                break
        else:
            name = b"u%d" % len(seen)
        seen.add(sval(name))
        parts = [clampi(rnd_int(rng, I32), I32) if rng.random() < 0.3 else rng.randrange(0, 64)
                 for _ in range(rng.randrange(0, maxp + 1))]
        topics.append((name, parts))
    if dup and len(topics) >= 2:
        topics[-1] = (topics[0][0], topics[-1][1])
    ud = rng.choice([None, b"", b"", b"\x01\x02\x03", bytes(rng.randrange(0, 256) for _ in range(rng.randrange(0, 30)))])
    return dict(ver=rng.choice([0, 0, 1, 2, 3, 32767]), topics=topics, userdata=ud)


def gen_member(rng, maxt, maxp, dup=False, long_ok=True):
    return dict(id=rnd_str(rng), instance=rnd_str(rng), clientid=rnd_str(rng), host=rnd_str(rng),
                rebalance=clampi(rnd_int(rng, I32), I32), session=clampi(rnd_int(rng, I32), I32),
                subscription=rng.choice([None, b"", b"\x00\x00\x00\x00\x00\x01\x00\x02t1\x00\x00\x00\x00",
                                         bytes(rng.randrange(0, 256) for _ in range(rng.randrange(0, 40)))]),
                assignment=gen_assignment(rng, maxt, maxp, dup, long_ok))


def gen_meta_fields(rng, maxm=5, maxt=4, maxp=6, valver=None, long_ok=True):
    if valver is None:
        valver = rng.choice([0, 1, 2, 3, 0, 1, 2, 3, 0, 1, 2, 3, "T"])
    r = rng.random()
    ptype = b"consumer" if r < 0.85 else rng.choice([b"connect", b"", None, b"consume", b"consumers", b"Consumer"])
    dup = rng.random() < 0.05
    nm = rng.randrange(0, maxm + 1)
    return dict(group=rnd_str(rng, GROUPS), valver=valver, ptype=ptype, generation=clampi(rnd_int(rng, I32), I32),
                protocol=rnd_str(rng), leader=rnd_str(rng), statets=rnd_int(rng, I64),
                members=[gen_member(rng, maxt, maxp, dup, long_ok) for _ in range(nm)], dup=dup)


def long_str(rng, tag, i):
    """A long string that no other case shares (re-entrancy: a decoder that shares scratch space between calls mixes them up)."""
    n = rng.choice([20, 40, 80, 160, 300])
    return b"%s%06d-" % (tag, i) + bytes(rng.randrange(33, 127) for _ in range(n))


def gen_valid(rng, cfg=None, lists=None, unique=None):
    """One well-formed message of the C07 stream: (line, tags, expected_output_prefix, python_key, python_value).
    unique = i: the group name is unique to case i and most strings are long and distinct (concurrent stream)."""
    allow, deny = rnd_lists(rng) if lists is None else lists
    if cfg is None:
        cfg = rnd_cfg(rng)
    order = rnd_int(rng, I64)
    if rng.random() < 0.45:
        f = gen_offset_fields(rng)
        if unique is not None:
            f["group"] = long_str(rng, b"cg", unique)
            f["topic"] = long_str(rng, b"tp", unique)
            f["metadata"] = long_str(rng, b"md", unique)
        key, value, _, _ = enc_offset(f)
        exp = expect_offset(allow, deny, order, f, cfg[1])
        tags = ["offset", "offset:kv%d" % f["keyver"], "offset:vv%s" % f["valver"]]
        line = line_vo(allow, deny, order, f, cfg)
        g = sval(f["group"])
    else:
        f = gen_meta_fields(rng)
        if unique is not None:
            f["group"] = long_str(rng, b"cg", unique)
            for j, m in enumerate(f["members"]):
                m["clientid"] = long_str(rng, b"ci%d-" % j, unique)
                m["host"] = long_str(rng, b"/h%d-" % j, unique)
                if isinstance(m["assignment"], dict):
                    m["assignment"]["topics"] = [(long_str(rng, b"t%d-%d-" % (j, k), unique), ps)
                                                 for k, (_n, ps) in enumerate(m["assignment"]["topics"])]
        key, value, _, _ = enc_meta(f)
        exp = expect_meta(allow, deny, f, cfg[1])
        tags = ["metadata", "metadata:vv%s" % f["valver"], "members%d" % len(f["members"])]
        for m in f["members"]:
            a = m["assignment"]
            tags.append("assignment:" + ("null" if a is None else ("empty" if a == "E" else "topics%d" % len(a["topics"]))))
        if f["dup"] and unique is None:
            tags.append("dup-topic")
        if sval(f["ptype"]) != b"consumer":
            tags.append("other-protocol")
        line = line_vm(allow, deny, order, f, cfg)
        g = sval(f["group"])
    tags.append("lists:%s" % ("none" if (allow, deny) == (0, 0) else
                              ("only-empty-strings" if not is_set(allow) and not is_set(deny) else
                               ("accept" if accept(allow, deny, g) else "reject"))))
    if EMPTY in (allow, deny):
        tags.append("lists:empty-string-setting")
    tags.append("config:%s" % ("toml-document" if cfg[2] == "T" else "viper.Set"))
    tags.append("module-name:%s" % ("same-as-cluster" if cfg[0] == cfg[1] else "differs-from-cluster"))
    return line, tags, fmt_expected(exp), key, value


# ---------------------------------------------------------------------------------------------
# hostile stream (C06): structure-aware mutations of small well-formed messages + random bytes
# ---------------------------------------------------------------------------------------------

def put(buf, pos, width, v):
    if width == 2:
        v = ((v + 2**15) % 2**16) - 2**15
        buf[pos:pos + 2] = struct.pack(">h", v)
    else:
        v = ((v + 2**31) % 2**32) - 2**31
        buf[pos:pos + 4] = struct.pack(">i", v)


def special_values(rng, remaining, width):
    vals = [-2, -1, 0, 1, remaining - 1, remaining, remaining + 1, 32767, 2**31 - 1, -2**31]
    if width == 2:
        vals += [-32768, 32766]
    else:
        vals += [remaining // 4, remaining // 4 + 1, remaining // 6, remaining // 6 + 1, 65536, 2**24, 2**29]
    return vals


def gen_base(rng):
    """A small well-formed message with its marks: (kind, key, value, kenc, venc)."""
    if rng.random() < 0.4:
        f = gen_offset_fields(rng, valver=rng.choice([0, 1, 3]))
        key, value, k, v = enc_offset(f)
        return "offset", key, value, k, v
    # (topic names inside assignments stay short here: the number of owner updates a mutated partition count can make the
    # real decoder emit - each costs a request and a timer - is then far below the allocation bound that C06 measures)
    f = gen_meta_fields(rng, maxm=2, maxt=2, maxp=3, valver=rng.choice([0, 1, 2, 3]), long_ok=False)
    if rng.random() < 0.8:
        f["ptype"] = b"consumer"
    key, value, k, v = enc_meta(f)
    return "metadata", key, value, k, v


def gen_hostile(rng):
    """One case of the C06 stream: (line, tags)."""
    allow, deny = rnd_lists(rng) if rng.random() < 0.3 else (0, 0)
    order = rnd_int(rng, I64)
    cfg = rnd_cfg(rng)
    if rng.random() < 0.25:
        cfg = cfg[:2] + (cfg[2] + "Z",)      # module with a real zap core (output discarded) instead of the nop logger
    r = rng.random()
    if r < 0.2:
        n1, n2 = rng.randrange(0, 40), rng.randrange(0, 201)
        key = bytearray(rng.randrange(0, 256) for _ in range(n1))
        value = bytes(rng.randrange(0, 256) for _ in range(n2))
        if key and rng.random() < 0.7:
            key[0] = 0
            if len(key) > 1:
                key[1] = rng.choice([0, 1, 2, 2, 2])
        return line_msg(allow, deny, order, bytes(key), value, cfg), ["random", "random"]
    kind, key, value, k, v = gen_base(rng)
    key, value = bytearray(key), bytearray(value)
    if r < 0.25:
        return line_msg(allow, deny, order, bytes(key), bytes(value), cfg), [kind, "valid"]
    if r < 0.45:
        # truncation at a byte boundary of the key or of the value
        if rng.random() < 0.3 and len(key) > 0:
            key = key[:rng.randrange(0, len(key))]
            return line_msg(allow, deny, order, bytes(key), bytes(value), cfg), [kind, "truncate-key"]
        if len(value) > 0:
            value = value[:rng.randrange(0, len(value))]
        return line_msg(allow, deny, order, bytes(key), bytes(value), cfg), [kind, "truncate-value"]
    marks = [("k",) + m for m in k.marks] + [("v",) + m for m in v.marks]
    if r < 0.55:
        vers = [m for m in marks if m[3] in ("keyver", "valver", "asgver")]
        if vers:
            side, pos, w, mk, sc = rng.choice(vers)
            put(key if side == "k" else value, pos, w, rng.choice([-1, 0, 1, 2, 3, 4, 5]))
            return line_msg(allow, deny, order, bytes(key), bytes(value), cfg), [kind, "version:" + mk]
    lens = [m for m in marks if m[3] not in ("keyver", "valver", "asgver")]
    if not lens:
        return line_msg(allow, deny, order, bytes(key), bytes(value), cfg), [kind, "valid"]
    nmut = 1 if rng.random() < 0.85 else 2
    tag = []
    for _ in range(nmut):
        side, pos, w, mk, sc = rng.choice(lens)
        enc = k if side == "k" else v
        buf = key if side == "k" else value
        remaining = enc.scopes[sc] - (pos + w)
        if rng.random() < 0.25:
            remaining = len(buf) - (pos + w)
        put(buf, pos, w, rng.choice(special_values(rng, remaining, w)))
        tag.append(mk)
    if rng.random() < 0.15 and len(value) > 0:
        value = value[:rng.randrange(0, len(value) + 1)]
        tag.append("cut")
    return line_msg(allow, deny, order, bytes(key), bytes(value), cfg), [kind, "field:" + "+".join(tag)]


def gen_re(rng):
    allow, deny = rnd_lists(rng)
    g = rnd_str(rng, GROUPS)
    if rng.random() < 0.3:
        g = rng.choice([b"a\n", b"b\n", b"\n", b"ab\n", b"\xffa", b"a\xff", b"\xff", b"x\n", b"\nx", b"b\r", b"\na"])
    return "re %d %d %s" % (allow, deny, hx(sval(g))), ["re"]


def parse_out(line):
    """Splits an output line into (status, [requests], info-string)."""
    if "=>" in line:
        line = line.split("=>", 1)[1].strip()
    head, _, info = line.partition("|")
    head = head.strip()
    if head.startswith("CRASH"):
        return "CRASH", [], info.strip()
    f = head.split(" ", 2)
    reqs = [r.strip() for r in f[2].split(" ; ")] if len(f) > 2 else []
    return f[0], reqs, info.strip()


def project(line):
    """What is compared between implementation and model: everything before the '|' (the part after it carries the
    measured allocation on one side and the model's count of make requests on the other)."""
    return line.split("|", 1)[0].strip()


# ---------------------------------------------------------------------------------------------
# exhaustive sweeps of the hostile stream (C06): every truncation point, every length / count field x every special
# value, every version field x -1..5, on one small well-formed message per kind and version
# ---------------------------------------------------------------------------------------------

def sweep_bases(rng):
    """(name, key, value, kenc, venc) for offset key v0/v1 x value v0/v1/v3 and metadata value v0..v3."""
    out = []
    for kv in (0, 1):
        for vv in (0, 1, 3):
            f = dict(keyver=kv, group=b"grp", topic=b"tp", partition=rng.randrange(0, 1000), valver=vv,
                     offset=rng.randrange(1, 2**40), epoch=rng.randrange(0, 100), metadata=b"md",
                     ts=rng.randrange(1, 2**41), expire=rng.randrange(1, 2**41))
            key, value, k, v = enc_offset(f)
            out.append(("offset-k%d-v%d" % (kv, vv), key, value, k, v))
    for vv in (0, 1, 2, 3):
        mem = lambda i: dict(id=b"m%d" % i, instance=(None if i else b"in"), clientid=b"c%d" % i, host=b"/h%d" % i,
                             rebalance=5, session=6, subscription=b"\x00\x00\x00\x00\x00\x00",
                             assignment=dict(ver=0, topics=[(b"t%d" % i, [i, i + 1]), (b"u", [7])], userdata=b""))
        f = dict(group=b"grp", valver=vv, ptype=b"consumer", generation=3, protocol=b"range", leader=b"m0",
                 statets=rng.randrange(1, 2**41), members=[mem(0), mem(1)])
        key, value, k, v = enc_meta(f)
        out.append(("metadata-v%d" % vv, key, value, k, v))
    return out


def gen_sweep(rng):
    """All sweep cases: [(line, [kind, mutation-tag])]."""
    out = []
    for name, key, value, k, v in sweep_bases(rng):
        kind = name.split("-")[0]
        order = rng.randrange(0, 2**40)
        for i in range(len(key)):
            out.append((line_msg(0, 0, order, key[:i], value), [kind, "sweep-truncate-key"]))
        for i in range(len(value)):
            out.append((line_msg(0, 0, order, key, value[:i]), [kind, "sweep-truncate-value"]))
        marks = [("k",) + m for m in k.marks] + [("v",) + m for m in v.marks]
        for side, pos, w, mk, sc in marks:
            enc = k if side == "k" else v
            if mk in ("keyver", "valver", "asgver"):
                vals = [-1, 0, 1, 2, 3, 4, 5]
                tag = "sweep-version:" + mk
            else:
                inner = enc.scopes[sc] - (pos + w)
                outer = len(enc.b) - (pos + w)
                vals = sorted(set(special_values(rng, inner, w) + special_values(rng, outer, w)))
                tag = "sweep-field:" + mk
            for val in vals:
                kb, vb = bytearray(key), bytearray(value)
                put(kb if side == "k" else vb, pos, w, val)
                out.append((line_msg(0, 0, order, bytes(kb), bytes(vb)), [kind, tag]))
    return out


# ---------------------------------------------------------------------------------------------
# large hostile messages (8 - 32 KiB): a count or length field promises far more than a message can hold, followed
# by filler that keeps the decoder busy without making it emit requests
# ---------------------------------------------------------------------------------------------

def gen_commit_long(rng, n=None, zap=None):
    """A well-formed offset commit whose group and topic are long strings of control characters or printable bytes."""
    n = n or rng.choice([500, 2000, 8000, 32767])
    ch = rng.choice([b"\x01", b"\x1f", b"g", b"\xff"])
    f = gen_offset_fields(rng, valver=rng.choice([0, 1, 3]))
    f["group"], f["topic"], f["metadata"] = ch * n, ch * rng.randrange(0, n + 1), rng.choice([None, b"", ch * (n // 2)])
    key, value, _, _ = enc_offset(f)
    z = (rng.random() < 0.5) if zap is None else zap
    return line_msg(0, 0, rnd_int(rng, I64), key, value, DEFAULT_CFG[:2] + ("SZ" if z else "S",)), ["large", "large:commit-long-strings"]


def gen_large(rng, lo=8 * 1024, hi=32 * 1024, shape=None):
    size = rng.randrange(lo, hi) if hi > lo else lo
    shape = shape or rng.choice(["topics-zero-filler", "topics-named-filler", "subscription-blob", "random-filler", "strings",
                                 "bad-first-topic"])
    k = Enc()
    k.i16(2)
    k.string(b"grp")
    key = k.done()
    v = Enc()
    ver = rng.choice([0, 1, 2, 3])
    v.i16(ver)
    v.string(b"consumer")
    v.i32(1)
    v.string(b"range")
    v.string(b"m0")
    if ver >= 2:
        v.i64(12345)
    v.i32(rng.choice([1, 1, 2, 2**31 - 1]))
    v.string(b"m0")
    if ver == 3:
        v.string(None)
    v.string(b"c0")
    v.string(b"/h0")
    if ver >= 1:
        v.i32(5)
    v.i32(6)
    big = rng.choice([2**31 - 1, size, size // 6, size // 6 + 1, size // 4, 65536, 2**24])
    if shape == "subscription-blob":
        v.i32(rng.choice([size, size + 1, 2**31 - 1]))
        v.b += bytes(size)
        v.i32(0)
    elif shape == "strings":
        # a run of maximal strings: each is allocated only if completely present
        v.i32(0)
        v.i32(size)
        v.i16(0)
        v.i32(big)
        while len(v.b) < size:
            v.i16(rng.choice([32767, 32766, 20000]))
            v.b += bytes(rng.randrange(0, 256) for _ in range(64)) * 16
    else:
        v.i32(0)
        v.i32(rng.choice([size, 2**31 - 1, size * 2]))
        v.i16(0)
        v.i32(big)
        if shape == "bad-first-topic":
            v.i16(-2)                                            # nothing can be decoded; the rest is only announced
            v.b += bytes(size)
        elif shape == "topics-zero-filler":
            v.b += bytes(size)                                   # topics "" with 0 partitions
        elif shape == "topics-named-filler":
            i = 0
            while len(v.b) < size:
                v.string(b"%06x" % i)
                v.i32(0)
                i += 1
        else:
            v.b += bytes(rng.randrange(0, 256) for _ in range(size))
    value = v.done()
    return line_msg(0, 0, rng.randrange(0, 2**40), key, value), ["large", "large:" + shape]


# ---------------------------------------------------------------------------------------------
# C10, reader half: pattern pairs x group names x message kinds
# ---------------------------------------------------------------------------------------------

C10_GROUPS = [b"a", b"b", b"ab", b"ba", b"", b"x", b"ax", b"xb", b"axb", b"c", b"cab", b"abc", b"xa", b"bx",
              b"a\n", b"\nb", b"group1", b"A", b"aa", b"bb"]
C10_KINDS = ["offset-v0", "offset-v1", "offset-v3", "offset-tombstone", "owners", "owners-v3", "clear", "delete",
             "other-protocol", "owners-cut", "offset-cut"]


def c10_message(rng, kind, g):
    """(key, value) of a message of the given kind for group g (the key is always well-formed)."""
    if kind.startswith("offset"):
        vv = {"offset-v0": 0, "offset-v1": 1, "offset-v3": 3, "offset-tombstone": "T", "offset-cut": rng.choice([0, 1, 3])}[kind]
        f = gen_offset_fields(rng, valver=vv)
        f["group"] = g
        key, value, _, _ = enc_offset(f)
        if kind == "offset-cut" and value:
            value = value[:rng.randrange(0, len(value))]
        return key, value
    vv = 3 if kind == "owners-v3" else rng.choice([0, 1, 2, 3])
    if kind == "delete":
        vv = "T"
    f = gen_meta_fields(rng, maxm=3, maxt=2, maxp=3, valver=vv, long_ok=False)
    f["group"] = g
    f["ptype"] = b"connect" if kind == "other-protocol" else b"consumer"
    if kind == "clear":
        f["members"] = []
    elif kind in ("owners", "owners-v3", "owners-cut") and not f["members"]:
        f["members"] = [gen_member(rng, 2, 3, False, False)]
    if kind in ("owners", "owners-v3", "owners-cut"):
        # at least one member with an assigned partition, so that an unfiltered reader forwards something
        f["members"][0]["assignment"] = dict(ver=0, topics=[(b"t1", [rng.randrange(0, 8)])], userdata=None)
    key, value, _, _ = enc_meta(f)
    if kind == "owners-cut" and value:
        value = value[:rng.randrange(len(value) // 2, len(value))]
    return key, value


def gen_c10(rng, n_random):
    """[(line, tags, group)]: every pair of list settings (unset, six patterns, empty string: 64) x the four match classes (a group from the pool that is in the class,
    where one exists) x three message kinds, then n_random random combinations."""
    out = []
    npat = len(PATTERNS)

    def one(allow, deny, g, kind):
        key, value = c10_message(rng, kind, g)
        order = rnd_int(rng, I64)
        cfg = rnd_cfg(rng)
        line = "c10 %s %s %s %d %d %d %s %s %s" % (hx(cfg[0]), hx(cfg[1]), cfg[2], allow, deny, order, hx(g), hx(key), hx(value))
        am = pat_match(allow, g) if is_set(allow) else False
        dm = pat_match(deny, g) if is_set(deny) else False
        word = lambda idx, m: "unset" if idx == 0 else ("empty-string" if idx == EMPTY else ("match" if m else "nomatch"))
        cls = "allow:%s/deny:%s" % (word(allow, am), word(deny, dm))
        return line, ["kind:" + kind, cls, "verdict:" + ("accept" if accept(allow, deny, g) else "reject"),
                      "config:" + ("toml-document" if cfg[2] == "T" else "viper.Set")], g

    for allow in range(npat):
        for deny in range(npat):
            for want_a in (True, False):
                for want_d in (True, False):
                    pool = [g for g in C10_GROUPS
                            if (not is_set(allow) or pat_match(allow, g) == want_a)
                            and (not is_set(deny) or pat_match(deny, g) == want_d)]
                    if not pool or (not is_set(allow) and not want_a) or (not is_set(deny) and not want_d):
                        continue
                    for kind in ("offset-v%d" % rng.choice([0, 1, 3]), rng.choice(["owners", "owners-v3"]), "clear"):
                        out.append(one(allow, deny, rng.choice(pool), kind))
    for _ in range(n_random):
        out.append(one(rng.randrange(0, npat), rng.randrange(0, npat), rng.choice(C10_GROUPS), rng.choice(C10_KINDS)))
    return out
