"""C13 — an incident keeps one identity from open to close."""
import notifiergen as G

CORR = "corr:notifier.checkAndSendResponseToModules+notifyModule+processConsumerList+processClusterList (Notifier.on_event)"


def run(chk, failed):
    chk.rule = ("histories of evaluator responses and refreshes pushed through the real responseLoop/checkAndSendResponseToModules/"
                "notifyModule, the real processConsumerList (group list through its reply channel) and the real sendClusterRequest/"
                "processClusterList (the probe answers the storage requests), with the virtual clock: 1-30 results over {NOTFOUND, OK, "
                "WARN, ERR (+STOP/STALL/REWIND as noise)} in runs, 1-3 groups x 1-2 clusters interleaved, 1-4 recording modules drawn "
                "from the full product threshold{1,2,3} x send-interval{0,60} x send-once x send-close (+defaults, AcceptConsumerGroup "
                "false, allow/deny regexps accepting and rejecting); nothing is registered by hand - records exist only through refresh "
                "steps, which fall before the first response, between the results of an open incident, just before the closing OK and "
                "outside incidents, and list all groups / a superset / a subset (dropping the group with the open incident) / nothing / a "
                "closed reply channel / another cluster's groups / duplicates / an unknown cluster, or are whole cycles (cluster list + "
                "group lists, clusters dropped and added); plus a small batch (36 + 4 witnesses, run in 12 parallel probe processes) of "
                "histories with a refresh cycle through the real sendClusterRequest whose storage request - the cluster-list request, or "
                "every group-list request - is NOT taken off App.StorageChannel within TimeoutSendStorageRequest's real second, mostly while "
                "an incident is open and followed by a normal cycle (unchanged code: a timed-out request changes nothing but the cluster "
                "entries); a batch of ~240 histories (parallel processes, every wait under a deadline) in which the first Notify call of "
                "a result is SLOW (the recording module blocks) while a real group list / refresh cycle arrives from another goroutine and "
                "is released once the writer is pending (TryRLock fails) - the response and everything after it must still be handled "
                "(STUCK = violation); ~300 histories in which a SECOND response of the same group is delivered during the slow first Notify "
                "call of a response (two responses of one group in flight; compared with the sequence of the two); ~3 % of the cases are configurations given to the real Configure() (modules of class email / http / "
                "null, list keys absent / empty / patterns, via viper.Set and via a TOML document), judged by C14/C10; per step the sorted set of Notify calls (module, cluster, group, status, "
                "canonical event id, start clock, stateGood) and at the end the cluster entries and every incident record (id, start, "
                "LastNotify per module) are compared with the extracted model; the C13 oracle (computed from the history alone: an "
                "incident's id/start survive every refresh that still lists the group; exactly one close per send-close module at the "
                "closing OK; no close otherwise) runs on every call log of the implementation; non-trivial = the history contains at "
                "least two incidents of one (cluster, group); distinct by the case line")
    G.check_body(chk, failed, "C13", G.oracle_c13, ["groups", "groups", "groups", "clock"], 36000, 600000, CORR)
    chk.assumptions += [
        "uuid.NewRandom is fresh (the model draws 1,2,3..; the probe numbers event ids by first appearance in the incident record)",
        "HYPOTHESIS OF THE TIE 'responses of one group are handled one at a time': enforced by the code since /repo 01bcddb (a lock per group record in checkAndSendResponseToModules; before it two in-flight responses of one group broke the identity clause - theorem overlap_refuted_before_fix, findings/C13.json) and probed on every run (step o: a second response of the group is delivered during the slow first Notify call of the first; the outcome must be the sequence of the two); a refresh does not overlap a response of its cluster (clusterGroups.Lock); responses of different groups touch different records (groups_independent); so every run of the coordinator is an interleaving of whole steps, i.e. a history",
        "no response arrives for a cluster that has no entry in nc.clusters (the real checkAndSendResponseToModules dereferences the missing entry and panics; sendEvaluatorRequests only asks for evaluations of recorded groups of known clusters and the storage module's cluster list is its static configuration); the model drops such a response and the probe does not run it",
        "after a refresh whose storage request timed out, the goroutine waiting for the reply stays blocked for ever in the unchanged code (nc.running never returns to zero); the probe waits 1 s per timed-out request + 0.3 s for whatever the code does on a timeout, then continues the history with a second Coordinator sharing all state (modules, clusters map, locks) - effects later than that are not observed",
        "consumerGroup.LastEval (evaluation scheduling, random initial value) is not modelled: it plays no part in what a response does",
        "module names are distinct (keys of nc.modules); Go's map iteration order only permutes the calls of one response (theorem notify_all_perm), compared as a sorted set",
        "a group that leaves the notifier's list while its incident is open gets no close notification (theorem dropped_incident_never_notified) - outside the property: such a group has no further evaluations, hence no 'first evaluation in which it is OK again'",
    ]


def replay(path):
    return G.replay("C13", G.oracle_c13, path)
