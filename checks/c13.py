"""C13 — an incident keeps one identity from open to close."""
import notifiergen as G

CORR = "corr:notifier.checkAndSendResponseToModules+notifyModule (Notifier.on_response)"


def run(chk, failed):
    chk.rule = ("histories of evaluator responses pushed through the real responseLoop/checkAndSendResponseToModules/notifyModule "
                "with the virtual clock: 1-30 results over {NOTFOUND, OK, WARN, ERR (+STOP/STALL/REWIND as noise)} in runs, 1-3 groups x "
                "1-2 clusters interleaved, 1-4 recording modules drawn from the full product threshold{1,2,3} x send-interval{0,60} x "
                "send-once x send-close (+defaults, AcceptConsumerGroup false, allow/deny regexps accepting and rejecting); per response the "
                "sorted set of Notify calls (module, cluster, group, status, canonical event id, start clock, stateGood) and the final "
                "incident records are compared with the extracted model; non-trivial = the history contains at least two incidents "
                "of one (cluster, group); distinct by the case line")
    G.check_body(chk, failed, "C13", G.oracle_c13, ["groups", "groups", "groups", "clock"], 40000, 800000, CORR)
    chk.assumptions += [
        "uuid.NewRandom is fresh (the model draws 1,2,3..; the probe numbers event ids by first appearance in the incident record)",
        "every (cluster, group) of a history is registered before its first response and never deleted (processConsumerList's add/delete of groups is not modelled; a deleted and re-added group starts a new record)",
        "responses of one group are handled one at a time (responseLoop starts one goroutine per response; two in-flight responses of the same group race on the unlocked record, which the model cannot exhibit)",
        "module names are distinct (keys of nc.modules); Go's map iteration order only permutes the calls of one response (theorem notify_all_perm), compared as a sorted set",
    ]


def replay(path):
    return G.replay("C13", G.oracle_c13, path)
