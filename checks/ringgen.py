"""Ring-focused histories and the executable oracle of C02.

A ring-focused history has one cluster, one group, one topic, one partition: a broker offset first (so that commits
are accepted), then commits, each followed by a fetch of the group, so that the window is observed after every
arrival.  Same line format as storagegen (probe `storage`, driver `drv_storage.ml`).

The oracle (`Oracle`) is written from the property text and uses the arrival list ALONE: it never looks at the Coq
model or its output.  It is applied to the windows the *implementation* returned.
"""
import storage_common as SC

T0 = 1600000000000          # ms
NOW = 1600000100            # s; every generated timestamp is later than (NOW - expire) * 1000
EXPIRE = 604800
SIZES = [1, 2, 3, 4, 5, 10]


# ------------------------------------------------------------------------------------------------
# history lines
# ------------------------------------------------------------------------------------------------

def line_of(n, md, commits, fetch_each=True, now=NOW, expire=EXPIRE, broker=10 ** 6):
    """commits: [(offset, order, ts)] in arrival order."""
    ops = ["B %d 1 1 0 1 %d" % (now, broker)]
    for (off, order, ts) in commits:
        ops.append("C %d 1 1 1 0 %d %d %d" % (now, off, order, ts))
        if fetch_each:
            ops.append("FX %d 1 1" % now)
    if not fetch_each:
        ops.append("FX %d 1 1" % now)
    return "hist %d %d %d 1 1 deny 0 %d %s" % (n, expire, md, len(ops), " ".join(ops))


def gen_ring(rng, focus=None):
    """One random ring-focused history; returns (line, tags)."""
    n = rng.choice(SIZES)
    focus = focus or rng.choice(["topn", "topn", "merge", "merge", "mixed", "dup"])
    alpha = [10 * (i + 1) for i in range(n + 3)]
    k = rng.randrange(1, 15)
    tags = ["N=%d" % n, "focus=" + focus]
    if focus == "topn":
        md = 0
        step = rng.choice([0, 1, 400, 1000, 5000])                      # non-decreasing in log position
        tsf = lambda o, i: T0 + o * step
    elif focus == "merge":
        md = rng.choice([1, 5])
        unit = md * 1000
        gap = rng.choice([unit // 10, unit // 2 - 1, unit - 1, unit, unit + 1, 2 * unit])  # per 10 log positions
        tsf = lambda o, i: T0 + (o // 10) * gap
    elif focus == "mixed":
        md = rng.choice([0, 0, 1, 5])
        tsf = lambda o, i: T0 + rng.choice([0, 1, 500, 999, 1000, 1001, 4999, 5000, 5001, 60000])
    else:  # dup: equal log positions carrying different payloads, replayed commits
        md = rng.choice([0, 0, 5])
        tsf = lambda o, i: T0 + o * 1000 + rng.choice([0, 0, 0, 7])
    tags.append("md=%d" % md)
    # arrival pattern
    pat = rng.choice(["asc", "desc", "shuffle", "live+backfill", "random", "random"])
    tags.append("arrival=" + pat)
    if pat == "asc":
        orders = sorted(rng.choice(alpha) for _ in range(k))
    elif pat == "desc":
        orders = sorted((rng.choice(alpha) for _ in range(k)), reverse=True)
    elif pat == "shuffle":
        orders = alpha[:]
        rng.shuffle(orders)
        orders = orders[:k] if k <= len(orders) else orders + [rng.choice(alpha) for _ in range(k - len(orders))]
    elif pat == "live+backfill":
        cut = rng.randrange(1, len(alpha))
        live, back = alpha[cut - 1:], alpha[:cut]            # overlap on one position
        orders = []
        while (live or back) and len(orders) < k:
            src = live if (live and (not back or rng.random() < 0.5)) else back
            orders.append(src.pop(0))
    else:
        orders = [rng.choice(alpha) for _ in range(k)]
    commits = []
    for i, o in enumerate(orders):
        off = 1000 + o
        if focus == "dup" and rng.random() < 0.3:
            off += rng.choice([1, 2])
        if rng.random() < 0.02:
            off = rng.choice([0, -1, 2 ** 63 - 1, -2 ** 63])
        commits.append((off, o, tsf(o, i)))
    if focus in ("topn", "merge") and rng.random() < 0.5:
        # exact replays of commits already sent
        for _ in range(rng.randrange(1, 4)):
            commits.insert(rng.randrange(0, len(commits) + 1), rng.choice(commits))
    return line_of(n, md, commits), tags


def exhaustive(n, md, maxlen=6, orders=(10, 20, 30, 40, 50), gap=None):
    """All arrival sequences of length 1..maxlen over the given log positions (payload a function of the position)."""
    gap = gap if gap is not None else (400 if md else 1000)
    lines = []

    def rec(prefix):
        if prefix:
            lines.append(line_of(n, md, [(1000 + o, o, T0 + (o // 10) * gap) for o in prefix]))
        if len(prefix) < maxlen:
            for o in orders:
                rec(prefix + [o])
    rec([])
    return lines


# ------------------------------------------------------------------------------------------------
# the oracle
# ------------------------------------------------------------------------------------------------

def triples(window):
    return [(e[0], e[1], e[2]) for e in window if e is not None]


def shape_errors(window, n, allow_empty=False):
    """unfilled slots only in front, exactly n entries, log positions strictly increasing (hence no duplicates);
    allow_empty: a partition that never received a commit has no ring yet and reads out as an empty list"""
    errs = []
    if allow_empty and len(window) == 0:
        return errs
    if len(window) != n:
        errs.append("window has %d entries, ring size is %d" % (len(window), n))
    seen_some = False
    for e in window:
        if e is None and seen_some:
            errs.append("unfilled slot after a commit")
            break
        if e is not None:
            seen_some = True
    os_ = [e[1] for e in window if e is not None]
    if any(a >= b for a, b in zip(os_, os_[1:])):
        errs.append("log positions not strictly increasing: %s" % os_)
    return errs


def spec_step(stored, n, md, c, replay=False):
    """The property's rule for one accepted commit c = (offset, position, ts) on the stored commits (oldest first).
    Returns (alternatives, tag): the list of windows the property text allows afterwards, or None when it does not pin
    the payload (position already stored with a different payload).

    Two outcomes are allowed when c's timestamp is EARLIER than its stored predecessor's: the code reads "closer in time
    than the minimum distance" as the signed difference new - previous < distance (so such a commit always replaces its
    predecessor, even at distance 0); the text can also be read as |difference| < distance, or as "not earlier and
    closer".  The oracle demands neither: it accepts the merged and the unmerged window (tag .../signed-gap)."""
    full = len(stored) == n
    fl = "full" if full else "nonfull"
    same = [s for s in stored if s[1] == c[1]]
    if same:
        # a replayed commit changes nothing; which payload stays when two different commits claim one log position
        # is not stated by the property
        return ([stored] if replay else None), "drop-duplicate/%s" % fl
    lo = [s for s in stored if s[1] < c[1]]
    hi = [s for s in stored if s[1] > c[1]]
    where = "append" if not hi else ("prepend" if not lo else "insert")
    # the window if c takes a slot of its own
    if not full:
        own, own_tag = lo + [c] + hi, "%s%s/%s/nomerge" % (where, "-into-blank" if where == "prepend" else "", fl)
    elif not lo:
        own, own_tag = stored, "drop-older-than-full-window/full"
    else:
        t = where if len(lo) > 1 or where == "append" else "insert-above-oldest(replace-oldest)"
        own, own_tag = lo[1:] + [c] + hi, "%s/full/nomerge" % t
    if not lo:
        return [own], own_tag
    pv = lo[-1]
    gap = c[2] - pv[2]
    mwhere = "insert-above-oldest(replace-oldest)" if (full and len(lo) == 1 and hi) else where
    merged, merged_tag = lo[:-1] + [(c[0], c[1], pv[2])] + hi, "%s/%s/merge" % (mwhere, fl)
    if 0 <= gap < md * 1000:
        return [merged], merged_tag
    if gap < 0:
        return [merged, own], merged_tag + "/signed-gap"
    return [own], own_tag


def topn_applicable(md, accepted):
    """minimum distance 0, timestamps non-decreasing along the log, one payload per log position"""
    if md != 0:
        return False
    by = {}
    for c in accepted:
        if by.setdefault(c[1], c) != c:
            return False
    srt = sorted(by.values(), key=lambda c: c[1])
    return all(a[2] <= b[2] for a, b in zip(srt, srt[1:]))


def topn(n, accepted):
    by = {}
    for c in accepted:
        by.setdefault(c[1], c)
    return sorted(by.values(), key=lambda c: c[1])[-n:]


class Oracle:
    """Walks a history in which every consumer commit goes to one partition (cluster 1, group 1, topic 1,
    partition 0) and checks every window the implementation returned for that partition."""

    def __init__(self, line):
        head, ops = SC.split_history(line)
        self.n, self.expire, self.md = int(head[1]), int(head[2]), int(head[3])
        self.ops = ops
        self.tags = []
        self.ambiguous = False     # set by check(): some step had more than one allowed outcome (or none pinned)

    def applicable(self):
        """only B / C / FX operations, all on cluster 1 (group 1, topic 1, partition 0), a broker offset first"""
        seen_b = False
        for o in self.ops:
            if o[0] == "B" and o[2:5] == ["1", "1", "0"] and int(o[5]) >= 1:
                seen_b = True
            elif o[0] == "C" and o[2:6] == ["1", "1", "1", "0"] and seen_b:
                pass
            elif o[0] == "FX" and o[2:4] == ["1", "1"]:
                pass
            else:
                return False
        return True

    def check(self, outline):
        """-> list of failure texts (empty: the property's oracle holds on this reply)."""
        segs = SC.segments(outline)
        errs = []
        states = [[]]          # windows the property's rules allow at this point; None = not pinned until next fetch
        accepted = []
        self.ambiguous = False
        si = 0
        for idx, o in enumerate(self.ops):
            if o[0] == "C":
                now = int(o[1])
                c = (int(o[6]), int(o[7]), int(o[8]))
                if c[2] < (now - self.expire) * 1000:
                    self.tags.append("dropped-too-old")
                    continue
                accepted.append(c)
                # a true replay: no other payload was ever seen for this log position
                replay = all(a == c for a in accepted if a[1] == c[1])
                if states is not None:
                    nxt, tag = [], None
                    for st in states:
                        alts, tg = spec_step(st, self.n, self.md, c, replay)
                        tag = tag or tg          # the histogram follows the first (the code's) reading
                        if alts is None:
                            nxt = None
                            break
                        for a in alts:
                            if a not in nxt:
                                nxt.append(a)
                    if nxt is None or len(nxt) > 1:
                        self.ambiguous = True
                    states = nxt if (nxt is not None and len(nxt) <= 64) else None
                    self.tags.append(tag)
                else:
                    self.tags.append("after-unpinned")
            elif o[0] == "FX":
                if si >= len(segs):
                    errs.append("op %d: no reply (implementation crashed?)" % idx)
                    break
                seg = segs[si]
                si += 1
                if seg == "CRASH":
                    errs.append("op %d: implementation crashed" % idx)
                    break
                if not accepted:
                    continue
                if not seg.startswith("K "):
                    errs.append("op %d: group not found after an accepted commit" % idx)
                    continue
                parts = SC.parse_consumer(seg).get(1)
                if not parts:
                    errs.append("op %d: topic missing in reply" % idx)
                    continue
                w = parts[0]["offsets"]
                se = shape_errors(w, self.n)
                errs += ["op %d: shape: %s" % (idx, e) for e in se]
                got = triples(w)
                mx = max(c[1] for c in accepted)
                if not w or w[-1] is None or w[-1][1] != mx:
                    errs.append("op %d: newest-last: last entry %s, greatest log position seen %d" % (idx, w[-1] if w else None, mx))
                # stored is made of arrived commits: (offset, position) of one, timestamp of one not later in the log
                for e in got:
                    if not any(a[0] == e[0] and a[1] == e[1] for a in accepted):
                        errs.append("op %d: stored (offset %d, position %d) is not an arrived commit" % (idx, e[0], e[1]))
                    elif not any(a[2] == e[2] and a[1] <= e[1] for a in accepted):
                        errs.append("op %d: stored timestamp %d at position %d is not that of an arrived commit at or before it" % (idx, e[2], e[1]))
                if states is not None:
                    if got not in states:
                        errs.append("op %d: merge/slot rule: stored %s, the property's rules give %s" %
                                    (idx, got, states[0] if len(states) == 1 else "one of %s" % states))
                if topn_applicable(self.md, accepted):
                    exp = topn(self.n, accepted)
                    if got != exp:
                        errs.append("op %d: top-N: stored %s, newest %d of the commits seen are %s" % (idx, got, self.n, exp))
                if errs:
                    break
                states = [got]      # re-synchronise on what the implementation chose among the allowed windows
            elif o[0] in SC.FETCH:
                si += 1
        return errs


def project(line, outline):
    """C02's observables of a reply line: for every fetch of a group, per topic and partition, the window as
    (offset, position, timestamp) or nil — lag, owner, broker offsets are other properties' business."""
    _, ops = SC.split_history(line)
    segs = SC.segments(outline)
    out = []
    si = 0
    for o in ops:
        if o[0] not in SC.FETCH:
            continue
        if si >= len(segs):
            out.append("MISSING")
            break
        seg = segs[si]
        si += 1
        if seg == "CRASH":
            out.append("CRASH")
            break
        if o[0] != "FX":
            continue
        if not seg.startswith("K "):
            out.append(seg)
            continue
        cons = SC.parse_consumer(seg)
        txt = []
        for t in sorted(cons):
            for pi, p in enumerate(cons[t]):
                txt.append("%d/%d:%s" % (t, pi, ",".join("nil" if e is None else "(%d;%d;%d)" % e[:3] for e in p["offsets"])))
        out.append(" ".join(txt))
    if si < len(segs) and segs[si] == "CRASH":
        out.append("CRASH")
    return " | ".join(out)


def windows_of(line, outline):
    """every window of every fetched group in a reply line (for the shape oracle on general histories)"""
    _, ops = SC.split_history(line)
    segs = SC.segments(outline)
    res = []
    si = 0
    for o in ops:
        if o[0] not in SC.FETCH:
            continue
        if si >= len(segs) or segs[si] == "CRASH":
            break
        seg = segs[si]
        si += 1
        if o[0] == "FX" and seg.startswith("K "):
            for t, parts in SC.parse_consumer(seg).items():
                for pi, p in enumerate(parts):
                    res.append((t, pi, p["offsets"]))
    return res


def derive_ring_lines(line):
    """Neighbours of a general history for the search phase: for each (cluster, group, topic, partition) the commits
    it received, replayed alone on a fresh ring (each followed by a fetch)."""
    head, ops = SC.split_history(line)
    n, expire, md = int(head[1]), int(head[2]), int(head[3])
    per = {}
    for o in ops:
        if o[0] == "C":
            per.setdefault(tuple(o[2:6]), []).append((int(o[1]), int(o[6]), int(o[7]), int(o[8])))
    out = []
    for key in sorted(per):
        cs = per[key]
        now0 = cs[0][0]
        lo = ["B %d 1 1 0 1 %d" % (now0, 10 ** 6)]
        for (now, off, order, ts) in cs:
            lo.append("C %d 1 1 1 0 %d %d %d" % (now, off, order, ts))
            lo.append("FX %d 1 1" % now)
        out.append("hist %d %d %d 1 1 deny 0 %d %s" % (n, expire, md, len(lo), " ".join(lo)))
    return out


def reading_ambiguous(line):
    """True if the property text leaves the outcome of some arrival of this history open: some partition receives a
    commit later in the log with an earlier timestamp than another one (signed vs absolute "closer in time"), or two
    different payloads for one log position.  Over-approximation (any such pair, not only adjacent stored ones)."""
    _, ops = SC.split_history(line)
    per = {}
    for o in ops:
        if o[0] == "C":
            per.setdefault(tuple(o[2:6]), []).append((int(o[6]), int(o[7]), int(o[8])))
    for cs in per.values():
        for a in cs:
            for b in cs:
                if a[1] < b[1] and a[2] > b[2]:
                    return True
                if a[1] == b[1] and a != b:
                    return True
    return False
