"""C18 — no HTTP response reveals a configured password (non-interference of responses in password values)."""
import json
import os
import re
import subprocess

import common as C
import pwgen as G

TRANSLATOR_TABLES = (("RouteTable", "routes"), ("ReadSets", "reads"), ("RespFields", "fields"))
PROBE = ("httpcfg", "TestVerifProbeHttpcfg")


def pre(chk):
    """Regenerate coq/gen/{RouteTable,ReadSets,RespFields}.v from /repo before the proof obligations are checked."""
    for name, mode in TRANSLATOR_TABLES:
        C.write_gen(name, C.run_translator("http", [mode]))


# ---------------------------------------------------------------------------------------------------
# which rows / feeds make the table obligations fail (asked of the Coq checker itself)
# ---------------------------------------------------------------------------------------------------

def diagnose(chk, rows, feeds):
    src = os.path.join(chk.work, "diag.v")
    open(src, "w").write(
        "From Burrow Require Import ConfigRead.\nFrom BurrowGen Require Import ReadSets RespFields.\n"
        "Require Import List.\nImport ListNotations.\n"
        "Eval vm_compute in (map row_id (filter (fun r => negb (row_ok r)) ReadSets.table)).\n"
        "Eval vm_compute in (resp_fields_ok RespFields.structs RespFields.feeds ReadSets.table).\n")
    with C.Lock("coq"):
        p = C.sh(["timeout", "600", "coqc", "-Q", os.path.join(C.COQ, "theories"), "Burrow", "-Q", os.path.join(C.COQ, "gen"), "BurrowGen",
                  src], cwd=chk.work, check=False)
    out = p.stdout or ""
    if p.returncode != 0:
        return None, None, out[-1500:]
    m = re.search(r"=\s*\[(.*?)\]\s*(?:%nat)?\s*:\s*list nat", out, flags=re.S)
    bad_ids = [int(x) for x in re.findall(r"\d+", m.group(1))] if m else []
    fields_ok = "= true" in out[m.end():] if m else None
    by_id = {r["id"]: r for r in rows}
    bad_rows = [by_id[i] for i in bad_ids if i in by_id]
    return bad_rows, fields_ok, ""


def row_text(r):
    return "row %d of handler %s at %s: %s(%s) used as %s" % (r["id"], r["handler"], r["pos"], r["call"], G.pat_text(r["pat"]), r["kind"])


# ---------------------------------------------------------------------------------------------------
# one batch of configurations through the real router
# ---------------------------------------------------------------------------------------------------

class Case:
    pass


def make_cases(chk, routes, lits, n, rich=False, all_lits=False, lit_names=False, dotted=True, per_route=10, nested=None, rel_p=0.25):
    cases = []
    for i in range(n):
        c = Case()
        G.LIT_P[0] = 0.6 if lit_names else 0.10
        # a quarter of the passwords are RELATED to other settings (equal to / a piece of the user name, another field of the
        # module, the profile name, the client id, 1-3 characters): a masking or comparing handler can go wrong exactly there
        G.REL_P[0] = rel_p
        # every third configuration carries nested-name families (x, x.y, x.y.z in every profile/module section, with
        # client profiles, clusters and consumers pointing at the parent and at each child)
        c.cfg, c.info = G.gen_config(chk.rng, lits if (lit_names or chk.rng.random() < 0.5) else [], rich=rich or (i % 5 == 0),
                                     dotted=dotted and (i % 3 != 0), nested=(i % 3 == 1) if nested is None else nested)
        G.LIT_P[0] = 0.10
        c.tokA, c.tokB = G.gen_tokens(chk.rng, c.cfg)
        c.cfgA, c.cfgB = G.materialise(c.cfg, c.tokA), G.materialise(c.cfg, c.tokB)
        # a token is searched for only if nothing else in the configuration contains it (else a hit proves nothing: it is
        # the user name that is shown); for the others the verdict comes from the cfg / cfg' comparison alone
        text = G.public_text(c.cfg)
        c.skipA = {i for i, t in enumerate(c.tokA) if not G.searchable(t, text)}
        c.skipB = {i for i, t in enumerate(c.tokB) if not G.searchable(t, text)}
        c.leaves = [(keys, leaf.idx, leaf.kind) for keys, leaf in G.pw_leaf_keys(c.cfg)]
        # every fourth configuration is also run with its passwords supplied through the ENVIRONMENT (BURROW_SASL_X_PASSWORD
        # ...), the layer main.go enables with viper.AutomaticEnv and which no configuration tree shows
        c.env = None
        if i % 4 == 0 and c.leaves:
            docA, envA = G.env_variant(c.cfgA, c.leaves, c.tokA)
            docB, envB = G.env_variant(c.cfgB, c.leaves, c.tokB)
            if envA:
                c.env = (docA, envA, docB, envB)
        c.world = G.world_for(chk.rng, c.cfg)
        c.reqs = G.build_requests(chk.rng, routes, c.cfg, c.world, lits, per_route=per_route, all_lits=all_lits)
        c.usernames = sorted({str(v.get("username")) for sec in G.PW_SECTIONS for v in c.cfgA.get(sec, {}).values()
                              if isinstance(v, dict) and v.get("username")})
        c.taint = []
        if c.info["dotted"] == 0:
            for numeric in (False, True):
                tcfg, where = G.taint_config(chk.rng, c.cfg, numeric)
                c.taint.append((tcfg, where))
        cases.append(c)
    return cases


def run_lines(chk, lines, name):
    impl = chk.run_impl(PROBE[0], PROBE[1], lines, name=name, timeout=1500)
    outs = [G.parse_output(l) for l in impl]
    return outs


def needles_for(tokens, usernames, skip=()):
    out = []
    for ti, t in enumerate(tokens):
        if ti in skip:
            continue
        for form, b in G.leak_forms(t, usernames).items():
            out.append((ti, form, b))
    return out


def excerpt(blob, b, width=160):
    i = blob.find(b)
    if i < 0:
        return blob[:2 * width].decode("utf-8", "replace")
    return blob[max(0, i - width):i + len(b) + width].decode("utf-8", "replace")


def judge(chk, cases, rows, tag, count=True):
    """Runs every case under cfg and cfg' (and its taint variants); returns (leaks, diffs, unexplained, stats)."""
    lines, index = [], []
    for ci, c in enumerate(cases):
        lines.append(G.case_line(c.cfgA, c.world, c.reqs))
        index.append((ci, "A"))
        lines.append(G.case_line(c.cfgB, c.world, c.reqs))
        index.append((ci, "B"))
        for ti, (tcfg, _) in enumerate(c.taint):
            lines.append(G.case_line(tcfg, c.world, c.reqs))
            index.append((ci, "T%d" % ti))
        if c.env:
            lines.append(G.case_line(c.env[0], c.world, c.reqs, env=c.env[1]))
            index.append((ci, "EA"))
            lines.append(G.case_line(c.env[2], c.world, c.reqs, env=c.env[3]))
            index.append((ci, "EB"))
    outs = run_lines(chk, lines, tag)
    per = {}
    for (ci, which), o in zip(index, outs):
        if isinstance(o, str):
            raise C.BuildError("C18 probe failed on a generated configuration (%s run of case %d): %s" % (which, ci, o[:600]))
        per.setdefault(ci, {})[which] = o
    leaks, diffs, unexplained = [], [], []
    stats = {"pairs": 0, "taint_tokens_seen": 0, "taint_tokens_explained": 0}
    stats["env_pairs"] = 0
    for ci, c in enumerate(cases):
        ra, rb = per[ci]["A"], per[ci]["B"]
        nA, nB = needles_for(c.tokA, c.usernames, c.skipA), needles_for(c.tokB, c.usernames, c.skipB)
        if c.env:
            # the same oracles on the runs whose passwords come from the environment
            ea, eb = per[ci]["EA"], per[ci]["EB"]
            for j, (m, p, b, meta) in enumerate(c.reqs):
                stats["env_pairs"] += 1
                for (resp, needles, toks, doc, env, side) in ((ea[j], nA, c.tokA, c.env[0], c.env[1], "cfg"),
                                                             (eb[j], nB, c.tokB, c.env[2], c.env[3], "cfg'")):
                    hit = G.find_tokens(resp, needles)
                    if hit is not None:
                        ti, form = hit
                        var = [k for k, v in env.items() if v == str(toks[ti])]
                        leaks.append(dict(case=ci, req=j, method=m, path=p, body=b, handler=meta["handler"], route=meta["route"],
                                          params=meta["params"], token=toks[ti], form=form, password_key=var, config=doc, env=env,
                                          world=c.world, side=side + " (password from the environment)", code=resp["code"],
                                          excerpt=excerpt(G.response_blob(resp), G.leak_forms(toks[ti], c.usernames)[form])))
                        break
                if G.canon_response(ea[j], meta["handler"]) != G.canon_response(eb[j], meta["handler"]):
                    diffs.append(dict(case=ci, req=j, method=m, path=p, body=b, handler=meta["handler"], route=meta["route"],
                                      params=meta["params"], config=c.env[0], config2=c.env[2], env=c.env[1], env2=c.env[3],
                                      world=c.world, a=ea[j], b=eb[j], leaves=[]))
        pw_paths = G.password_paths(c.cfg)
        if count:
            chk.count("config:passwords=%d" % min(c.info["n_pw"], 6))
            for cl in set(c.info["classes"]):
                chk.count("config:notifier-class=" + cl)
            chk.count("config:dotted-names=%s" % ("yes" if c.info["dotted"] else "no"))
            chk.count("config:sasl-profiles=%d" % len(c.cfg.get("sasl", {})))
            chk.count("config:nested-name-families=%d" % min(c.info.get("families", 0), 9))
            for kd in c.info.get("related", []):
                chk.count("password:related:" + kd.split(":")[0])
            chk.count("password:random-token", c.info["n_pw"] - len(c.info.get("related", [])))
            chk.count("password:not-searchable(judged by cfg/cfg' comparison only)", len(c.skipA))
        for j, (m, p, b, meta) in enumerate(c.reqs):
            stats["pairs"] += 1
            a, bb = ra[j], rb[j]
            if count:
                chk.count("route:" + meta["route"])
                chk.count("code:%s" % a["code"])
                for cl in meta["classes"]:
                    chk.count("param:" + cl)
            for (resp, needles, toks, cfgx, side) in ((a, nA, c.tokA, c.cfgA, "cfg"), (bb, nB, c.tokB, c.cfgB, "cfg'")):
                hit = G.find_tokens(resp, needles)
                if hit is not None:
                    ti, form = hit
                    pth = [".".join(pp) for pp, leaf in pw_paths if isinstance(leaf, G.PW) and leaf.idx == ti]
                    leaks.append(dict(case=ci, req=j, method=m, path=p, body=b, handler=meta["handler"], route=meta["route"],
                                      params=meta["params"], token=toks[ti], form=form, password_key=pth, config=cfgx,
                                      world=c.world, side=side, code=resp["code"],
                                      excerpt=excerpt(G.response_blob(resp), G.leak_forms(toks[ti], c.usernames)[form])))
                    break
            # tokens of the OTHER run can never be here; a cross hit would be a probe bug
            if G.canon_response(a, meta["handler"]) != G.canon_response(bb, meta["handler"]):
                diffs.append(dict(case=ci, req=j, method=m, path=p, body=b, handler=meta["handler"], route=meta["route"],
                                  params=meta["params"], config=c.cfgA, config2=c.cfgB, world=c.world,
                                  a=a, b=bb, leaves=[(keys, c.tokA[i], c.tokB[i], kind) for keys, i, kind in c.leaves]))
            if count and a["code"] == 200 and c.info["n_pw"] > 0 and meta["params"]:
                chk.nontrivial.add(C.case_hash("%s|%s|%d|%s" % (meta["route"], "/".join(meta["classes"]), ci, p)))
        # taint: every token seen must be covered by a row of the handler
        for ti, (tcfg, where) in enumerate(c.taint):
            rt = per[ci]["T%d" % ti]
            vip = G.Viper(tcfg)
            swhere = {str(k): v for k, v in where.items()}
            for j, (m, p, b, meta) in enumerate(c.reqs):
                if meta["handler"] == "?" or any("/" in v or v in (".", "..") for v in meta["params"].values()):
                    continue
                blob = G.response_blob(rt[j]).decode("utf-8", "replace")
                found = set(re.findall(r"tk[A-Za-z0-9]{14}|(?<![0-9.])[0-9]{9,10}(?![0-9])", blob))
                found = [t for t in found if t in swhere]
                if not found:
                    continue
                inst = G.table_instances(rows, meta["handler"], meta["params"], vip)
                for t in found:
                    stats["taint_tokens_seen"] += 1
                    leaf = swhere[t]
                    if any(G.explains(x, leaf) for x in inst):
                        stats["taint_tokens_explained"] += 1
                        continue
                    is_pw = G.is_pw_path(leaf)
                    rec = dict(case=ci, req=j, method=m, path=p, body=b, handler=meta["handler"], route=meta["route"],
                               params=meta["params"], token=t, form="raw", password_key=[".".join(leaf)], config=tcfg,
                               world=c.world, side="taint", code=rt[j]["code"], excerpt=excerpt(blob.encode(), t.encode()))
                    if is_pw:
                        leaks.append(rec)
                    else:
                        unexplained.append(rec)
    return leaks, diffs, unexplained, stats


def confirm_diffs(chk, diffs):
    """A difference between the cfg and cfg' runs counts only if the same request is deterministic under cfg."""
    if not diffs:
        return []
    seen, lines, order = set(), [], []
    for d in diffs[:40]:
        key = (d["case"], d["req"])
        if key in seen:
            continue
        seen.add(key)
        line = G.case_line(d["config"], d["world"], [(d["method"], d["path"], d["body"], None)], env=d.get("env"))
        lines += [line, line]
        order.append(d)
    outs = run_lines(chk, lines, "confirm")
    confirmed = []
    for k, d in enumerate(order):
        o1, o2 = outs[2 * k], outs[2 * k + 1]
        if isinstance(o1, str) or isinstance(o2, str):
            continue
        c0 = G.canon_response(d["a"], d["handler"])
        if G.canon_response(o1[0], d["handler"]) == c0 and G.canon_response(o2[0], d["handler"]) == c0:
            confirmed.append(d)
        else:
            chk.count("oracle:nondeterministic-response")
    done = set()
    for d in confirmed:
        if d["handler"] not in done and len(done) < 3:
            done.add(d["handler"])
            attribute_diff(chk, d)
    return confirmed


def attribute_diff(chk, d):
    """Which password makes the difference: cfg with ONE password taken from cfg' at a time; the smallest configuration
    pair is kept for the replay."""
    d["culprits"] = []
    if not d.get("leaves") or d.get("env"):
        return
    req = [(d["method"], d["path"], d["body"], None)]
    try:
        hybrids = [G.set_at(d["config"], keys, vb) for keys, va, vb, kind in d["leaves"]]
        outs = run_lines(chk, [G.case_line(h, d["world"], req) for h in hybrids], "attribute")
        c0 = G.canon_response(d["a"], d["handler"])
        for (keys, va, vb, kind), h, o in zip(d["leaves"], hybrids, outs):
            if not isinstance(o, str) and G.canon_response(o[0], d["handler"]) != c0:
                d["culprits"].append({"password_key": ".".join(keys), "value_under_cfg": va, "value_under_cfg_prime": vb,
                                      "relation_to_other_settings": kind or "none (random token)"})
                if len(d["culprits"]) == 1:
                    d["config2"], d["b"] = h, o[0]
        shrink_pair(chk, d)
    except Exception as e:  # attribution is a convenience
        chk.notes.append("attribution of a cfg/cfg' difference failed: %s" % e)


def value_found(d):
    """For a differs_* replay: does a culprit password occur verbatim in the response of its own run?  (Only indicative:
    such passwords were excluded from the token search because another setting contains the same text.)"""
    out = []
    blob_a, blob_b = G.response_blob(d["a"]), G.response_blob(d["b"])
    for c in d.get("culprits") or []:
        for side, val, blob in (("cfg", c["value_under_cfg"], blob_a), ("cfg'", c["value_under_cfg_prime"], blob_b)):
            forms = {"raw": str(val).encode("utf-8"), "json": G.go_json_escape(str(val)).encode("utf-8")}
            hit = [f for f, b in forms.items() if b and b in blob]
            out.append({"password_key": c["password_key"], "run": side, "value": val, "occurs_verbatim": bool(hit)})
    return out


def still_leaks(out, token, form, usernames):
    if isinstance(out, str) or not out:
        return False
    b = G.leak_forms(token, usernames).get(form)
    return b is not None and b in G.response_blob(out[0])


def _candidates(cfg):
    cands = []
    for sec, v in cfg.items():
        cands.append((sec, None))
        if isinstance(v, dict):
            for name, m in v.items():
                if isinstance(m, dict):
                    cands.append((sec, name))
    return cands


def _without(c, drops):
    out = {}
    for sec, v in c.items():
        if (sec, None) in drops:
            continue
        if isinstance(v, dict):
            out[sec] = {k: x for k, x in v.items() if (sec, k) not in drops}
        else:
            out[sec] = v
    return out


def shrink_pair(chk, d):
    """Greedy: drop sections / modules from BOTH configurations while the two responses still differ."""
    req = [(d["method"], d["path"], d["body"], None)]
    h = d["handler"]

    def differ(oa, ob):
        return not isinstance(oa, str) and not isinstance(ob, str) and G.canon_response(oa[0], h) != G.canon_response(ob[0], h)
    try:
        cands = _candidates(d["config"])
        lines = []
        for c in cands:
            lines += [G.case_line(_without(d["config"], {c}), d["world"], req), G.case_line(_without(d["config2"], {c}), d["world"], req)]
        outs = run_lines(chk, lines, "shrinkpair")
        ok = {c for k, c in enumerate(cands) if differ(outs[2 * k], outs[2 * k + 1])}
        if not ok:
            return
        a, b = _without(d["config"], ok), _without(d["config2"], ok)
        o = run_lines(chk, [G.case_line(a, d["world"], req), G.case_line(b, d["world"], req)], "shrinkpair2")
        if differ(o[0], o[1]):
            d["config"], d["config2"], d["a"], d["b"] = a, b, o[0][0], o[1][0]
    except Exception as e:  # shrinking is a convenience
        chk.notes.append("shrink of a cfg/cfg' pair failed: %s" % e)


def shrink_leak(chk, leak, usernames):
    """Greedy: drop sections / modules of the configuration the leaking request does not need."""
    cfg = leak["config"]
    req = [(leak["method"], leak["path"], leak["body"], None)]
    cands = []
    for sec, v in cfg.items():
        cands.append((sec, None))
        if isinstance(v, dict):
            for name, m in v.items():
                if isinstance(m, dict):
                    cands.append((sec, name))

    def without(c, drops):
        out = {}
        for sec, v in c.items():
            if (sec, None) in drops:
                continue
            if isinstance(v, dict):
                out[sec] = {k: x for k, x in v.items() if (sec, k) not in drops}
            else:
                out[sec] = v
        return out
    try:
        env = leak.get("env")
        outs = run_lines(chk, [G.case_line(without(cfg, {c}), leak["world"], req, env=env) for c in cands], "shrink")
        ok = {c for c, o in zip(cands, outs) if still_leaks(o, leak["token"], leak["form"], usernames)}
        if not ok:
            return cfg
        small = without(cfg, ok)
        o = run_lines(chk, [G.case_line(small, leak["world"], req, env=env)], "shrink2")[0]
        if still_leaks(o, leak["token"], leak["form"], usernames):
            return small
        first = sorted(ok, key=str)[0]
        return without(cfg, {first})
    except Exception as e:  # shrinking is a convenience
        chk.notes.append("shrink failed: %s" % e)
        return cfg


def report_leak(chk, leak, usernames, bad_rows, idx):
    small = shrink_leak(chk, leak, usernames)
    rel = [row_text(r) for r in bad_rows if r["handler"] in (leak["handler"], "*")]
    chk.violation("leak_%d" % idx, {
        "kind": "input", "probe": "httpserver/TestVerifProbeHttpcfg",
        "request": "%s %s" % (leak["method"], leak["path"]), "method": leak["method"], "path": leak["path"], "body": leak["body"],
        "handler": leak["handler"], "route": leak["route"], "params": leak["params"],
        "config": small, "environment": leak.get("env") or {}, "world": leak["world"], "token": leak["token"], "token_form": leak["form"],
        "password_key": leak["password_key"], "status": leak["code"], "response_excerpt": leak["excerpt"],
        "oracle_verdict": "VALUE FOUND: the response of the real handler contains the configured password itself (%s form)%s"
                          % (leak["form"], "; the password was supplied through the environment, not the configuration file"
                             if leak.get("env") else ""),
        "broken": "C18: response contains a configured password" + ("; table:ReadSets rows " + "; ".join(rel) if rel else ""),
        "cmd": "bin/check C18 --replay <this file>"})


def run(chk, failed):
    rows = G.parse_reads(G.gen_text("ReadSets"))
    routes, rt_unknown = G.parse_routes(G.gen_text("RouteTable"))
    feeds = G.parse_feeds(G.gen_text("RespFields"))
    lits = [l for l in G.harvest_literals(C.REPO) if "/" not in l and l.strip() == l and l]
    extra_routes = G.harvest_paths(C.REPO, {p for _, p, _ in routes})
    if extra_routes:
        chk.notes.append("URL-like literals of the sources that are not in RouteTable, also requested: %s"
                         % sorted({p for _, p, _ in extra_routes}))
    routes = routes + extra_routes
    chk.rule = ("random Burrow configurations (1-3 clusters, consumers, client/SASL/TLS profiles, 0-4 notifiers of classes "
                "http/email/slack/null, names incl. mixed case, dotted, key words such as 'password', string literals of the "
                "httpserver sources; every third configuration with nested-name families x / x.y / x.y.z in sasl, tls, "
                "client-profile, cluster, consumer, notifier, storage -- parent explicit or implied, child names incl. key words -- "
                "each member referenced by a client profile, a cluster and a consumer) with password values that are high-entropy tokens (plain, with "
                "JSON/URL/HTML-special characters, numeric) or -- a quarter of them -- RELATED to other settings (equal to / prefix / "
                "suffix / inside / extension of the user name, equal to or part of another field of the module, the profile name, a "
                "client id, 1-3 characters; such values are not searched for, they are judged by the cfg/cfg' comparison); "
                "EVERY registered route of the regenerated RouteTable with every configured name and near-misses "
                "(case variants, <name>.password, <section>.<name>.password, other sections' names, key words) as parameters, "
                "served by the real router under cfg and under cfg' (same configuration, fresh tokens); plus two taint runs per "
                "configuration (every leaf a unique token); non-trivial = a 200 answer of a parameterised route under a "
                "configuration that holds at least one password; distinct by (route, parameter class, configuration, path)")
    chk.obligation("table:RouteTable every registration analysed", not rt_unknown, "; ".join("%s: %s" % u for u in rt_unknown))
    if rt_unknown:
        failed = failed + [("table:RouteTable", "unanalysed registrations: %s" % rt_unknown)]
    bad_rows, fields_ok, diag_err = ([], True, "")
    if failed:
        bad_rows, fields_ok, diag_err = diagnose(chk, rows, feeds)
        if bad_rows is None:
            bad_rows, fields_ok = [], None
            chk.notes.append("diagnosis of the table obligations did not compile: " + diag_err)
    bad_feeds = [f for f in feeds if f["kind"] == "FOther"]
    walked = set(G.parse_walked(G.gen_text("ReadSets")))
    unwalked = sorted({"%s %s -> %s" % (m, p_, h) for (m, p_, h) in routes if h not in walked and h != "?"})
    if unwalked:
        chk.notes.append("route handlers the reads pass did not walk (C18_all_route_handlers_walked fails): %s" % unwalked)
    search = bool(failed)

    n = 120 if not chk.thorough else 3000
    batch = 60
    leaks, diffs, unexplained = [], [], []
    stats = {"pairs": 0, "taint_tokens_seen": 0, "taint_tokens_explained": 0, "env_pairs": 0}
    c0 = None

    def add(res):
        l2, d2, u2, s2 = res
        leaks.extend(l2)
        diffs.extend(d2)
        unexplained.extend(u2)
        for k_ in stats:
            stats[k_] += s2[k_]
    for b0 in range(0, n, batch):
        cases = make_cases(chk, routes, lits, min(batch, n - b0))
        c0 = c0 or cases[0]
        add(judge(chk, cases, rows, "nonint"))
        if len(leaks) >= 12:
            break
    if search and not leaks and not diffs:
        # an obligation failed: look harder for a request that shows it -- rich configurations (every section, every
        # notifier class, every cluster behind a SASL profile), module names and parameters drawn from the string
        # literals of the sources (a leak that needs one particular name), every literal as a parameter and as the key
        # of a query string
        C.log("C18: obligation failed, no leak in the standard batch; running the focused search")
        for rnd, kw in enumerate((dict(rich=True, rel_p=0.9, per_route=20), dict(rich=True, nested=True, dotted=False, per_route=40),
                                  dict(rich=True, all_lits=True, per_route=30), dict(rich=True, lit_names=True, all_lits=True, per_route=30, nested=True),
                                  dict(rich=False, lit_names=True, all_lits=True, dotted=False, per_route=30))):
            for rep in range(1 if not chk.thorough else 10):
                add(judge(chk, make_cases(chk, routes, lits, 16, **kw), rows, "search%d" % rnd, count=False))
                if leaks:
                    break
            if leaks:
                break
    diffs = confirm_diffs(chk, [d for d in diffs if not any(l["case"] == d["case"] and l["req"] == d["req"] for l in leaks)]) \
        if not leaks else []
    chk.evaluations += 2 * (stats["pairs"] + stats["env_pairs"])
    chk.traces_validated += 2 * (stats["pairs"] + stats["env_pairs"])
    chk.count("oracle:request-pairs", stats["pairs"])
    chk.count("oracle:request-pairs-with-passwords-from-environment", stats["env_pairs"])
    chk.count("oracle:taint-tokens-seen", stats["taint_tokens_seen"])
    chk.count("oracle:taint-tokens-explained-by-table", stats["taint_tokens_explained"])
    for j in (1, len(c0.reqs) // 2, len(c0.reqs) - 3):
        m, p, b, meta = c0.reqs[j]
        chk.sample({"request": "%s %s" % (m, p), "handler": meta["handler"], "passwords_in_config": c0.info["n_pw"],
                    "sections": c0.info["sections"], "verdict": "same response under cfg and cfg', no token found"})

    # ---- verdict ------------------------------------------------------------------------------------
    seen = set()
    k = 0
    for lk in leaks:
        key = lk["handler"]
        if key in seen or k >= 3:
            continue
        seen.add(key)
        report_leak(chk, lk, sorted({str(v.get("username")) for sec in G.PW_SECTIONS for v in lk["config"].get(sec, {}).values()
                                     if isinstance(v, dict) and v.get("username")}), bad_rows or [], k)
        k += 1
    by_handler = {}
    for d in diffs:
        if d.get("culprits") is not None:      # attributed and shrunk ones first
            by_handler.setdefault(d["handler"], d)
    for d in diffs:
        by_handler.setdefault(d["handler"], d)
    for i, d in enumerate(list(by_handler.values())[:3]):
        chk.violation("differs_%d" % i, {
            "kind": "input", "probe": "httpserver/TestVerifProbeHttpcfg", "request": "%s %s" % (d["method"], d["path"]),
            "method": d["method"], "path": d["path"], "body": d["body"], "handler": d["handler"], "config": d["config"],
            "config_prime": d["config2"], "world": d["world"], "passwords_that_make_the_difference": d.get("culprits", []),
            "impl_output": G.response_blob(d["a"]).decode("utf-8", "replace")[:1500],
            "impl_output_prime": G.response_blob(d["b"]).decode("utf-8", "replace")[:1500],
            "environment": d.get("env") or {}, "environment_prime": d.get("env2") or {},
            "value_found_in_response": value_found(d),
            "oracle_verdict": "DEPENDS ON THE PASSWORD (non-interference), value itself not found by the token search: two "
                              "configurations with the same keys, the same shape and a password PRESENT in both -- they differ only in "
                              "the password's VALUE -- get different responses, and the request answers identically when repeated "
                              "under cfg.  Presence/absence of a password cannot explain the difference (cfg' never adds or removes "
                              "one); the response is a function of the value (a masked or partial copy, its length, a digest ...), "
                              "i.e. it discloses information about the value.  See value_found_in_response for whether a password "
                              "that could not be searched for (short, or equal to another setting) occurs verbatim.",
            "broken": "C18 non-interference on the implementation", "cmd": "bin/check C18 --replay <this file>"})
    if unexplained and not leaks:
        u = unexplained[0]
        chk.violation("table_incomplete", {
            "kind": "table", "broken": "table:ReadSets is incomplete (corr: translator /verif/translator/http reads <-> handlers)",
            "request": "%s %s" % (u["method"], u["path"]), "handler": u["handler"], "config": u["config"],
            "configuration_leaf_shown": u["password_key"], "response_excerpt": u["excerpt"],
            "detail": "the response shows the value of a configuration leaf that no row of this handler in ReadSets.table "
                      "covers: the read table does not describe the handler, so C18_burrow_noninterference says nothing about "
                      "it (%d such values in this run)" % len(unexplained),
            "cmd": "bin/check C18 --replay <this file>"}, found_input=False)
    if failed and not leaks and not diffs:
        chk.violation("obligation", {
            "kind": "table", "broken": ("table:RouteTable (a registration the translator cannot name) / ReadSets.walked"
                                        if (rt_unknown or unwalked) and not bad_rows else
                                        "table:ReadSets" if (bad_rows or not bad_feeds) else "table:RespFields"),
            "failed_obligations": [n_ for n_, _ in failed],
            "offending_rows": [row_text(r) for r in (bad_rows or [])],
            "offending_feeds": ["%s.%s in handler %s at %s is filled by %s" % (f["struct"], f["field"], f["handler"], f["pos"], f["detail"])
                                for f in bad_feeds],
            "fields_obligation_holds": fields_ok,
            "route_handlers_not_walked": unwalked, "unanalysed_registrations": ["%s: %s" % u for u in rt_unknown],
            "detail": [d[-1200:] for _, d in failed][:3],
            "note": "no request of the dynamic search (%d request pairs) made a handler show a password; the read-set / field-feed "
                    "obligation (or a theorem) no longer checks" % stats["pairs"]}, found_input=False)
    elif failed:
        chk.notes.append("failed obligations: %s; offending rows: %s" % ([n_ for n_, _ in failed], [row_text(r) for r in bad_rows or []]))
    chk.notes.append("read table: %d rows (%d package-wide), %d routes, %d response-literal feeds; taint run: %d configuration "
                     "values seen in responses, %d covered by the handler's rows"
                     % (len(rows), sum(1 for r in rows if r["handler"] == "*"), len(routes), len(feeds),
                        stats["taint_tokens_seen"], stats["taint_tokens_explained"]))
    chk.assumptions += [
        "a handler's response is a function of: the results of the viper accesses listed for it (and for '*') in ReadSets.table, the "
        "request, and the storage/evaluator replies (which carry no configuration: Storage.state has no configuration component)",
        "the table is complete for the httpserver package: checked syntactically by the translator (fail-closed: anything it cannot "
        "analyse is a PUnknown/KUnknown/FOther row) and dynamically by the taint run; NOT covered: methods of values whose type is "
        "declared in another package of the module, reflection/unsafe, reading the configuration FILE or the environment directly",
        "settings supplied through the ENVIRONMENT (main.go: viper.AutomaticEnv, prefix BURROW, '.'/'-' -> '_') are no leaf of any "
        "configuration tree, so agree_except_passwords does not literally speak about them; the read table is about KEY STRINGS and "
        "viper consults the environment for the same keys, so a handler whose rows avoid password keys cannot read such a password "
        "either -- covered by argument and by the dynamic runs with BURROW_<SECTION>_<NAME>_PASSWORD (every fourth configuration), "
        "not by a Coq statement",
        "viper lookup as modelled in Http.v: keys lower-cased (ASCII), split at '.', descent through nested maps; configuration keys "
        "themselves contain no '.' (the dynamic runs do include dotted module names)",
        "password paths are sasl.<n>.password and notifier.<n>.password (the only password keys read in /repo/core); credentials "
        "embedded in other settings (a URL with user:pass@, notifier headers/extras) are outside the property's list",
    ]
    chk.trusted += ["translator /verif/translator/http (reads, fields): go/ast walk of core/internal/httpserver and of the module's "
                    "packages it calls; viper/cast semantics as modelled; httprouter; encoding/json"]


# ---------------------------------------------------------------------------------------------------

def replay(path):
    import framework
    obj = json.load(open(path))
    chk = framework.Check("C18", "quick", int(obj.get("seed", 1)))
    if "config" not in obj or "method" not in obj:
        print("replay file names a table obligation, not an input:", obj.get("broken"))
        for r in obj.get("offending_rows", []):
            print("  ", r)
        pre(chk)
        failed = chk.prove()
        print("obligations now:", "FAIL %s" % [n for n, _ in failed] if failed else "hold")
        return 1 if failed else 0
    line = G.case_line(obj["config"], obj.get("world", {}), [(obj["method"], obj["path"], obj.get("body", ""), None)],
                       env=obj.get("environment") or None)
    lines = [line]
    if "config_prime" in obj:
        lines.append(G.case_line(obj["config_prime"], obj.get("world", {}), [(obj["method"], obj["path"], obj.get("body", ""), None)],
                                 env=obj.get("environment_prime") or None))
    outs = run_lines(chk, lines, "replay")
    if isinstance(outs[0], str):
        print("probe:", outs[0])
        return 1
    blob = G.response_blob(outs[0][0])
    print("request :", obj["method"], obj["path"])
    print("status  :", outs[0][0]["code"])
    print("response:", blob.decode("utf-8", "replace")[:1200])
    if "token" in obj:
        users = sorted({str(v.get("username")) for sec in G.PW_SECTIONS for v in obj["config"].get(sec, {}).values()
                        if isinstance(v, dict) and v.get("username")})
        hit = [f for f, b in G.leak_forms(obj["token"], users).items() if b in blob]
        print("password %r (%s) in response: %s" % (obj["token"], obj.get("password_key"), hit or "no"))
        return 1 if hit else 0
    if len(outs) > 1 and not isinstance(outs[1], str):
        same = G.canon_response(outs[0][0], obj.get("handler", "")) == G.canon_response(outs[1][0], obj.get("handler", ""))
        print("responses under cfg and cfg' are", "identical" if same else "DIFFERENT")
        return 0 if same else 1
    return 0
