"""C04 — group status is a faithful aggregate of its partitions."""
import common as C
import evalgen


def parse_group(s):
    """'G st cbits total lag M <part|-> P n parts...' -> dict"""
    f = s.split()
    assert f[0] == "G", s
    g = {"status": int(f[1]), "complete": int(f[2]), "total": int(f[3]), "totallag": int(f[4])}
    i = 6
    if f[i] == "-":
        g["maxlag"] = None
        i += 1
    else:
        g["maxlag"] = f[i:i + 9]
        i += 9
    assert f[i] == "P", s
    n = int(f[i + 1])
    i += 2
    g["parts"] = [f[i + 9 * k:i + 9 * k + 9] for k in range(n)]
    return g


def canon(line, tie):
    """Canonical form of 'full || filtered' for the model/implementation comparison: under a tie for the largest lag the
    identity of the max-lag partition is replaced by its lag."""
    if not tie:
        return line
    out = []
    for v in line.split(" || ")[:2]:
        g = parse_group(v)
        ml = "-" if g["maxlag"] is None else "maxlag-with-lag-" + g["maxlag"][7]
        out.append("G %d %d %d %d M %s P %d %s" % (g["status"], g["complete"], g["total"], g["totallag"], ml, len(g["parts"]),
                                                    " ".join(" ".join(p) for p in g["parts"])))
    return " || ".join(out)


def oracle(gcase, allg, filtg):
    """The property's own statement evaluated on the implementation's output (its own partition list)."""
    errs = []
    parts = allg["parts"]
    st = [int(p[4]) for p in parts]
    want = 1
    if any(s >= 3 for s in st):
        want = 3
    elif any(s == 2 for s in st):
        want = 2
    if allg["status"] != want:
        errs.append("group status %d, partitions imply %d" % (allg["status"], want))
    lags = [int(p[7]) for p in parts]
    if allg["totallag"] != sum(lags) % 2**64:
        errs.append("total lag %d != sum %d" % (allg["totallag"], sum(lags)))
    nparts = sum(len(ps) for _, ps in gcase["topics"])
    if allg["total"] != nparts or len(parts) != nparts:
        errs.append("partition count %d/%d != %d" % (allg["total"], len(parts), nparts))
    if (allg["maxlag"] is None) != (len(parts) == 0):
        errs.append("maxlag presence")
    if allg["maxlag"] is not None:
        if allg["maxlag"] not in parts:
            errs.append("maxlag is not a listed partition")
        elif int(allg["maxlag"][7]) != max(lags):
            errs.append("maxlag lag %s != max %d" % (allg["maxlag"][7], max(lags)))
    # completeness = (number of partitions whose own Complete is exactly 1.0) / (number of partitions), as float32
    if parts:
        full = sum(1 for p in parts if int(p[8]) == 0x3F800000)
        want_c = evalgen.f32bits(full / len(parts)) if full < len(parts) else 0x3F800000
        if allg["complete"] != want_c and not (full == 0 and allg["complete"] == 0):
            errs.append("group completeness bits %#x, %d of %d partitions complete imply %#x" % (allg["complete"], full, len(parts), want_c))
    elif allg["complete"] != 0:
        errs.append("group without partitions reports completeness %#x" % allg["complete"])
    # identity: the listed (topic, partition index) pairs are exactly the partitions of the storage reply
    if "topics" in gcase and all(ps is not None for _, ps in gcase["topics"]):
        want_ids = sorted((t, i) for t, ps in gcase["topics"] for i in range(len(ps)))
        got_ids = sorted((int(p[0].lstrip("t") or 0) if not p[0].lstrip("-").isdigit() else int(p[0]), int(p[1])) for p in parts)
        if len(want_ids) == len(got_ids) and [i for _, i in want_ids] != [i for _, i in got_ids] and sorted(i for _, i in want_ids) != sorted(i for _, i in got_ids):
            errs.append("listed partition indices %s are not those of the storage reply %s" % (got_ids[:8], want_ids[:8]))
    # problems-only view
    if filtg["parts"] != [p for p in parts if int(p[4]) > 1]:
        errs.append("filtered view is not exactly the partitions worse than OK (order preserved)")
    for k in ("status", "complete", "total", "totallag", "maxlag"):
        if filtg[k] != allg[k]:
            errs.append("filtered view differs on summary field " + k)
    return errs


def run(chk, failed):
    n = 400 if not chk.thorough else 12000
    groups, cases = [], []
    for ln in C.read_corpus(chk.pid):          # minimised past failures first (single-topic group lines)
        groups.append({"topics": _topics_of(ln), "corpus_line": ln})
        cases.append(ln)
        chk.count("corpus")
    for i in range(n):
        g = evalgen.gen_group(chk.rng, i)
        groups.append(g)
        cases.append(evalgen.fmt_group(g))
    chk.rule = ("groups of 0-4 topics x 0-6 partitions in the shapes storage can report (full / partial windows, "
                "empty ring, no ring, owner-only), ties for the largest lag, minimum-complete and allowed-lag settings, "
                "evaluated through the real request channel + cache + evaluateConsumerStatus with the storage reply "
                "supplied by the probe, both views; non-trivial = at least two partitions with at least two distinct "
                "partition statuses or a tie for the largest lag; distinct by case line")
    impl = chk.run_impl("eval", "TestVerifProbeEval", cases, name="group")
    # the Go map iteration order shows in the order of the full view: give the model the same order
    mcases = []
    for g, a in zip(groups, impl):
        allg = parse_group(a.split(" || ")[0])
        order = []
        for p in allg["parts"]:
            if int(p[0]) not in order:
                order.append(int(p[0]))
        mcases.append(g["corpus_line"] if "corpus_line" in g else evalgen.fmt_group(g, order))
    model = chk.run_model("eval", mcases, name="group")
    chk.evaluations += len(cases)
    chk.traces_validated += len(cases)
    shown = 0
    for i, (g, c, a, b) in enumerate(zip(groups, mcases, impl, model)):
        pa = a.split(" || ")
        allg, filtg = parse_group(pa[0]), parse_group(pa[1])
        sts = set(int(p[4]) for p in allg["parts"])
        lags = sorted(int(p[7]) for p in allg["parts"])
        tie = len(lags) >= 2 and lags[-1] == lags[-2]
        if len(allg["parts"]) >= 2 and (len(sts) >= 2 or tie):
            chk.nontrivial.add(C.case_hash(c))
        chk.count("group_status:%d" % allg["status"])
        chk.count("partitions:%d" % min(len(allg["parts"]), 8))
        if tie:
            chk.count("tie_for_maxlag")
        errs = oracle(g, allg, filtg)
        if pa[2].split()[1] != "1":
            errs.append("serving the filtered view changed what a later full request sees")
        # Which of several partitions TIED for the largest lag max-lag names is not fixed by the property ("names a listed
        # partition with the largest current lag"): with a tie the max-lag entry is compared by its lag only (the oracle above
        # has already checked that it is a listed partition carrying the maximum).
        mismatch = canon(" || ".join(pa[:2]), tie) != canon(b, tie)
        if i in (0, len(cases) // 2, len(cases) - 1):
            chk.sample({"case": c, "impl": a, "model": b})
        if errs or mismatch:
            shown += 1
            if shown <= 5:
                chk.violation("group_%d" % i, {
                    "kind": "input", "probe": "eval/TestVerifProbeEval", "case": c, "impl_output": a, "model_output": b,
                    "oracle_verdict": errs or "aggregate rules hold on the implementation's own partition list",
                    "broken": "corr:evaluator.evaluateConsumerStatus/getConsumerStatus",
                    "cmd": "bin/check C04 --replay <this file>"}, found_input=bool(errs))
    if failed and not chk.violations:
        chk.violation("obligation", {"kind": "theorem", "broken": [n_ for n_, _ in failed],
                                     "detail": [d for _, d in failed]}, found_input=False)
    chk.assumptions += [
        "storage replies are supplied by the probe (any mix of partition states, also ones real storage would need long histories for); the storage side is C01/C02",
        "Maxlag identity among tied partitions depends on Go map iteration order: the model is given the order observed in the full view",
        "float32 completeness via Flocq binary32 (bit patterns compared)",
    ]


def replay(path):
    import json
    import framework
    obj = json.load(open(path))
    case = obj.get("case")
    if not case:
        print("replay file has no case (broken: %s)" % obj.get("broken"))
        return 2
    chk = framework.Check("C04", "quick", int(obj.get("seed", 1)))
    C.build_coq()
    impl = chk.run_impl("eval", "TestVerifProbeEval", [case], name="replay")
    model = chk.run_model("eval", [case], name="replay")
    pa = impl[0].split(" || ")
    allg, filtg = parse_group(pa[0]), parse_group(pa[1])
    f = case.split()
    # rebuild the python-side group only as far as the oracle needs it (partition count)
    ntop = int(f[4])
    print("case:  " + case)
    print("impl:  " + impl[0])
    print("model: " + model[0])
    errs = []
    try:
        gcase = {"topics": _topics_of(case)}
        errs = oracle(gcase, allg, filtg)
    except Exception as e:   # pragma: no cover
        errs = ["could not evaluate the oracle: %r" % e]
    if pa[2].split()[1] != "1":
        errs.append("serving the filtered view changed what a later full request sees")
    print("oracle: " + ("; ".join(errs) if errs else "holds"))
    lags = sorted(int(p[7]) for p in allg["parts"])
    tie = len(lags) >= 2 and lags[-1] == lags[-2]
    return 1 if errs or canon(" || ".join(pa[:2]), tie) != canon(model[0], tie) else 0


def _topics_of(case):
    """[(topic, [None]*nparts)] from a group case line (enough for the oracle's partition count)."""
    f = case.split()
    i = 5
    topics = []
    for _ in range(int(f[4])):
        t, nparts = int(f[i]), int(f[i + 1])
        i += 2
        for _ in range(nparts):
            i += 3                      # owner client curlag
            nb = int(f[i]); i += 1 + nb
            no = int(f[i]); i += 1 + 6 * no
        topics.append((t, [None] * nparts))
    return topics
