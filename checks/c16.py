"""C16 — the HTTP API answers every request with the documented envelope."""
import os

import common as C
import httpgen as G

TRANSLATOR_TABLES = (("RouteTable", "routes"),)      # ReadSets / RespFields belong to C18 (checks/c18.py)
PROBE = ("http", "http", "TestVerifProbeHttp")


def observe_routes(chk):
    """[(method, pattern, handler)] of the documented registrations the REAL router holds (router.Lookup through the probe)."""
    binp, err = C.build_probe(PROBE[1])
    if binp is None:
        return []
    work = chk.work
    cpath, opath = os.path.join(work, "routes.txt"), os.path.join(work, "routes.out")
    with open(cpath, "w") as f:
        f.write("routes %d %s\n" % (len(G.ROUTES), " ".join("%s %s" % (m, G.hx(p)) for m, p in G.ROUTES)))
    if os.path.exists(opath):
        os.remove(opath)
    rc, _ = C.run_probe(binp, PROBE[2], cpath, opath, timeout=120)
    if rc != 0 or not os.path.exists(opath):
        return []
    f = open(opath).read().split()
    if not f or f[0] != "ROUTES":
        return []
    return [(f[i], G.unhx(f[i + 1]).decode(), f[i + 2]) for i in range(1, len(f) - 2, 3) if f[i + 2] != "-"]


def pre(chk):
    """Regenerate coq/gen/RouteTable.v (route table, router options, per-handler request types) from /repo before the
    proof obligations are checked.  The translator resolves direct registrations (router.GET(...), router.Handle(...))
    and table-driven ones (a literal table of {method, pattern, handler} registered in a range loop).  Registrations it
    cannot resolve statically are taken from what the REAL router holds for the documented patterns (router.Lookup
    through the probe) before the table obligation is allowed to fail."""
    out = C.run_translator("http", ["routes"])
    if "RtUnknown" in out:
        try:
            obs = observe_routes(chk)
        except Exception as e:      # the probe not compiling is reported by run(); the static table stands
            obs = []
            chk.notes.append("route observation failed: %s" % e)
        if obs:
            out2 = C.run_translator("http", ["routes", "observed"] + [x for r in obs for x in r])
            if out2.count("RtUnknown") < out.count("RtUnknown"):
                chk.notes.append("the translator could not resolve every route registration statically; %d registrations were "
                                 "read off the real router with router.Lookup on the documented patterns (reg = \"observed\"); "
                                 "an undocumented extra registration would not be seen this way" % out2.count('"observed"'))
                out = out2
    C.write_gen("RouteTable", out)


def project(line):
    """What model and implementation are compared on: for a handled request the status code, content type, body kind,
    error flag, status name, the backend requests issued and the parameters httprouter extracted (the message and the
    request block are printed but not compared: the property does not speak about them); for an unrouted request only
    that it is unrouted; for a storage-backed case only whether the dumps agree."""
    f = line.split()
    if not f:
        return line
    if f[0] == "U":
        return " ".join(f[:2])      # unrouted: the status code (404 from NotFound, or httprouter's own 301/307/405/200)
    if f[0] == "E2E":
        return "E2E " + ("same" if len(f) > 1 and f[1] == "same" else "DIFF")
    if f[0] == "FILE":
        return " ".join(f[:3] + [":".join(x.split(":")[:2]) for x in f[3:]])
    if f[0] == "H" and len(f) > 7:
        return " ".join(f[:5] + f[7:])
    return line


def meta_of_line(ln):
    """Corpus / replay lines carry their own configuration and world."""
    f = ln.split()
    m = {"kind": "corpus", "route": "corpus", "method": f[1] if len(f) > 1 else "?", "classes": ["corpus"], "override": 0,
         "cfg": None, "world": None}
    if f and f[0] == "filecfg":
        try:
            return G.filecfg_meta_from_line(ln)
        except Exception:
            return m
    if f and f[0] == "req":
        try:
            m["cfg"], m["world"] = G.parse_cfg_world(ln)
            m["override"] = G.parse_case(ln)["override"]
        except Exception:
            pass
    return m


def judge(case, meta, impl):
    if meta["kind"] == "e2e":
        return G.oracle_e2e(meta, impl)
    if meta["kind"] == "filecfg":
        return G.oracle_filecfg(meta, impl)
    if meta["cfg"] is None:
        return "skip", "corpus line without a parsable configuration (judged by the differential only)"
    return G.oracle(case, meta["cfg"], meta["world"], impl)


def route_of(case):
    pc = G.parse_case(case)
    mt = G.match(pc["method"], pc["decoded"])
    return (G.ROUTES[mt[0]] if mt else None), pc


def focused_search(chk, routes, known):
    """After a model/implementation mismatch that the oracle accepts: a bigger batch on the same registrations (fresh
    configurations, worlds and parameters), implementation only, judged by the property's oracle."""
    n = 400 if not chk.thorough else 4000
    cases, metas = [], []
    cfg = world = None
    for i in range(n):
        if i % 5 == 0:
            cfg = G.gen_config(chk.rng)
            world = G.gen_world(chk.rng, cfg)
        c, m = G.gen_routed(chk.rng, i, cfg, world, route=routes[i % len(routes)])
        if m["override"]:
            continue
        m["cfg"], m["world"] = cfg, world
        cases.append(c)
        metas.append(m)
    impl = chk.run_impl(PROBE[1], PROBE[2], cases, name="focus")
    chk.evaluations += len(cases)
    for c, m, a in zip(cases, metas, impl):
        verdict, why = judge(c, m, a)
        if verdict == "violation":
            key = G.classify(c, why)
            if key and key in known:
                continue
            return c, a, why
    return None


def run(chk, failed):
    n = 8000 if not chk.thorough else 200000
    n_e2e = 400 if not chk.thorough else 10000
    cases, metas = [], []
    for ln in C.read_corpus(chk.pid):
        cases.append(ln)
        metas.append(meta_of_line(ln))
    gc, gm = G.gen_c16(chk.rng, n)
    cases += gc
    metas += gm
    for i in range(n_e2e):
        c, m = G.gen_e2e(chk.rng, i)
        cases.append(c)
        metas.append(m)
    n_file = 300 if not chk.thorough else 6000
    for i in range(n_file):
        c, m = G.gen_filecfg(chk.rng, i, os.path.join(C.REPO, "config"))
        cases.append(c)
        metas.append(m)
    chk.rule = ("requests against the real router (coordinator.router.ServeHTTP) with a scripted, typed storage/evaluator "
                "backend and a generated viper configuration: every registered /v3 pattern x parameter pool (existing, "
                "upper/lower-case, near-miss, dotted incl. <name>.class-name/.password, spaces, NUL, %2F, 4 KiB, unicode, "
                "invalid UTF-8, percent/reserved characters) plus a stream of mutated/unrouted paths and methods; plus "
                "storage-backed cases (real storage + evaluator + HTTP coordinators, three identical stacks: later reads compared -- a sweep "
                "of every /v3 GET route for every name, both status views of every group in both orders and repeated inside the "
                "evaluator's cache lifetime, answered by a stack that served a batch of GETs before and by one that did not, status "
                "code + canonicalised body pairwise and per repetition -- plus the dump of every Fetch type with and without GETs "
                "served, clock moved across expiry; groups with OK partitions listed before non-OK ones); plus file-configuration "
                "cases (a TOML document read with viper.ReadConfig, the real zookeeper/storage/evaluator/httpserver/notifier/cluster/"
                "consumer coordinators configured in start-up order, then every /v3/config/** and /v3/kafka/:cluster route for every "
                "module name of the file in written / lower / upper case, near-misses and dotted names); "
                "non-trivial = the request reaches a /v3 handler with at least one path parameter and a typed backend, or a "
                "storage-backed case with at least one live group; distinct by the case line")
    impl, model, mism = chk.differential(*PROBE, cases, name="req", project=project)
    # unrouted requests: outside Http.router_level_possible the model says "U 404" (the NotFound handler) and the codes are
    # compared; inside it ("U ?") httprouter may answer by itself -- any router-level answer is the router's (trusted), the
    # oracle below accepts exactly 404 / 301,307,308 + Location / 405 + Allow / OPTIONS 200 + Allow
    mism = [x for x in mism if not (x[3].strip() == "U ?" and x[2].startswith("U "))]
    for a, b in zip(impl, model):
        if b.startswith("U"):
            chk.count("unrouted:" + ("outside the router's region (404 tied)" if b.strip() == "U 404" else
                                     "inside the router's region, answered %s" % (a.split()[1] if a.startswith("U ") else a.split()[0])))
    bad = []
    for i, (c, m, a) in enumerate(zip(cases, metas, impl)):
        verdict, why = judge(c, m, a)
        if m["kind"] == "filecfg":
            chk.count("route:file configuration + real coordinators")
            chk.count("file:requests", len(m["reqs"]))
            for sect in G.FILE_SECTIONS:
                k = len(m["cfg"].get(sect, {}))
                chk.count("file:%s-modules-%s" % (sect, k if k < 3 else "3+"))
            if any(nm != nm.lower() for sect in G.FILE_SECTIONS for nm in m["cfg"].get(sect, {})):
                chk.count("file:cases with a mixed-case module name")
            if any(v.get("cluster", ("s", ""))[1] not in m["cfg"]["cluster"] for v in m["cfg"].get("consumer", {}).values()):
                chk.count("file:cases where a consumer names its cluster in another case")
            if len(m["cfg"].get("consumer", {})) >= 2:
                chk.nontrivial.add(C.case_hash(c))
            chk.count("oracle:" + (why if verdict != "violation" else "VIOLATION"))
            if verdict == "violation":
                bad.append((i, c, a, why))
            continue
        if m["kind"] == "e2e":
            chk.count("route:storage-backed twin stacks")
            chk.count("e2e:gets", len(m["gets"]))
            chk.count("e2e:ingest-ops", m["n_ops"])
            for cl in m["clusters"]:
                for cat in m["groups"][cl].values():
                    chk.count("e2e:group-" + cat)
            chk.count("e2e:clock-advance-%s-expire" % ("beyond" if m["t_end_off"] > m["expire"] else "within" if m["t_end_off"] else "none"))
            chk.count("e2e:sweep-requests (served on two stacks each)", len(m["sweep"]))
            if " mix=0 " not in a and " mix=" in a:
                chk.count("e2e:cases with an OK partition listed before a non-OK one")
            for plan in m["plans"].values():
                for _, _, kind in plan:
                    chk.count("e2e:partition-plan-" + kind)
            if " live=0 " not in a:
                chk.nontrivial.add(C.case_hash(c))
            chk.count("oracle:" + (why if verdict != "violation" else "VIOLATION"))
            if verdict == "violation":
                bad.append((i, c, a, why))
            continue
        rt, pc = route_of(c)
        if rt is not None and ":" in rt[1] and rt[1].startswith("/v3") and not m["override"]:
            chk.nontrivial.add(C.case_hash(c))
        chk.count("route:" + (rt[0] + " " + rt[1] if rt else "unrouted"))
        for cl in m["classes"]:
            chk.count("param:" + cl)
        chk.count("code:" + (a.split()[1] if a[:2] in ("H ", "U ") else a.split()[0]))
        key = G.classify(c, why) if verdict == "violation" else None
        chk.count("oracle:" + (why if verdict != "violation" else ("KNOWN " + key if key else "VIOLATION")))
        if verdict == "violation":
            bad.append((i, c, a, why))
    for i in (0, len(cases) // 3, 2 * len(cases) // 3, len(cases) - 1):
        c = cases[i]
        chk.sample({"case": (c[:300] + " ...") if len(c) > 300 else c, "impl": impl[i][:300], "model": model[i][:300]})
    reported = 0
    known = set()
    for (i, c, a, why) in bad:
        key = G.classify(c, why) if metas[i]["kind"] not in ("e2e", "filecfg") else None
        if key and chk.known_finding(key, c):
            known.add(key)
            continue
        if reported < 5:
            reported += 1
            extra = {}
            if metas[i]["kind"] == "e2e":
                req = "storage-backed case"
            elif metas[i]["kind"] == "filecfg":
                req = "configuration file (TOML, viper.ReadConfig) + real coordinators configured in start-up order, then the sweep"
                extra = {"toml": metas[i]["doc"]}
            else:
                req = G.parse_case(c)["method"] + " " + G.parse_case(c)["raw"][:300]
            chk.violation("req_%d" % i, {"kind": "input", "probe": "httpserver/TestVerifProbeHttp", "case": c,
                                         "request": req, **extra,
                                         "impl_output": a, "model_output": model[i], "oracle_verdict": why,
                                         "classifier": key,
                                         "broken": "C16 envelope / read-only rule on the implementation's response",
                                         "cmd": "bin/check C16 --replay <this file>"})
    bad_idx = {i for i, _, _, _ in bad}
    rest = [x for x in mism if x[0] not in bad_idx]
    if rest and not reported:
        # model and code disagree although the responses seen satisfy the property's own rules: look for a failing input
        # on the registrations involved before reporting a bare correspondence failure
        routes = []
        for (i, c, a, b) in rest:
            if metas[i]["kind"] in ("e2e", "filecfg") or not c.startswith("req"):
                continue
            rt, _ = route_of(c)
            if rt is not None and rt[1].startswith("/v3") and rt not in routes:
                routes.append(rt)
        found = focused_search(chk, routes[:6], {k for k in [f["key"] for f in chk.known.get("findings", []) if f["property"] == chk.pid]}) if routes else None
        if found:
            c, a, why = found
            chk.violation("focused", {"kind": "input", "probe": "httpserver/TestVerifProbeHttp", "case": c,
                                      "request": G.parse_case(c)["method"] + " " + G.parse_case(c)["raw"][:300],
                                      "impl_output": a, "oracle_verdict": why,
                                      "broken": "C16 envelope rule on the implementation's response (found by the focused batch "
                                                "after a model/implementation mismatch)",
                                      "first_mismatch": {"case": rest[0][1][:400], "impl": rest[0][2], "model": rest[0][3]},
                                      "cmd": "bin/check C16 --replay <this file>"})
            reported += 1
            rest = []
    if reported and rest:
        chk.notes.append("%d further model/implementation mismatches on responses that satisfy the oracle (not reported separately: "
                         "failing inputs were found)" % len(rest))
        rest = []
    for (i, c, a, b) in rest[:5]:
        req = metas[i]["kind"] + " case" if metas[i]["kind"] in ("e2e", "filecfg") or not c.startswith("req") else \
            (G.parse_case(c)["method"] + " " + G.parse_case(c)["raw"][:300])
        chk.violation("corr_%d" % i, {"kind": "input", "probe": "httpserver/TestVerifProbeHttp", "case": c,
                                      "request": req,
                                      "impl_output": a, "model_output": b,
                                      "oracle_verdict": "envelope rules hold on this response (and on a focused batch); the model no "
                                                        "longer describes the handler",
                                      "broken": "corr:http.handle", "cmd": "bin/check C16 --replay <this file>"},
                      found_input=False)
    if failed and not reported and not rest:
        chk.violation("obligation", {"kind": "table", "broken": [n for n, _ in failed], "detail": [d[-1500:] for _, d in failed],
                                     "note": "no request of this run failed the envelope rules; the route table / request-type "
                                             "obligation or a theorem no longer checks"}, found_input=False)
    elif failed:
        chk.notes.append("failed obligations: %s" % [n for n, _ in failed])
    chk.assumptions += [
        "path -> (route, params) is httprouter v1.3.0's matching (trusted); the model's dispatch is compared with router.Lookup on every case; "
        "httprouter's own 301/307/405/OPTIONS answers are router-level and accepted",
        "the handler theorems are stated over an abstract backend that keeps Http.backend_typed; that contract is discharged for the "
        "composed storage+evaluator backend of every reachable storage state (HttpProofs.backend_typed_reachable: run of a well-formed "
        "history, 1 <= intervals <= 2^24, at most 2^24 partitions per group) -- the evaluator's cache is covered as 'the same function at "
        "an earlier reachable state' (C05), not modelled here",
        "the evaluator turns an evaluator request into StorageFetchConsumer for the same pair (evaluator/caching.go); checked at run time by the "
        "storage-backed cases, not by a table",
        "viper lookup as modelled: '.'-separated descent through nested maps; configuration KEYS are ASCII without '.'; URL-supplied names are "
        "lower-cased as Go does (Http.go_lower: A-Z, U+212A -> k, U+0130 -> i)",
        "for a request that matches no registration httprouter's own choice (redirect / 405 / OPTIONS / NotFound) is a trusted function; it is "
        "constrained, and compared on every unrouted case, by Http.router_level_possible (outside that region: NotFound, 404)",
        "notifier detail: a configured notifier has one of the four class names (enforced at start-up by the notifier coordinator, C19)",
    ]
    chk.trusted += ["httprouter matching/redirects/405/OPTIONS; viper lookup semantics as modelled; encoding/json; "
                    "translator /verif/translator/http (go/ast walk, routes mode) for RouteTable (rows, router options, per-handler request types)"]


def replay(path):
    import json
    import framework
    obj = json.load(open(path))
    chk = framework.Check("C16", "quick", int(obj.get("seed", 1)))
    if "case" not in obj:
        print("replay file names no input (failed obligation: %s); re-run bin/check C16" % obj.get("broken"))
        return 1
    pre(chk)
    C.build_coq()
    case = obj["case"]
    impl, model, mism = chk.differential(*PROBE, [case], name="replay", project=project)
    print("impl :", impl[0][:2000])
    print("model:", model[0][:2000])
    if case.startswith("filecfg"):
        m = G.filecfg_meta_from_line(case)
        verdict, why = G.oracle_filecfg(m, impl[0])
        key = None
        print(m["doc"])
    elif case.startswith("e2e"):
        verdict, why = ("violation", "dumps differ") if project(impl[0]) != "E2E same" else ("ok", "e2e-same (codes not re-judged on replay)")
        key = None
    else:
        m = meta_of_line(case)
        verdict, why = judge(case, m, impl[0])
        key = G.classify(case, why) if verdict == "violation" else None
    print("oracle on the implementation's output:", verdict, "-", why, ("[known finding %s]" % key) if key else "")
    print("stored oracle verdict:", obj.get("oracle_verdict"))
    if verdict == "violation" and not (key and chk.known_finding(key)):
        return 1
    return 1 if mism else 0
