"""C16 — the HTTP API answers every request with the documented envelope."""
import common as C
import httpgen as G

TRANSLATOR_TABLES = (("RouteTable", "routes"), ("ReadSets", "reads"), ("RespFields", "fields"))


def pre(chk):
    """Regenerate coq/gen/{RouteTable,ReadSets,RespFields}.v from /repo before the proof obligations are checked."""
    for name, mode in TRANSLATOR_TABLES:
        C.write_gen(name, C.run_translator("http", [mode]))


def run(chk, failed):
    n = 2600 if not chk.thorough else 60000
    cases, metas = [], []
    for ln in C.read_corpus(chk.pid):
        cases.append(ln)
        metas.append({"kind": "corpus", "route": "corpus", "method": ln.split()[1], "classes": ["corpus"], "override": 0,
                      "cfg": None, "world": None})
    gc, gm = G.gen_c16(chk.rng, n)
    cases += gc
    metas += gm
    chk.rule = ("requests against the real router (coordinator.router.ServeHTTP) with a scripted, typed storage/evaluator "
                "backend and a generated viper configuration: every registered /v3 pattern x parameter pool (existing, "
                "upper/lower-case, near-miss, dotted incl. <name>.class-name/.password, spaces, NUL, %2F, 4 KiB, unicode, "
                "invalid UTF-8, percent/reserved characters) plus a stream of mutated/unrouted paths and methods; "
                "non-trivial = the request reaches a /v3 handler with at least one path parameter; distinct by "
                "(method, decoded path, backend/config fingerprint)")
    impl, model, mism = chk.differential("http", "http", "TestVerifProbeHttp", cases, name="req",
                                         project=lambda s: "U" if s.startswith("U ") or s == "U" else s)
    bad = []
    for i, (c, m, a) in enumerate(zip(cases, metas, impl)):
        if m["cfg"] is None:
            verdict, why = ("skip", "corpus")
            # corpus lines carry their own configuration; the oracle needs the python-side structures, so corpus
            # cases are judged by the differential only
        else:
            verdict, why = G.oracle(c, m["cfg"], m["world"], a)
        pc = G.parse_case(c)
        mt = G.match(pc["method"], pc["decoded"])
        if mt is not None and ":" in G.ROUTES[mt[0]][1] and G.ROUTES[mt[0]][1].startswith("/v3") and not m["override"]:
            chk.nontrivial.add(C.case_hash(c))
        route = G.ROUTES[mt[0]][0] + " " + G.ROUTES[mt[0]][1] if mt else "unrouted"
        chk.count("route:" + route)
        for cl in m["classes"]:
            chk.count("param:" + cl)
        chk.count("code:" + (a.split()[1] if a[:2] in ("H ", "U ") else a.split()[0]))
        chk.count("oracle:" + (why if verdict != "violation" else "VIOLATION"))
        if verdict == "violation":
            bad.append((i, c, a, why))
    for i in (0, len(cases) // 3, 2 * len(cases) // 3, len(cases) - 1):
        c = cases[i]
        chk.sample({"case": (c[:300] + " ...") if len(c) > 300 else c, "request": G.parse_case(c)["method"] + " " + G.parse_case(c)["raw"][:120],
                    "impl": impl[i][:300], "model": model[i][:300]})
    reported = 0
    for (i, c, a, why) in bad:
        key = G.classify(c, why)
        if key and chk.known_finding(key, c):
            continue
        if reported < 5:
            reported += 1
            pc = G.parse_case(c)
            chk.violation("req_%d" % i, {"kind": "input", "probe": "httpserver/TestVerifProbeHttp", "case": c,
                                         "request": pc["method"] + " " + pc["raw"][:300],
                                         "impl_output": a, "model_output": model[i], "oracle_verdict": why,
                                         "classifier": key,
                                         "broken": "C16 envelope rule on the implementation's response",
                                         "cmd": "bin/check C16 --replay <this file>"})
    bad_idx = {i for i, _, _, _ in bad}
    for (i, c, a, b) in [x for x in mism if x[0] not in bad_idx][:5]:
        # model and code disagree although the response satisfies the property's own rules
        pc = G.parse_case(c)
        chk.violation("corr_%d" % i, {"kind": "input", "probe": "httpserver/TestVerifProbeHttp", "case": c,
                                      "request": pc["method"] + " " + pc["raw"][:300],
                                      "impl_output": a, "model_output": b,
                                      "oracle_verdict": "envelope rules hold on this response; the model no longer describes the handler",
                                      "broken": "corr:http.handle", "cmd": "bin/check C16 --replay <this file>"},
                      found_input=False)
    if failed and not bad and not mism:
        chk.violation("obligation", {"kind": "table", "broken": [n for n, _ in failed], "detail": [d[-1500:] for _, d in failed],
                                     "note": "no request of this run failed the envelope rules; the route table / request-type "
                                             "obligation or a theorem no longer checks"}, found_input=False)
    elif failed:
        chk.notes.append("failed obligations: %s" % [n for n, _ in failed])
    chk.assumptions += [
        "path -> (route, params) is httprouter v1.3.0's matching (trusted); the model's dispatch is compared with router.Lookup on every case",
        "the storage/evaluator subsystems are an abstract backend; theorems assume Http.backend_typed (to be discharged from the storage/evaluator models)",
        "viper lookup as modelled: keys lower-cased (ASCII), '.'-separated descent through nested maps; configuration keys contain no '.', no U+212A/U+0130",
        "notifier detail: a configured notifier has one of the four class names (enforced at start-up by the notifier coordinator, C19)",
    ]
    chk.trusted += ["httprouter matching/redirects/405/OPTIONS; viper lookup semantics as modelled; encoding/json; "
                    "translator /verif/translator/http (go/ast walk) for RouteTable/ReadSets/RespFields"]


def replay(path):
    import json
    import os
    import framework
    obj = json.load(open(path))
    chk = framework.Check("C16", "quick", int(obj.get("seed", 1)))
    pre(chk)
    C.build_coq()
    impl, model, mism = chk.differential("http", "http", "TestVerifProbeHttp", [obj["case"]], name="replay")
    print("impl :", impl[0])
    print("model:", model[0])
    print("stored oracle verdict:", obj.get("oracle_verdict"))
    return 1 if (mism or impl[0] != obj.get("impl_output")) and not obj.get("classifier") else 0
