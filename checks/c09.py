"""C09 — Deletion and expiry remove exactly what they name.

Tie: the real InMemoryStorage handlers (probe `storage`) and the extracted model Burrow.Storage run the same
deletion/expiry-heavy histories (checks/delgen.py); around every deletion, every too-old commit and every expiry probe
ALL fetch types for ALL known (and some unknown) keys of ALL clusters are issued before and after, so the frame condition
is observed on the implementation exactly as the theorems of props/C09.v state it.
Verdict: the property's own oracle (delgen.oracle_c09: removal, frame, expiry, too-old — computed from the inputs and the
implementation's replies only) runs on every history; a failure is shrunk and reported with the failing history.  A
disagreement with the model on which the oracle finds nothing is reported as `no-failing-input-found`."""
import json

import common as C
import storage_common as SC
import storagegen
import delgen as G

RULE = ("deletion/expiry histories over 1-3 clusters that share group and topic names, groups sharing topics, groups with a single "
        "topic; events: delete whole group / one topic of a group (last, one of several, foreign, unknown) / topic (shared, single, "
        "unconsumed, unknown) / unknown cluster, expiry by advancing the clock past expire-group with some groups refreshed, commits "
        "at -60000/-1000/-1/0/+1 ms of the too-old boundary, re-ingestion after deletion; 25 % of the histories with a huge legal "
        "expire-group (9223372036 .. 10^15 and the edge of in_i64((now-expire)*1000)) where commits seconds..a year old must be kept and "
        "nothing expires; every event is bracketed by all fetch types for "
        "all keys. non-trivial = a history with a deletion whose target was present before AND at least two other non-empty replies "
        "in the same bracket (something to preserve); distinct by the history line")


def _event_stats(line, impl_line):
    """(number of bracketed deletion events, number whose target was present with other state around)"""
    head, ops = SC.split_history(line)
    replies, _ = G.align(ops, impl_line)
    n_ev = n_live = 0
    for i, op in enumerate(ops):
        if op[0] not in ("DG", "DT"):
            continue
        rb, ra = G.fetch_run_before(ops, i), G.fetch_run_after(ops, i)
        if not len(rb) or not len(ra):
            continue
        before = G.snapshot(ops, replies, rb)
        if before is None:
            continue
        n_ev += 1
        c = int(op[2])
        if op[0] == "DG":
            target = before.get(("FX", c, int(op[3])))
            present = target not in (None, "NIL") and (int(op[4]) == 0 or int(op[4]) in (G.consumer_topics(target) or {}))
            tkey = ("FX", c, int(op[3]))
        else:
            target = before.get(("FO", c, int(op[3])))
            present = target not in (None, "NIL")
            tkey = ("FO", c, int(op[3]))
        others = sum(1 for k, v in before.items() if k != tkey and k[0] in ("FX", "FO") and v not in ("NIL", "K 0"))
        if present and others >= 2:
            n_live += 1
    return n_ev, n_live


def _fails(line, impl_line, kinds=None):
    fs = G.oracle_c09(line, impl_line)
    if kinds is not None:
        fs = [f for f in fs if f[1] in kinds]
    return fs


def shrink_oracle(chk, line, kind):
    """Delta debugging on the implementation alone: drop operations while the oracle still reports a failure of `kind`."""
    head, ops = SC.split_history(line)
    impl = chk.run_impl("storage", "TestVerifProbeStorage", [line], name="shrink")
    fs = _fails(line, impl[0], {kind})
    if not fs:
        return line
    # nothing after the failing bracket matters
    end = G.fetch_run_after(ops, fs[0][0])
    line = SC.join_history(head, ops[:(end[-1] + 1) if len(end) else fs[0][0] + 1])

    def pred(lines):
        impls = chk.run_impl("storage", "TestVerifProbeStorage", lines, name="shrink")
        return [bool(_fails(ln, a, {kind})) for ln, a in zip(lines, impls)]
    return G.ddmin(line, pred)


def _report(chk, name, line, found=True, broken=None, why=None):
    impl, model = SC.run_both(chk, [line], "report")
    fs = G.oracle_c09(line, impl[0])
    chk.violation(name, {"kind": "history", "probe": "storage/TestVerifProbeStorage", "case": line,
                         "impl_output": impl[0], "model_output": model[0],
                         "oracle_verdict": [f[2] for f in fs][:6] or (why or "oracle accepts; implementation differs from Burrow.Storage.step"),
                         "broken": broken or "C09 removal/frame/expiry on the implementation",
                         "cmd": "bin/check C09 --replay <this file>"}, found_input=found)


def run(chk, failed):
    n = 500 if not chk.thorough else 12000
    lines, tags = [], []
    for ln in C.read_corpus(chk.pid):
        lines.append(ln)
        tags.append({"corpus"})
    for i in range(n):
        h = G.gen_delete(chk.rng, i)
        lines.append(h.line())
        tags.append(h.tags)
    for i in range(n // 3):
        h = storagegen.gen_general(chk.rng, "delete")
        lines.append(h.line())
        tags.append({"general-" + t for t in h.tags} | {"storagegen-delete"})
    chk.rule = RULE
    impl, model = SC.run_both(chk, lines, "del")
    chk.evaluations += len(lines)
    chk.traces_validated += len(lines)

    n_events = 0
    for ln, tg, a in zip(lines, tags, impl):
        chk.count("histories")
        for t in tg:
            chk.count("tag:" + t)
        ev, live = _event_stats(ln, a)
        n_events += ev
        chk.count("bracketed-deletions", ev)
        chk.count("bracketed-deletions-of-present-item-with-other-state", live)
        if live:
            chk.nontrivial.add(C.case_hash(ln))
        if "CRASH" in a:
            chk.count("impl-crash")
    for i in (0, len(lines) // 2, len(lines) - 1):
        chk.sample({"case": lines[i][:700], "impl": impl[i][:700], "model": model[i][:700]})

    # the property's oracle on every implementation output
    reported = 0
    kinds_seen = set()
    for i, (ln, a) in enumerate(zip(lines, impl)):
        fs = []
        for f in G.oracle_c09(ln, a):
            # recorded, unrepaired defects: reported as KNOWN-FINDING when known_findings.json lists the classifier's key
            if f[1].startswith("known:") and chk.known_finding(f[1][6:]):
                chk.count("known-finding:" + f[1][6:])
                continue
            fs.append(f)
        if not fs:
            continue
        kind = fs[0][1]
        chk.count("oracle-failure:" + kind)
        if kind in kinds_seen or reported >= 3:
            continue
        kinds_seen.add(kind)
        reported += 1
        small = shrink_oracle(chk, ln, kind)
        _report(chk, "%s_%d" % (kind.replace("-", "").replace(":", "_"), i), small)

    mism = [(i, ln, a, b) for i, (ln, a, b) in enumerate(zip(lines, impl, model)) if a != b]
    chk.count("model-mismatches", len(mism))
    if mism and not reported:
        # search: a larger focused batch through the oracle (implementation only), then give up with the shrunk disagreement
        extra = [G.gen_delete(chk.rng, i).line() for i in range(4 * n)]
        eimpl = chk.run_impl("storage", "TestVerifProbeStorage", extra, name="search")
        for ln, a in zip(extra, eimpl):
            fs = [f for f in G.oracle_c09(ln, a) if not (f[1].startswith("known:") and chk.known_finding(f[1][6:]))]
            if fs:
                small = shrink_oracle(chk, ln, fs[0][1])
                _report(chk, "search_" + fs[0][1].replace("-", ""), small)
                reported += 1
                break
    if mism and not reported:
        i, ln, a, b = mism[0]
        small = SC.shrink(chk, ln, lambda x, y: x != y)
        _report(chk, "mismatch_%d" % i, small, found=False, broken="corr:storage.deleteGroup/deleteTopic/fetchConsumer (Burrow.Storage.step)")
    if failed and not reported and not mism:
        chk.violation("obligation", {"kind": "theorem", "broken": [x for x, _ in failed], "detail": [d for _, d in failed]},
                      found_input=False)
    chk.assumptions += [
        "handlers are called directly and sequentially on one module (interleavings are C08); metrics deletion (httpserver.Delete*Metrics) is not observed here (C17)",
        "expired/too_old: (now - expire-group) * 1000 is int64 arithmetic; theorems expired_spec/too_old_spec hold under in_i64((now-expire)*1000), "
        "the example C09_expiry_guard_needed shows the wrap outside it; generated expire-group values go up to the edge of that guard "
        "(now0 + 2^63 div 1000), never beyond",
        "consumerGroup.lastCommit is (since fix 989bf1d) the largest own timestamp among the commits the group's rings stored and never "
        "decreases (C09_stored_commit_raises_last, C09_g_last_after_commit, C09_g_last_monotone); in every reachable state every stored commit's "
        "timestamp is <= lastCommit (C09_stored_timestamps_below_last), hence a group reported not found stores only commits older than the "
        "cut-off (C09_purged_only_if_all_stored_expired, all histories, inside the int64 guard); not-found <-> lastCommit older than the cut-off "
        "(C09_notfound_iff_newest_commit_expired); the converse `all stored timestamps old => not found` is false by design (min-distance merge, "
        "ring eviction: C09_ex_all_stored_expired_yet_reported); the expiry oracle demands: all sent commits old => not found; a certainly stored "
        "commit whose own timestamp is inside the expiry time, or a stored commit seen in an earlier reply, and no deletion since => reported",
        "a group left without topics: delete-topic keeps it listed (empty); delete-group-topic of its last topic removes it (documented "
        "mechanism, accepted); delete-group-topic of a topic it does not consume changes nothing (fix c5037b9, "
        "C09_delete_foreign_topic_changes_nothing) - a hard failure of the oracle when the bracket shows the group did not consume the topic",
        "status requests are not part of this tie: the evaluator answers from its cache for up to expire-cache seconds after a deletion "
        "(composition with C05); the HTTP level is observed by C16's end-to-end case and C17",
    ]


def replay(path):
    import framework
    obj = json.load(open(path))
    case = obj.get("case")
    if not case:
        print("replay file has no case (theorem-level failure): %s" % obj.get("broken"))
        return 1
    chk = framework.Check("C09", "quick", int(obj.get("seed", 1)))
    impl, model = SC.run_both(chk, [case], "replay")
    fs = G.oracle_c09(case, impl[0])
    print("case  : %s\nimpl  : %s\nmodel : %s" % (case, impl[0], model[0]))
    for f in fs:
        print("oracle: op %d [%s] %s" % f)
    if not fs:
        print("oracle: accepts")
    return 1 if (fs or impl[0] != model[0]) else 0
