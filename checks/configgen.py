"""C19 — the ONE catalogue of configurations: valid bases, edits (invalidating and validity-preserving), and the
encoding of a configuration as a case line that both the Go probe (probes/config) and the OCaml driver (drv_config.ml)
read.

A configuration is a set of viper key/value pairs plus the state of the outside world that Configure looks at (which
files exist and what they contain).  A case line is

    cfg <base> <edit+edit|-> <token> <token> ...

    s:<key>:<hex>            string           l:<key>:<hex>,<hex>,...  list of strings     i:<key>:<int>   b:<key>:<0|1>
    t:<key>                  empty table
    F:<kind>:<hex>[:<hex>]:<0|1>   fact = value of one of the model's oracles on one argument:
        host    helpers.ValidateHostPort(v, false)          listen  helpers.ValidateHostPort(v, true)
        zkpath  helpers.ValidateZookeeperPath(v)            zkcons  helpers.ValidateZookeeperPath(v + "/consumers")
        re      regexp.Compile(v) succeeds                  kver    parseKafkaVersion(v) does not panic
        tmpl    template ParseFiles(v) succeeds             file    os.ReadFile(v) succeeds
        pair    tls.LoadX509KeyPair(cert, key) succeeds     mail    ValidateHostList([host + ":" + port])  (F:mail:<hexhost>:<port>:<b>)
        capem   file readable and holds a PEM certificate (helpers/zookeeper.go:66-74)
    (the probe materialises file/tmpl/pair facts as real files in its scratch directory and ignores the others: the real
    code computes those itself, so a wrong entry of the tables below shows up as a model/implementation mismatch)

    X:<state>                state of the caller's ApplicationContext when core.Start is entered (default fresh):
        fresh   new context, ConfigurationValid = false
        preset  new context constructed with ConfigurationValid = true
        reuse   the context an earlier core.Start returned from; that earlier call's configuration is given by the same
                tokens with the prefix P (Ps:<key>:<hex>, PF:<kind>:...), and the output line ends in pre=<rc>/<valid>

String values that start with "@/" name files of the probe's scratch directory.  "@/shipped-<name>" is a copy of the
tree's own config/<name> (the notification templates Burrow ships; the probe reads them from $VERIF_REPO_CONFIG), and
"@/helpers.tmpl" is a template that calls every documented template helper function.
"""

# ---------------------------------------------------------------------------------------------------------------
# The outside world: what the real validation helpers answer on every literal the catalogue uses.
# ---------------------------------------------------------------------------------------------------------------

HOSTPORT = {            # helpers.ValidateHostPort(v, false)      core/internal/helpers/validation.go:114-151
    "127.0.0.1:1": True, "[::1]:1": True, "zk1.example.com:2181": True, "kafka_broker:9092": True,
    "nocolon": False, "zk1.example.com:http": False, "-bad-.example.com:2181": False, ":2181": False,
    "broker1": False, "256.1.1.1:9092": False, "": False,
}
LISTEN = {              # helpers.ValidateHostPort(v, true)
    "127.0.0.1:0": True, ":0": True, "localhost:0": True,
    "127.0.0.1": False, "-bad-:8000": False, "": False, "127.0.0.1:http": False,
}
ZKPATH = {              # helpers.ValidateZookeeperPath(v)        validation.go:53-73
    "/": True, "/burrow": True, "/burrow/a.b_c-d": True,
    "burrow": False, "/burrow/": False, "": False, "/bur row": False,
}
ZKCONS = {              # helpers.ValidateZookeeperPath(v + "/consumers")   kafka_zk_client.go:85-90
    "": True, "/kafka": True, "/kafka/cluster-1": True,
    "kafka": False, "/kafka/": False, "/": False,
}
REGEX = {               # regexp.Compile(v) == nil error
    "^ok": True, "^x": True, "^tmp-.*$": True, "^(console-consumer-|quick-).*$": True,
    "(": False, "[a-": False, "a{2,1}": False, "*": False,
}
KVER = {                # parseKafkaVersion(v) returns            core/internal/helpers/sarama.go:49-61
    "2.0.0": True, "0.10.2": True, "0.10.2.1": True, "3.6.0": True,
    "banana": False, "2": False, "1.0": False,
}


MAILHOST = {"127.0.0.1": True, "smtp.example.com": True, "": False, "mail host": False, "-smtp": False}


def mail_ok(host, port):    # ValidateHostList([]string{fmt.Sprintf("%s:%v", host, port)})   notifier/email.go:65-73
    return MAILHOST[host]   # any integer port passes strconv.Atoi


# file kinds: "tmpl" parses, "badtmpl" exists but does not parse, "pem" certificate/key material, "junk" readable non-PEM
SHIPPED = ["default-http-post.tmpl", "default-http-delete.tmpl", "default-email.tmpl", "default-slack-post.tmpl",
           "default-slack-delete.tmpl"]      # /repo/config/*.tmpl: a valid notifier may point at any of them
BASE_FILES = {"@/open.tmpl": "tmpl", "@/close.tmpl": "tmpl", "@/mail.tmpl": "tmpl", "@/bad.tmpl": "badtmpl",
              "@/helpers.tmpl": "tmpl",
              "@/cert.pem": "pem", "@/key.pem": "pem", "@/ca.pem": "pem", "@/junk.txt": "junk"}
BASE_FILES.update({"@/shipped-" + n: "tmpl" for n in SHIPPED})


def hx(s):
    return s.encode().hex()


class Cfg:
    def __init__(self):
        self.kv = {}        # key -> (type, value)   type in s l i b t
        self.files = dict(BASE_FILES)

    def copy(self):
        c = Cfg()
        c.kv = dict(self.kv)
        c.files = dict(self.files)
        return c

    def apply(self, ops):
        for op in ops:
            k = op[0]
            if k in "slib":
                self.kv[op[1]] = (k, op[2])
            elif k == "t":
                self.kv[op[1]] = ("t", None)
            elif k == "del":
                self.kv.pop(op[1], None)
            elif k == "delprefix":
                for key in [x for x in self.kv if x.startswith(op[1])]:
                    del self.kv[key]
            elif k == "file":
                if op[2] is None:
                    self.files.pop(op[1], None)
                else:
                    self.files[op[1]] = op[2]
            else:
                raise ValueError(op)
        return self

    # -- facts -----------------------------------------------------------------------------------------------
    def readable(self, name):
        return name in self.files

    def tmpl_ok(self, name):
        return self.files.get(name) == "tmpl"

    def pair_ok(self, cert, key):
        return cert != key and self.files.get(cert) == "pem" and self.files.get(key) == "pem"

    def gets(self, key, default=""):
        t, v = self.kv.get(key, ("s", default))
        return v if t == "s" else default

    def facts(self):
        out = []
        seen = set()

        def add(kind, args, val):
            tok = "F:%s:%s:%d" % (kind, ":".join(args), 1 if val else 0)
            if tok not in seen:
                seen.add(tok)
                out.append(tok)

        for key, (t, v) in self.kv.items():
            parts = key.split(".")
            last = parts[-1]
            if last == "servers" and t == "l" and parts[0] in ("zookeeper", "cluster", "consumer"):
                for h in v:
                    add("host", [hx(h)], HOSTPORT[h])
            elif key == "zookeeper.root-path" and t == "s":
                add("zkpath", [hx(v)], ZKPATH[v])
            elif parts[0] == "consumer" and last == "zookeeper-path" and t == "s":
                add("zkcons", [hx(v)], ZKCONS[v])
            elif parts[0] == "httpserver" and last == "address" and t == "s":
                add("listen", [hx(v)], LISTEN[v])
            elif last in ("group-allowlist", "group-denylist") and t == "s" and v != "":
                add("re", [hx(v)], REGEX[v])
            elif parts[0] == "notifier" and last in ("template-open", "template-close") and t == "s":
                add("file", [hx(v)], self.readable(v))
                add("tmpl", [hx(v)], self.tmpl_ok(v))
            elif parts[0] == "notifier" and last == "extra-ca" and t == "s":
                add("file", [hx(v)], self.readable(v))
            elif parts[0] == "tls" and last == "cafile" and t == "s":
                add("file", [hx(v)], self.readable(v))
                add("capem", [hx(v)], self.files.get(v) == "pem")
            elif parts[0] == "client-profile" and last == "kafka-version" and t == "s":
                add("kver", [hx(v)], KVER[v])
        # consumers without a zookeeper-path key use "" ; the empty template path never parses
        add("zkcons", [hx("")], ZKCONS[""])
        add("tmpl", [hx("")], False)
        add("capem", [hx("")], False)
        # TLS profiles: certificate/key pair facts (and the files themselves)
        for prof in sorted({k.split(".")[1] for k in self.kv if k.startswith("tls.") and k.count(".") >= 2}):
            cert, key = self.gets("tls.%s.certfile" % prof), self.gets("tls.%s.keyfile" % prof)
            for f in (cert, key):
                if f:
                    add("file", [hx(f)], self.readable(f))
            if cert and key:
                add("pair", [hx(cert), hx(key)], self.pair_ok(cert, key))
        # email notifiers: server:port
        for mod in sorted({k.split(".")[1] for k in self.kv if k.startswith("notifier.") and k.count(".") >= 2}):
            host = self.gets("notifier.%s.server" % mod)
            t, port = self.kv.get("notifier.%s.port" % mod, ("i", 0))
            add("mail", [hx(host), str(port)], mail_ok(host, port))
        return out

    def tokens(self):
        toks = []
        for key, (t, v) in self.kv.items():
            if t == "t":
                toks.append("t:%s" % key)
        for key, (t, v) in self.kv.items():
            if t == "s":
                toks.append("s:%s:%s" % (key, hx(v)))
            elif t == "l":
                toks.append("l:%s:%s" % (key, ",".join(hx(x) for x in v)))
            elif t == "i":
                toks.append("i:%s:%d" % (key, v))
            elif t == "b":
                toks.append("b:%s:%d" % (key, 1 if v else 0))
        return toks + self.facts()


# ---------------------------------------------------------------------------------------------------------------
# Valid bases
# ---------------------------------------------------------------------------------------------------------------

CORE = [
    ("s", "storage.s1.class-name", "inmemory"),
    ("s", "evaluator.e1.class-name", "caching"),
    ("s", "httpserver.h1.address", "127.0.0.1:0"),
]

TLS = [
    ("s", "tls.t1.certfile", "@/cert.pem"),
    ("s", "tls.t1.keyfile", "@/key.pem"),
    ("s", "tls.t1.cafile", "@/ca.pem"),
]

NOTIFY = CORE + TLS + [
    ("l", "zookeeper.servers", ["127.0.0.1:1"]),
    ("s", "zookeeper.root-path", "/"),      # "/" : the coordinator's Start needs no round trip to the (absent) ensemble
    ("s", "storage.s1.group-allowlist", "^ok"),
    ("s", "httpserver.h2.address", "127.0.0.1:0"),
    ("s", "httpserver.h2.tls", "t1"),
    ("s", "notifier.n1.class-name", "http"),
    ("s", "notifier.n1.url-open", "http://127.0.0.1:1/open"),
    ("s", "notifier.n1.url-close", "http://127.0.0.1:1/close"),
    ("b", "notifier.n1.send-close", True),
    ("s", "notifier.n1.template-open", "@/shipped-default-http-post.tmpl"),      # calls the helper jsonencoder
    ("s", "notifier.n1.template-close", "@/shipped-default-http-delete.tmpl"),
    ("s", "notifier.n1.group-denylist", "^x"),
    ("s", "notifier.n1.extra-ca", "@/ca.pem"),
    ("s", "notifier.n2.class-name", "email"),
    ("s", "notifier.n2.server", "127.0.0.1"),
    ("i", "notifier.n2.port", 25),
    ("s", "notifier.n2.from", "burrow@example.com"),
    ("s", "notifier.n2.to", "oncall@example.com"),
    ("s", "notifier.n2.auth-type", "plain"),
    ("s", "notifier.n2.username", "u"),
    ("s", "notifier.n2.password", "p"),
    ("s", "notifier.n2.template-open", "@/shipped-default-email.tmpl"),
    ("s", "notifier.n3.class-name", "null"),
    ("s", "notifier.n3.template-open", "@/open.tmpl"),
]

KAFKA = TLS + [
    ("s", "client-profile.p1.kafka-version", "2.0.0"),
    ("s", "client-profile.p1.client-id", "verif"),
    ("s", "client-profile.p1.tls", "t1"),
    ("s", "client-profile.p1.sasl", "s1"),
    ("s", "sasl.s1.username", "u"),
    ("s", "sasl.s1.password", "p"),
    ("s", "sasl.s1.mechanism", "SCRAM-SHA-256"),
    ("s", "cluster.c1.class-name", "kafka"),
    ("l", "cluster.c1.servers", ["127.0.0.1:1"]),
    ("s", "cluster.c1.client-profile", "p1"),
    ("s", "consumer.k1.class-name", "kafka"),
    ("s", "consumer.k1.cluster", "c1"),
    ("l", "consumer.k1.servers", ["127.0.0.1:1"]),
    ("s", "consumer.k1.client-profile", "p1"),
    ("s", "consumer.k1.group-denylist", "^(console-consumer-|quick-).*$"),
    ("s", "consumer.z1.class-name", "kafka_zk"),
    ("s", "consumer.z1.cluster", "c1"),
    ("l", "consumer.z1.servers", ["127.0.0.1:1"]),
    ("s", "consumer.z1.zookeeper-path", "/kafka"),
]

BASES = {
    # id: (ops, description, expected implementation output)
    "core": (CORE, "explicit storage/evaluator/httpserver only; no notifier, cluster or consumer",
             "RET 0 valid=true configured=cluster,consumer,evaluator,httpserver,storage started=cluster,consumer,evaluator,httpserver,storage"),
    "notify": (NOTIFY, "zookeeper + http/email/null notifiers (http and email on the shipped config/*.tmpl, null on a "
                       "helper-free template) + TLS listener; no cluster or consumer",
               "RET 0 valid=true configured=cluster,consumer,evaluator,httpserver,notifier,storage,zookeeper "
               "started=cluster,consumer,evaluator,httpserver,notifier,storage,zookeeper"),
    "kafka": (KAFKA, "default storage/evaluator/httpserver; client profile with TLS+SASL, one cluster and a kafka and a "
                     "kafka_zk consumer, all pointing at the unreachable 127.0.0.1:1 (Start fails at start time)",
              "RET 1 valid=true configured=cluster,consumer,evaluator,httpserver,storage started=cluster,evaluator,httpserver,storage"),
}

# ---------------------------------------------------------------------------------------------------------------
# The catalogue of edits.  inv: True = violates a documented requirement wherever its target exists,
# False = validity-preserving, None = depends on the rest of the configuration.  `on` = bases in which the edit's target
# exists (the single-edit cross-check of the catalogue against the formal spec is made there).
# ---------------------------------------------------------------------------------------------------------------

E = []


def edit(eid, kind, inv, on, ops, cite, what):
    E.append({"id": eid, "kind": kind, "inv": inv, "on": on, "ops": ops, "cite": cite, "what": what})


# zookeeper -----------------------------------------------------------------------------------------------------
edit("zk-servers-missing", "server-list", True, ["notify"], [("del", "zookeeper.servers")],
     "core/internal/zookeeper/coordinator.go:62-64", "no zookeeper.servers while notifiers are configured")
edit("zk-servers-empty", "server-list", True, ["notify"], [("l", "zookeeper.servers", [])],
     "core/internal/zookeeper/coordinator.go:62-64", "empty zookeeper.servers")
edit("zk-servers-malformed", "server-list", True, ["notify"], [("l", "zookeeper.servers", ["127.0.0.1:1", "nocolon"])],
     "core/internal/zookeeper/coordinator.go:65-66", "a zookeeper server without a port")
edit("zk-servers-badport", "server-list", True, ["notify"], [("l", "zookeeper.servers", ["zk1.example.com:http"])],
     "core/internal/zookeeper/coordinator.go:65-66", "a zookeeper server with a non-numeric port")
edit("zk-root-relative", "zookeeper-path", True, ["notify"], [("s", "zookeeper.root-path", "burrow")],
     "core/internal/zookeeper/coordinator.go:69-72", "root path without leading slash")
edit("zk-root-trailing", "zookeeper-path", True, ["notify"], [("s", "zookeeper.root-path", "/burrow/")],
     "core/internal/zookeeper/coordinator.go:69-72", "root path with trailing slash")
edit("zk-root-empty", "zookeeper-path", True, ["notify"], [("s", "zookeeper.root-path", "")],
     "core/internal/zookeeper/coordinator.go:69-72", "root path set to the empty string")
edit("zk-servers-two", "preserving", False, ["notify"], [("l", "zookeeper.servers", ["127.0.0.1:1", "[::1]:1"])],
     "core/internal/helpers/validation.go:114-151", "two well-formed zookeeper servers (IPv4 and IPv6)")
edit("zk-timeout", "preserving", False, ["notify"], [("i", "zookeeper.timeout", 10)],
     "core/internal/zookeeper/coordinator.go:59", "explicit zookeeper timeout")

# zookeeper.tls: read by the coordinator's Start (start-time failure: Start returns 1, ConfigurationValid stays true)
edit("zk-tls-ok", "preserving", False, ["notify"], [("s", "zookeeper.tls", "t1")],
     "core/internal/helpers/zookeeper.go:46-61", "zookeeper over TLS with a usable profile")
edit("zk-tls-unknown-profile", "start-time", False, ["notify"], [("s", "zookeeper.tls", "nosuch")],
     "core/internal/helpers/zookeeper.go:65-69; core/internal/zookeeper/coordinator.go:85-89",
     "zookeeper.tls names a profile that does not exist: the (empty) CA file cannot be read when the coordinator starts")
edit("zk-tls-ca-unreadable", "start-time", False, ["notify"],
     [("s", "zookeeper.tls", "tz"), ("s", "tls.tz.cafile", "@/missing.pem")],
     "core/internal/helpers/zookeeper.go:65-69; core/internal/zookeeper/coordinator.go:85-89", "zookeeper TLS CA file cannot be read")
edit("zk-tls-ca-not-pem", "start-time", False, ["notify"],
     [("s", "zookeeper.tls", "tz"), ("s", "tls.tz.cafile", "@/junk.txt")],
     "core/internal/helpers/zookeeper.go:71-74; core/internal/zookeeper/coordinator.go:85-89", "zookeeper TLS CA file holds no certificate")
edit("zk-tls-key-unreadable", "start-time", False, ["notify"],
     [("s", "zookeeper.tls", "tz"), ("s", "tls.tz.cafile", "@/ca.pem"), ("s", "tls.tz.certfile", "@/cert.pem"),
      ("s", "tls.tz.keyfile", "@/missing.pem")],
     "core/internal/helpers/zookeeper.go:80-86; core/internal/zookeeper/coordinator.go:85-89", "zookeeper TLS key file cannot be read")

# zookeeper.root-path other than "/": the coordinator's Start has to create it on the ensemble; nothing listens on the
# catalogue's addresses, so Start returns the error (start-time failure: Start returns 1, ConfigurationValid stays true)
edit("zk-root-default", "start-time", False, ["notify"], [("del", "zookeeper.root-path")],
     "core/internal/zookeeper/coordinator.go:57,92-96,118-139", "no root-path: the default /burrow must be created on the unreachable ensemble")
edit("zk-root-nested", "start-time", False, ["notify"], [("s", "zookeeper.root-path", "/burrow/a.b_c-d")],
     "core/internal/zookeeper/coordinator.go:92-96,118-139", "a well-formed nested root path must be created on the unreachable ensemble")
edit("notifier-table-empty-with-zk", "start-time", False, ["core", "kafka"],
     [("t", "notifier"), ("l", "zookeeper.servers", ["127.0.0.1:1"])],
     "core/burrow.go:42-55; core/internal/zookeeper/coordinator.go:92-96",
     "an empty [notifier] table with zookeeper servers: zookeeper and notifier coordinators exist, default root path")
edit("notifier-table-empty-with-zk-root", "preserving", False, ["core", "kafka"],
     [("t", "notifier"), ("l", "zookeeper.servers", ["[::1]:1"]), ("s", "zookeeper.root-path", "/")],
     "core/burrow.go:42-55", "an empty [notifier] table with zookeeper servers and root path /: everything starts")

# storage -------------------------------------------------------------------------------------------------------
edit("storage-two-modules", "module-count", True, ["core", "notify", "kafka"],
     [("s", "storage.s1.class-name", "inmemory"), ("s", "storage.s2.class-name", "inmemory")],
     "core/internal/storage/coordinator.go:87-98", "two storage modules")
edit("storage-unknown-class", "class-name", True, ["core", "notify", "kafka"], [("s", "storage.s1.class-name", "memcached")],
     "core/internal/storage/coordinator.go:72-73", "unknown storage class")
edit("storage-empty-class", "class-name", True, ["core", "notify", "kafka"], [("s", "storage.s1.class-name", "")],
     "core/internal/storage/coordinator.go:72-73", "storage module without class-name")
edit("storage-legacy-whitelist", "legacy-key", True, ["core", "notify", "kafka"],
     [("s", "storage.s1.class-name", "inmemory"), ("s", "storage.s1.group-whitelist", "^ok")],
     "core/internal/storage/inmemory.go:139-142", "legacy group-whitelist key in storage")
edit("storage-legacy-blacklist", "legacy-key", True, ["core", "notify", "kafka"],
     [("s", "storage.s1.class-name", "inmemory"), ("s", "storage.s1.group-blacklist", "^x")],
     "core/internal/storage/inmemory.go:139-142", "legacy group-blacklist key in storage")
edit("storage-allowlist-bad", "pattern", True, ["core", "notify", "kafka"],
     [("s", "storage.s1.class-name", "inmemory"), ("s", "storage.s1.group-allowlist", "(")],
     "core/internal/storage/inmemory.go:144-152", "storage group-allowlist does not compile")
edit("storage-denylist-bad", "pattern", True, ["core", "notify", "kafka"],
     [("s", "storage.s1.class-name", "inmemory"), ("s", "storage.s1.group-denylist", "[a-")],
     "core/internal/storage/inmemory.go:154-162", "storage group-denylist does not compile")
edit("storage-denylist-good", "preserving", False, ["core", "notify", "kafka"],
     [("s", "storage.s1.class-name", "inmemory"), ("s", "storage.s1.group-denylist", "^tmp-.*$")],
     "core/internal/storage/inmemory.go:154-162", "storage group-denylist that compiles")
edit("storage-negative-queue-depth", "value", True, ["core", "notify", "kafka"],
     [("s", "storage.s1.class-name", "inmemory"), ("i", "storage.s1.queue-depth", -1)],
     "core/internal/storage/inmemory.go:131-133", "negative queue-depth: make(chan, -1) raises a runtime error (an `error` panic value)")
edit("storage-intervals", "preserving", False, ["core", "notify", "kafka"],
     [("s", "storage.s1.class-name", "inmemory"), ("i", "storage.s1.intervals", 5)],
     "core/internal/storage/inmemory.go:123-127", "explicit intervals")

# evaluator -----------------------------------------------------------------------------------------------------
edit("evaluator-two-modules", "module-count", True, ["core", "notify", "kafka"],
     [("s", "evaluator.e1.class-name", "caching"), ("s", "evaluator.e2.class-name", "caching")],
     "core/internal/evaluator/coordinator.go:86-98", "two evaluator modules")
edit("evaluator-unknown-class", "class-name", True, ["core", "notify", "kafka"], [("s", "evaluator.e1.class-name", "lru")],
     "core/internal/evaluator/coordinator.go:70-71", "unknown evaluator class")
edit("evaluator-negative-expire", "value", True, ["core", "notify", "kafka"],
     [("s", "evaluator.e1.class-name", "caching"), ("i", "evaluator.e1.expire-cache", -1)],
     "core/internal/evaluator/caching.go:72-80", "negative expire-cache (the cache refuses it)")
edit("evaluator-expire", "preserving", False, ["core", "notify", "kafka"],
     [("s", "evaluator.e1.class-name", "caching"), ("i", "evaluator.e1.expire-cache", 30)],
     "core/internal/evaluator/caching.go:65-67", "explicit expire-cache")

# httpserver ----------------------------------------------------------------------------------------------------
edit("http-address-noport", "address", True, ["core", "notify", "kafka"], [("s", "httpserver.h1.address", "127.0.0.1")],
     "core/internal/httpserver/coordinator.go:78-81", "listener address without a port")
edit("http-address-badhost", "address", True, ["core", "notify", "kafka"], [("s", "httpserver.h1.address", "-bad-:8000")],
     "core/internal/httpserver/coordinator.go:78-81", "listener address with an invalid host name")
edit("http-address-empty", "address", True, ["core", "notify", "kafka"], [("s", "httpserver.h1.address", "")],
     "core/internal/httpserver/coordinator.go:78-81", "listener without an address")
edit("http-address-blankhost", "preserving", False, ["core", "notify", "kafka"], [("s", "httpserver.h1.address", ":0")],
     "core/internal/helpers/validation.go:127-130", "listener address with blank host")
edit("http-second-listener", "preserving", False, ["core", "notify", "kafka"], [("s", "httpserver.h3.address", "localhost:0")],
     "core/internal/httpserver/coordinator.go:72-118", "an additional listener")
edit("http-second-listener-bad", "address", True, ["core", "notify", "kafka"],
     [("s", "httpserver.h1.address", "127.0.0.1:0"), ("s", "httpserver.h3.address", "127.0.0.1")],
     "core/internal/httpserver/coordinator.go:72-81",
     "two listeners, one of them with an address without a port (the other one must not be left bound)")
edit("http-third-listener-bad", "address", True, ["core", "notify", "kafka"],
     [("s", "httpserver.h1.address", "127.0.0.1:0"), ("s", "httpserver.h3.address", "localhost:0"), ("s", "httpserver.h4.address", "-bad-:8000")],
     "core/internal/httpserver/coordinator.go:72-81", "three listeners, one of them with an invalid host name")
edit("http-tls-unknown-profile", "tls", True, ["core", "notify", "kafka"],
     [("s", "httpserver.h1.address", "127.0.0.1:0"), ("s", "httpserver.h1.tls", "nosuch")],
     "core/internal/httpserver/coordinator.go:92-112", "listener names a TLS profile that does not exist (no certificate/key)")
edit("tls-key-missing", "tls", None, ["notify"], [("del", "tls.t1.keyfile")],
     "core/internal/httpserver/coordinator.go:110-112", "TLS profile without keyfile (refused for a listener; a client profile then uses no client certificate)")
edit("tls-ca-unreadable", "tls", True, ["notify", "kafka"], [("s", "tls.t1.cafile", "@/missing.pem")],
     "core/internal/httpserver/coordinator.go:100-104; core/internal/helpers/sarama.go:94-97", "CA file cannot be read")
edit("tls-cert-not-pem", "tls", True, ["notify", "kafka"], [("s", "tls.t1.certfile", "@/junk.txt")],
     "core/internal/httpserver/coordinator.go:113-116; core/internal/helpers/sarama.go:104-108", "certificate file is not a certificate")
edit("tls-key-unreadable", "tls", True, ["notify", "kafka"], [("s", "tls.t1.keyfile", "@/missing.pem")],
     "core/internal/httpserver/coordinator.go:113-116; core/internal/helpers/sarama.go:104-108", "key file cannot be read")
edit("tls-no-ca", "preserving", False, ["notify", "kafka"], [("del", "tls.t1.cafile")],
     "core/internal/httpserver/coordinator.go:99; core/internal/helpers/sarama.go:91-92", "TLS profile without a CA file")

# notifier ------------------------------------------------------------------------------------------------------
edit("notifier-unknown-class", "class-name", True, ["notify"], [("s", "notifier.n3.class-name", "slack")],
     "core/internal/notifier/coordinator.go:138-139", "unknown notifier class")
edit("notifier-legacy-whitelist", "legacy-key", True, ["notify"], [("s", "notifier.n1.group-whitelist", "^ok")],
     "core/internal/notifier/coordinator.go:189-193", "legacy group-whitelist key in a notifier")
edit("notifier-legacy-blacklist", "legacy-key", True, ["notify"], [("s", "notifier.n3.group-blacklist", "^x")],
     "core/internal/notifier/coordinator.go:189-193", "legacy group-blacklist key in a notifier")
edit("notifier-allowlist-bad", "pattern", True, ["notify"], [("s", "notifier.n2.group-allowlist", "(")],
     "core/internal/notifier/coordinator.go:196-205", "notifier group-allowlist does not compile")
edit("notifier-denylist-bad", "pattern", True, ["notify"], [("s", "notifier.n1.group-denylist", "a{2,1}")],
     "core/internal/notifier/coordinator.go:208-217", "notifier group-denylist does not compile")
edit("notifier-allowlist-good", "preserving", False, ["notify"], [("s", "notifier.n3.group-allowlist", "^ok")],
     "core/internal/notifier/coordinator.go:196-205", "notifier group-allowlist that compiles")
edit("notifier-template-open-missing", "template", True, ["notify"], [("s", "notifier.n3.template-open", "@/nosuch.tmpl")],
     "core/internal/notifier/coordinator.go:224-229", "template-open names a file that does not exist")
edit("notifier-template-open-unset", "template", True, ["notify"], [("del", "notifier.n3.template-open")],
     "core/internal/notifier/coordinator.go:224-229", "no template-open")
edit("notifier-template-open-malformed", "template", True, ["notify"], [("s", "notifier.n2.template-open", "@/bad.tmpl")],
     "core/internal/notifier/coordinator.go:224-229", "template-open does not parse")
edit("notifier-template-close-missing", "template", True, ["notify"], [("s", "notifier.n1.template-close", "@/nosuch.tmpl")],
     "core/internal/notifier/coordinator.go:232-238", "send-close with a template-close that does not exist")
edit("notifier-template-close-unneeded", "preserving", False, ["notify"], [("s", "notifier.n3.template-close", "@/nosuch.tmpl")],
     "core/internal/notifier/coordinator.go:232", "missing template-close without send-close is not looked at")
edit("notifier-url-open-missing", "url", True, ["notify"], [("del", "notifier.n1.url-open")],
     "core/internal/notifier/http.go:64-68", "http notifier without url-open")
edit("notifier-url-close-missing", "url", True, ["notify"], [("del", "notifier.n1.url-close")],
     "core/internal/notifier/http.go:73-79", "http notifier with send-close and no url-close")
edit("notifier-send-close-off", "preserving", False, ["notify"], [("b", "notifier.n1.send-close", False)],
     "core/internal/notifier/http.go:73-74", "send-close switched off")
edit("notifier-extra-ca-unreadable", "tls", True, ["notify"], [("s", "notifier.n1.extra-ca", "@/missing.pem")],
     "core/internal/notifier/helpers.go:133-138", "extra-ca file cannot be read")
edit("notifier-extra-ca-noverify", "preserving", False, ["notify"],
     [("s", "notifier.n1.extra-ca", "@/missing.pem"), ("b", "notifier.n1.noverify", True)],
     "core/internal/notifier/helpers.go:133", "unreadable extra-ca is not looked at with noverify")
edit("email-server-missing", "address", True, ["notify"], [("del", "notifier.n2.server")],
     "core/internal/notifier/email.go:65-73", "email notifier without server")
edit("email-server-bad", "address", True, ["notify"], [("s", "notifier.n2.server", "mail host")],
     "core/internal/notifier/email.go:65-73", "email server is not a host name")
edit("email-port-unset", "preserving", False, ["notify"], [("del", "notifier.n2.port")],
     "core/internal/notifier/email.go:66-70", "email notifier without port: port 0 passes the host:port validation")
edit("email-from-missing", "from-to", True, ["notify"], [("del", "notifier.n2.from")],
     "core/internal/notifier/email.go:75-79", "email notifier without from")
edit("email-to-empty", "from-to", True, ["notify"], [("s", "notifier.n2.to", "")],
     "core/internal/notifier/email.go:81-85", "email notifier with empty to")
edit("email-auth-unknown", "value", True, ["notify"], [("s", "notifier.n2.auth-type", "ntlm")],
     "core/internal/notifier/email.go:112-122", "unknown SMTP auth type")
edit("email-auth-crammd5", "preserving", False, ["notify"], [("s", "notifier.n2.auth-type", "CramMD5")],
     "core/internal/notifier/email.go:112-117", "auth type is matched case-insensitively")
edit("notifier-table-empty", "section", None, ["core", "kafka"], [("t", "notifier")],
     "core/burrow.go:41-54", "an empty [notifier] table pulls in the zookeeper coordinator (invalid without zookeeper.servers)")
edit("notifier-removed", "preserving", False, ["notify"], [("delprefix", "notifier.")],
     "core/burrow.go:41-54", "no notifier section: zookeeper settings are not looked at")

# client profiles -----------------------------------------------------------------------------------------------
edit("cluster-unknown-profile", "reference", True, ["kafka"], [("s", "cluster.c1.client-profile", "nosuch")],
     "core/internal/helpers/sarama.go:70-72", "cluster names an unknown client-profile")
edit("consumer-unknown-profile", "reference", True, ["kafka"], [("s", "consumer.k1.client-profile", "nosuch")],
     "core/internal/helpers/sarama.go:70-72", "consumer names an unknown client-profile")
edit("cluster-default-profile", "preserving", False, ["kafka"], [("del", "cluster.c1.client-profile")],
     "core/internal/helpers/sarama.go:69-75", "no client-profile: defaults")
edit("profile-version-bad", "value", True, ["kafka"], [("s", "client-profile.p1.kafka-version", "banana")],
     "core/internal/helpers/sarama.go:49-56", "unknown kafka-version")
edit("profile-version-short", "value", True, ["kafka"], [("s", "client-profile.p1.kafka-version", "1.0")],
     "core/internal/helpers/sarama.go:49-56", "two-part kafka-version above 0.x")
edit("profile-version-legacy", "preserving", False, ["kafka"], [("s", "client-profile.p1.kafka-version", "0.10.2")],
     "core/internal/helpers/sarama.go:32-47", "legacy three-part kafka-version")
edit("profile-version-default", "preserving", False, ["kafka"], [("del", "client-profile.p1.kafka-version")],
     "core/internal/helpers/sarama.go:75", "kafka-version defaulted")
edit("profile-no-tls", "preserving", False, ["kafka"], [("del", "client-profile.p1.tls")],
     "core/internal/helpers/sarama.go:83", "client profile without TLS")
edit("profile-no-sasl", "preserving", False, ["kafka"], [("del", "client-profile.p1.sasl")],
     "core/internal/helpers/sarama.go:116", "client profile without SASL")

# cluster -------------------------------------------------------------------------------------------------------
edit("cluster-unknown-class", "class-name", True, ["kafka"], [("s", "cluster.c1.class-name", "kafka10")],
     "core/internal/cluster/coordinator.go:64-65", "unknown cluster class")
edit("cluster-servers-missing", "server-list", True, ["kafka"], [("del", "cluster.c1.servers")],
     "core/internal/cluster/kafka_cluster.go:68-70", "cluster without servers")
edit("cluster-servers-malformed", "server-list", True, ["kafka"], [("l", "cluster.c1.servers", ["127.0.0.1:1", "broker1"])],
     "core/internal/cluster/kafka_cluster.go:71-72", "cluster server without port")
edit("cluster-servers-badip", "server-list", True, ["kafka"], [("l", "cluster.c1.servers", ["256.1.1.1:9092"])],
     "core/internal/cluster/kafka_cluster.go:71-72", "cluster server with an impossible IPv4 address")
edit("cluster-second", "preserving", False, ["kafka"],
     [("s", "cluster.c2.class-name", "kafka"), ("l", "cluster.c2.servers", ["kafka_broker:9092"])],
     "core/internal/cluster/coordinator.go:78-84", "a second cluster (docker-style host name)")
edit("cluster-refresh", "preserving", False, ["kafka"], [("i", "cluster.c1.offset-refresh", 20)],
     "core/internal/cluster/kafka_cluster.go:76-81", "explicit offset-refresh")

# consumer ------------------------------------------------------------------------------------------------------
edit("consumer-unknown-cluster", "reference", True, ["kafka"], [("s", "consumer.k1.cluster", "nosuch")],
     "core/internal/consumer/coordinator.go:87-89", "kafka consumer names an unknown cluster")
edit("consumer-zk-unknown-cluster", "reference", True, ["kafka"], [("s", "consumer.z1.cluster", "nosuch")],
     "core/internal/consumer/coordinator.go:87-89", "kafka_zk consumer names an unknown cluster")
edit("consumer-cluster-unset", "reference", True, ["kafka"], [("del", "consumer.z1.cluster")],
     "core/internal/consumer/coordinator.go:87-89", "consumer without cluster")
edit("consumer-unknown-class", "class-name", True, ["kafka"], [("s", "consumer.z1.class-name", "storm")],
     "core/internal/consumer/coordinator.go:71-72", "unknown consumer class")
edit("consumer-servers-missing", "server-list", True, ["kafka"], [("del", "consumer.k1.servers")],
     "core/internal/consumer/kafka_client.go:105-107", "kafka consumer without servers")
edit("consumer-servers-malformed", "server-list", True, ["kafka"], [("l", "consumer.k1.servers", ["-bad-.example.com:2181"])],
     "core/internal/consumer/kafka_client.go:108-109", "kafka consumer with a malformed server")
edit("consumer-zk-servers-empty", "server-list", True, ["kafka"], [("l", "consumer.z1.servers", [])],
     "core/internal/consumer/kafka_zk_client.go:75-77", "kafka_zk consumer with empty servers")
edit("consumer-zk-servers-malformed", "server-list", True, ["kafka"], [("l", "consumer.z1.servers", [":2181"])],
     "core/internal/consumer/kafka_zk_client.go:78-79", "kafka_zk consumer server with blank host")
edit("consumer-zk-path-relative", "zookeeper-path", True, ["kafka"], [("s", "consumer.z1.zookeeper-path", "kafka")],
     "core/internal/consumer/kafka_zk_client.go:85-90", "kafka_zk zookeeper-path without leading slash")
edit("consumer-zk-path-root", "zookeeper-path", True, ["kafka"], [("s", "consumer.z1.zookeeper-path", "/")],
     "core/internal/consumer/kafka_zk_client.go:85-90", "kafka_zk zookeeper-path \"/\" (\"//consumers\" is not a path)")
edit("consumer-zk-path-unset", "preserving", False, ["kafka"], [("del", "consumer.z1.zookeeper-path")],
     "core/internal/consumer/kafka_zk_client.go:85", "kafka_zk without zookeeper-path: /consumers")
edit("consumer-legacy-blacklist", "legacy-key", True, ["kafka"], [("s", "consumer.k1.group-blacklist", "^x")],
     "core/internal/consumer/kafka_client.go:119-123", "legacy group-blacklist key in a kafka consumer")
edit("consumer-zk-legacy-whitelist", "legacy-key", True, ["kafka"], [("s", "consumer.z1.group-whitelist", "^ok")],
     "core/internal/consumer/kafka_zk_client.go:92-96", "legacy group-whitelist key in a kafka_zk consumer")
edit("consumer-allowlist-bad", "pattern", True, ["kafka"], [("s", "consumer.k1.group-allowlist", "*")],
     "core/internal/consumer/kafka_client.go:125-133", "kafka consumer group-allowlist does not compile")
edit("consumer-zk-denylist-bad", "pattern", True, ["kafka"], [("s", "consumer.z1.group-denylist", "[a-")],
     "core/internal/consumer/kafka_zk_client.go:108-116", "kafka_zk consumer group-denylist does not compile")
edit("consumer-allowlist-good", "preserving", False, ["kafka"], [("s", "consumer.k1.group-allowlist", "^ok")],
     "core/internal/consumer/kafka_client.go:125-133", "kafka consumer group-allowlist that compiles")

# references by a dotted name: "c1.servers" is a set viper KEY but not a cluster; "p1.tls" is a key, not a profile.
# (viper.IsSet("cluster." + name) accepted these until the `fix:` recorded in findings/C19.json.)
edit("consumer-dotted-cluster", "reference", True, ["kafka"], [("s", "consumer.k1.cluster", "c1.servers")],
     "core/internal/consumer/coordinator.go:87-89; core/internal/consumer/kafka_client.go:97-100",
     "kafka consumer names the cluster \"c1.servers\": no such cluster, but the key cluster.c1.servers is set")
edit("consumer-zk-dotted-cluster", "reference", True, ["kafka"], [("s", "consumer.z1.cluster", "c1.class-name")],
     "core/internal/consumer/coordinator.go:87-89",
     "kafka_zk consumer names the cluster \"c1.class-name\": no such cluster, but the key is set")
edit("cluster-dotted-profile", "reference", True, ["kafka"], [("s", "cluster.c1.client-profile", "p1.tls")],
     "core/internal/helpers/sarama.go:70-72",
     "cluster names the client-profile \"p1.tls\": no such profile, but the key client-profile.p1.tls is set")
edit("consumer-dotted-profile", "reference", True, ["kafka"], [("s", "consumer.k1.client-profile", "p1.client-id")],
     "core/internal/helpers/sarama.go:70-72",
     "kafka consumer names the client-profile \"p1.client-id\": no such profile, but the key is set")
edit("consumer-cluster-empty", "reference", True, ["kafka"], [("s", "consumer.k1.cluster", "")],
     "core/internal/consumer/coordinator.go:87-89", "kafka consumer with cluster set to the empty string")

# server lists with several entries, exactly one of them malformed (first / middle / last) ----------------------------
_GOOD3 = ["127.0.0.1:1", "[::1]:1", "zk1.example.com:2181"]
_LISTS = [  # (id prefix, key, focused base, cite, bad literals for first / middle / last)
    ("zk-servers", "zookeeper.servers", "notify", "core/internal/zookeeper/coordinator.go:65-66",
     ("nocolon", "zk1.example.com:http", ":2181")),
    ("cluster-servers", "cluster.c1.servers", "kafka", "core/internal/cluster/kafka_cluster.go:71-72",
     ("broker1", "256.1.1.1:9092", "-bad-.example.com:2181")),
    ("consumer-servers", "consumer.k1.servers", "kafka", "core/internal/consumer/kafka_client.go:108-109",
     (":2181", "nocolon", "zk1.example.com:http")),
    ("consumer-zk-servers", "consumer.z1.servers", "kafka", "core/internal/consumer/kafka_zk_client.go:78-79",
     ("256.1.1.1:9092", "broker1", "nocolon")),
]
for _pfx, _key, _base, _cite, _bad in _LISTS:
    for _pos, _where in enumerate(("first", "middle", "last")):
        _l = list(_GOOD3)
        _l[_pos] = _bad[_pos]
        edit("%s-bad-%s" % (_pfx, _where), "server-list", True, [_base], [("l", _key, _l)],
             _cite + "; core/internal/helpers/validation.go:103-111",
             "%s with three entries, only the %s one malformed (%s)" % (_key, _where, _bad[_pos]))
edit("cluster-servers-three", "preserving", False, ["kafka"], [("l", "cluster.c1.servers", list(_GOOD3))],
     "core/internal/helpers/validation.go:103-111", "three well-formed cluster servers")
edit("consumer-zk-servers-three", "preserving", False, ["kafka"], [("l", "consumer.z1.servers", list(_GOOD3))],
     "core/internal/helpers/validation.go:103-111", "three well-formed kafka_zk consumer servers")

# both patterns malformed; the pattern of the other kind on each module class -----------------------------------------
edit("storage-both-lists-bad", "pattern", True, ["core", "notify", "kafka"],
     [("s", "storage.s1.class-name", "inmemory"), ("s", "storage.s1.group-allowlist", "("), ("s", "storage.s1.group-denylist", "[a-")],
     "core/internal/storage/inmemory.go:144-162", "storage allowlist and denylist both do not compile")
edit("notifier-both-lists-bad", "pattern", True, ["notify"],
     [("s", "notifier.n1.group-allowlist", "*"), ("s", "notifier.n1.group-denylist", "a{2,1}")],
     "core/internal/notifier/coordinator.go:196-217", "notifier allowlist and denylist both do not compile")
edit("consumer-both-lists-bad", "pattern", True, ["kafka"],
     [("s", "consumer.k1.group-allowlist", "("), ("s", "consumer.k1.group-denylist", "[a-")],
     "core/internal/consumer/kafka_client.go:125-143", "kafka consumer allowlist and denylist both do not compile")
edit("consumer-zk-both-lists-bad", "pattern", True, ["kafka"],
     [("s", "consumer.z1.group-allowlist", "a{2,1}"), ("s", "consumer.z1.group-denylist", "*")],
     "core/internal/consumer/kafka_zk_client.go:98-116", "kafka_zk consumer allowlist and denylist both do not compile")
edit("consumer-denylist-bad", "pattern", True, ["kafka"], [("s", "consumer.k1.group-denylist", "a{2,1}")],
     "core/internal/consumer/kafka_client.go:135-143", "kafka consumer group-denylist does not compile")
edit("consumer-zk-allowlist-bad", "pattern", True, ["kafka"], [("s", "consumer.z1.group-allowlist", "(")],
     "core/internal/consumer/kafka_zk_client.go:98-106", "kafka_zk consumer group-allowlist does not compile")
edit("notifier-null-denylist-bad", "pattern", True, ["notify"], [("s", "notifier.n3.group-denylist", "[a-")],
     "core/internal/notifier/coordinator.go:208-217", "null notifier group-denylist does not compile")

# legacy keys: each of the two keys on each module kind ----------------------------------------------------------------
edit("consumer-legacy-whitelist", "legacy-key", True, ["kafka"], [("s", "consumer.k1.group-whitelist", "^ok")],
     "core/internal/consumer/kafka_client.go:119-123", "legacy group-whitelist key in a kafka consumer")
edit("consumer-zk-legacy-blacklist", "legacy-key", True, ["kafka"], [("s", "consumer.z1.group-blacklist", "^x")],
     "core/internal/consumer/kafka_zk_client.go:92-96", "legacy group-blacklist key in a kafka_zk consumer")
edit("notifier-email-legacy-blacklist", "legacy-key", True, ["notify"], [("s", "notifier.n2.group-blacklist", "^x")],
     "core/internal/notifier/coordinator.go:189-193", "legacy group-blacklist key in an email notifier")
edit("notifier-null-legacy-whitelist", "legacy-key", True, ["notify"], [("s", "notifier.n3.group-whitelist", "^ok")],
     "core/internal/notifier/coordinator.go:189-193", "legacy group-whitelist key in a null notifier")
edit("storage-legacy-both", "legacy-key", True, ["core", "notify", "kafka"],
     [("s", "storage.s1.class-name", "inmemory"), ("s", "storage.s1.group-whitelist", "^ok"), ("s", "storage.s1.group-blacklist", "^x")],
     "core/internal/storage/inmemory.go:139-142", "both legacy keys in storage")

# a second module --------------------------------------------------------------------------------------------------
edit("storage-extra-module", "module-count", None, ["core", "notify", "kafka"], [("s", "storage.sx.class-name", "inmemory")],
     "core/internal/storage/coordinator.go:87-98",
     "one more storage module: the second one where the base names one, the only one where the base relies on the default")
edit("evaluator-extra-module", "module-count", None, ["core", "notify", "kafka"], [("s", "evaluator.ex.class-name", "caching")],
     "core/internal/evaluator/coordinator.go:86-98",
     "one more evaluator module: the second one where the base names one, the only one where the base relies on the default")
edit("storage-second-unknown-class", "module-count", True, ["core", "notify", "kafka"],
     [("s", "storage.s1.class-name", "inmemory"), ("s", "storage.s2.class-name", "memcached")],
     "core/internal/storage/coordinator.go:72-73,87-98", "two storage modules, the second of an unknown class")
edit("evaluator-three-modules", "module-count", True, ["core", "notify", "kafka"],
     [("s", "evaluator.e1.class-name", "caching"), ("s", "evaluator.e2.class-name", "caching"), ("s", "evaluator.e3.class-name", "caching")],
     "core/internal/evaluator/coordinator.go:86-98", "three evaluator modules")
edit("cluster-second-malformed", "server-list", True, ["kafka"],
     [("s", "cluster.c2.class-name", "kafka"), ("l", "cluster.c2.servers", ["kafka_broker:9092", "broker1"])],
     "core/internal/cluster/kafka_cluster.go:71-72", "a second cluster whose server list has a malformed entry (the first cluster is fine)")
edit("cluster-second-no-servers", "server-list", True, ["kafka"], [("s", "cluster.c2.class-name", "kafka")],
     "core/internal/cluster/kafka_cluster.go:68-70", "a second cluster without servers")
edit("consumer-second-unknown-cluster", "reference", True, ["kafka"],
     [("s", "consumer.k2.class-name", "kafka"), ("s", "consumer.k2.cluster", "nosuch"), ("l", "consumer.k2.servers", ["kafka_broker:9092"])],
     "core/internal/consumer/coordinator.go:87-89", "a second kafka consumer that names an unknown cluster")
edit("consumer-zk-second-unknown-cluster", "reference", True, ["kafka"],
     [("s", "consumer.z2.class-name", "kafka_zk"), ("s", "consumer.z2.cluster", "c2"), ("l", "consumer.z2.servers", ["zk1.example.com:2181"])],
     "core/internal/consumer/coordinator.go:87-89", "a second kafka_zk consumer that names the unknown cluster c2")
edit("consumer-on-second-cluster", "preserving", False, ["kafka"],
     [("s", "cluster.c2.class-name", "kafka"), ("l", "cluster.c2.servers", ["kafka_broker:9092"]), ("s", "consumer.z1.cluster", "c2")],
     "core/internal/consumer/coordinator.go:87-89", "a second cluster, and the kafka_zk consumer belongs to it")
edit("notifier-second-http-no-url", "url", True, ["notify"],
     [("s", "notifier.n4.class-name", "http"), ("s", "notifier.n4.template-open", "@/open.tmpl")],
     "core/internal/notifier/http.go:64-68", "a second http notifier without url-open")

# requirements that bind for one module class only ------------------------------------------------------------------
edit("notifier-email-send-close-no-template", "template", True, ["notify"], [("b", "notifier.n2.send-close", True)],
     "core/internal/notifier/coordinator.go:232-238", "email notifier with send-close and no template-close")
edit("notifier-null-send-close-no-template", "template", True, ["notify"], [("b", "notifier.n3.send-close", True)],
     "core/internal/notifier/coordinator.go:232-238", "null notifier with send-close and no template-close")
edit("notifier-email-send-close", "preserving", False, ["notify"],
     [("b", "notifier.n2.send-close", True), ("s", "notifier.n2.template-close", "@/close.tmpl")],
     "core/internal/notifier/coordinator.go:232-238; core/internal/notifier/http.go:73-79",
     "email notifier with send-close and template-close: url-close is an http requirement only")
edit("notifier-email-extra-ca-unreadable", "tls", True, ["notify"], [("s", "notifier.n2.extra-ca", "@/missing.pem")],
     "core/internal/notifier/email.go:88-99; core/internal/notifier/helpers.go:133-138", "email notifier extra-ca file cannot be read")
edit("notifier-null-extra-ca-unreadable", "preserving", False, ["notify"], [("s", "notifier.n3.extra-ca", "@/missing.pem")],
     "core/internal/notifier/null.go", "the null notifier does not look at extra-ca")
edit("notifier-null-from-to-absent-url", "preserving", False, ["notify"], [("s", "notifier.n3.url-open", "")],
     "core/internal/notifier/null.go", "the null notifier needs no url-open")
edit("consumer-kafka-zkpath-ignored", "preserving", False, ["kafka"], [("s", "consumer.k1.zookeeper-path", "kafka")],
     "core/internal/consumer/kafka_client.go:90-144", "zookeeper-path is a kafka_zk requirement: a kafka consumer does not look at it")
edit("consumer-zk-profile-ignored", "preserving", False, ["kafka"], [("s", "consumer.z1.client-profile", "nosuch")],
     "core/internal/consumer/kafka_zk_client.go:66-117", "a kafka_zk consumer has no client-profile: the key is not looked at")
edit("consumer-zk-unknown-class-and-cluster", "class-name", True, ["kafka"],
     [("s", "consumer.z1.class-name", "storm"), ("s", "consumer.z1.cluster", "nosuch")],
     "core/internal/consumer/coordinator.go:71-72,87-89", "unknown consumer class and unknown cluster on the same module")

# templates: the shipped files and the documented helper functions on every notifier class ------------------------------
_TP = "core/internal/notifier/coordinator.go:158-162,212-228; core/internal/notifier/helpers.go:51-61"
edit("notifier-http-helper-free-templates", "preserving", False, ["notify"],
     [("s", "notifier.n1.template-open", "@/open.tmpl"), ("s", "notifier.n1.template-close", "@/close.tmpl")],
     _TP, "http notifier on templates that call no helper function")
edit("notifier-http-slack-templates", "preserving", False, ["notify"],
     [("s", "notifier.n1.template-open", "@/shipped-default-slack-post.tmpl"),
      ("s", "notifier.n1.template-close", "@/shipped-default-slack-delete.tmpl")],
     _TP, "http notifier on the shipped slack templates")
edit("notifier-http-helpers-close", "preserving", False, ["notify"], [("s", "notifier.n1.template-close", "@/helpers.tmpl")],
     _TP, "http notifier whose template-close calls every documented helper function")
edit("notifier-email-helper-free-template", "preserving", False, ["notify"], [("s", "notifier.n2.template-open", "@/mail.tmpl")],
     _TP, "email notifier on a template that calls no helper function")
edit("notifier-email-helpers-template", "preserving", False, ["notify"], [("s", "notifier.n2.template-open", "@/helpers.tmpl")],
     _TP, "email notifier whose template calls every documented helper function")
edit("notifier-email-shipped-http-post", "preserving", False, ["notify"],
     [("s", "notifier.n2.template-open", "@/shipped-default-http-post.tmpl")],
     _TP, "email notifier on the shipped http-post template (jsonencoder)")
edit("notifier-null-shipped-template", "preserving", False, ["notify"],
     [("s", "notifier.n3.template-open", "@/shipped-default-http-post.tmpl")],
     _TP, "null notifier on the shipped http-post template (jsonencoder)")
edit("notifier-null-helpers-template", "preserving", False, ["notify"], [("s", "notifier.n3.template-open", "@/helpers.tmpl")],
     _TP, "null notifier whose template calls every documented helper function")
edit("notifier-null-send-close-shipped", "preserving", False, ["notify"],
     [("b", "notifier.n3.send-close", True), ("s", "notifier.n3.template-close", "@/shipped-default-http-delete.tmpl")],
     _TP, "null notifier with send-close on the shipped http-delete template")

# a reference while the section it points into does not exist AT ALL (no [client-profile.*] / [cluster.*] / [tls.*] / [sasl.*]) --
_PR = "core/internal/helpers/sarama.go:67-76; core/internal/helpers/validation.go (IsConfiguredEntry)"
edit("profiles-section-removed", "reference", True, ["kafka"], [("delprefix", "client-profile.")],
     _PR, "no client-profile section at all, but the cluster and the kafka consumer still name p1")
edit("cluster-unknown-profile-no-section", "reference", True, ["kafka"],
     [("delprefix", "client-profile."), ("s", "cluster.c1.client-profile", "nosuch"), ("del", "consumer.k1.client-profile")],
     _PR, "no client-profile section at all; only the cluster names a profile")
edit("consumer-unknown-profile-no-section", "reference", True, ["kafka"],
     [("delprefix", "client-profile."), ("del", "cluster.c1.client-profile"), ("s", "consumer.k1.client-profile", "nosuch")],
     _PR, "no client-profile section at all; only the kafka consumer names a profile (the cluster ran on the defaults first)")
edit("consumer-only-unknown-profile-no-section", "reference", True, ["kafka"],
     [("delprefix", "client-profile."), ("del", "cluster.c1.client-profile"), ("delprefix", "consumer.z1."),
      ("s", "consumer.k1.client-profile", "p1")],
     _PR, "no client-profile section at all; the only consumer names the profile p1 that used to exist")
edit("no-profiles-no-references", "preserving", False, ["kafka"],
     [("delprefix", "client-profile."), ("del", "cluster.c1.client-profile"), ("del", "consumer.k1.client-profile")],
     _PR, "no client-profile section and no reference: everything runs on the default profile")
edit("cluster-section-removed", "reference", True, ["kafka"], [("delprefix", "cluster.")],
     "core/internal/consumer/coordinator.go:87-89", "no cluster section at all, but both consumers name c1")
edit("consumer-kafka-only-no-cluster-section", "reference", True, ["kafka"], [("delprefix", "cluster."), ("delprefix", "consumer.z1.")],
     "core/internal/consumer/coordinator.go:87-89; core/internal/consumer/kafka_client.go:97-100",
     "no cluster section at all; the only consumer (class kafka) names c1")
edit("consumer-zk-only-no-cluster-section", "reference", True, ["kafka"], [("delprefix", "cluster."), ("delprefix", "consumer.k1.")],
     "core/internal/consumer/coordinator.go:87-89", "no cluster section at all; the only consumer (class kafka_zk) names c1")
edit("consumers-and-clusters-removed", "preserving", False, ["kafka"], [("delprefix", "cluster."), ("delprefix", "consumer.")],
     "core/internal/consumer/coordinator.go:84-95", "neither clusters nor consumers")
edit("tls-section-removed", "tls", None, ["notify", "kafka"], [("delprefix", "tls.")],
     "core/internal/httpserver/coordinator.go:92-112; core/internal/helpers/sarama.go:83-113",
     "no tls section at all while a listener (refused: no certificate/key) or a client profile (TLS without CA or client "
     "certificate: accepted) names t1")
edit("listener-tls-no-tls-section", "tls", True, ["core", "notify", "kafka"],
     [("delprefix", "tls."), ("s", "httpserver.h1.address", "127.0.0.1:0"), ("s", "httpserver.h1.tls", "t1")],
     "core/internal/httpserver/coordinator.go:92-112", "no tls section at all; a listener names the TLS profile t1")
edit("sasl-section-removed", "preserving", False, ["kafka"], [("delprefix", "sasl.")],
     "core/internal/helpers/sarama.go:116-135", "no sasl section at all while the client profile names s1 (never validated at configure time)")
edit("zk-tls-no-tls-section", "start-time", False, ["notify"],
     [("delprefix", "tls."), ("del", "httpserver.h2.tls"), ("s", "zookeeper.tls", "t1")],
     "core/internal/helpers/zookeeper.go:65-69; core/internal/zookeeper/coordinator.go:85-89",
     "no tls section at all; zookeeper.tls names t1: the (empty) CA file cannot be read when the coordinator starts")

# integer options that size something (channels, slices, goroutine counts, ticker periods, time.Duration products): -1, 0, 1, large
# inv: a non-positive SIZE is a violation of the documented meaning of the option (a number of workers, a period in seconds);
# (round 4: every such size is now checked in Configure — fixes 746d605, 4350030, c110ef6, 38fa1ff; no "hazard" edit is left).
_ST = [("s", "storage.s1.class-name", "inmemory")]
_ALL = ["core", "notify", "kafka"]
for _v, _inv, _what in ((-1, True, "negative"), (0, True, "zero"), (1, False, "one"), (500, False, "large")):
    edit("storage-workers-%s" % _what, "size" if _inv else "preserving", _inv, _ALL, _ST + [("i", "storage.s1.workers", _v)],
         "core/internal/storage/inmemory.go:129,133-136,190-196", "storage workers = %d" % _v)
for _v, _what in ((0, "zero"), (1, "one"), (10000, "large")):
    edit("storage-queue-depth-%s" % _what, "preserving", False, _ALL, _ST + [("i", "storage.s1.queue-depth", _v)],
         "core/internal/storage/inmemory.go:131,138", "storage queue-depth = %d (an unbuffered channel for 0)" % _v)
edit("storage-workers-one-queue-depth-negative", "size", True, _ALL,
     _ST + [("i", "storage.s1.workers", 1), ("i", "storage.s1.queue-depth", -5)],
     "core/internal/storage/inmemory.go:138", "one worker and a negative queue-depth")
for _v, _inv, _what in ((-1, True, "negative"), (0, True, "zero"), (1, False, "one"), (100000, False, "large")):
    edit("storage-intervals-%s" % _what, "size" if _inv else "preserving", _inv, _ALL, _ST + [("i", "storage.s1.intervals", _v)],
         "core/internal/storage/inmemory.go:127,137-140", "storage intervals = %d (the size of every partition's offset ring; below 1 the first "
         "stored offset crashed a worker goroutine before c110ef6)" % _v)
edit("storage-expire-group-negative", "preserving", False, _ALL, _ST + [("i", "storage.s1.expire-group", -1), ("i", "storage.s1.min-distance", -1)],
     "core/internal/storage/inmemory.go:128,130", "negative expire-group and min-distance: arithmetic only")
for _v, _what in ((0, "zero"), (1, "one"), (1000000000, "large")):
    edit("evaluator-expire-%s" % _what, "preserving", False, _ALL, [("s", "evaluator.e1.class-name", "caching"), ("i", "evaluator.e1.expire-cache", _v)],
         "core/internal/evaluator/caching.go:65-80", "evaluator expire-cache = %d" % _v)
for _v, _what in ((-1, "negative"), (0, "zero"), (1, "one"), (1000000000, "large")):
    edit("http-timeout-%s" % _what, "preserving", False, _ALL, [("s", "httpserver.h1.address", "127.0.0.1:0"), ("i", "httpserver.h1.timeout", _v)],
         "core/internal/httpserver/coordinator.go:83-88", "listener timeout = %d (a time.Duration product; non-positive = no timeout in net/http)" % _v)
for _v, _inv, _what in ((-1, True, "negative"), (0, True, "zero"), (1, False, "one"), (1000000000, False, "large"),
                        (9223372036, False, "max"), (9223372037, True, "above-max"), (9223372036854776, True, "huge")):
    edit("notifier-interval-%s" % _what, "size" if _inv else "preserving", _inv, ["notify"], [("i", "notifier.n3.interval", _v)],
         "core/internal/notifier/coordinator.go:174,181-188", "notifier interval = %d seconds (must be at least 1 and fit a time.Duration; outside that "
         "range the first group refresh panicked in rand.Int63n, or the pacing wrapped, before 38fa1ff)" % _v)
edit("notifier-email-interval-zero", "size", True, ["notify"], [("i", "notifier.n2.interval", 0)],
     "core/internal/notifier/coordinator.go:181-188", "email notifier interval = 0")
edit("notifier-int-options-negative", "preserving", False, ["notify"],
     [("i", "notifier.n1.threshold", -1), ("i", "notifier.n1.send-interval", -1), ("i", "notifier.n1.timeout", -1), ("i", "notifier.n1.keepalive", -1)],
     "core/internal/notifier/coordinator.go:175-176,560,571; core/internal/notifier/http.go:88-96",
     "http notifier threshold / send-interval / timeout / keepalive = -1: comparisons and time.Duration products only")
edit("notifier-int-options-zero", "preserving", False, ["notify"],
     [("i", "notifier.n1.threshold", 0), ("i", "notifier.n1.send-interval", 0), ("i", "notifier.n1.timeout", 0), ("i", "notifier.n1.keepalive", 0)],
     "core/internal/notifier/coordinator.go:175-176,560,571; core/internal/notifier/http.go:88-96", "the same options = 0")
for _v, _what in ((-1, "negative"), (0, "zero"), (70000, "large")):
    edit("email-port-%s" % _what, "preserving", False, ["notify"], [("i", "notifier.n2.port", _v)],
         "core/internal/notifier/email.go:65-73", "email port = %d: any integer passes the host:port validation" % _v)
for _k, _site in (("offset-refresh", "83-86"), ("topic-refresh", "83-86")):
    for _v, _inv, _what in ((-1, True, "negative"), (0, True, "zero"), (1, False, "one"), (1000000000, False, "large")):
        edit("cluster-%s-%s" % (_k, _what), "size" if _inv else "preserving", _inv, ["kafka"], [("i", "cluster.c1." + _k, _v)],
             "core/internal/cluster/kafka_cluster.go:76-%s,104-105" % _site[3:], "cluster %s = %d (a ticker period)" % (_k, _v))
for _v, _inv, _what in ((-1, True, "negative"), (0, False, "zero"), (300, False, "set")):
    edit("cluster-reaper-refresh-%s" % _what, "size" if _inv else "preserving", _inv, ["kafka"], [("i", "cluster.c1.groups-reaper-refresh", _v)],
         "core/internal/cluster/kafka_cluster.go:78,87-89,107-118", "cluster groups-reaper-refresh = %d (0 = reaper off)" % _v)
edit("cluster-second-refresh-zero", "size", True, ["kafka"],
     [("s", "cluster.c2.class-name", "kafka"), ("l", "cluster.c2.servers", ["kafka_broker:9092"]), ("i", "cluster.c2.topic-refresh", 0)],
     "core/internal/cluster/kafka_cluster.go:83-86", "a second cluster with topic-refresh = 0 (the first one is fine)")
for _v, _what in ((-1, "negative"), (0, "zero"), (1000000, "large")):
    edit("zk-timeout-%s" % _what, "preserving", False, ["notify"], [("i", "zookeeper.timeout", _v)],
         "core/internal/zookeeper/coordinator.go:59,85", "zookeeper timeout = %d (a time.Duration product handed to the client library)" % _v)
    edit("consumer-zk-timeout-%s" % _what, "preserving", False, ["kafka"], [("i", "consumer.z1.zookeeper-timeout", _v)],
         "core/internal/consumer/kafka_zk_client.go:83-84", "kafka_zk consumer zookeeper-timeout = %d" % _v)
for _v, _what in ((-1, "negative"), (0, "zero")):
    edit("profile-timeouts-%s" % _what, "preserving", False, ["kafka"],
         [("i", "client-profile.p1.dial-timeout", _v), ("i", "client-profile.p1.read-timeout", _v)],
         "core/internal/helpers/sarama.go:138-145", "client profile dial-timeout / read-timeout = %d: sarama refuses the client configuration when the "
         "module STARTS (an error, like unreachable brokers)" % _v)

EDITS = {e["id"]: e for e in E}
assert len(EDITS) == len(E)


def build(base, edit_ids):
    c = Cfg().apply(BASES[base][0])
    for eid in edit_ids:
        c.apply(EDITS[eid]["ops"])
    return c


CONTEXTS = ("fresh", "preset", "reuse")


def case_line(base, edit_ids, ctx="fresh", prelude=None):
    """ctx: state of the ApplicationContext handed to core.Start; prelude = base whose (unedited, valid) configuration the
    earlier Start of a re-used context ran with"""
    c = build(base, edit_ids)
    toks = c.tokens()
    if ctx == "reuse":
        toks = ["X:reuse"] + ["P" + t for t in build(prelude or "core", []).tokens()] + toks
    elif ctx != "fresh":
        toks = ["X:" + ctx] + toks
    return " ".join(["cfg", base, "+".join(edit_ids) if edit_ids else "-"] + toks)


def parse_head(line):
    f = line.split()
    return f[1], ([] if f[2] == "-" else f[2].split("+"))


def parse_ctx(line):
    for t in line.split()[3:]:
        if t.startswith("X:"):
            return t[2:]
    return "fresh"


def config_part(line):
    """the configuration Start is called with (without context and prelude tokens)"""
    return " ".join(t for t in line.split()[3:] if not t.startswith(("X:", "P")))


def _prelude(rng):
    # mostly the cheap base; sometimes the one with zookeeper + notifiers; rarely the one whose Start fails at start time
    # (brokers unreachable: Start returns 1 and leaves ConfigurationValid = true behind)
    r = rng.random()
    return "core" if r < 0.7 else ("notify" if r < 0.9 else "kafka")


def all_cases(rng, thorough, n_pairs=300):
    """bases and every single edit on every base; pairs (all in the thorough tier, a sample otherwise).
    Context states: every base, and every invalidating / context-dependent single edit on a base where its target exists,
    under all three; validity-preserving and start-time focused singles under fresh + one other; everything else under one
    state drawn at random (thorough tier: every single under all three)."""
    cases = []
    ids = [e["id"] for e in E]

    def add(b, es, ctx):
        cases.append(case_line(b, es, ctx, _prelude(rng) if ctx == "reuse" else None))

    for b in BASES:
        for ctx in CONTEXTS:
            add(b, [], ctx)
    for b in BASES:
        for e in ids:
            focused = b in EDITS[e]["on"]
            if thorough or (focused and EDITS[e]["inv"] is not False):
                ctxs = CONTEXTS
            elif focused:
                ctxs = ("fresh", rng.choice(CONTEXTS[1:]))
            else:
                ctxs = (rng.choice(CONTEXTS),)
            for ctx in ctxs:
                add(b, [e], ctx)
    pairs = [(b, x, y) for b in BASES for i, x in enumerate(ids) for y in ids[i + 1:]]
    if not thorough:
        # focused pairs first choice: both edits have their target in the base
        focused = [p for p in pairs if p[0] in EDITS[p[1]]["on"] and p[0] in EDITS[p[2]]["on"]]
        fset = set(focused)
        other = [p for p in pairs if p not in fset]
        rng.shuffle(focused)
        rng.shuffle(other)
        pairs = focused[: (n_pairs * 3) // 4] + other[: n_pairs - (n_pairs * 3) // 4]
    for b, x, y in pairs:
        add(b, [x, y], rng.choice(CONTEXTS))
    return cases


if __name__ == "__main__":
    import sys
    if len(sys.argv) > 1 and sys.argv[1] == "list":
        for e in E:
            print("%-34s %-14s %-5s %s  [%s]" % (e["id"], e["kind"], e["inv"], e["what"], e["cite"]))
        print(len(E), "edits")
    else:
        base = sys.argv[1]
        print(case_line(base, sys.argv[2:]))
