"""C10, notifier half: histories of evaluator responses through the real responseLoop / checkAndSendResponseToModules /
notifyModule with modules whose allowlist/denylist (real regexps, compiled by Coordinator.Configure) accept and reject the
groups of the history; differential against Notifier.on_response, and the property's oracle (no Notify call to a module whose
lists reject the group) on every call log of the implementation.  checks/c10.py calls run_part(chk)."""
import common as C
import notifiergen as G

CORR = "corr:notifier lists (Notifier.notify_all / lists_accept)"


def _force_lists(rng, h):
    """Makes sure every module of the history carries lists, and that the history has a group some module rejects."""
    for m in h["mods"]:
        if m["allow"] == "-" and m["deny"] == "-":
            r = rng.random()
            if r < 0.4:
                m["allow"] = rng.choice(G.RX_POOL)
            elif r < 0.8:
                m["deny"] = rng.choice(G.RX_POOL)
            else:
                m["allow"], m["deny"] = rng.choice(G.RX_POOL), rng.choice(G.RX_POOL)
    return h


def run_part(chk, n=None):
    rng = chk.rng
    if n is None:
        n = 1500 if not chk.thorough else 40000
    hs = []
    for ln in C.read_corpus(chk.pid, "notifier_cases.txt"):
        hs.append(G.parse(ln))
    for i in range(n):
        h, _ = G.gen_history(rng, i, "groups")
        hs.append(_force_lists(rng, h))
    cases = [G.fmt(h) for h in hs]
    impl, model, mism = chk.differential("notifier", "notifier", "TestVerifProbeNotifier", cases, name="c10_notifier")
    rej_notified_candidates = 0
    for h, c in zip(hs, cases):
        chk.count("notifier:cases")
        combos = set()
        for m in h["mods"]:
            for nm in h["names"]:
                r4 = G.rx4(m, nm)
                combos.add(r4)
                chk.count("notifier:lists(a_set,a_match,d_set,d_match)=" + r4)
        acc = any(G.lists_accept(m, nm) for m in h["mods"] for nm in h["names"])
        rej = any(not G.lists_accept(m, nm) for m in h["mods"] for nm in h["names"])
        worse = any(s[2] > 1 for s in h["steps"])
        if acc and rej and worse:
            chk.nontrivial.add(C.case_hash(c))
            rej_notified_candidates += 1
    chk.count("notifier:histories-with-accepted-and-rejected-group-and-an-incident", rej_notified_candidates)
    for i in (0, len(cases) // 2):
        chk.sample({"part": "notifier", "case": cases[i][:500], "impl": impl[i][:400], "model": model[i][:400]})
    found = 0
    for i, (h, a) in enumerate(zip(hs, impl)):
        fails = G.oracle_c10(h, a)
        if fails:
            found += 1
            if found <= 3:
                h2, o2 = G.shrink(chk, h, a, G.oracle_c10, G.classify(fails))
                chk.violation("notifier_%d" % i, {
                    "kind": "history", "probe": "notifier/TestVerifProbeNotifier", "case": G.fmt(h2), "history": G.describe(h2),
                    "impl_output": o2, "original_case": cases[i], "oracle_verdict": G.oracle_c10(h2, o2),
                    "broken": "NotifierProofs.notifier_rejected_silent (a module whose lists reject the group was notified)",
                    "cmd": "bin/check C10 --replay <this file>"})
    if not found:
        for (i, c, a, b) in mism[:3]:
            chk.violation("notifier_corr_%d" % i, {
                "kind": "history", "probe": "notifier/TestVerifProbeNotifier", "case": c, "history": G.describe(hs[i]),
                "impl_output": a, "model_output": b,
                "oracle_verdict": "no module whose lists reject the group was notified in this case; the call log differs from Notifier.on_response",
                "broken": CORR, "cmd": "bin/check C10 --replay <this file>"}, found_input=False)
    chk.assumptions += [
        "notifier: the four list booleans given to the model are computed by Python's re on the generator's pattern pool and "
        "cross-checked against the module's compiled Go regexps through the call log (a disagreement shows as a mismatch)",
    ]
    return {"cases": len(cases), "mismatches": len(mism), "oracle_failures": found}
