module veriftranslator/tmpl

go 1.21
