module verif/translator/jsontags

go 1.21
