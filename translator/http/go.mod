module verif/translator/http

go 1.21
