// Translator for the HTTP layer (C16, C18).  Reads core/internal/httpserver of the repository in the
// current directory (cwd = /repo) with go/ast and prints ONE Coq file on stdout, selected by argv[1]:
//
//	routes  -> coq/gen/RouteTable.v   every hc.router.<METHOD>/Handle/Handler/HandlerFunc registration
//	reads   -> coq/gen/ReadSets.v     every viper access reachable from every route handler, as a path pattern,
//	                                   plus the storage/evaluator request types each handler can issue
//	fields  -> coq/gen/RespFields.v   the struct types of the package (field, Go type, json tag) and what feeds
//	                                   each field of every composite literal reachable from a handler
//
// Anything the walk cannot classify is emitted as an Unknown row so that the Coq checkers fail closed.
package main

import (
	"fmt"
	"go/ast"
	"go/parser"
	"go/token"
	"os"
	"path/filepath"
	"sort"
	"strconv"
	"strings"
)

const pkgDir = "core/internal/httpserver"

// ---------------------------------------------------------------------------------------------
// package loading
// ---------------------------------------------------------------------------------------------

type pkgInfo struct {
	fset    *token.FileSet
	files   []*ast.File
	funcs   map[string][]*ast.FuncDecl // by bare name (functions and methods)
	imports map[string]string          // local import name -> path (union over files)
	structs []*structInfo
}

type structInfo struct {
	name   string
	fields []fieldInfo
}

type fieldInfo struct{ name, typ, tag string }

func load() *pkgInfo {
	p := &pkgInfo{fset: token.NewFileSet(), funcs: map[string][]*ast.FuncDecl{}, imports: map[string]string{}}
	names, err := filepath.Glob(filepath.Join(pkgDir, "*.go"))
	if err != nil || len(names) == 0 {
		fmt.Fprintln(os.Stderr, "no sources in", pkgDir)
		os.Exit(2)
	}
	sort.Strings(names)
	for _, n := range names {
		if strings.HasSuffix(n, "_test.go") {
			continue
		}
		f, err := parser.ParseFile(p.fset, n, nil, parser.ParseComments)
		if err != nil {
			fmt.Fprintln(os.Stderr, err)
			os.Exit(2)
		}
		if hasVerifTag(f) {
			continue
		}
		p.files = append(p.files, f)
		for _, im := range f.Imports {
			path, _ := strconv.Unquote(im.Path.Value)
			name := path[strings.LastIndex(path, "/")+1:]
			if im.Name != nil {
				name = im.Name.Name
			}
			p.imports[name] = path
		}
		for _, d := range f.Decls {
			switch d := d.(type) {
			case *ast.FuncDecl:
				p.funcs[d.Name.Name] = append(p.funcs[d.Name.Name], d)
			case *ast.GenDecl:
				for _, s := range d.Specs {
					ts, ok := s.(*ast.TypeSpec)
					if !ok {
						continue
					}
					st, ok := ts.Type.(*ast.StructType)
					if !ok {
						continue
					}
					si := &structInfo{name: ts.Name.Name}
					for _, fl := range st.Fields.List {
						tag := ""
						if fl.Tag != nil {
							raw, _ := strconv.Unquote(fl.Tag.Value)
							tag = jsonTag(raw)
						}
						typ := exprText(fl.Type)
						if len(fl.Names) == 0 {
							si.fields = append(si.fields, fieldInfo{"(embedded)", typ, tag})
						}
						for _, nm := range fl.Names {
							si.fields = append(si.fields, fieldInfo{nm.Name, typ, tag})
						}
					}
					p.structs = append(p.structs, si)
				}
			}
		}
	}
	return p
}

func hasVerifTag(f *ast.File) bool {
	for _, cg := range f.Comments {
		if cg.Pos() > f.Package {
			break
		}
		for _, c := range cg.List {
			if strings.HasPrefix(c.Text, "//go:build") && strings.Contains(c.Text, "verif") {
				return true
			}
		}
	}
	return false
}

func jsonTag(raw string) string {
	i := strings.Index(raw, `json:"`)
	if i < 0 {
		return ""
	}
	rest := raw[i+6:]
	j := strings.Index(rest, `"`)
	if j < 0 {
		return ""
	}
	return rest[:j]
}

func exprText(e ast.Expr) string {
	switch e := e.(type) {
	case *ast.Ident:
		return e.Name
	case *ast.SelectorExpr:
		return exprText(e.X) + "." + e.Sel.Name
	case *ast.StarExpr:
		return "*" + exprText(e.X)
	case *ast.ArrayType:
		return "[]" + exprText(e.Elt)
	case *ast.MapType:
		return "map[" + exprText(e.Key) + "]" + exprText(e.Value)
	case *ast.InterfaceType:
		return "interface{}"
	case *ast.CallExpr:
		return exprText(e.Fun) + "()"
	case *ast.UnaryExpr:
		return e.Op.String() + exprText(e.X)
	case *ast.CompositeLit:
		if e.Type != nil {
			return exprText(e.Type) + "{}"
		}
		return "{}"
	case *ast.BasicLit:
		return e.Value
	case *ast.ParenExpr:
		return "(" + exprText(e.X) + ")"
	case *ast.TypeAssertExpr:
		return exprText(e.X) + ".(" + exprText(e.Type) + ")"
	case *ast.IndexExpr:
		return exprText(e.X) + "[" + exprText(e.Index) + "]"
	case *ast.BinaryExpr:
		return exprText(e.X) + e.Op.String() + exprText(e.Y)
	case *ast.FuncLit:
		return "func(){}"
	}
	return fmt.Sprintf("%T", e)
}

// ---------------------------------------------------------------------------------------------
// Coq printing helpers
// ---------------------------------------------------------------------------------------------

// coqStr renders a Go string as a Coq `string` literal (bytes are kept; a double quote is doubled).
func coqStr(s string) string {
	return `"` + strings.ReplaceAll(s, `"`, `""`) + `"`
}

func coqList(items []string) string {
	return "[" + strings.Join(items, "; ") + "]"
}

func (p *pkgInfo) pos(n ast.Node) string {
	ps := p.fset.Position(n.Pos())
	return filepath.Base(ps.Filename) + ":" + strconv.Itoa(ps.Line)
}

// ---------------------------------------------------------------------------------------------
// route table
// ---------------------------------------------------------------------------------------------

type route struct {
	method, pattern, handler, reg, pos string
	unknown                           string // non-empty: why this registration could not be classified
}

var routerMethods = map[string]string{"GET": "GET", "POST": "POST", "DELETE": "DELETE", "PUT": "PUT", "PATCH": "PATCH",
	"HEAD": "HEAD", "OPTIONS": "OPTIONS"}

func isRouterSel(e ast.Expr) bool {
	// <anything>.router
	s, ok := e.(*ast.SelectorExpr)
	return ok && s.Sel.Name == "router"
}

func methodConst(e ast.Expr) (string, bool) {
	switch e := e.(type) {
	case *ast.BasicLit:
		if e.Kind == token.STRING {
			s, _ := strconv.Unquote(e.Value)
			return s, true
		}
	case *ast.SelectorExpr:
		if x, ok := e.X.(*ast.Ident); ok && x.Name == "http" && strings.HasPrefix(e.Sel.Name, "Method") {
			return strings.ToUpper(strings.TrimPrefix(e.Sel.Name, "Method")), true
		}
	}
	return "", false
}

func handlerName(e ast.Expr) (string, bool) {
	switch e := e.(type) {
	case *ast.SelectorExpr: // hc.handleX
		if _, ok := e.X.(*ast.Ident); ok {
			return e.Sel.Name, true
		}
	case *ast.Ident:
		return e.Name, true
	case *ast.CallExpr:
		// hc.factory() / hc.factory(false): the call returns the handler.  The row is filed under the factory's name: the
		// factory and the function literals in it are walked as that handler, for every value of its arguments at once
		// (two routes may share one factory and differ only by the captured constants)
		return handlerName(e.Fun)
	}
	return "", false
}

// returnedLiteral: the composite literal a niladic function / method of the package returns (`return []T{...}` as its only
// return statement, or a literal bound once and returned)
func (p *pkgInfo) returnedLiteral(call *ast.CallExpr) *ast.CompositeLit {
	if len(call.Args) != 0 {
		return nil
	}
	name, ok := handlerName(call.Fun)
	if !ok || len(p.funcs[name]) != 1 {
		return nil
	}
	fd := p.funcs[name][0]
	if fd.Body == nil {
		return nil
	}
	var rets []*ast.ReturnStmt
	ast.Inspect(fd.Body, func(n ast.Node) bool {
		if _, isLit := n.(*ast.FuncLit); isLit {
			return false
		}
		if r, ok := n.(*ast.ReturnStmt); ok {
			rets = append(rets, r)
		}
		return true
	})
	if len(rets) != 1 || len(rets[0].Results) != 1 {
		return nil
	}
	switch x := rets[0].Results[0].(type) {
	case *ast.CompositeLit:
		return x
	case *ast.Ident:
		return p.literalOf(x.Name, fd)
	}
	return nil
}

// moduleQualifiedHandler: `alias.F` (or `alias.F()` returning the handler) where alias is an import of a package of this
// module -> "alias.F"
func (p *pkgInfo) moduleQualifiedHandler(e ast.Expr) (string, bool) {
	if c, ok := e.(*ast.CallExpr); ok && len(c.Args) == 0 {
		e = c.Fun
	}
	s, ok := e.(*ast.SelectorExpr)
	if !ok {
		return "", false
	}
	x, ok := s.X.(*ast.Ident)
	if !ok {
		return "", false
	}
	path, isImport := p.imports[x.Name]
	mod := modulePath()
	if !isImport || mod == "" || !(path == mod || strings.HasPrefix(path, mod+"/")) {
		return "", false
	}
	return x.Name + "." + s.Sel.Name, true
}

// observedRoutes: registrations read off the REAL router by the probe (`routes observed METHOD PATTERN HANDLER ...`),
// used only for registrations the static walk could not resolve (see routes()).
var observedRoutes []route

// structFieldNames: field names, in order, of the element type of a slice / array / map literal (anonymous struct, named
// struct of the package, pointers to those); nil when the elements are not structs
func (p *pkgInfo) structFieldNames(t ast.Expr) []string {
	if st, ok := t.(*ast.StarExpr); ok {
		t = st.X
	}
	switch t := t.(type) {
	case *ast.StructType:
		var out []string
		for _, fl := range t.Fields.List {
			for _, nm := range fl.Names {
				out = append(out, nm.Name)
			}
		}
		return out
	case *ast.Ident:
		for _, si := range p.structs {
			if si.name == t.Name {
				var out []string
				for _, f := range si.fields {
					out = append(out, f.name)
				}
				return out
			}
		}
	}
	return nil
}

// literalOf: the composite literal an identifier is bound to -- `x := T{...}` / `var x = T{...}` in the function, or a
// package-level `var x = T{...}` -- provided it is bound exactly once in the function
func (p *pkgInfo) literalOf(name string, fd *ast.FuncDecl) *ast.CompositeLit {
	var found *ast.CompositeLit
	n := 0
	ast.Inspect(fd.Body, func(x ast.Node) bool {
		switch x := x.(type) {
		case *ast.AssignStmt:
			for i, l := range x.Lhs {
				if id, ok := l.(*ast.Ident); ok && id.Name == name {
					n++
					if i < len(x.Rhs) {
						if cl, ok := x.Rhs[i].(*ast.CompositeLit); ok {
							found = cl
						}
					}
				}
			}
		case *ast.ValueSpec:
			for i, id := range x.Names {
				if id.Name == name {
					n++
					if i < len(x.Values) {
						if cl, ok := x.Values[i].(*ast.CompositeLit); ok {
							found = cl
						}
					}
				}
			}
		}
		return true
	})
	if n == 1 && found != nil {
		return found
	}
	if n > 0 {
		return nil
	}
	for _, f := range p.files {
		for _, d := range f.Decls {
			gd, ok := d.(*ast.GenDecl)
			if !ok || gd.Tok != token.VAR {
				continue
			}
			for _, sp := range gd.Specs {
				vs, ok := sp.(*ast.ValueSpec)
				if !ok {
					continue
				}
				for i, id := range vs.Names {
					if id.Name == name && i < len(vs.Values) {
						if cl, ok := vs.Values[i].(*ast.CompositeLit); ok {
							return cl
						}
					}
				}
			}
		}
	}
	return nil
}

// rangeBindings: for `for k, v := range X` where X is (bound to) a slice / array / map literal, one substitution per
// element: expression text ("v.field", "v", "k") -> the expression of that element.  ok=false when X cannot be resolved.
func (p *pkgInfo) rangeBindings(rs *ast.RangeStmt, fd *ast.FuncDecl) (subs []map[string]ast.Expr, at []ast.Node, ok bool) {
	var cl *ast.CompositeLit
	switch x := rs.X.(type) {
	case *ast.CompositeLit:
		cl = x
	case *ast.Ident:
		cl = p.literalOf(x.Name, fd)
	case *ast.CallExpr: // for _, r := range hc.apiRoutes()
		cl = p.returnedLiteral(x)
	}
	if cl == nil {
		return nil, nil, false
	}
	var elt ast.Expr
	isMap := false
	switch t := cl.Type.(type) {
	case *ast.ArrayType:
		elt = t.Elt
	case *ast.MapType:
		elt, isMap = t.Value, true
	default:
		return nil, nil, false
	}
	fields := p.structFieldNames(elt)
	name := func(e ast.Expr) string {
		if id, ok := e.(*ast.Ident); ok && id.Name != "_" {
			return id.Name
		}
		return ""
	}
	kname, vname := "", ""
	if rs.Key != nil {
		kname = name(rs.Key)
	}
	if rs.Value != nil {
		vname = name(rs.Value)
	}
	for _, el := range cl.Elts {
		sub := map[string]ast.Expr{}
		val := el
		if kv, isKV := el.(*ast.KeyValueExpr); isKV {
			val = kv.Value
			if isMap && kname != "" {
				sub[kname] = kv.Key
			}
		} else if isMap {
			return nil, nil, false
		}
		if u, isU := val.(*ast.UnaryExpr); isU && u.Op == token.AND {
			val = u.X
		}
		if vname != "" {
			if ecl, isCL := val.(*ast.CompositeLit); isCL && fields != nil {
				for i, fe := range ecl.Elts {
					if kv, isKV := fe.(*ast.KeyValueExpr); isKV {
						sub[vname+"."+exprText(kv.Key)] = kv.Value
					} else if i < len(fields) {
						sub[vname+"."+fields[i]] = fe
					}
				}
			} else {
				sub[vname] = val
			}
		}
		subs = append(subs, sub)
		at = append(at, el)
	}
	return subs, at, true
}

func (p *pkgInfo) routes() (rts []route, opts [][2]string) {
	for _, f := range p.files {
		for _, d := range f.Decls {
			fd, ok := d.(*ast.FuncDecl)
			if !ok || fd.Body == nil {
				continue
			}
			inConfigure := fd.Name.Name == "Configure"
			// classify one call on the router; sub replaces loop variables by the expressions of one table element
			classify := func(n *ast.CallExpr, sub map[string]ast.Expr, at ast.Node) {
				s, ok := n.Fun.(*ast.SelectorExpr)
				if !ok || !isRouterSel(s.X) {
					return
				}
				arg := func(i int) ast.Expr {
					if e, ok := sub[exprText(n.Args[i])]; ok {
						return e
					}
					return n.Args[i]
				}
				r := route{reg: s.Sel.Name, pos: p.pos(at)}
				if !inConfigure {
					if s.Sel.Name == "ServeHTTP" || s.Sel.Name == "Lookup" {
						return
					}
					r.unknown = "router method " + s.Sel.Name + " called outside Configure (in " + fd.Name.Name + ")"
					rts = append(rts, r)
					return
				}
				var hexpr ast.Expr
				if m, ok := routerMethods[s.Sel.Name]; ok && len(n.Args) == 2 {
					r.method = m
					if pat, ok := methodConst(arg(0)); ok {
						r.pattern = pat
					} else {
						r.unknown = "pattern is not a string literal"
					}
					hexpr = arg(1)
				} else if (s.Sel.Name == "Handle" || s.Sel.Name == "Handler" || s.Sel.Name == "HandlerFunc") && len(n.Args) == 3 {
					m, ok1 := methodConst(arg(0))
					pat, ok2 := methodConst(arg(1))
					r.method, r.pattern = m, pat
					if !ok1 || !ok2 {
						r.unknown = "method or pattern is not a constant"
					}
					hexpr = arg(2)
				} else if s.Sel.Name == "ServeHTTP" || s.Sel.Name == "Lookup" {
					return
				} else {
					r.unknown = "unclassified router call " + s.Sel.Name + " (" + exprText(n) + ")"
					rts = append(rts, r)
					return
				}
				if q, ok := p.moduleQualifiedHandler(hexpr); ok {
					// a handler declared in another package of this module (helpers.F): a normal row under its
					// qualified name (the reads pass walks it under that name); it has no C16 model case, so
					// route_table_ok still asks for one
					r.handler = q
				} else if h, ok := handlerName(hexpr); ok {
					r.handler = h
					if len(p.funcs[h]) == 0 {
						r.unknown = "handler " + h + " is not a function of the package"
					}
				} else if r.unknown == "" {
					r.unknown = "handler expression not understood: " + exprText(hexpr)
				}
				rts = append(rts, r)
			}
			ast.Inspect(fd.Body, func(n ast.Node) bool {
				switch n := n.(type) {
				case *ast.AssignStmt:
					for i, l := range n.Lhs {
						if s, ok := l.(*ast.SelectorExpr); ok && isRouterSel(s.X) && i < len(n.Rhs) {
							opts = append(opts, [2]string{s.Sel.Name, exprText(n.Rhs[i])})
						}
					}
				case *ast.RangeStmt:
					// table-driven registration: a loop over a literal table of {method, pattern, handler} whose body
					// calls the router with the loop variable's fields -- one row per table element
					if !inConfigure {
						return true
					}
					subs, at, ok := p.rangeBindings(n, fd)
					if !ok {
						return true
					}
					for i, sub := range subs {
						ast.Inspect(n.Body, func(m ast.Node) bool {
							if c, ok := m.(*ast.CallExpr); ok {
								classify(c, sub, at[i])
							}
							return true
						})
					}
					return false
				case *ast.CallExpr:
					classify(n, nil, n)
				}
				return true
			})
		}
	}
	// registrations the static walk could not resolve: take those from the list observed on the real router (if the
	// check module supplied one); a registration that is still unknown stays an RtUnknown row
	if len(observedRoutes) > 0 {
		have := map[string]bool{}
		unresolved := false
		var keep []route
		for _, r := range rts {
			if r.unknown != "" && !strings.Contains(r.unknown, "called outside Configure") {
				unresolved = true
				continue
			}
			have[r.method+" "+r.pattern] = true
			keep = append(keep, r)
		}
		if unresolved {
			rts = keep
			for _, o := range observedRoutes {
				if !have[o.method+" "+o.pattern] {
					if len(p.funcs[o.handler]) == 0 {
						o.unknown = "observed handler " + o.handler + " is not a function of the package"
					}
					rts = append(rts, o)
				}
			}
		}
	}
	return
}

func patternSegs(pat string) []string {
	var out []string
	parts := strings.Split(pat, "/")
	if len(parts) > 0 && parts[0] == "" {
		parts = parts[1:]
	}
	for _, s := range parts {
		switch {
		case strings.HasPrefix(s, ":"):
			out = append(out, "SParam "+coqStr(s[1:]))
		case strings.HasPrefix(s, "*"):
			out = append(out, "SCatchAll "+coqStr(s[1:]))
		default:
			out = append(out, "SLit "+coqStr(s))
		}
	}
	return out
}

func emitRoutes(p *pkgInfo) {
	rts, opts := p.routes()
	fmt.Println("(* GENERATED by /verif/translator/http (routes) from " + pkgDir + " -- do not edit *)")
	fmt.Println("From Burrow Require Import Http.")
	fmt.Println("Require Import List String.")
	fmt.Println("Import ListNotations.")
	fmt.Println("Open Scope string_scope.")
	fmt.Println()
	var rows []string
	for _, r := range rts {
		if r.unknown != "" {
			rows = append(rows, fmt.Sprintf("  RtUnknown %s %s", coqStr(r.pos), coqStr(r.unknown)))
			continue
		}
		rows = append(rows, fmt.Sprintf("  RtRow %s %s %s %s %s", coqStr(r.method), coqStr(r.pattern),
			coqList(patternSegs(r.pattern)), coqStr(r.handler), coqStr(r.reg)))
	}
	fmt.Println("Definition table : list rt_row := [")
	fmt.Println(strings.Join(rows, ";\n"))
	fmt.Println("].")
	fmt.Println()
	var os_ []string
	for _, o := range opts {
		os_ = append(os_, fmt.Sprintf("  (%s, %s)", coqStr(o[0]), coqStr(o[1])))
	}
	fmt.Println("(* assignments to fields of the router (NotFound, PanicHandler, RedirectTrailingSlash ...) *)")
	fmt.Println("Definition router_opts : list (string * string) := [")
	fmt.Println(strings.Join(os_, ";\n"))
	fmt.Println("].")
	fmt.Println()
	_, infos := analyse(p)
	fmt.Println("(* handler, storage request types it can construct, builds evaluator requests?, ByName parameter names *)")
	fmt.Println("Definition handler_requests : list hreq := [")
	fmt.Println(strings.Join(routeHreqRows(infos), ";\n"))
	fmt.Println("].")
}

// routeHreqRows: per registered handler, the protocol.StorageRequest types it constructs (transitively through the
// package's own functions), whether it builds EvaluatorRequests, and the path parameter names it reads (C16).
func routeHreqRows(infos []*hinfo) []string {
	var hrows []string
	for _, h := range infos {
		var rt, ps []string
		for k := range h.reqTypes {
			rt = append(rt, coqStr(k))
		}
		for k := range h.params {
			ps = append(ps, coqStr(k))
		}
		sort.Strings(rt)
		sort.Strings(ps)
		ev := "false"
		if h.eval {
			ev = "true"
		}
		hrows = append(hrows, fmt.Sprintf("  HReq %s %s %s %s", coqStr(h.name), coqList(rt), ev, coqList(ps)))
	}
	return hrows
}

// ---------------------------------------------------------------------------------------------
// read sets
// ---------------------------------------------------------------------------------------------

type pelem struct {
	kind string // fix | param | valof | keyof | unknown
	s    string
	row  int
}

type sym struct {
	elems  []pelem
	mapRow int // >0: the value is the map returned by read row mapRow
	// C18 evaluator extensions (all optional):
	more   [][]pelem      // further alternative patterns (a key drawn from a literal table that is ranged over / indexed)
	fields map[string]sym // a struct value, by field name (non-nil also for the empty struct literal)
	items  []sym          // values of a literal slice / array / map
	keys   []sym          // keys of a literal map
	isColl bool           // items/keys are meaningful
	funcs  []funcRef      // a function value: the declarations it can denote
}

// funcRef: a function or method of the module held in a variable, a table or passed as a method expression.
type funcRef struct {
	fd         *ast.FuncDecl
	p          *pkgInfo
	methodExpr bool // (*T).m / T.m: the first argument is the receiver
	recv       *sym // x.m: the bound receiver
}

const maxAlts = 32

// alts: every pattern the value can be.
func (s sym) alts() [][]pelem {
	return append([][]pelem{s.elems}, s.more...)
}

func (s sym) plain() bool {
	return s.mapRow == 0 && s.fields == nil && !s.isColl && len(s.funcs) == 0
}

// mergeSyms: the value is one of vs (an element of a table).  Patterns become alternatives, function values are united;
// anything else is unknown.
func mergeSyms(vs []sym, why string) sym {
	if len(vs) == 0 {
		return unknownSym(why + " (empty table)")
	}
	allFuncs, allPlain := true, true
	for _, v := range vs {
		if len(v.funcs) == 0 {
			allFuncs = false
		}
		if !v.plain() {
			allPlain = false
		}
	}
	if allFuncs {
		var out sym
		for _, v := range vs {
			out.funcs = append(out.funcs, v.funcs...)
		}
		out.elems = []pelem{{kind: "unknown", s: "function value used as a string"}}
		return out
	}
	if !allPlain {
		return unknownSym(why + " (elements are neither all strings nor all functions)")
	}
	var all [][]pelem
	seen := map[string]bool{}
	for _, v := range vs {
		for _, a := range v.alts() {
			k := fmt.Sprint(a)
			if !seen[k] {
				seen[k] = true
				all = append(all, a)
			}
		}
	}
	if len(all) > maxAlts {
		return unknownSym(why + " (too many alternatives)")
	}
	return sym{elems: all[0], more: all[1:]}
}

// concatSyms: a + b on patterns, alternatives multiplied out.
func concatSyms(a, b sym) sym {
	var all [][]pelem
	for _, x := range a.alts() {
		for _, y := range b.alts() {
			all = append(all, append(append([]pelem{}, x...), y...))
		}
	}
	if len(all) > maxAlts {
		return unknownSym("too many alternative keys")
	}
	return sym{elems: all[0], more: all[1:]}
}

func unknownSym(why string) sym { return sym{elems: []pelem{{kind: "unknown", s: why}}} }

type rrow struct {
	id        int
	handler   string
	kind      string // exists | keys | scalar | children | subtree | unknown
	pat       []pelem
	call      string
	feeds     string
	pos       string
	mapCall   bool
	valueUsed bool
	multi     bool // one of several rows made by one call whose key has alternatives
}

type hinfo struct {
	name     string
	reqTypes map[string]bool
	eval     bool
	params   map[string]bool
	lits     []litFeed
}

type litFeed struct{ typ, field, kind, detail, pos string }

type walker struct {
	p      *pkgInfo
	rows   []*rrow
	nextID int
	h      *hinfo
	stack  []string
	// C18: functions already walked (from any handler), and packages of the module loaded to follow calls into them
	visited map[*ast.FuncDecl]bool
	foreign map[string]*foreignPkg // import path -> package (nil entry: could not be loaded)
	pkgKey  map[*pkgInfo]string
	metas   map[*pkgInfo]*pkgMeta
	recvArg *sym // receiver value for the next walkFunc of a method
	walked  []string // handlers whose every declaration was found and whose body the walk really entered (top level)
}

// foreignPkg is another package of the repository's module, parsed so that calls into it can be followed.
type foreignPkg struct {
	p     *pkgInfo
	types map[string]bool // type names declared there (T(x) is a conversion, not a call)
}

// viperNames: the local names under which github.com/spf13/viper is imported in any walked file ("viper" unless renamed).
var viperNames = map[string]bool{"viper": true}

const viperPath = "github.com/spf13/viper"

// viperWrites: calls that store into the configuration; harmless when every stored value is a literal.
var viperWrites = map[string]bool{"Set": true, "SetDefault": true}

var scalarReads = map[string]bool{"GetString": true, "GetBool": true, "GetInt": true, "GetInt32": true, "GetInt64": true,
	"GetUint": true, "GetUint8": true, "GetUint16": true, "GetUint32": true, "GetUint64": true, "GetFloat64": true, "GetTime": true,
	"GetDuration": true, "GetIntSlice": true, "GetStringSlice": true, "GetSizeInBytes": true}
var existsReads = map[string]bool{"IsSet": true, "InConfig": true}
var mapReads = map[string]string{"GetStringMap": "subtree", "GetStringMapString": "children", "GetStringMapStringSlice": "subtree"}
var subtreeReads = map[string]bool{"Get": true, "Sub": true, "UnmarshalKey": true}
var rootReads = map[string]bool{"AllSettings": true, "AllKeys": true, "Unmarshal": true, "UnmarshalExact": true, "GetViper": true,
	"Debug": true, "DebugTo": true, "WriteConfig": true, "WriteConfigAs": true, "SafeWriteConfig": true, "SafeWriteConfigAs": true}

func isViperCall(c *ast.CallExpr) (string, bool) {
	s, ok := c.Fun.(*ast.SelectorExpr)
	if !ok {
		return "", false
	}
	x, ok := s.X.(*ast.Ident)
	if !ok || !viperNames[x.Name] {
		return "", false
	}
	return s.Sel.Name, true
}

func (w *walker) addRow(r *rrow) int {
	w.nextID++
	r.id = w.nextID
	r.handler = w.h.name
	w.rows = append(w.rows, r)
	return r.id
}

type frame struct {
	env     map[string][]binding // variable name -> stack of bindings (innermost scope last)
	depth   int                  // current lexical depth inside the function body
	memo    map[*ast.CallExpr]int
	mapVars map[string][]int // variable name -> read rows whose map it held
	parents []ast.Node
	poison  map[string]bool // variables modified inside a loop: unknown from the start (the walk is flow-insensitive)
}

type binding struct {
	v     sym
	depth int
}

func newFrame() *frame {
	return &frame{env: map[string][]binding{}, memo: map[*ast.CallExpr]int{}, mapVars: map[string][]int{}}
}

func symKey(s sym) string {
	var sb strings.Builder
	fmt.Fprintf(&sb, "%v|%d|%v|", s.elems, s.mapRow, s.more)
	if s.fields != nil {
		ks := make([]string, 0, len(s.fields))
		for k := range s.fields {
			ks = append(ks, k)
		}
		sort.Strings(ks)
		sb.WriteString("{")
		for _, k := range ks {
			sb.WriteString(k + "=" + symKey(s.fields[k]) + ";")
		}
		sb.WriteString("}")
	}
	if s.isColl {
		sb.WriteString("[")
		for _, v := range s.keys {
			sb.WriteString("k:" + symKey(v) + ";")
		}
		for _, v := range s.items {
			sb.WriteString("v:" + symKey(v) + ";")
		}
		sb.WriteString("]")
	}
	for _, f := range s.funcs {
		fmt.Fprintf(&sb, "f:%p:%v;", f.fd, f.methodExpr)
	}
	return sb.String()
}

func symEq(a, b sym) bool { return symKey(a) == symKey(b) }

func (fr *frame) get(name string) (sym, bool) {
	st := fr.env[name]
	if len(st) == 0 {
		return sym{}, false
	}
	return st[len(st)-1].v, true
}

// define: `name := v` / `var name = v` / a parameter.  A second definition at the same depth is a re-assignment.
func (fr *frame) define(name string, v sym) {
	if fr.poison[name] {
		v = unknownSym("variable " + name + " is modified inside a loop")
	}
	st := fr.env[name]
	if len(st) > 0 && st[len(st)-1].depth == fr.depth {
		fr.assign(name, v)
		return
	}
	fr.env[name] = append(st, binding{v, fr.depth})
}

// assign: `name = v`.  The analysis is flow-insensitive, so a variable that can hold two different values is unknown.
func (fr *frame) assign(name string, v sym) {
	if fr.poison[name] {
		v = unknownSym("variable " + name + " is modified inside a loop")
	}
	st := fr.env[name]
	if len(st) == 0 {
		fr.env[name] = []binding{{v, fr.depth}}
		return
	}
	top := &st[len(st)-1]
	if !symEq(top.v, v) {
		rows := top.v.mapRow
		top.v = unknownSym("variable " + name + " is assigned more than once")
		_ = rows
	}
}

func (fr *frame) leave() {
	for name, st := range fr.env {
		for len(st) > 0 && st[len(st)-1].depth > fr.depth {
			st = st[:len(st)-1]
		}
		fr.env[name] = st
	}
}

// scopeNode: nodes that open a lexical scope.
func scopeNode(n ast.Node) bool {
	switch n.(type) {
	case *ast.BlockStmt, *ast.IfStmt, *ast.ForStmt, *ast.RangeStmt, *ast.SwitchStmt, *ast.TypeSwitchStmt, *ast.CaseClause,
		*ast.CommClause, *ast.SelectStmt, *ast.FuncLit:
		return true
	}
	return false
}

var convNames = map[string]bool{"int": true, "int8": true, "int16": true, "int32": true, "int64": true, "uint": true, "uint8": true,
	"uint16": true, "uint32": true, "uint64": true, "string": true, "float32": true, "float64": true, "bool": true}

// localTypeNames: the type names declared in the walked packages (T(x) is a conversion, the value is x).
var localTypeNames = map[string]bool{}

func isConversion(c *ast.CallExpr) bool {
	id, ok := c.Fun.(*ast.Ident)
	return ok && (convNames[id.Name] || localTypeNames[id.Name]) && len(c.Args) == 1
}

// feedsOf describes where the value of the node on top of the parent stack goes.
func (w *walker) feedsOf(fr *frame, self ast.Node) string {
	child := self
	for i := len(fr.parents) - 1; i >= 0; i-- {
		par := fr.parents[i]
		if par == self {
			continue
		}
		switch n := par.(type) {
		case *ast.ParenExpr, *ast.BinaryExpr, *ast.StarExpr:
		case *ast.UnaryExpr:
		case *ast.CallExpr:
			if isConversion(n) {
				break
			}
			if _, ok := isViperCall(n); ok {
				return "key-of:" + exprText(n.Fun)
			}
			return "arg:" + exprText(n.Fun)
		case *ast.KeyValueExpr:
			if i > 0 {
				if cl, ok := fr.parents[i-1].(*ast.CompositeLit); ok && cl.Type != nil {
					return exprText(cl.Type) + "." + exprText(n.Key)
				}
			}
			return "keyvalue:" + exprText(n.Key)
		case *ast.IndexExpr:
			if n.X != child {
				return "index-key"
			}
			// m[k]: only membership is used when the value lands in the blank identifier of `_, ok := m[k]`
			if i > 0 {
				if as, ok := fr.parents[i-1].(*ast.AssignStmt); ok && blankCommaOk(as, n) {
					return "index-exists"
				}
			}
			return "index-value"
		case *ast.AssignStmt:
			// "var:" only for a plain local identifier (tracked by name afterwards); a store into a field, an
			// element or a dereference escapes the analysis of the variable's uses
			if len(n.Lhs) == len(n.Rhs) {
				for j, rhs := range n.Rhs {
					if rhs == child {
						if id, ok := n.Lhs[j].(*ast.Ident); ok {
							return "var:" + id.Name
						}
						return "store:" + exprText(n.Lhs[j])
					}
				}
			}
			return "store:?"
		case *ast.ValueSpec:
			if len(n.Names) > 0 {
				return "var:" + n.Names[0].Name
			}
		case *ast.IfStmt:
			return "control:if"
		case *ast.SwitchStmt:
			return "control:switch"
		case *ast.RangeStmt:
			if n.X == child {
				return "range"
			}
			return "other:range-body"
		case *ast.ReturnStmt:
			return "return"
		case *ast.ExprStmt:
			return "discarded"
		default:
			return fmt.Sprintf("other:%T", par)
		}
		child = par
	}
	return "other:top"
}

// blankCommaOk: as is `_, ok := ix` / `_, ok = ix` (the indexed value itself is discarded).
func blankCommaOk(as *ast.AssignStmt, ix *ast.IndexExpr) bool {
	if len(as.Lhs) != 2 || len(as.Rhs) != 1 || as.Rhs[0] != ast.Expr(ix) {
		return false
	}
	id, ok := as.Lhs[0].(*ast.Ident)
	return ok && id.Name == "_"
}

// pkgMeta: package-level constants, variables and types of one package, and which variables are STABLE (never
// written, never aliased), so that their initialiser is their value wherever they are read.
type pkgMeta struct {
	vals     map[string]ast.Expr
	isConst  map[string]bool
	unstable map[string]bool
	types    map[string]ast.Expr
}

func (w *walker) meta() *pkgMeta {
	if w.metas == nil {
		w.metas = map[*pkgInfo]*pkgMeta{}
	}
	if m, ok := w.metas[w.p]; ok {
		return m
	}
	m := &pkgMeta{vals: map[string]ast.Expr{}, isConst: map[string]bool{}, unstable: map[string]bool{}, types: map[string]ast.Expr{}}
	w.metas[w.p] = m
	decl := map[*ast.Ident]bool{}
	for _, f := range w.p.files {
		for _, d := range f.Decls {
			gd, ok := d.(*ast.GenDecl)
			if !ok {
				continue
			}
			for _, sp := range gd.Specs {
				switch sp := sp.(type) {
				case *ast.TypeSpec:
					m.types[sp.Name.Name] = sp.Type
					localTypeNames[sp.Name.Name] = true
				case *ast.ValueSpec:
					for i, nm := range sp.Names {
						decl[nm] = true
						if len(sp.Names) == len(sp.Values) {
							m.vals[nm.Name] = sp.Values[i]
							m.isConst[nm.Name] = gd.Tok == token.CONST
						} else {
							m.unstable[nm.Name] = true
						}
					}
				}
			}
		}
	}
	// stability of the variables: every other occurrence of the name must be a plain read
	for _, f := range w.p.files {
		var parents []ast.Node
		ast.Inspect(f, func(n ast.Node) bool {
			if n == nil {
				parents = parents[:len(parents)-1]
				return true
			}
			defer func() { parents = append(parents, n) }()
			id, ok := n.(*ast.Ident)
			if !ok || decl[id] || len(parents) == 0 {
				return true
			}
			if _, known := m.vals[id.Name]; !known || m.isConst[id.Name] {
				return true
			}
			par := parents[len(parents)-1]
			if se, ok := par.(*ast.SelectorExpr); ok && se.Sel == id {
				return true // a field or method of that name
			}
			if kv, ok := par.(*ast.KeyValueExpr); ok && kv.Key == ast.Expr(id) {
				return true // a field name in a composite literal
			}
			// climb through x.f, x[i], (x)
			var cur ast.Node = id
			i := len(parents) - 1
			for ; i >= 0; i-- {
				switch pn := parents[i].(type) {
				case *ast.SelectorExpr:
					if pn.X == cur {
						cur = pn
						continue
					}
				case *ast.IndexExpr:
					if pn.X == cur {
						cur = pn
						continue
					}
				case *ast.ParenExpr:
					cur = pn
					continue
				}
				break
			}
			if i < 0 {
				m.unstable[id.Name] = true
				return true
			}
			_, literal := m.vals[id.Name].(*ast.BasicLit)
			switch top := parents[i].(type) {
			case *ast.AssignStmt:
				for _, l := range top.Lhs {
					if l == cur {
						m.unstable[id.Name] = true
					}
				}
				if cur == ast.Node(id) && !literal {
					m.unstable[id.Name] = true // y := table: an alias through which it can be modified
				}
			case *ast.IncDecStmt:
				m.unstable[id.Name] = true
			case *ast.UnaryExpr:
				if top.Op == token.AND {
					m.unstable[id.Name] = true
				}
			case *ast.RangeStmt:
				if top.X != cur {
					m.unstable[id.Name] = true // range key/value variable of that name
				}
			case *ast.CallExpr:
				if top.Fun == cur {
					if se, ok := cur.(*ast.SelectorExpr); ok {
						for _, d := range w.p.funcs[se.Sel.Name] {
							if d.Recv != nil {
								m.unstable[id.Name] = true // a method of the package on the variable may modify it
							}
						}
					}
				} else if cur == ast.Node(id) && !literal {
					if fn, ok := top.Fun.(*ast.Ident); !ok || (fn.Name != "len" && fn.Name != "cap") {
						m.unstable[id.Name] = true // passed on: may be modified through the alias
					}
				}
			case *ast.Field, *ast.ValueSpec:
				m.unstable[id.Name] = true // a parameter / local variable of the same name: do not try to tell them apart
			default:
				if cur == ast.Node(id) && !literal {
					m.unstable[id.Name] = true
				}
			}
			return true
		})
	}
	return m
}

// localTypeOf: the declared type expression behind a type name of the package (nil if unknown).
func (w *walker) localTypeOf(e ast.Expr) ast.Expr {
	for {
		switch x := e.(type) {
		case *ast.ParenExpr:
			e = x.X
			continue
		case *ast.StarExpr:
			e = x.X
			continue
		case *ast.Ident:
			return w.meta().types[x.Name]
		}
		return nil
	}
}

func (w *walker) methodsNamed(name string) []*ast.FuncDecl {
	var ms []*ast.FuncDecl
	for _, d := range w.p.funcs[name] {
		if d.Recv != nil {
			ms = append(ms, d)
		}
	}
	return ms
}

// evalComposite: a literal slice/array/map (items, keys) or struct (fields).
func (w *walker) evalComposite(e *ast.CompositeLit, fr *frame) sym {
	t := e.Type
	if t != nil {
		if _, isName := t.(*ast.Ident); isName {
			if lt := w.localTypeOf(t); lt != nil {
				t = lt
			}
		}
	}
	out := sym{elems: []pelem{{kind: "unknown", s: "composite value used as a string"}}}
	var st *ast.StructType
	switch tt := t.(type) {
	case *ast.ArrayType, *ast.MapType:
		out.isColl = true
	case *ast.StructType:
		st = tt
		out.fields = map[string]sym{}
	case nil:
		out.isColl = true
		out.fields = map[string]sym{}
	default:
		return unknownSym("literal of type " + exprText(e.Type))
	}
	// the literal and its key/value pairs are pushed as parents, so that a read inside is attributed as in the
	// statement walk (feedsOf: "T.Field", and map reads are not mistaken for keys-only uses)
	saved := fr.parents
	fr.parents = append(append([]ast.Node{}, fr.parents...), e)
	defer func() { fr.parents = saved }()
	for i, el := range e.Elts {
		if kv, ok := el.(*ast.KeyValueExpr); ok {
			fr.parents = append(fr.parents, kv)
			v := w.eval(kv.Value, fr)
			fr.parents = fr.parents[:len(fr.parents)-1]
			if out.isColl {
				out.keys = append(out.keys, w.eval(kv.Key, fr))
				out.items = append(out.items, v)
			}
			if id, ok := kv.Key.(*ast.Ident); ok && out.fields != nil {
				out.fields[id.Name] = v
			}
			continue
		}
		v := w.eval(el, fr)
		if out.isColl {
			out.items = append(out.items, v)
		}
		if st != nil { // positional struct literal
			k := 0
			for _, fl := range st.Fields.List {
				for _, nm := range fl.Names {
					if k == i {
						out.fields[nm.Name] = v
					}
					k++
				}
			}
		}
	}
	return out
}

// eval turns an expression into a symbolic value: a path pattern (possibly several alternatives), the map returned by
// a read, a struct / table literal, or a function value; viper reads met on the way become rows.
func (w *walker) eval(e ast.Expr, fr *frame) sym {
	switch e := e.(type) {
	case *ast.BasicLit:
		if e.Kind == token.STRING {
			s, err := strconv.Unquote(e.Value)
			if err == nil {
				return sym{elems: []pelem{{kind: "fix", s: s}}}
			}
		}
		return unknownSym("literal " + e.Value)
	case *ast.ParenExpr:
		return w.eval(e.X, fr)
	case *ast.StarExpr:
		return w.eval(e.X, fr)
	case *ast.UnaryExpr:
		if e.Op == token.AND {
			return w.eval(e.X, fr)
		}
		return unknownSym("operator " + e.Op.String())
	case *ast.BinaryExpr:
		if e.Op == token.ADD {
			return concatSyms(w.eval(e.X, fr), w.eval(e.Y, fr))
		}
		return unknownSym("operator " + e.Op.String())
	case *ast.CompositeLit:
		return w.evalComposite(e, fr)
	case *ast.Ident:
		if v, ok := fr.get(e.Name); ok {
			return v
		}
		m := w.meta()
		if init, ok := m.vals[e.Name]; ok {
			if m.unstable[e.Name] {
				return unknownSym("package variable " + e.Name + " is written or aliased somewhere in the package")
			}
			if len(w.stack) < 14 {
				w.stack = append(w.stack, "pkgvar:"+e.Name)
				v := w.eval(init, newFrame())
				w.stack = w.stack[:len(w.stack)-1]
				return v
			}
		}
		var fs []funcRef
		for _, d := range w.p.funcs[e.Name] {
			if d.Recv == nil {
				fs = append(fs, funcRef{fd: d, p: w.p})
			}
		}
		if len(fs) > 0 {
			return sym{elems: []pelem{{kind: "unknown", s: "function value used as a string"}}, funcs: fs}
		}
		return unknownSym("identifier " + e.Name)
	case *ast.SelectorExpr:
		if x, ok := e.X.(*ast.Ident); ok {
			if _, shadow := fr.get(x.Name); !shadow {
				if _, isImport := w.p.imports[x.Name]; isImport {
					return unknownSym("selector " + exprText(e))
				}
			}
		}
		// method expression (*T).m / T.m
		if w.localTypeOf(e.X) != nil {
			if id, ok := e.X.(*ast.Ident); !ok || func() bool { _, isVar := fr.get(id.Name); return !isVar }() {
				var fs []funcRef
				for _, d := range w.methodsNamed(e.Sel.Name) {
					fs = append(fs, funcRef{fd: d, p: w.p, methodExpr: true})
				}
				if len(fs) > 0 {
					return sym{elems: []pelem{{kind: "unknown", s: "function value used as a string"}}, funcs: fs}
				}
			}
		}
		x := w.eval(e.X, fr)
		if x.fields != nil {
			if v, ok := x.fields[e.Sel.Name]; ok {
				return v
			}
		}
		if ms := w.methodsNamed(e.Sel.Name); len(ms) > 0 { // method value x.m
			var fs []funcRef
			for _, d := range ms {
				rc := x
				fs = append(fs, funcRef{fd: d, p: w.p, recv: &rc})
			}
			return sym{elems: []pelem{{kind: "unknown", s: "function value used as a string"}}, funcs: fs}
		}
		return unknownSym("selector " + exprText(e))
	case *ast.IndexExpr:
		saved := fr.parents
		fr.parents = append(append([]ast.Node{}, fr.parents...), e)
		x := w.eval(e.X, fr)
		fr.parents = saved
		if x.isColl {
			return mergeSyms(x.items, "element of "+exprText(e.X))
		}
		return unknownSym("element of " + exprText(e.X))
	case *ast.CallExpr:
		if s, ok := e.Fun.(*ast.SelectorExpr); ok && s.Sel.Name == "ByName" && len(e.Args) == 1 {
			if lit, ok := e.Args[0].(*ast.BasicLit); ok && lit.Kind == token.STRING {
				nm, _ := strconv.Unquote(lit.Value)
				w.h.params[nm] = true
				return sym{elems: []pelem{{kind: "param", s: nm}}}
			}
			return unknownSym("ByName of a non-literal")
		}
		if _, ok := isViperCall(e); ok {
			id := w.viperCall(e, fr)
			r := w.rowByID(id)
			if r == nil {
				return unknownSym("result of a viper call that returns nothing")
			}
			if r.multi {
				return unknownSym("result of a read with several alternative keys")
			}
			if r.mapCall {
				return sym{mapRow: id, elems: []pelem{{kind: "unknown", s: "map value used as a string"}}}
			}
			if r.kind == "scalar" {
				return sym{elems: []pelem{{kind: "valof", row: id}}}
			}
			return unknownSym("result of " + r.call)
		}
		if isConversion(e) {
			return w.eval(e.Args[0], fr)
		}
		// strings.ToLower/ToUpper(x) as (part of) a key: viper compares keys case-insensitively, so the key denotes
		// the same path as x
		if t := exprText(e.Fun); (t == "strings.ToLower" || t == "strings.ToUpper") && len(e.Args) == 1 && w.p.imports["strings"] == "strings" {
			return w.eval(e.Args[0], fr)
		}
		// a helper of the package that only returns an expression of its parameters / receiver (key builders, accessors)
		if _, callees := w.localCallees(e); len(callees) == 1 {
			if ret := singleReturn(callees[0]); ret != nil && len(w.stack) < 12 {
				sub := newFrame()
				if se, ok := e.Fun.(*ast.SelectorExpr); ok && callees[0].Recv != nil {
					for _, fl := range callees[0].Recv.List {
						for _, nm := range fl.Names {
							sub.define(nm.Name, w.eval(se.X, fr))
						}
					}
				}
				i := 0
				for _, fl := range callees[0].Type.Params.List {
					for _, nm := range fl.Names {
						if i < len(e.Args) {
							sub.define(nm.Name, w.eval(e.Args[i], fr))
						}
						i++
					}
				}
				w.stack = append(w.stack, "eval:"+callees[0].Name.Name)
				v := w.eval(ret, sub)
				w.stack = w.stack[:len(w.stack)-1]
				// reads inside the helper are recorded by the statement walk of the helper as well
				return v
			}
		}
		return unknownSym("call " + exprText(e.Fun))
	}
	return unknownSym(fmt.Sprintf("%T", e))
}

// singleReturn: the function's body is exactly `return <one expression>`.
func singleReturn(fd *ast.FuncDecl) ast.Expr {
	if fd.Body == nil || len(fd.Body.List) != 1 {
		return nil
	}
	rs, ok := fd.Body.List[0].(*ast.ReturnStmt)
	if !ok || len(rs.Results) != 1 {
		return nil
	}
	return rs.Results[0]
}

// sameRead: two rows are the same viper call on the same key pattern.
func (w *walker) sameRead(a, b int) bool {
	ra, rb := w.rowByID(a), w.rowByID(b)
	if ra == nil || rb == nil || ra.call != rb.call || len(ra.pat) != len(rb.pat) {
		return false
	}
	for i := range ra.pat {
		if ra.pat[i] != rb.pat[i] {
			return false
		}
	}
	return true
}

func (w *walker) rowByID(id int) *rrow {
	for _, r := range w.rows {
		if r.id == id {
			return r
		}
	}
	return nil
}

func (w *walker) viperCall(c *ast.CallExpr, fr *frame) int {
	if id, ok := fr.memo[c]; ok {
		return id
	}
	name, _ := isViperCall(c)
	r := &rrow{call: "viper." + name, pos: w.p.pos(c)}
	// reserve the memo slot after evaluating the key (inner reads get smaller ids)
	var key sym
	if len(c.Args) >= 1 {
		key = w.eval(c.Args[0], fr)
	}
	r.feeds = w.feedsOf(fr, c)
	switch {
	case scalarReads[name] && len(c.Args) == 1:
		r.kind, r.pat = "scalar", key.elems
	case existsReads[name] && len(c.Args) == 1:
		r.kind, r.pat = "exists", key.elems
	case mapReads[name] != "" && len(c.Args) == 1:
		r.kind, r.pat, r.mapCall = mapReads[name], key.elems, true
		// keys-only use is decided from the context (range without value / len / variable uses)
		switch {
		case r.feeds == "range":
			// parent RangeStmt decides (see walkBody): default keys, upgraded when the value variable is bound
			r.kind = "keys"
			r.valueUsed = false
		case strings.HasPrefix(r.feeds, "var:"):
			r.kind = "keys" // upgraded after the body walk when the variable is used for more than its keys
		case r.feeds == "arg:len", r.feeds == "index-exists":
			r.kind = "keys"
		default:
			r.valueUsed = true
		}
	case viperWrites[name] && len(c.Args) == 2 && isConstExpr(c.Args[1]):
		// viper.Set/SetDefault(key, <literal>): stores a constant, reads nothing (the key's own reads were evaluated above)
		fr.memo[c] = 0
		return 0
	case subtreeReads[name] && len(c.Args) >= 1:
		r.kind, r.pat = "subtree", key.elems
	case rootReads[name]:
		r.kind, r.pat = "subtree", nil
	default:
		r.kind = "unknown"
		r.pat = []pelem{{kind: "unknown", s: "unclassified viper call " + exprText(c)}}
	}
	id := w.addRow(r)
	fr.memo[c] = id
	if len(c.Args) >= 1 && len(key.more) > 0 && r.kind != "unknown" && len(r.pat) > 0 {
		// the key is drawn from a table: one row per alternative (their results are not told apart afterwards)
		r.multi = true
		if r.mapCall {
			r.valueUsed = true
		}
		for _, alt := range key.more {
			cp := *r
			cp.pat = alt
			w.addRow(&cp)
		}
	}
	return id
}

// isConstExpr: a literal, true/false/nil, or a signed literal.
func isConstExpr(e ast.Expr) bool {
	switch x := e.(type) {
	case *ast.BasicLit:
		return true
	case *ast.Ident:
		return x.Name == "true" || x.Name == "false" || x.Name == "nil"
	case *ast.UnaryExpr:
		return isConstExpr(x.X)
	case *ast.ParenExpr:
		return isConstExpr(x.X)
	}
	return false
}

func (w *walker) unknownRow(n ast.Node, why string) {
	w.addRow(&rrow{kind: "unknown", call: "-", feeds: "-", pos: w.p.pos(n), pat: []pelem{{kind: "unknown", s: why}}})
}

func (w *walker) localCallees(c *ast.CallExpr) (string, []*ast.FuncDecl) {
	switch f := c.Fun.(type) {
	case *ast.Ident:
		return f.Name, w.p.funcs[f.Name]
	case *ast.SelectorExpr:
		// method call x.m(...) or pkg.f(...): package-qualified calls are not local
		if x, ok := f.X.(*ast.Ident); ok {
			if _, isImport := w.p.imports[x.Name]; isImport {
				return f.Sel.Name, nil
			}
		}
		var ms []*ast.FuncDecl
		for _, d := range w.p.funcs[f.Sel.Name] {
			if d.Recv != nil {
				ms = append(ms, d)
			}
		}
		return f.Sel.Name, ms
	}
	return "", nil
}

func (w *walker) walkFunc(fd *ast.FuncDecl, args []sym) {
	key := w.pkgKey[w.p] + fd.Name.Name
	for _, s := range w.stack {
		if s == key {
			w.unknownRow(fd, "recursive call of "+key+" (not followed)")
			return
		}
	}
	if len(w.stack) > 12 {
		w.unknownRow(fd, "call depth exceeded at "+key)
		return
	}
	if fd.Body == nil {
		return
	}
	if w.visited != nil {
		w.visited[fd] = true
	}
	w.stack = append(w.stack, key)
	defer func() { w.stack = w.stack[:len(w.stack)-1] }()

	recv := w.recvArg
	w.recvArg = nil
	fr := newFrame()
	fr.poison = loopModified(fd.Body)
	if fd.Recv != nil && recv != nil {
		for _, fl := range fd.Recv.List {
			for _, nm := range fl.Names {
				fr.define(nm.Name, *recv)
			}
		}
	}
	i := 0
	for _, fl := range fd.Type.Params.List {
		for _, nm := range fl.Names {
			if i < len(args) {
				fr.define(nm.Name, args[i])
			}
			i++
		}
	}
	// callRefs walks the declarations a function value can denote
	callRefs := func(refs []funcRef, as []sym) {
		for _, ref := range refs {
			a, rc := as, ref.recv
			if ref.methodExpr {
				if len(as) > 0 {
					r0 := as[0]
					rc, a = &r0, as[1:]
				} else {
					rc = nil
				}
			}
			saved := w.p
			w.p = ref.p
			w.recvArg = rc
			w.walkFunc(ref.fd, a)
			w.recvArg = nil
			w.p = saved
		}
	}
	// storeInto handles `x.f = v`, `x[i] = v`, `*x = v`: a known struct variable gets the field, anything else that is
	// tracked becomes unknown
	storeInto := func(lhs ast.Expr, rhs ast.Expr, par ast.Node) {
		if se, ok := lhs.(*ast.SelectorExpr); ok {
			if id, ok := se.X.(*ast.Ident); ok {
				if cur, ok := fr.get(id.Name); ok && cur.fields != nil && !fr.poison[id.Name] {
					var v sym
					if rhs != nil {
						v = w.evalIn(rhs, fr, par)
					} else {
						v = unknownSym("field " + se.Sel.Name + " set from a multi-value expression")
					}
					nf := map[string]sym{}
					for k, x := range cur.fields {
						nf[k] = x
					}
					if old, had := nf[se.Sel.Name]; had && !symEq(old, v) {
						v = unknownSym("field " + se.Sel.Name + " of " + id.Name + " is set more than once")
					}
					nf[se.Sel.Name] = v
					cur.fields = nf
					st := fr.env[id.Name]
					st[len(st)-1].v = cur
					return
				}
			}
		}
		root := lhs
		for {
			switch x := root.(type) {
			case *ast.SelectorExpr:
				root = x.X
				continue
			case *ast.IndexExpr:
				root = x.X
				continue
			case *ast.StarExpr:
				root = x.X
				continue
			case *ast.ParenExpr:
				root = x.X
				continue
			}
			break
		}
		if id, ok := root.(*ast.Ident); ok {
			if _, tracked := fr.get(id.Name); tracked {
				fr.assign(id.Name, unknownSym("variable "+id.Name+" is modified through a field, an element or a pointer"))
			}
		}
	}
	bind := func(id *ast.Ident, v sym, define bool) {
		if old, ok := fr.get(id.Name); ok && old.mapRow > 0 && v.mapRow > 0 && w.sameRead(old.mapRow, v.mapRow) {
			// m = viper.GetStringMap(k) again with the same key: the variable still holds "the map at k"
			fr.mapVars[id.Name] = append(fr.mapVars[id.Name], v.mapRow)
			return
		}
		if define {
			fr.define(id.Name, v)
		} else {
			fr.assign(id.Name, v)
		}
		if v.mapRow > 0 {
			fr.mapVars[id.Name] = append(fr.mapVars[id.Name], v.mapRow)
		}
	}
	consumedSel := map[*ast.SelectorExpr]bool{}
	ast.Inspect(fd.Body, func(n ast.Node) bool {
		if n == nil {
			top := fr.parents[len(fr.parents)-1]
			fr.parents = fr.parents[:len(fr.parents)-1]
			if scopeNode(top) {
				fr.depth--
				fr.leave()
			}
			return true
		}
		fr.parents = append(fr.parents, n)
		if scopeNode(n) {
			fr.depth++
		}
		switch n := n.(type) {
		case *ast.AssignStmt:
			if len(n.Lhs) == len(n.Rhs) {
				for i, l := range n.Lhs {
					if id, ok := l.(*ast.Ident); ok {
						if id.Name == "_" {
							continue
						}
						// evaluate with the right parent context: push the rhs path virtually
						v := w.evalIn(n.Rhs[i], fr, n)
						if n.Tok != token.DEFINE && n.Tok != token.ASSIGN {
							v = unknownSym("compound assignment to " + id.Name) // += and friends
						}
						bind(id, v, n.Tok == token.DEFINE)
					} else {
						storeInto(l, n.Rhs[i], n)
					}
				}
			} else {
				// v, ok := table[k]: the first result is an element of the table; x, y := f(): nothing is known
				_, commaOkIndex := n.Rhs[0].(*ast.IndexExpr)
				for k, l := range n.Lhs {
					if id, ok := l.(*ast.Ident); ok {
						if id.Name == "_" {
							continue
						}
						if k == 0 && commaOkIndex && len(n.Lhs) == 2 && len(n.Rhs) == 1 {
							bind(id, w.evalIn(n.Rhs[0], fr, n), n.Tok == token.DEFINE)
							continue
						}
						bind(id, unknownSym("one of several results of "+exprText(n.Rhs[0])), n.Tok == token.DEFINE)
					} else {
						storeInto(l, nil, n)
					}
				}
			}
		case *ast.IncDecStmt:
			if id, ok := n.X.(*ast.Ident); ok {
				fr.assign(id.Name, unknownSym("modified variable "+id.Name))
			} else {
				storeInto(n.X, nil, n)
			}
		case *ast.ValueSpec:
			if len(n.Names) == len(n.Values) {
				for i, id := range n.Names {
					bind(id, w.evalIn(n.Values[i], fr, n), true)
				}
			} else {
				_, isStruct := w.localTypeOf(n.Type).(*ast.StructType)
				for _, id := range n.Names {
					if len(n.Values) == 0 && n.Type != nil && isStruct {
						if _, ptr := n.Type.(*ast.StarExpr); !ptr {
							bind(id, sym{elems: []pelem{{kind: "unknown", s: "struct value used as a string"}}, fields: map[string]sym{}}, true)
							continue
						}
					}
					bind(id, unknownSym("declared variable "+id.Name), true)
				}
			}
		case *ast.RangeStmt:
			v := w.evalIn(n.X, fr, n)
			valueBound := false
			if n.Value != nil {
				if id, ok := n.Value.(*ast.Ident); !ok || id.Name != "_" {
					valueBound = true
				}
			}
			if v.mapRow > 0 {
				if id, ok := n.Key.(*ast.Ident); ok && id.Name != "_" {
					fr.define(id.Name, sym{elems: []pelem{{kind: "keyof", row: v.mapRow}}})
				}
				if valueBound {
					w.rowByID(v.mapRow).valueUsed = true
					if id, ok := n.Value.(*ast.Ident); ok {
						fr.define(id.Name, unknownSym("range value over "+exprText(n.X)))
					}
				}
			} else if v.isColl {
				// a literal table of the package: the loop variable is any of its keys / elements
				if id, ok := n.Key.(*ast.Ident); ok && id.Name != "_" {
					if len(v.keys) > 0 {
						fr.define(id.Name, mergeSyms(v.keys, "range key over "+exprText(n.X)))
					} else {
						fr.define(id.Name, unknownSym("index into "+exprText(n.X)))
					}
				}
				if id, ok := n.Value.(*ast.Ident); ok && id.Name != "_" {
					fr.define(id.Name, mergeSyms(v.items, "range value over "+exprText(n.X)))
				}
			} else {
				if id, ok := n.Key.(*ast.Ident); ok && id.Name != "_" {
					fr.define(id.Name, unknownSym("range key over "+exprText(n.X)))
				}
				if id, ok := n.Value.(*ast.Ident); ok && id.Name != "_" {
					fr.define(id.Name, unknownSym("range value over "+exprText(n.X)))
				}
			}
		case *ast.FuncLit:
			// parameters of a function literal shadow outer variables and are unknown
			for _, fl := range n.Type.Params.List {
				for _, nm := range fl.Names {
					fr.define(nm.Name, unknownSym("parameter "+nm.Name+" of a function literal"))
				}
			}
		case *ast.CompositeLit:
			w.compositeLit(n, fr)
		case *ast.SelectorExpr:
			if x, ok := n.X.(*ast.Ident); ok && viperNames[x.Name] && !consumedSel[n] {
				w.unknownRow(n, "viper."+n.Sel.Name+" referenced other than as a direct call")
			}
		case *ast.CallExpr:
			if s, ok := n.Fun.(*ast.SelectorExpr); ok {
				consumedSel[s] = true
				if s.Sel.Name == "ByName" && len(n.Args) == 1 {
					w.eval(n, fr)
				}
			}
			if _, ok := isViperCall(n); ok {
				w.viperCall(n, fr)
				break
			}
			if w.foreignCall(n, fr) {
				break
			}
			if isConversion(n) {
				break
			}
			name, callees := w.localCallees(n)
			// a local variable of the same name hides the package's function
			if id, ok := n.Fun.(*ast.Ident); ok {
				if _, local := fr.get(id.Name); local {
					callees = nil
				}
			}
			if len(callees) > 0 {
				var as []sym
				for _, a := range n.Args {
					as = append(as, w.evalIn(a, fr, n))
				}
				var rc *sym
				if se, ok := n.Fun.(*ast.SelectorExpr); ok {
					r0 := w.evalIn(se.X, fr, n)
					rc = &r0
				}
				for _, cd := range callees {
					if cd.Recv != nil {
						w.recvArg = rc
					}
					w.walkFunc(cd, as)
					w.recvArg = nil
				}
			} else {
				// a call through a function value (a variable, an element of a handler table, a struct field): walk every
				// declaration it can denote.  (What cannot be resolved here is still walked by the package pass under "*".)
				switch n.Fun.(type) {
				case *ast.Ident, *ast.IndexExpr, *ast.SelectorExpr, *ast.ParenExpr:
					if fv := w.evalIn(n.Fun, fr, n); len(fv.funcs) > 0 {
						var as []sym
						for _, a := range n.Args {
							as = append(as, w.evalIn(a, fr, n))
						}
						callRefs(fv.funcs, as)
					}
				}
			}
			_ = name
		}
		return true
	})
	// map-valued reads held in variables: keys-only unless the variable is used for anything but range-keys / len
	for name, ids := range fr.mapVars {
		if mapVarValueUsed(fd.Body, name) {
			for _, id := range ids {
				w.rowByID(id).valueUsed = true
			}
		}
	}
}

// loopModified: the variables that are assigned (not defined), incremented or stored into inside a for / range statement
// of the body.  The walk visits every statement once, so a use that textually precedes such a modification would be
// evaluated with the value of the first iteration only; these variables are unknown from the start instead.
func loopModified(body *ast.BlockStmt) map[string]bool {
	out := map[string]bool{}
	rootName := func(e ast.Expr) string {
		for {
			switch x := e.(type) {
			case *ast.Ident:
				return x.Name
			case *ast.SelectorExpr:
				e = x.X
			case *ast.IndexExpr:
				e = x.X
			case *ast.StarExpr:
				e = x.X
			case *ast.ParenExpr:
				e = x.X
			default:
				return ""
			}
		}
	}
	var inLoop func(n ast.Node)
	inLoop = func(n ast.Node) {
		ast.Inspect(n, func(m ast.Node) bool {
			switch s := m.(type) {
			case *ast.AssignStmt:
				for _, l := range s.Lhs {
					if _, plain := l.(*ast.Ident); plain && s.Tok == token.DEFINE {
						continue
					}
					if nm := rootName(l); nm != "" && nm != "_" {
						out[nm] = true
					}
				}
			case *ast.IncDecStmt:
				if nm := rootName(s.X); nm != "" {
					out[nm] = true
				}
			}
			return true
		})
	}
	ast.Inspect(body, func(n ast.Node) bool {
		switch s := n.(type) {
		case *ast.ForStmt:
			inLoop(s.Body)
			if s.Post != nil {
				inLoop(s.Post)
			}
		case *ast.RangeStmt:
			inLoop(s.Body)
		}
		return true
	})
	return out
}

// modulePath reads the module line of ./go.mod (cwd = repository root).
func modulePath() string {
	b, err := os.ReadFile("go.mod")
	if err != nil {
		return ""
	}
	for _, ln := range strings.Split(string(b), "\n") {
		f := strings.Fields(ln)
		if len(f) == 2 && f[0] == "module" {
			return f[1]
		}
	}
	return ""
}

var modPath = ""

// loadForeign parses another package of the module (non-test files) so that calls into it can be followed.
func (w *walker) loadForeign(path string) *foreignPkg {
	if fp, ok := w.foreign[path]; ok {
		return fp
	}
	w.foreign[path] = nil
	dir := strings.TrimPrefix(strings.TrimPrefix(path, modPath), "/")
	if dir == "" {
		dir = "."
	}
	names, err := filepath.Glob(filepath.Join(dir, "*.go"))
	if err != nil || len(names) == 0 {
		return nil
	}
	sort.Strings(names)
	fp := &foreignPkg{p: &pkgInfo{fset: w.p.fset, funcs: map[string][]*ast.FuncDecl{}, imports: map[string]string{}}, types: map[string]bool{}}
	for _, n := range names {
		if strings.HasSuffix(n, "_test.go") {
			continue
		}
		f, err := parser.ParseFile(fp.p.fset, n, nil, parser.ParseComments)
		if err != nil {
			return nil
		}
		if hasVerifTag(f) {
			continue
		}
		fp.p.files = append(fp.p.files, f)
		noteImports(f, fp.p.imports)
		for _, d := range f.Decls {
			switch d := d.(type) {
			case *ast.FuncDecl:
				fp.p.funcs[d.Name.Name] = append(fp.p.funcs[d.Name.Name], d)
			case *ast.GenDecl:
				for _, sp := range d.Specs {
					if ts, ok := sp.(*ast.TypeSpec); ok {
						fp.types[ts.Name.Name] = true
					}
				}
			}
		}
	}
	w.foreign[path] = fp
	w.pkgKey[fp.p] = path + "."
	return fp
}

// noteImports records the file's imports and every local name of the viper package.
func noteImports(f *ast.File, into map[string]string) {
	for _, im := range f.Imports {
		path, _ := strconv.Unquote(im.Path.Value)
		name := path[strings.LastIndex(path, "/")+1:]
		if im.Name != nil {
			name = im.Name.Name
		}
		into[name] = path
		if path == viperPath {
			viperNames[name] = true
		}
	}
}

// foreignCall: a call pkg.F(...) into another package of the repository's module is followed (its configuration
// reads belong to the handler being walked); if it cannot be followed it becomes an unknown row.  Returns true when
// the call was package-qualified (handled here).
func (w *walker) foreignCall(c *ast.CallExpr, fr *frame) bool {
	s, ok := c.Fun.(*ast.SelectorExpr)
	if !ok {
		return false
	}
	x, ok := s.X.(*ast.Ident)
	if !ok {
		return false
	}
	if _, shadowed := fr.get(x.Name); shadowed {
		return false
	}
	path, isImport := w.p.imports[x.Name]
	if !isImport {
		return false
	}
	if modPath == "" || !(path == modPath || strings.HasPrefix(path, modPath+"/")) {
		return true // standard library / third party: no access to Burrow's configuration other than through viper
	}
	fp := w.loadForeign(path)
	if fp == nil {
		w.unknownRow(c, "call into "+path+"."+s.Sel.Name+" (package could not be read)")
		return true
	}
	if fp.types[s.Sel.Name] {
		return true // conversion T(x)
	}
	var fds []*ast.FuncDecl
	for _, d := range fp.p.funcs[s.Sel.Name] {
		if d.Recv == nil {
			fds = append(fds, d)
		}
	}
	if len(fds) == 0 {
		w.unknownRow(c, "call of "+path+"."+s.Sel.Name+", which is not a function declared there (function value?)")
		return true
	}
	var as []sym
	for _, a := range c.Args {
		as = append(as, w.evalIn(a, fr, c))
	}
	saved := w.p
	w.p = fp.p
	for _, d := range fds {
		w.walkFunc(d, as)
	}
	w.p = saved
	return true
}

// evalIn evaluates e as if visited below parent `par` (used from pre-order visits, before Inspect descends).
func (w *walker) evalIn(e ast.Expr, fr *frame, par ast.Node) sym {
	// push the chain par -> e's ancestors lazily: only `par` is needed for feedsOf, intermediate wrappers
	// (parens, conversions, binary +) are handled by pushing e itself when it is a wrapper.
	saved := fr.parents
	fr.parents = append(append([]ast.Node{}, fr.parents...), wrappers(e)...)
	v := w.eval(e, fr)
	fr.parents = saved
	return v
}

// wrappers returns e and the chain of single-child wrapper nodes below it, so that feedsOf sees them as parents.
func wrappers(e ast.Expr) []ast.Node {
	var out []ast.Node
	for {
		switch x := e.(type) {
		case *ast.ParenExpr:
			out = append(out, x)
			e = x.X
			continue
		case *ast.CallExpr:
			if isConversion(x) {
				out = append(out, x)
				e = x.Args[0]
				continue
			}
			if _, ok := isViperCall(x); !ok {
				// f(viper.X(..)): the argument's feed is the call
				out = append(out, x)
			}
		case *ast.UnaryExpr:
			out = append(out, x)
			e = x.X
			continue
		}
		break
	}
	return out
}

func mapVarValueUsed(body *ast.BlockStmt, name string) bool {
	used := false
	var parents []ast.Node
	ast.Inspect(body, func(n ast.Node) bool {
		if n == nil {
			parents = parents[:len(parents)-1]
			return true
		}
		if id, ok := n.(*ast.Ident); ok && id.Name == name && len(parents) > 0 {
			switch par := parents[len(parents)-1].(type) {
			case *ast.RangeStmt:
				if par.X == n {
					if par.Value != nil {
						if v, ok := par.Value.(*ast.Ident); !ok || v.Name != "_" {
							used = true
						}
					}
				} else if par.Key != n && par.Value != n {
					used = true
				}
			case *ast.CallExpr:
				if f, ok := par.Fun.(*ast.Ident); !ok || f.Name != "len" {
					used = true
				}
			case *ast.AssignStmt:
				isLhs := false
				for _, l := range par.Lhs {
					if l == n {
						isLhs = true
					}
				}
				if !isLhs {
					used = true
				}
			case *ast.ValueSpec:
				isName := false
				for _, l := range par.Names {
					if l == id {
						isName = true
					}
				}
				if !isName {
					used = true
				}
			case *ast.SelectorExpr:
				if par.Sel != id { // x.name is a field, not the variable
					used = true
				}
			case *ast.KeyValueExpr:
				if par.Key != n {
					used = true
				}
			case *ast.IndexExpr:
				// `_, ok := m[k]` uses membership only
				keysOnly := false
				if par.X == n && len(parents) > 1 {
					if as, ok := parents[len(parents)-2].(*ast.AssignStmt); ok && blankCommaOk(as, par) {
						keysOnly = true
					}
				}
				if !keysOnly {
					used = true
				}
			default:
				used = true
			}
		}
		parents = append(parents, n)
		return true
	})
	return used
}

func typeName(e ast.Expr) string {
	switch e := e.(type) {
	case *ast.Ident:
		return e.Name
	case *ast.SelectorExpr:
		return exprText(e)
	}
	return exprText(e)
}

func (w *walker) compositeLit(cl *ast.CompositeLit, fr *frame) {
	if cl.Type == nil {
		return
	}
	tn := typeName(cl.Type)
	switch tn {
	case "protocol.StorageRequest":
		found := false
		for _, el := range cl.Elts {
			if kv, ok := el.(*ast.KeyValueExpr); ok && exprText(kv.Key) == "RequestType" {
				found = true
				if s, ok := kv.Value.(*ast.SelectorExpr); ok && exprText(s.X) == "protocol" {
					w.h.reqTypes[s.Sel.Name] = true
				} else {
					w.h.reqTypes["UNKNOWN:"+exprText(kv.Value)] = true
				}
			}
		}
		if !found {
			w.h.reqTypes["UNKNOWN:no RequestType (zero value = StorageSetBrokerOffset)"] = true
		}
		return
	case "protocol.EvaluatorRequest":
		w.h.eval = true
		return
	}
	// response structs of the package: what feeds each field
	isLocal := false
	for _, s := range w.p.structs {
		if s.name == tn {
			isLocal = true
		}
	}
	if !isLocal {
		return
	}
	for _, el := range cl.Elts {
		kv, ok := el.(*ast.KeyValueExpr)
		if !ok {
			w.h.lits = append(w.h.lits, litFeed{tn, "?", "other", "positional element", w.p.pos(el)})
			continue
		}
		kind, detail := classifyFeed(kv.Value, w.p)
		w.h.lits = append(w.h.lits, litFeed{tn, exprText(kv.Key), kind, detail, w.p.pos(kv)})
	}
}

func classifyFeed(e ast.Expr, p *pkgInfo) (string, string) {
	switch x := e.(type) {
	case *ast.ParenExpr:
		return classifyFeed(x.X, p)
	case *ast.BasicLit:
		return "const", x.Value
	case *ast.Ident:
		if x.Name == "true" || x.Name == "false" || x.Name == "nil" {
			return "const", x.Name
		}
		return "var", x.Name
	case *ast.CompositeLit:
		return "nested", exprText(x.Type)
	case *ast.UnaryExpr:
		return classifyFeed(x.X, p)
	case *ast.StarExpr:
		if id, ok := x.X.(*ast.Ident); ok && id.Name == "response" {
			return "backend", "*response"
		}
		return "other", exprText(e)
	case *ast.TypeAssertExpr:
		return "backend", exprText(x)
	case *ast.SelectorExpr:
		if t := exprText(x); strings.HasPrefix(t, "r.URL.") || strings.HasPrefix(t, "r.Host") {
			return "request", t
		}
		// a field of a local value (a loop variable over the backend's reply, a request struct ...) carries what that value
		// carries; configuration can enter only through viper reads (rows) and through state kept in the package's own
		// objects, so only a selector rooted at a method receiver of the package (hc.<field> ...) stays unclassified
		var root ast.Expr = x
		for {
			if se, ok := root.(*ast.SelectorExpr); ok {
				root = se.X
				continue
			}
			break
		}
		if id, ok := root.(*ast.Ident); ok {
			if _, isImport := p.imports[id.Name]; !isImport && !receiverNames(p)[id.Name] {
				return "var", exprText(e)
			}
		}
		return "other", exprText(e)
	case *ast.CallExpr:
		if isConversion(x) {
			return classifyFeed(x.Args[0], p)
		}
		if n, ok := isViperCall(x); ok {
			return "read", "viper." + n
		}
		switch f := x.Fun.(type) {
		case *ast.Ident:
			if len(p.funcs[f.Name]) > 0 {
				return "call", f.Name
			}
			if goBuiltins[f.Name] {
				return "call", f.Name
			}
		case *ast.SelectorExpr:
			t := exprText(f)
			if strings.HasPrefix(t, "hc.App.LogLevel.") {
				return "app", t
			}
			// a method declared in this package (an accessor such as settings.str("k")): walked like any other function
			if id, ok := f.X.(*ast.Ident); ok {
				if _, isImport := p.imports[id.Name]; !isImport {
					for _, d := range p.funcs[f.Sel.Name] {
						if d.Recv != nil {
							return "call", t
						}
					}
				}
			}
			// a function of the standard library or of a third-party package (not viper, not this module): it has no
			// access to Burrow's configuration; its arguments are walked like any other expression
			if id, ok := f.X.(*ast.Ident); ok {
				if path, isImport := p.imports[id.Name]; isImport && path != viperPath &&
					!(modPath != "" && (path == modPath || strings.HasPrefix(path, modPath+"/"))) {
					return "call", t
				}
			}
		}
		return "other", exprText(e)
	case *ast.BinaryExpr:
		k1, _ := classifyFeed(x.X, p)
		k2, _ := classifyFeed(x.Y, p)
		if k1 == "other" || k2 == "other" {
			return "other", exprText(e)
		}
		return "var", exprText(e)
	case *ast.IndexExpr:
		if k, _ := classifyFeed(x.X, p); k == "other" {
			return "other", exprText(e)
		}
		return "var", exprText(e)
	}
	return "other", exprText(e)
}

// receiverNames: the identifiers used as method receivers in the package.
func receiverNames(p *pkgInfo) map[string]bool {
	out := map[string]bool{}
	for _, ds := range p.funcs {
		for _, d := range ds {
			if d.Recv != nil {
				for _, fl := range d.Recv.List {
					for _, nm := range fl.Names {
						out[nm.Name] = true
					}
				}
			}
		}
	}
	return out
}

var goBuiltins = map[string]bool{"len": true, "cap": true, "make": true, "new": true, "append": true, "copy": true, "min": true, "max": true}

func patCoq(pat []pelem) string {
	// merge adjacent fixed parts
	var m []pelem
	for _, e := range pat {
		if e.kind == "fix" && len(m) > 0 && m[len(m)-1].kind == "fix" {
			m[len(m)-1].s += e.s
			continue
		}
		m = append(m, e)
	}
	var out []string
	for _, e := range m {
		switch e.kind {
		case "fix":
			out = append(out, "PFix "+coqStr(e.s))
		case "param":
			out = append(out, "PParam "+coqStr(e.s))
		case "valof":
			out = append(out, "PValOf "+strconv.Itoa(e.row))
		case "keyof":
			out = append(out, "PKeyOf "+strconv.Itoa(e.row))
		default:
			out = append(out, "PUnknown "+coqStr(e.s))
		}
	}
	return coqList(out)
}

var kindCoq = map[string]string{"exists": "KExists", "keys": "KKeys", "scalar": "KScalar", "children": "KChildren",
	"subtree": "KSubtree", "unknown": "KUnknown"}

// packagePass files every configuration read made OUTSIDE the handlers (Configure, Start, init, helpers nobody calls,
// package-level initialisers) under the pseudo-handler "*": what they read may sit in package state (fields of the
// coordinator, package variables) that every handler can see.  Its hinfo is not reported (C16 never sees it).
func (w *walker) packagePass(handlers map[string]bool) {
	p := w.p
	w.h = &hinfo{name: "*", reqTypes: map[string]bool{}, params: map[string]bool{}}
	if p.imports["."] == viperPath {
		w.unknownRow(p.files[0], "dot-import of "+viperPath+": unqualified configuration reads are not recognised")
	}
	// every function name that is called (or mentioned) somewhere in the package: roots are the others
	called := map[string]bool{}
	for _, f := range p.files {
		ast.Inspect(f, func(n ast.Node) bool {
			if c, ok := n.(*ast.CallExpr); ok {
				switch fn := c.Fun.(type) {
				case *ast.Ident:
					called[fn.Name] = true
				case *ast.SelectorExpr:
					called[fn.Sel.Name] = true
				}
			}
			return true
		})
	}
	var rest []*ast.FuncDecl
	for _, f := range p.files {
		for _, d := range f.Decls {
			switch d := d.(type) {
			case *ast.FuncDecl:
				if w.visited[d] {
					continue
				}
				if called[d.Name.Name] {
					rest = append(rest, d)
					continue
				}
				w.walkFunc(d, nil)
			case *ast.GenDecl:
				if d.Tok != token.VAR {
					continue
				}
				// package-level initialisers: walked as the body of a synthetic function; a map read kept in a package
				// variable is used by code this walk does not see, so its values count as used
				first := len(w.rows)
				var stmts []ast.Stmt
				for _, sp := range d.Specs {
					if vs, ok := sp.(*ast.ValueSpec); ok {
						for _, v := range vs.Values {
							stmts = append(stmts, &ast.ExprStmt{X: v})
						}
					}
				}
				if len(stmts) > 0 {
					w.walkFunc(&ast.FuncDecl{Name: ast.NewIdent("(package variables)"), Type: &ast.FuncType{Params: &ast.FieldList{}},
						Body: &ast.BlockStmt{List: stmts}}, nil)
					for _, r := range w.rows[first:] {
						if r.mapCall {
							r.valueUsed = true
						}
					}
				}
			}
		}
	}
	for _, d := range rest {
		if !w.visited[d] {
			w.walkFunc(d, nil)
		}
	}
}

// foreignHandler resolves a handler that is not declared in the walked package: "alias.F" through the import alias, a
// bare "F" through the one package of the module imported by the walked package that declares a function F.
func (w *walker) foreignHandler(h string) (*foreignPkg, []*ast.FuncDecl) {
	name, paths := h, []string{}
	if i := strings.LastIndex(h, "."); i > 0 {
		name = h[i+1:]
		if path, ok := w.p.imports[h[:i]]; ok {
			paths = append(paths, path)
		}
	} else {
		for _, path := range w.p.imports {
			paths = append(paths, path)
		}
		sort.Strings(paths)
	}
	var found *foreignPkg
	var fds []*ast.FuncDecl
	for _, path := range paths {
		if modPath == "" || !(path == modPath || strings.HasPrefix(path, modPath+"/")) {
			continue
		}
		fp := w.loadForeign(path)
		if fp == nil {
			continue
		}
		var here []*ast.FuncDecl
		for _, d := range fp.p.funcs[name] {
			if d.Recv == nil {
				here = append(here, d)
			}
		}
		if len(here) > 0 {
			if found != nil {
				return nil, nil // ambiguous
			}
			found, fds = fp, here
		}
	}
	return found, fds
}

func analyse(p *pkgInfo) (*walker, []*hinfo) {
	rts, _ := p.routes()
	seen := map[string]bool{}
	var hs []string
	for _, r := range rts {
		if r.handler != "" && !seen[r.handler] {
			seen[r.handler] = true
			hs = append(hs, r.handler)
		}
	}
	// the NotFound handler and any other ServeHTTP method of the package answer requests too
	if len(p.funcs["ServeHTTP"]) > 0 {
		hs = append(hs, "ServeHTTP")
	}
	// the two response writers are reachable from every handler; walking them on their own as well keeps their
	// reads visible even if a handler reaches them through a path the walk does not understand
	w := &walker{p: p, visited: map[*ast.FuncDecl]bool{}, foreign: map[string]*foreignPkg{}, pkgKey: map[*pkgInfo]string{p: ""}}
	modPath = modulePath()
	for _, f := range p.files {
		noteImports(f, map[string]string{})
	}
	var infos []*hinfo
	for _, h := range hs {
		hi := &hinfo{name: h, reqTypes: map[string]bool{}, params: map[string]bool{}}
		w.h = hi
		if len(p.funcs[h]) == 0 {
			w.unknownRow(p.files[0], "handler "+h+" not found in the package")
		}
		entered := len(p.funcs[h]) > 0
		for _, fd := range p.funcs[h] {
			if fd.Body == nil {
				entered = false
				w.unknownRow(fd, "handler "+h+" has no body in this package")
			}
			w.walkFunc(fd, nil)
		}
		if len(p.funcs[h]) == 0 {
			// a handler that lives in another package of the module ("pkg.F", or a bare name the route table took from
			// pkg.F): walked there, under this handler's name
			if fp, fds := w.foreignHandler(h); len(fds) > 0 {
				entered = true
				saved := w.p
				w.p = fp.p
				for _, fd := range fds {
					if fd.Body == nil {
						entered = false
					}
					w.walkFunc(fd, nil)
				}
				w.p = saved
				// the "not found" row added above is withdrawn: the handler was found after all
				for i := len(w.rows) - 1; i >= 0; i-- {
					if w.rows[i].handler == h && w.rows[i].kind == "unknown" && len(w.rows[i].pat) == 1 &&
						strings.HasPrefix(w.rows[i].pat[0].s, "handler "+h+" not found") {
						w.rows = append(w.rows[:i], w.rows[i+1:]...)
						break
					}
				}
			}
		}
		if entered {
			// marker for the Coq obligation C18_all_route_handlers_walked: "reads nothing" and "never walked" differ
			w.walked = append(w.walked, h)
		}
		infos = append(infos, hi)
	}
	w.packagePass(seen)
	// finalise map-valued reads
	for _, r := range w.rows {
		if r.mapCall && r.valueUsed {
			switch r.call {
			case "viper.GetStringMapString":
				r.kind = "children"
			default:
				r.kind = "subtree"
			}
		}
	}
	return w, infos
}

func emitReads(p *pkgInfo) {
	w, infos := analyse(p)
	fmt.Println("(* GENERATED by /verif/translator/http (reads) from " + pkgDir + " -- do not edit *)")
	fmt.Println("From Burrow Require Import ConfigRead.")
	fmt.Println("Require Import List String.")
	fmt.Println("Import ListNotations.")
	fmt.Println("Open Scope string_scope.")
	fmt.Println()
	var rows []string
	for _, r := range w.rows {
		rows = append(rows, fmt.Sprintf("  RRow %d %s %s %s %s %s %s", r.id, coqStr(r.handler), kindCoq[r.kind], patCoq(r.pat),
			coqStr(r.call), coqStr(r.feeds), coqStr(r.pos)))
	}
	fmt.Println("(* id, handler, kind of use, key pattern, viper call, what the result feeds, source position *)")
	fmt.Println("Definition table : list rrow := [")
	fmt.Println(strings.Join(rows, ";\n"))
	fmt.Println("].")
	fmt.Println()
	var wl []string
	for _, h := range w.walked {
		wl = append(wl, coqStr(h))
	}
	fmt.Println("(* handlers the walk really entered: every declaration of that name found, with a body, walked from the top with")
	fmt.Println("   every resolvable callee (an unresolvable one is an unknown row of that handler in the table above) *)")
	fmt.Println("Definition walked : list string := " + coqList(wl) + ".")
	fmt.Println()
	var hrows []string
	for _, h := range infos {
		var rt, ps []string
		for k := range h.reqTypes {
			rt = append(rt, coqStr(k))
		}
		for k := range h.params {
			ps = append(ps, coqStr(k))
		}
		sort.Strings(rt)
		sort.Strings(ps)
		ev := "false"
		if h.eval {
			ev = "true"
		}
		hrows = append(hrows, fmt.Sprintf("  HReq %s %s %s %s", coqStr(h.name), coqList(rt), ev, coqList(ps)))
	}
	fmt.Println("(* handler, storage request types it can construct, builds evaluator requests?, ByName parameter names *)")
	fmt.Println("Definition handler_requests : list hreq := [")
	fmt.Println(strings.Join(hrows, ";\n"))
	fmt.Println("].")
}

func emitFields(p *pkgInfo) {
	_, infos := analyse(p)
	fmt.Println("(* GENERATED by /verif/translator/http (fields) from " + pkgDir + " -- do not edit *)")
	fmt.Println("From Burrow Require Import ConfigRead.")
	fmt.Println("Require Import List String.")
	fmt.Println("Import ListNotations.")
	fmt.Println("Open Scope string_scope.")
	fmt.Println()
	var ss []string
	for _, s := range p.structs {
		var fs []string
		for _, f := range s.fields {
			fs = append(fs, fmt.Sprintf("(%s, %s, %s)", coqStr(f.name), coqStr(f.typ), coqStr(f.tag)))
		}
		ss = append(ss, fmt.Sprintf("  (%s, %s)", coqStr(s.name), coqList(fs)))
	}
	fmt.Println("(* struct name, [(field, Go type, json tag)] *)")
	fmt.Println("Definition structs : list (string * list (string * string * string)) := [")
	fmt.Println(strings.Join(ss, ";\n"))
	fmt.Println("].")
	fmt.Println()
	var fr []string
	seenFeed := map[string]bool{}
	for _, h := range infos {
		for _, l := range h.lits {
			k := map[string]string{"read": "FRead", "const": "FConst", "var": "FVar", "nested": "FNested", "call": "FCall",
				"backend": "FBackend", "app": "FApp", "request": "FRequest", "other": "FOther"}[l.kind]
			row := fmt.Sprintf("%s|%s|%s|%s|%s", h.name, l.typ, l.field, k, l.pos)
			if seenFeed[row] {
				continue
			}
			seenFeed[row] = true
			fr = append(fr, fmt.Sprintf("  Feed %s %s %s %s %s %s", coqStr(h.name), coqStr(l.typ), coqStr(l.field), k, coqStr(l.detail), coqStr(l.pos)))
		}
	}
	fmt.Println("(* handler, struct, field, kind of the expression that fills it, detail, position *)")
	fmt.Println("Definition feeds : list feed := [")
	fmt.Println(strings.Join(fr, ";\n"))
	fmt.Println("].")
}

func main() {
	mode := "routes"
	if len(os.Args) > 1 {
		mode = os.Args[1]
	}
	p := load()
	switch mode {
	case "routes":
		// routes [observed METHOD PATTERN HANDLER ...]
		if len(os.Args) > 2 && os.Args[2] == "observed" {
			for i := 3; i+2 < len(os.Args); i += 3 {
				observedRoutes = append(observedRoutes, route{method: os.Args[i], pattern: os.Args[i+1], handler: os.Args[i+2],
					reg: "observed", pos: "router.Lookup"})
			}
		}
		emitRoutes(p)
	case "reads":
		emitReads(p)
	case "fields":
		emitFields(p)
	default:
		fmt.Fprintln(os.Stderr, "usage: http routes|reads|fields")
		os.Exit(2)
	}
}
