module verif/translator/lockset

go 1.21
