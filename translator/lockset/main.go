// Translator for C08 (storage concurrency).  Reads core/internal/storage/inmemory.go of the repository in the
// current directory (cwd = /repo) with go/ast + go/types and prints ONE Coq file on stdout, selected by argv[1]:
//
//	locks   -> coq/gen/LocksetTable.v   one row per access to shared storage state made by a request handler
//	                                     (handlers = values of requestTypeMap, helpers inlined), with the locks that
//	                                     are certainly held at that point and protect the accessed object; one row per
//	                                     lock acquisition with the locks held at that moment (lock order)
//	router  -> coq/gen/RouterTable.v    the dispatch switch of mainLoop, requestTypeMap, and every
//	                                     protocol.StorageRequestConstant
//
// Soundness rule: whatever the walk cannot classify (a lock operation on an object it cannot name, a branch that
// changes the lock set and falls through, a shared pointer stored into a reply, a goroutine, a call it cannot see
// through with a shared argument ...) is emitted as a row of class CUnknown / CEscape, and the Coq checkers reject
// such rows.  Nothing is skipped silently.
package main

import (
	"fmt"
	"go/ast"
	"go/importer"
	"go/parser"
	"go/token"
	"go/types"
	"os"
	"path/filepath"
	"sort"
	"strconv"
	"strings"
)

const (
	storageDir  = "core/internal/storage"
	storageFile = "inmemory.go"
	protocolDir = "core/protocol"
	protocolPkg = "github.com/linkedin/Burrow/core/protocol"
)

// ---------------------------------------------------------------------------------------------
// loading + lenient type checking
// ---------------------------------------------------------------------------------------------

type lenientImporter struct {
	fset  *token.FileSet
	src   types.Importer
	cache map[string]*types.Package
}

func (li *lenientImporter) Import(path string) (*types.Package, error) {
	if p, ok := li.cache[path]; ok {
		return p, nil
	}
	var p *types.Package
	switch {
	case path == "container/ring" || path == "sync":
		q, err := li.src.Import(path)
		if err == nil {
			p = q
		}
	case path == protocolPkg:
		files := parseDir(li.fset, protocolDir)
		conf := types.Config{Importer: li, Error: func(error) {}}
		q, _ := conf.Check(path, li.fset, files, nil)
		p = q
	}
	if p == nil {
		name := path[strings.LastIndex(path, "/")+1:]
		p = types.NewPackage(path, name)
		p.MarkComplete()
	}
	li.cache[path] = p
	return p, nil
}

func parseDir(fset *token.FileSet, dir string) []*ast.File {
	names, _ := filepath.Glob(filepath.Join(dir, "*.go"))
	sort.Strings(names)
	var files []*ast.File
	for _, n := range names {
		if strings.HasSuffix(n, "_test.go") {
			continue
		}
		f, err := parser.ParseFile(fset, n, nil, parser.ParseComments)
		if err != nil {
			fmt.Fprintln(os.Stderr, err)
			os.Exit(2)
		}
		files = append(files, f)
	}
	if len(files) == 0 {
		fmt.Fprintln(os.Stderr, "no sources in", dir)
		os.Exit(2)
	}
	return files
}

var (
	fset  = token.NewFileSet()
	info  = &types.Info{Types: map[ast.Expr]types.TypeAndValue{}, Defs: map[*ast.Ident]types.Object{}, Uses: map[*ast.Ident]types.Object{}, Selections: map[*ast.SelectorExpr]*types.Selection{}}
	funcs = map[string]*ast.FuncDecl{} // by bare name (functions and methods of package storage)
	files []*ast.File
)

func load() {
	files = parseDir(fset, storageDir)
	li := &lenientImporter{fset: fset, src: importer.ForCompiler(fset, "source", nil), cache: map[string]*types.Package{}}
	conf := types.Config{Importer: li, Error: func(error) {}}
	conf.Check("storage", fset, files, info)
	for _, f := range files {
		for _, d := range f.Decls {
			if fd, ok := d.(*ast.FuncDecl); ok && fd.Body != nil {
				funcs[fd.Name.Name] = fd
			}
		}
	}
}

func line(p token.Pos) int { return fset.Position(p).Line }

func exprString(e ast.Expr) string {
	switch e := e.(type) {
	case *ast.Ident:
		return e.Name
	case *ast.SelectorExpr:
		return exprString(e.X) + "." + e.Sel.Name
	case *ast.BinaryExpr:
		return exprString(e.X) + e.Op.String() + exprString(e.Y)
	case *ast.ParenExpr:
		return "(" + exprString(e.X) + ")"
	case *ast.StarExpr:
		return "*" + exprString(e.X)
	case *ast.UnaryExpr:
		return e.Op.String() + exprString(e.X)
	case *ast.BasicLit:
		return e.Value
	case *ast.IndexExpr:
		return exprString(e.X) + "[" + exprString(e.Index) + "]"
	case *ast.CallExpr:
		s := exprString(e.Fun) + "("
		for i, a := range e.Args {
			if i > 0 {
				s += ","
			}
			s += exprString(a)
		}
		return s + ")"
	}
	return fmt.Sprintf("<%T>", e)
}

// ---------------------------------------------------------------------------------------------
// owners: which shared object a value belongs to
// ---------------------------------------------------------------------------------------------

type okind int

const (
	oNone    okind = iota // not a reference into shared state (numbers, strings, loggers ...)
	oFresh                // allocated by this handler invocation and not (yet) known to be shared
	oRequest              // the request object (owned by the worker that handles it)
	oModule               // the InMemoryStorage struct itself (configuration, immutable once started)
	oOffsets              // module.offsets (cluster map, immutable once started)
	oCluster              // a clusterOffsets value (local copy of the struct: two map headers, two lock pointers)
	oBroker               // anything reachable from cluster.broker
	oConsMap              // the cluster.consumer map
	oGroup                // a consumerGroup and anything reachable from it
	oUnknown
)

type owner struct {
	k   okind
	cl  string // cluster token
	grp string // group token ("own" = indexed by request.Group)
}

func (o owner) shared() bool {
	return o.k == oBroker || o.k == oConsMap || o.k == oGroup || o.k == oUnknown || o.k == oOffsets || o.k == oModule || o.k == oCluster
}

func join(a, b owner) owner {
	if a == b {
		return a
	}
	if a.k == oNone || a.k == oFresh {
		if b.k == oNone {
			return a
		}
		return b
	}
	if b.k == oNone || b.k == oFresh {
		return a
	}
	return owner{k: oUnknown}
}

func namedOf(t types.Type) string {
	for {
		switch u := t.(type) {
		case *types.Pointer:
			t = u.Elem()
			continue
		case *types.Named:
			if u.Obj().Pkg() != nil && u.Obj().Pkg().Name() != "storage" {
				return u.Obj().Pkg().Name() + "." + u.Obj().Name()
			}
			return u.Obj().Name()
		}
		return ""
	}
}

// localStruct: a struct type declared in package storage other than the shared state types themselves
func localStruct(t types.Type) bool {
	n := namedOf(t)
	if n == "" || strings.Contains(n, ".") {
		return false
	}
	switch n {
	case "InMemoryStorage", "clusterOffsets", "consumerGroup", "consumerPartition", "brokerOffset":
		return false
	}
	for {
		if p, ok := t.(*types.Pointer); ok {
			t = p.Elem()
			continue
		}
		break
	}
	_, isStruct := t.Underlying().(*types.Struct)
	return isStruct
}

func isRefType(t types.Type) bool {
	if t == nil {
		return false
	}
	switch t.Underlying().(type) {
	case *types.Pointer, *types.Map, *types.Slice, *types.Interface, *types.Chan, *types.Signature:
		return true
	}
	return false
}

type frame struct {
	fname    string
	env      map[types.Object]owner
	deferred []*ast.CallExpr
	depth    int
	lits     map[types.Object]*ast.FuncLit // closures bound once to a local variable (f := func() {...})
	keys     map[types.Object]string       // parameters of an inlined callee -> the caller's argument, as a key expression
}

// keyString: a map key / cluster / group expression with the parameters of inlined callees replaced by the arguments they
// were called with, so that `clusterMap.consumer[group]` inside getOrCreateGroup(request.Group) is still "the group named
// by request.Group"
func (f *frame) keyString(e ast.Expr) string {
	switch e := e.(type) {
	case *ast.Ident:
		if f.keys != nil {
			if obj := f.objOf(e); obj != nil {
				if s, ok := f.keys[obj]; ok {
					return s
				}
			}
		}
		return e.Name
	case *ast.SelectorExpr:
		return f.keyString(e.X) + "." + e.Sel.Name
	case *ast.ParenExpr:
		return f.keyString(e.X)
	}
	return exprString(e)
}

// litOf resolves the callee of a call to a function literal: the literal itself, or a local variable that is bound to
// exactly one literal in this function.
func (f *frame) litOf(fun ast.Expr) *ast.FuncLit {
	switch x := fun.(type) {
	case *ast.FuncLit:
		return x
	case *ast.ParenExpr:
		return f.litOf(x.X)
	case *ast.Ident:
		if f.lits != nil {
			if obj := f.objOf(x); obj != nil {
				return f.lits[obj]
			}
		}
	}
	return nil
}

// bindLit: frame for the invocation of a closure: it shares the variables of the enclosing function (flow-insensitive
// owners), has its own deferred calls, and its parameters take the owners of the arguments.
func (f *frame) bindLit(fl *ast.FuncLit, args []ast.Expr) *frame {
	nf := &frame{fname: f.fname, env: f.env, depth: f.depth + 1, lits: f.lits, keys: map[types.Object]string{}}
	for k, v := range f.keys {
		nf.keys[k] = v
	}
	i := 0
	changed := false
	for _, p := range fl.Type.Params.List {
		for _, n := range p.Names {
			if i < len(args) {
				if obj := info.Defs[n]; obj != nil {
					nf.keys[obj] = f.keyString(args[i])
					o := f.owner(args[i])
					if old, ok := nf.env[obj]; !ok || join(old, o) != old {
						if ok {
							o = join(old, o)
						}
						nf.env[obj] = o
						changed = true
					}
				}
			}
			i++
		}
	}
	if changed {
		nf.solve(fl.Body)
	}
	return nf
}

func (f *frame) litRetOwner(fl *ast.FuncLit, args []ast.Expr, idx int) owner {
	if f.depth > 6 {
		return owner{k: oUnknown}
	}
	nf := f.bindLit(fl, args)
	res := owner{}
	ast.Inspect(fl.Body, func(n ast.Node) bool {
		if x, ok := n.(*ast.FuncLit); ok && x != fl {
			return false
		}
		if r, ok := n.(*ast.ReturnStmt); ok && idx < len(r.Results) {
			res = join(res, nf.owner(r.Results[idx]))
		}
		return true
	})
	return res
}

type retKey struct {
	fn   string
	args string
}

var retCache = map[retKey][]owner{}

func (f *frame) objOf(id *ast.Ident) types.Object {
	if o := info.Uses[id]; o != nil {
		return o
	}
	return info.Defs[id]
}

// owner of an expression; values of basic type (numbers, strings, booleans) are copies and own nothing
func (f *frame) owner(e ast.Expr) owner {
	if e == nil {
		return owner{}
	}
	if tv, ok := info.Types[e]; ok && tv.Type != nil {
		if _, basic := tv.Type.Underlying().(*types.Basic); basic {
			return owner{}
		}
	}
	return f.owner0(e)
}

func (f *frame) owner0(e ast.Expr) owner {
	switch e := e.(type) {
	case nil:
		return owner{}
	case *ast.Ident:
		obj := f.objOf(e)
		if obj == nil {
			return owner{}
		}
		if o, ok := f.env[obj]; ok {
			return o
		}
		if v, ok := obj.(*types.Var); ok && !v.IsField() && v.Parent() == v.Pkg().Scope() && isRefType(v.Type()) {
			return owner{k: oUnknown} // package level variable of reference type
		}
		return owner{}
	case *ast.ParenExpr:
		return f.owner(e.X)
	case *ast.StarExpr:
		return f.owner(e.X)
	case *ast.UnaryExpr:
		if e.Op == token.AND {
			return f.owner(e.X)
		}
		return owner{}
	case *ast.TypeAssertExpr:
		return f.owner(e.X)
	case *ast.SliceExpr:
		return f.owner(e.X)
	case *ast.SelectorExpr:
		sel := info.Selections[e]
		if sel == nil || sel.Kind() != types.FieldVal {
			return owner{} // qualified identifier or method value
		}
		base := f.owner(e.X)
		switch namedOf(sel.Recv()) {
		case "InMemoryStorage":
			if e.Sel.Name == "offsets" {
				return owner{k: oOffsets}
			}
			return owner{k: oModule}
		case "clusterOffsets":
			if base.k != oCluster {
				return owner{k: oUnknown}
			}
			switch e.Sel.Name {
			case "broker":
				return owner{k: oBroker, cl: base.cl}
			case "consumer":
				return owner{k: oConsMap, cl: base.cl}
			}
			return owner{}
		}
		return base
	case *ast.IndexExpr:
		o := f.owner(e.X)
		switch o.k {
		case oOffsets:
			return owner{k: oCluster, cl: f.keyString(e.Index)}
		case oConsMap:
			g := "any:" + f.keyString(e.Index)
			if f.keyString(e.Index) == "request.Group" {
				g = "own"
			}
			return owner{k: oGroup, cl: o.cl, grp: g}
		}
		return o
	case *ast.CompositeLit:
		// a temporary of a struct type declared in package storage (offsetRingDestination ...) that holds shared
		// pointers belongs to the same owner; literals of reply types are fresh (what is put into them is
		// checked by escapeCheck)
		o := owner{k: oFresh}
		if tv, ok := info.Types[e]; ok && tv.Type != nil && localStruct(tv.Type) {
			for _, el := range e.Elts {
				v := el
				if kv, ok := el.(*ast.KeyValueExpr); ok {
					v = kv.Value
				}
				o = join(o, f.owner(v))
			}
		}
		return o
	case *ast.FuncLit:
		return owner{k: oFresh}
	case *ast.CallExpr:
		return f.callOwner(e, 0)
	}
	return owner{}
}

func (f *frame) callOwner(e *ast.CallExpr, idx int) owner {
	if fl := f.litOf(e.Fun); fl != nil {
		return f.litRetOwner(fl, e.Args, idx)
	}
	switch fn := e.Fun.(type) {
	case *ast.Ident:
		switch fn.Name {
		case "append":
			o := owner{}
			for _, a := range e.Args {
				o = join(o, f.owner(a))
			}
			if o.k == oNone {
				o.k = oFresh
			}
			return o
		case "make", "new":
			return owner{k: oFresh}
		case "len", "cap", "delete", "close", "panic", "copy":
			return owner{}
		}
		if fd, ok := funcs[fn.Name]; ok && f.objOf(fn) != nil && fd.Recv == nil {
			return f.retOwner(fd, nil, e.Args, idx)
		}
		if tv, ok := info.Types[e.Fun]; ok && tv.IsType() {
			return owner{} // conversion
		}
	case *ast.SelectorExpr:
		if sel := info.Selections[fn]; sel != nil && sel.Kind() == types.MethodVal {
			switch namedOf(sel.Recv()) {
			case "ring.Ring":
				switch fn.Sel.Name {
				case "Next", "Prev", "Move", "Link", "Unlink":
					return f.owner(fn.X)
				}
				return owner{}
			}
			if fd, ok := funcs[fn.Sel.Name]; ok && fd.Recv != nil && sel.Obj().Pkg() != nil && sel.Obj().Pkg().Name() == "storage" {
				return f.retOwner(fd, fn.X, e.Args, idx)
			}
		}
		if exprString(fn) == "ring.New" {
			return owner{k: oFresh}
		}
	case *ast.ParenExpr, *ast.StarExpr, *ast.ArrayType, *ast.MapType, *ast.InterfaceType:
		return owner{}
	}
	if tv, ok := info.Types[e]; ok && tv.Type != nil && isRefType(tv.Type) {
		for _, a := range e.Args {
			if f.owner(a).shared() {
				return owner{k: oUnknown}
			}
		}
	}
	return owner{}
}

// bind builds the callee frame: parameters (and receiver) take the owners of the arguments.
func (f *frame) bind(fd *ast.FuncDecl, recv ast.Expr, args []ast.Expr) *frame {
	nf := &frame{fname: fd.Name.Name, env: map[types.Object]owner{}, depth: f.depth + 1, keys: map[types.Object]string{}}
	if fd.Recv != nil && len(fd.Recv.List) == 1 && len(fd.Recv.List[0].Names) == 1 && recv != nil {
		nf.env[info.Defs[fd.Recv.List[0].Names[0]]] = f.owner(recv)
		nf.keys[info.Defs[fd.Recv.List[0].Names[0]]] = f.keyString(recv)
	}
	i := 0
	for _, fl := range fd.Type.Params.List {
		for _, n := range fl.Names {
			if i < len(args) {
				nf.env[info.Defs[n]] = f.owner(args[i])
				nf.keys[info.Defs[n]] = f.keyString(args[i])
			}
			i++
		}
	}
	nf.solve(fd.Body)
	return nf
}

func (f *frame) retOwner(fd *ast.FuncDecl, recv ast.Expr, args []ast.Expr, idx int) owner {
	if f.depth > 6 {
		return owner{k: oUnknown}
	}
	key := retKey{fn: fd.Name.Name}
	for _, a := range args {
		key.args += fmt.Sprintf("%v/%s;", f.owner(a), f.keyString(a))
	}
	if recv != nil {
		key.args += fmt.Sprintf("r%v", f.owner(recv))
	}
	if r, ok := retCache[key]; ok {
		if idx < len(r) {
			return r[idx]
		}
		return owner{}
	}
	nf := f.bind(fd, recv, args)
	var res []owner
	ast.Inspect(fd.Body, func(n ast.Node) bool {
		if _, ok := n.(*ast.FuncLit); ok {
			return false
		}
		if r, ok := n.(*ast.ReturnStmt); ok {
			for i, x := range r.Results {
				for len(res) <= i {
					res = append(res, owner{})
				}
				res[i] = join(res[i], nf.owner(x))
			}
		}
		return true
	})
	retCache[key] = res
	if idx < len(res) {
		return res[idx]
	}
	return owner{}
}

// solve computes the flow-insensitive owner of every local variable of the body (join over all its definitions).
func (f *frame) solve(body ast.Node) {
	set := func(id *ast.Ident, o owner) bool {
		if id == nil || id.Name == "_" {
			return false
		}
		obj := f.objOf(id)
		if obj == nil {
			return false
		}
		old, had := f.env[obj]
		n := o
		if had {
			n = join(old, o)
		}
		if !had || n != old {
			f.env[obj] = n
			return true
		}
		return false
	}
	if f.lits == nil {
		f.lits = map[types.Object]*ast.FuncLit{}
	}
	bound := map[types.Object]int{}
	ast.Inspect(body, func(n ast.Node) bool {
		reg := func(l ast.Expr, r ast.Expr) {
			id, ok := l.(*ast.Ident)
			if !ok {
				return
			}
			obj := f.objOf(id)
			if obj == nil {
				return
			}
			bound[obj]++
			if fl, isLit := r.(*ast.FuncLit); isLit && bound[obj] == 1 {
				f.lits[obj] = fl
			} else {
				delete(f.lits, obj)
			}
		}
		switch s := n.(type) {
		case *ast.AssignStmt:
			if len(s.Lhs) == len(s.Rhs) {
				for i := range s.Lhs {
					reg(s.Lhs[i], s.Rhs[i])
				}
			} else {
				for i := range s.Lhs {
					reg(s.Lhs[i], nil)
				}
			}
		case *ast.ValueSpec:
			for i, id := range s.Names {
				if i < len(s.Values) {
					reg(id, s.Values[i])
				}
			}
		}
		return true
	})
	for iter := 0; iter < 8; iter++ {
		changed := false
		ast.Inspect(body, func(n ast.Node) bool {
			switch s := n.(type) {
			case *ast.AssignStmt:
				if len(s.Lhs) == len(s.Rhs) {
					for i, l := range s.Lhs {
						if id, ok := l.(*ast.Ident); ok {
							changed = set(id, f.owner(s.Rhs[i])) || changed
						}
					}
				} else if len(s.Rhs) == 1 {
					for i, l := range s.Lhs {
						id, ok := l.(*ast.Ident)
						if !ok {
							continue
						}
						var o owner
						switch r := s.Rhs[0].(type) {
						case *ast.CallExpr:
							o = f.callOwner(r, i)
						default: // v, ok := m[k] / x.(T) / <-ch
							if i == 0 {
								o = f.owner(s.Rhs[0])
							}
						}
						changed = set(id, o) || changed
					}
				}
			case *ast.RangeStmt:
				o := f.owner(s.X)
				if o.k == oConsMap {
					// range over the group map: the value is "some group of that cluster"
					if id, ok := s.Value.(*ast.Ident); ok && s.Value != nil {
						changed = set(id, owner{k: oGroup, cl: o.cl, grp: "any:range@" + strconv.Itoa(line(s.Pos()))}) || changed
					}
				} else if s.Value != nil {
					if id, ok := s.Value.(*ast.Ident); ok {
						changed = set(id, o) || changed
					}
				}
			case *ast.ValueSpec:
				for i, id := range s.Names {
					if i < len(s.Values) {
						changed = set(id, f.owner(s.Values[i])) || changed
					} else {
						changed = set(id, owner{k: oFresh}) || changed
					}
				}
			case *ast.CallExpr:
				// closure passed to a ring method: its parameters range over the ring's values
				if fn, ok := s.Fun.(*ast.SelectorExpr); ok {
					if sel := info.Selections[fn]; sel != nil && sel.Kind() == types.MethodVal && namedOf(sel.Recv()) == "ring.Ring" {
						for _, a := range s.Args {
							if fl, ok := a.(*ast.FuncLit); ok {
								for _, p := range fl.Type.Params.List {
									for _, id := range p.Names {
										changed = set(id, f.owner(fn.X)) || changed
									}
								}
							}
						}
					}
				}
			}
			return true
		})
		if !changed {
			break
		}
	}
}

// ---------------------------------------------------------------------------------------------
// the walk: lock set tracking + access rows
// ---------------------------------------------------------------------------------------------

type held struct {
	class string // LBroker | LConsumer | LGroup
	mode  string // MR | MW
	cl    string
	grp   string
}

type row struct {
	handler, fn string
	line        int
	class       string // Coq term of type lclass
	rw          string // R | W
	locks       []held
	own         bool
	note        string
}

type acqRow struct {
	handler, fn string
	line        int
	class, mode string
	before      []held
}

type walker struct {
	handler string
	held    []held
	rows    []row
	acqs    []acqRow
	loops   [][]held
}

func cloneHeld(h []held) []held { return append([]held(nil), h...) }

func sameHeld(a, b []held) bool {
	if len(a) != len(b) {
		return false
	}
	x, y := cloneHeld(a), cloneHeld(b)
	less := func(s []held) func(i, j int) bool {
		return func(i, j int) bool { return fmt.Sprint(s[i]) < fmt.Sprint(s[j]) }
	}
	sort.Slice(x, less(x))
	sort.Slice(y, less(y))
	for i := range x {
		if x[i] != y[i] {
			return false
		}
	}
	return true
}

func (w *walker) unknown(f *frame, pos token.Pos, why string) {
	w.rows = append(w.rows, row{handler: w.handler, fn: f.fname, line: line(pos), class: "CUnknown " + strconv.Quote(why), rw: "W"})
}

// blocking: a channel operation that can block (send, receive, range over a channel) while a storage lock is held.  Reply
// channels are made by the requester; nothing in this package shows they are buffered, so every such operation under a
// lock is flagged (close() never blocks and is not).
func (w *walker) blocking(f *frame, pos token.Pos, what string) {
	if len(w.held) == 0 {
		return
	}
	w.rows = append(w.rows, row{handler: w.handler, fn: f.fname, line: line(pos), class: "CBlocking " + strconv.Quote(what+" while holding "+heldList(w.held)), rw: "W"})
}

func (w *walker) access(f *frame, pos token.Pos, class string, write bool, o owner) {
	r := row{handler: w.handler, fn: f.fname, line: line(pos), class: class, rw: "R"}
	if write {
		r.rw = "W"
	}
	for _, h := range w.held {
		switch h.class {
		case "LGroup":
			if o.k == oGroup && h.cl == o.cl && h.grp == o.grp {
				r.locks = append(r.locks, h)
			}
		default:
			if (o.k == oGroup || o.k == oBroker || o.k == oConsMap) && h.cl == o.cl {
				r.locks = append(r.locks, h)
			}
		}
	}
	r.own = o.k == oGroup && o.grp == "own"
	w.rows = append(w.rows, r)
}

// container access (map or slice value whose owner is shared)
func (w *walker) container(f *frame, x ast.Expr, pos token.Pos, write bool) {
	tv, ok := info.Types[x]
	if !ok || tv.Type == nil {
		if f.owner(x).shared() {
			w.unknown(f, pos, "container of unknown type: "+exprString(x))
		}
		return
	}
	_, isMap := tv.Type.Underlying().(*types.Map)
	_, isSlice := tv.Type.Underlying().(*types.Slice)
	if !isMap && !isSlice {
		return
	}
	o := f.owner(x)
	switch o.k {
	case oNone, oFresh, oRequest:
		return
	case oOffsets:
		w.access(f, pos, "CModuleCfg", write, o)
	case oModule:
		w.access(f, pos, "CModuleCfg", write, o)
	case oBroker:
		if isMap {
			w.access(f, pos, "CBrokerMap", write, o)
		} else {
			w.access(f, pos, "CBrokerParts", write, o)
		}
	case oConsMap:
		w.access(f, pos, "CConsumerMap", write, o)
	case oGroup:
		if isMap {
			w.access(f, pos, "CGroupTopics", write, o)
		} else {
			w.access(f, pos, "CGroupParts", write, o)
		}
	default:
		w.unknown(f, pos, "container with unknown owner: "+exprString(x))
	}
}

func (w *walker) field(f *frame, e *ast.SelectorExpr, write bool) {
	sel := info.Selections[e]
	if sel == nil || sel.Kind() != types.FieldVal {
		return
	}
	base := f.owner(e.X)
	st := namedOf(sel.Recv())
	name := e.Sel.Name
	ringClass := func() string {
		switch base.k {
		case oBroker:
			return "CBrokerRing"
		case oGroup:
			return "CConsumerRing"
		}
		return ""
	}
	switch st {
	case "InMemoryStorage":
		w.access(f, e.Pos(), "CModuleCfg", write, owner{k: oModule})
	case "clusterOffsets":
		if write {
			w.unknown(f, e.Pos(), "assignment to a clusterOffsets field: "+exprString(e))
		}
	case "consumerGroup":
		if base.k == oFresh {
			return
		}
		if base.k != oGroup {
			w.unknown(f, e.Pos(), "consumerGroup field through unknown owner: "+exprString(e))
			return
		}
		switch name {
		case "topics":
			w.access(f, e.Pos(), "CGroupTopics", write, base)
		case "lastCommit":
			w.access(f, e.Pos(), "CGroupLast", write, base)
		case "lock":
			if write {
				w.unknown(f, e.Pos(), "assignment to consumerGroup.lock")
			}
		default:
			w.unknown(f, e.Pos(), "consumerGroup field "+name)
		}
	case "consumerPartition":
		if base.k == oFresh {
			return
		}
		if base.k != oGroup {
			w.unknown(f, e.Pos(), "consumerPartition field through unknown owner: "+exprString(e))
			return
		}
		switch name {
		case "offsets":
			w.access(f, e.Pos(), "CPartOffsets", write, base)
		case "owner":
			w.access(f, e.Pos(), "CPartOwner", write, base)
		case "clientID":
			w.access(f, e.Pos(), "CPartClient", write, base)
		default:
			w.unknown(f, e.Pos(), "consumerPartition field "+name)
		}
	case "brokerOffset", "protocol.ConsumerOffset", "ring.Ring":
		if base.k == oFresh || base.k == oNone {
			return
		}
		if c := ringClass(); c != "" {
			w.access(f, e.Pos(), c, write, base)
		} else {
			w.unknown(f, e.Pos(), st+" field through unknown owner: "+exprString(e))
		}
	case "protocol.Lag":
		if base.k == oFresh || base.k == oNone {
			return
		}
		w.access(f, e.Pos(), "CLagValue", write, base)
	case "protocol.StorageRequest":
		if write && (name == "Group" || name == "Cluster") {
			w.unknown(f, e.Pos(), "assignment to request."+name)
		}
	default:
		if localStruct(sel.Recv()) {
			if write && base.k != oFresh && base.k != oNone {
				// a store into a local temporary that aliases shared pointers is a local write
			}
			return
		}
		if base.shared() && base.k != oModule && base.k != oCluster {
			w.unknown(f, e.Pos(), "field of "+st+" with shared owner: "+exprString(e))
		}
	}
}

// lockOp recognises X.<lockfield>.<Lock|RLock|Unlock|RUnlock>()
func (w *walker) lockOp(f *frame, c *ast.CallExpr) (class, op string, o owner, ok bool) {
	fn, isSel := c.Fun.(*ast.SelectorExpr)
	if !isSel {
		return
	}
	switch fn.Sel.Name {
	case "Lock", "RLock", "Unlock", "RUnlock", "TryLock", "TryRLock", "RLocker":
	default:
		return
	}
	op = fn.Sel.Name
	lf, isSel2 := fn.X.(*ast.SelectorExpr)
	if !isSel2 {
		return "", op, owner{k: oUnknown}, true
	}
	sel := info.Selections[lf]
	if sel == nil || sel.Kind() != types.FieldVal {
		return "", op, owner{k: oUnknown}, true
	}
	base := f.owner(lf.X)
	switch namedOf(sel.Recv()) + "." + lf.Sel.Name {
	case "clusterOffsets.brokerLock":
		return "LBroker", op, base, true
	case "clusterOffsets.consumerLock":
		return "LConsumer", op, base, true
	case "consumerGroup.lock":
		return "LGroup", op, base, true
	}
	return "", op, owner{k: oUnknown}, true
}

func (w *walker) applyLock(f *frame, c *ast.CallExpr, class, op string, o owner) {
	if class == "" || (class == "LGroup" && o.k != oGroup) || (class != "LGroup" && o.k != oCluster) {
		w.unknown(f, c.Pos(), "lock operation on an object the walk cannot name: "+exprString(c.Fun))
		return
	}
	h := held{class: class, cl: o.cl, grp: o.grp}
	switch op {
	case "Lock", "RLock":
		h.mode = "MW"
		if op == "RLock" {
			h.mode = "MR"
		}
		for _, x := range w.held {
			if x.class == h.class && x.cl == h.cl && x.grp == h.grp {
				w.unknown(f, c.Pos(), "lock acquired while already held: "+exprString(c.Fun))
			}
		}
		w.acqs = append(w.acqs, acqRow{handler: w.handler, fn: f.fname, line: line(c.Pos()), class: class, mode: h.mode, before: cloneHeld(w.held)})
		w.held = append(w.held, h)
	case "Unlock", "RUnlock":
		h.mode = "MW"
		if op == "RUnlock" {
			h.mode = "MR"
		}
		for i := len(w.held) - 1; i >= 0; i-- {
			if w.held[i] == h {
				w.held = append(cloneHeld(w.held[:i]), w.held[i+1:]...)
				return
			}
		}
		w.unknown(f, c.Pos(), "release of a lock that is not held in that mode: "+exprString(c.Fun))
	default:
		w.unknown(f, c.Pos(), "unsupported lock operation: "+exprString(c.Fun))
	}
}

func (w *walker) escapeCheck(f *frame, dst owner, v ast.Expr, pos token.Pos, what string) {
	tv, ok := info.Types[v]
	o := f.owner(v)
	if o.k != oBroker && o.k != oGroup && o.k != oConsMap && o.k != oUnknown {
		return
	}
	if ok && tv.Type != nil && !isRefType(tv.Type) {
		return
	}
	if dst.k == oBroker || dst.k == oGroup || dst.k == oConsMap {
		return // stays inside shared state; the store itself is a W row
	}
	ty := "?"
	if ok && tv.Type != nil {
		ty = types.TypeString(tv.Type, func(p *types.Package) string { return p.Name() })
	}
	w.rows = append(w.rows, row{handler: w.handler, fn: f.fname, line: line(pos), class: "CEscape " + strconv.Quote(ty), rw: "W", note: what})
}

func (w *walker) expr(f *frame, e ast.Expr, write bool) {
	switch e := e.(type) {
	case nil:
	case *ast.Ident, *ast.BasicLit:
	case *ast.ParenExpr:
		w.expr(f, e.X, write)
	case *ast.StarExpr:
		w.expr(f, e.X, false)
	case *ast.UnaryExpr:
		if e.Op == token.ARROW {
			w.blocking(f, e.Pos(), "receive from "+exprString(e.X))
			w.expr(f, e.X, false)
			return
		}
		w.expr(f, e.X, false)
	case *ast.BinaryExpr:
		w.expr(f, e.X, false)
		w.expr(f, e.Y, false)
	case *ast.TypeAssertExpr:
		w.expr(f, e.X, false)
	case *ast.SliceExpr:
		w.expr(f, e.X, false)
		w.expr(f, e.Low, false)
		w.expr(f, e.High, false)
		w.expr(f, e.Max, false)
		w.container(f, e.X, e.Pos(), false)
	case *ast.KeyValueExpr:
		w.expr(f, e.Key, false)
		w.expr(f, e.Value, false)
	case *ast.CompositeLit:
		for _, el := range e.Elts {
			v := el
			if kv, ok := el.(*ast.KeyValueExpr); ok {
				v = kv.Value
				if _, isId := kv.Key.(*ast.Ident); !isId {
					w.expr(f, kv.Key, false)
				}
			}
			w.expr(f, v, false)
			if tv, ok := info.Types[e]; !(ok && tv.Type != nil && localStruct(tv.Type)) {
				w.escapeCheck(f, owner{k: oFresh}, v, v.Pos(), "stored in a composite literal")
			}
		}
	case *ast.FuncLit:
		// a closure that is neither invoked here, nor bound once to a local variable (then it is walked at its calls),
		// nor handed to a ring method: it may run at any time, so its body is walked as if no lock of the enclosing
		// function were held (its own lock operations are tracked; it must leave the lock set as it found it)
		w.detached(f, e)
	case *ast.SelectorExpr:
		w.expr(f, e.X, false)
		w.field(f, e, write)
	case *ast.IndexExpr:
		w.expr(f, e.X, false)
		w.expr(f, e.Index, false)
		w.container(f, e.X, e.Pos(), write)
	case *ast.CallExpr:
		w.call(f, e)
	default:
		w.unknown(f, e.Pos(), fmt.Sprintf("expression %T", e))
	}
}

// invokeLit walks the body of a closure at the point where it is invoked (immediately, through the local variable it is
// bound to, or as a deferred call): with the caller's lock set, its own deferred calls running at its exits.
func (w *walker) invokeLit(f *frame, fl *ast.FuncLit, args []ast.Expr, pos token.Pos) {
	if f.depth > 6 {
		w.unknown(f, pos, "closure call depth exceeded")
		return
	}
	nf := f.bindLit(fl, args)
	w.function(nf, fl.Body, pos)
}

func (w *walker) detached(f *frame, fl *ast.FuncLit) {
	saved := w.held
	w.held = nil
	nf := f.bindLit(fl, nil)
	w.function(nf, fl.Body, fl.Pos())
	if len(w.held) != 0 {
		w.unknown(f, fl.Pos(), "closure returns holding "+heldList(w.held))
	}
	w.held = saved
}

func (w *walker) call(f *frame, c *ast.CallExpr) {
	if fl := f.litOf(c.Fun); fl != nil {
		for _, a := range c.Args {
			w.expr(f, a, false)
		}
		w.invokeLit(f, fl, c.Args, c.Pos())
		return
	}
	if class, op, o, ok := w.lockOp(f, c); ok {
		_ = class
		_ = o
		w.unknown(f, c.Pos(), "lock operation "+op+" in expression position")
		return
	}
	switch fn := c.Fun.(type) {
	case *ast.Ident:
		switch fn.Name {
		case "delete":
			if len(c.Args) == 2 {
				w.expr(f, c.Args[0], false)
				w.expr(f, c.Args[1], false)
				w.container(f, c.Args[0], c.Pos(), true)
			}
			return
		case "len", "cap":
			for _, a := range c.Args {
				w.expr(f, a, false)
				w.container(f, a, c.Pos(), false)
			}
			return
		case "append":
			for i, a := range c.Args {
				w.expr(f, a, false)
				if i == 0 {
					w.container(f, a, c.Pos(), false)
				}
			}
			return
		case "make", "new", "panic", "close", "copy", "print", "println":
			for _, a := range c.Args {
				if tv, ok := info.Types[a]; ok && tv.IsType() {
					continue
				}
				w.expr(f, a, false)
			}
			return
		}
		if fd, ok := funcs[fn.Name]; ok && fd.Recv == nil && f.objOf(fn) != nil {
			if _, isFunc := f.objOf(fn).(*types.Func); isFunc {
				for _, a := range c.Args {
					w.expr(f, a, false)
				}
				w.inline(f, fd, nil, c.Args, c.Pos())
				return
			}
		}
		if tv, ok := info.Types[c.Fun]; ok && tv.IsType() {
			for _, a := range c.Args {
				w.expr(f, a, false)
			}
			return
		}
	case *ast.SelectorExpr:
		if sel := info.Selections[fn]; sel != nil && sel.Kind() == types.MethodVal {
			recvName := namedOf(sel.Recv())
			if recvName == "ring.Ring" {
				w.expr(f, fn.X, false)
				ro := f.owner(fn.X)
				wr := false
				switch fn.Sel.Name {
				case "Link", "Unlink":
					wr = true
				}
				switch ro.k {
				case oBroker:
					w.access(f, c.Pos(), "CBrokerRing", wr, ro)
				case oGroup:
					w.access(f, c.Pos(), "CConsumerRing", wr, ro)
				case oFresh, oNone:
				default:
					w.unknown(f, c.Pos(), "ring method on a ring with unknown owner: "+exprString(fn))
				}
				for _, a := range c.Args {
					if fl, isLit := a.(*ast.FuncLit); isLit && fn.Sel.Name == "Do" {
						// Ring.Do calls the closure synchronously for every element (its parameter already carries the
						// ring's owner, see solve)
						w.function(&frame{fname: f.fname, env: f.env, depth: f.depth + 1, lits: f.lits, keys: f.keys}, fl.Body, fl.Pos())
						continue
					}
					w.expr(f, a, false)
				}
				return
			}
			if fd, ok := funcs[fn.Sel.Name]; ok && fd.Recv != nil && sel.Obj().Pkg() != nil && sel.Obj().Pkg().Name() == "storage" {
				w.expr(f, fn.X, false)
				for _, a := range c.Args {
					w.expr(f, a, false)
				}
				w.inline(f, fd, fn.X, c.Args, c.Pos())
				return
			}
		}
		if exprString(fn) == "ring.New" {
			for _, a := range c.Args {
				w.expr(f, a, false)
			}
			return
		}
		// a call the walk cannot see through (logger, regexp, metrics, time ...): arguments are read;
		// a shared reference handed to it is an escape
		w.expr(f, fn.X, false)
		for _, a := range c.Args {
			w.expr(f, a, false)
			w.escapeCheck(f, owner{}, a, a.Pos(), "passed to "+exprString(fn))
		}
		return
	}
	w.expr(f, c.Fun, false)
	for _, a := range c.Args {
		w.expr(f, a, false)
		w.escapeCheck(f, owner{}, a, a.Pos(), "passed to "+exprString(c.Fun))
	}
}

// inline walks the callee body with the caller's lock set; the callee's deferred releases run at its returns.
func (w *walker) inline(f *frame, fd *ast.FuncDecl, recv ast.Expr, args []ast.Expr, pos token.Pos) {
	if f.depth > 6 {
		w.unknown(f, pos, "call depth exceeded at "+fd.Name.Name)
		return
	}
	nf := f.bind(fd, recv, args)
	w.function(nf, fd.Body, pos)
}

// function walks a whole function body; afterwards w.held is the lock set at its exits (all exits must agree).
func (w *walker) function(nf *frame, body *ast.BlockStmt, pos token.Pos) {
	exits := [][]held{}
	savedLoops := w.loops
	w.loops = nil
	rec := &exitRec{}
	saved := curExit
	curExit = rec
	term := w.block(nf, body.List)
	if !term {
		w.runDeferred(nf)
		rec.exits = append(rec.exits, cloneHeld(w.held))
	}
	exits = rec.exits
	curExit = saved
	w.loops = savedLoops
	if len(exits) == 0 {
		return
	}
	for _, e := range exits[1:] {
		if !sameHeld(e, exits[0]) {
			w.unknown(nf, pos, "exits of "+nf.fname+" leave different lock sets")
		}
	}
	w.held = exits[0]
}

type exitRec struct{ exits [][]held }

var curExit *exitRec

func (w *walker) runDeferred(f *frame) {
	for i := len(f.deferred) - 1; i >= 0; i-- {
		c := f.deferred[i]
		if class, op, o, ok := w.lockOp(f, c); ok {
			w.applyLock(f, c, class, op, o)
		} else if fl := f.litOf(c.Fun); fl != nil {
			w.invokeLit(f, fl, c.Args, c.Pos())
		}
	}
}

// block returns true when control cannot fall out of the list (return / break / continue on every path).
func (w *walker) block(f *frame, list []ast.Stmt) bool {
	for _, s := range list {
		if w.stmt(f, s) {
			return true
		}
	}
	return false
}

func (w *walker) branches(f *frame, pos token.Pos, bodies [][]ast.Stmt, mayskip bool) bool {
	entry := cloneHeld(w.held)
	var outs [][]held
	if mayskip {
		outs = append(outs, cloneHeld(entry))
	}
	for _, b := range bodies {
		w.held = cloneHeld(entry)
		if !w.block(f, b) {
			outs = append(outs, cloneHeld(w.held))
		}
	}
	if len(outs) == 0 {
		w.held = entry
		return true
	}
	for _, o := range outs[1:] {
		if !sameHeld(o, outs[0]) {
			w.unknown(f, pos, "branches fall through with different lock sets")
		}
	}
	w.held = outs[0]
	return false
}

func (w *walker) stmt(f *frame, s ast.Stmt) bool {
	switch s := s.(type) {
	case nil, *ast.EmptyStmt:
	case *ast.ExprStmt:
		if c, ok := s.X.(*ast.CallExpr); ok {
			if class, op, o, isLock := w.lockOp(f, c); isLock {
				w.applyLock(f, c, class, op, o)
				return false
			}
		}
		w.expr(f, s.X, false)
	case *ast.DeferStmt:
		if _, op, _, isLock := w.lockOp(f, s.Call); isLock {
			if op == "Unlock" || op == "RUnlock" {
				f.deferred = append(f.deferred, s.Call)
			} else {
				w.unknown(f, s.Pos(), "deferred lock acquisition")
			}
			return false
		}
		if f.litOf(s.Call.Fun) != nil {
			for _, a := range s.Call.Args {
				w.expr(f, a, false) // arguments are evaluated at the defer statement
			}
			f.deferred = append(f.deferred, s.Call) // the body runs at the exits of this function
			return false
		}
		w.expr(f, s.Call, false)
	case *ast.GoStmt:
		w.unknown(f, s.Pos(), "goroutine started inside a handler")
	case *ast.AssignStmt:
		for i, r := range s.Rhs {
			if fl, isLit := r.(*ast.FuncLit); isLit && len(s.Lhs) == len(s.Rhs) {
				if id, isId := s.Lhs[i].(*ast.Ident); isId && f.lits != nil && f.objOf(id) != nil && f.lits[f.objOf(id)] == fl {
					continue // walked where it is called
				}
			}
			w.expr(f, r, false)
		}
		for i, l := range s.Lhs {
			if _, isId := l.(*ast.Ident); isId {
				continue
			}
			if s.Tok != token.ASSIGN && s.Tok != token.DEFINE {
				w.expr(f, l, false)
			}
			w.expr(f, l, true)
			var dst owner
			switch t := l.(type) {
			case *ast.SelectorExpr:
				dst = f.owner(t.X)
			case *ast.IndexExpr:
				dst = f.owner(t.X)
			case *ast.StarExpr:
				dst = f.owner(t.X)
			}
			if len(s.Lhs) == len(s.Rhs) {
				w.escapeCheck(f, dst, s.Rhs[i], s.Rhs[i].Pos(), "stored through "+exprString(l))
			} else {
				w.escapeCheck(f, dst, s.Rhs[0], s.Rhs[0].Pos(), "stored through "+exprString(l))
			}
		}
	case *ast.IncDecStmt:
		w.expr(f, s.X, false)
		w.expr(f, s.X, true)
	case *ast.DeclStmt:
		if gd, ok := s.Decl.(*ast.GenDecl); ok {
			for _, sp := range gd.Specs {
				if vs, ok := sp.(*ast.ValueSpec); ok {
					for _, v := range vs.Values {
						w.expr(f, v, false)
					}
				}
			}
		}
	case *ast.SendStmt:
		w.blocking(f, s.Pos(), "send on "+exprString(s.Chan))
		w.expr(f, s.Chan, false)
		w.expr(f, s.Value, false)
		w.escapeCheck(f, owner{}, s.Value, s.Value.Pos(), "sent on "+exprString(s.Chan))
	case *ast.ReturnStmt:
		for _, r := range s.Results {
			w.expr(f, r, false)
		}
		w.runDeferred(f)
		curExit.exits = append(curExit.exits, cloneHeld(w.held))
		return true
	case *ast.BlockStmt:
		return w.block(f, s.List)
	case *ast.LabeledStmt:
		return w.stmt(f, s.Stmt)
	case *ast.IfStmt:
		w.stmt(f, s.Init)
		w.expr(f, s.Cond, false)
		bodies := [][]ast.Stmt{s.Body.List}
		mayskip := true
		if s.Else != nil {
			mayskip = false
			bodies = append(bodies, []ast.Stmt{s.Else})
		}
		return w.branches(f, s.Pos(), bodies, mayskip)
	case *ast.SwitchStmt:
		w.stmt(f, s.Init)
		w.expr(f, s.Tag, false)
		var bodies [][]ast.Stmt
		hasDefault := false
		for _, c := range s.Body.List {
			cc := c.(*ast.CaseClause)
			if cc.List == nil {
				hasDefault = true
			}
			for _, x := range cc.List {
				w.expr(f, x, false)
			}
			bodies = append(bodies, cc.Body)
		}
		w.loops = append(w.loops, cloneHeld(w.held)) // break inside a switch leaves the switch
		t := w.branches(f, s.Pos(), bodies, !hasDefault)
		w.loops = w.loops[:len(w.loops)-1]
		return t && false
	case *ast.TypeSwitchStmt, *ast.SelectStmt:
		w.unknown(f, s.Pos(), fmt.Sprintf("statement %T", s))
	case *ast.ForStmt:
		w.stmt(f, s.Init)
		w.expr(f, s.Cond, false)
		entry := cloneHeld(w.held)
		w.loops = append(w.loops, entry)
		term := w.block(f, s.Body.List)
		if !term {
			w.stmt(f, s.Post)
			if !sameHeld(w.held, entry) {
				w.unknown(f, s.Pos(), "loop body changes the lock set")
			}
		}
		w.loops = w.loops[:len(w.loops)-1]
		w.held = entry
		if s.Cond == nil && !hasBreak(s.Body) {
			return true // for { ... } left only by return
		}
	case *ast.RangeStmt:
		if tv, ok := info.Types[s.X]; ok && tv.Type != nil {
			if _, isChan := tv.Type.Underlying().(*types.Chan); isChan {
				w.blocking(f, s.Pos(), "range over channel "+exprString(s.X))
			}
		}
		w.expr(f, s.X, false)
		w.container(f, s.X, s.Pos(), false)
		entry := cloneHeld(w.held)
		w.loops = append(w.loops, entry)
		term := w.block(f, s.Body.List)
		if !term && !sameHeld(w.held, entry) {
			w.unknown(f, s.Pos(), "loop body changes the lock set")
		}
		w.loops = w.loops[:len(w.loops)-1]
		w.held = entry
	case *ast.BranchStmt:
		if s.Tok == token.GOTO || s.Tok == token.FALLTHROUGH || s.Label != nil || len(w.loops) == 0 {
			w.unknown(f, s.Pos(), "branch statement "+s.Tok.String())
			return true
		}
		if !sameHeld(w.held, w.loops[len(w.loops)-1]) {
			w.unknown(f, s.Pos(), s.Tok.String()+" with a lock set different from the loop entry")
		}
		return true
	default:
		w.unknown(f, s.Pos(), fmt.Sprintf("statement %T", s))
	}
	return false
}

func hasBreak(b *ast.BlockStmt) bool {
	found := false
	ast.Inspect(b, func(n ast.Node) bool {
		switch x := n.(type) {
		case *ast.ForStmt, *ast.RangeStmt, *ast.SwitchStmt, *ast.SelectStmt, *ast.FuncLit:
			_ = x
			return n == ast.Node(b)
		case *ast.BranchStmt:
			if x.Tok == token.BREAK {
				found = true
			}
		}
		return true
	})
	return found
}

// ---------------------------------------------------------------------------------------------
// requestTypeMap, mainLoop, constants
// ---------------------------------------------------------------------------------------------

type handlerEntry struct{ constant, method string }

// isConstMap: map[protocol.StorageRequestConstant]T
func isConstMap(t types.Type) (*types.Map, bool) {
	if t == nil {
		return nil, false
	}
	m, ok := t.Underlying().(*types.Map)
	if !ok {
		return nil, false
	}
	return m, namedOf(m.Key()) == "protocol.StorageRequestConstant"
}

// mapWrites: positions where a map (or any variable) of the given static type / the given object is written
func writesToConstMaps(pred func(types.Type) bool) []token.Pos {
	var out []token.Pos
	for _, f := range files {
		ast.Inspect(f, func(n ast.Node) bool {
			check := func(x ast.Expr, pos token.Pos) {
				if tv, ok := info.Types[x]; ok && tv.Type != nil && pred(tv.Type) {
					out = append(out, pos)
				}
			}
			switch s := n.(type) {
			case *ast.AssignStmt:
				for _, l := range s.Lhs {
					if ix, ok := l.(*ast.IndexExpr); ok {
						check(ix.X, ix.Pos())
					}
				}
			case *ast.IncDecStmt:
				if ix, ok := s.X.(*ast.IndexExpr); ok {
					check(ix.X, ix.Pos())
				}
			case *ast.CallExpr:
				if id, ok := s.Fun.(*ast.Ident); ok && (id.Name == "delete" || id.Name == "clear") && len(s.Args) > 0 {
					check(s.Args[0], s.Pos())
				}
			}
			return true
		})
	}
	return out
}

// requestTypeMap finds the handler dispatch table: the one composite literal of a map type keyed by
// protocol.StorageRequestConstant whose values are functions (wherever it is built: inside requestWorker or in a helper
// that builds it once), checks that requestWorker indexes a map of that type with the request's type, and that no map of
// that type is ever written after its construction.
func requestTypeMap() (entries []handlerEntry, problems []string) {
	isHandlerMap := func(t types.Type) bool {
		m, ok := isConstMap(t)
		if !ok {
			return false
		}
		_, isFunc := m.Elem().Underlying().(*types.Signature)
		return isFunc
	}
	var lits []*ast.CompositeLit
	for _, f := range files {
		ast.Inspect(f, func(n ast.Node) bool {
			if cl, ok := n.(*ast.CompositeLit); ok {
				if tv, ok := info.Types[cl]; ok && isHandlerMap(tv.Type) {
					lits = append(lits, cl)
				}
			}
			return true
		})
	}
	if len(lits) != 1 {
		return nil, []string{fmt.Sprintf("expected exactly one handler table (map literal StorageRequestConstant -> func), found %d", len(lits))}
	}
	for _, el := range lits[0].Elts {
		kv, ok := el.(*ast.KeyValueExpr)
		if !ok {
			problems = append(problems, "handler table element without key")
			continue
		}
		k := exprString(kv.Key)
		v := exprString(kv.Value)
		if !strings.HasPrefix(k, "protocol.") || !strings.HasPrefix(v, "module.") || funcs[strings.TrimPrefix(v, "module.")] == nil {
			problems = append(problems, fmt.Sprintf("%s:%d handler table entry the walk cannot resolve: %s -> %s", storageFile, line(kv.Pos()), k, v))
			continue
		}
		entries = append(entries, handlerEntry{strings.TrimPrefix(k, "protocol."), strings.TrimPrefix(v, "module.")})
	}
	// the workers dispatch through a map of that type indexed by the request type
	used := false
	if fd := funcs["requestWorker"]; fd != nil {
		ast.Inspect(fd.Body, func(n ast.Node) bool {
			if ix, ok := n.(*ast.IndexExpr); ok && strings.HasSuffix(exprString(ix.Index), ".RequestType") {
				if tv, ok := info.Types[ix.X]; ok && isHandlerMap(tv.Type) {
					used = true
				}
			}
			return true
		})
	}
	if !used {
		problems = append(problems, "requestWorker does not dispatch through the handler table indexed by the request type")
	}
	for _, pos := range writesToConstMaps(isHandlerMap) {
		problems = append(problems, fmt.Sprintf("%s:%d the handler table is written after its construction", storageFile, line(pos)))
	}
	return
}

func protocolConstants() []string {
	pf := parseDir(token.NewFileSet(), protocolDir)
	var out []string
	for _, f := range pf {
		for _, d := range f.Decls {
			gd, ok := d.(*ast.GenDecl)
			if !ok || gd.Tok != token.CONST {
				continue
			}
			lastTyped := false
			for _, sp := range gd.Specs {
				vs := sp.(*ast.ValueSpec)
				if vs.Type != nil {
					lastTyped = exprString(vs.Type) == "StorageRequestConstant"
				} else if len(vs.Values) > 0 {
					lastTyped = false
				}
				if lastTyped {
					for _, n := range vs.Names {
						if n.Name != "_" {
							out = append(out, n.Name)
						}
					}
				}
			}
		}
	}
	return out
}

type route struct {
	constant, kind string
	line           int
}

// substitution-based normal form of an index expression of mainLoop: local aliases (x := module.workers) are expanded,
// calls of one-line package functions (func f(a, b) T { return e }) are inlined with their arguments
func normExpr(e ast.Expr, alias map[string]string, depth int) string {
	switch e := e.(type) {
	case *ast.Ident:
		if v, ok := alias[e.Name]; ok {
			return v
		}
		return e.Name
	case *ast.SelectorExpr:
		return normExpr(e.X, alias, depth) + "." + e.Sel.Name
	case *ast.BinaryExpr:
		return normExpr(e.X, alias, depth) + e.Op.String() + normExpr(e.Y, alias, depth)
	case *ast.ParenExpr:
		return "(" + normExpr(e.X, alias, depth) + ")"
	case *ast.BasicLit:
		return e.Value
	case *ast.IndexExpr:
		return normExpr(e.X, alias, depth) + "[" + normExpr(e.Index, alias, depth) + "]"
	case *ast.CallExpr:
		if id, ok := e.Fun.(*ast.Ident); ok && depth < 4 {
			if fd, ok := funcs[id.Name]; ok && fd.Recv == nil && len(fd.Body.List) == 1 {
				if rs, ok := fd.Body.List[0].(*ast.ReturnStmt); ok && len(rs.Results) == 1 {
					inner := map[string]string{}
					i := 0
					for _, fl := range fd.Type.Params.List {
						for _, n := range fl.Names {
							if i < len(e.Args) {
								inner[n.Name] = normExpr(e.Args[i], alias, depth)
							}
							i++
						}
					}
					if i == len(e.Args) {
						return normExpr(rs.Results[0], inner, depth+1)
					}
				}
			}
		}
		s := normExpr(e.Fun, alias, depth) + "("
		for i, a := range e.Args {
			if i > 0 {
				s += ","
			}
			s += normExpr(a, alias, depth)
		}
		return s + ")"
	}
	return fmt.Sprintf("<%T>", e)
}

var identRef = func(s, name string) bool {
	for i := 0; i+len(name) < len(s); i++ {
		if s[i:i+len(name)] == name && s[i+len(name)] == '.' && (i == 0 || !(s[i-1] == '_' || s[i-1] == '.' || (s[i-1] >= 'a' && s[i-1] <= 'z') || (s[i-1] >= 'A' && s[i-1] <= 'Z') || (s[i-1] >= '0' && s[i-1] <= '9'))) {
			return true
		}
	}
	return false
}

// classifyIndex: how a worker index is computed
func classifyIndex(idx, req string) string {
	for _, g := range []string{req + ".Cluster+" + req + ".Group"} {
		for _, n := range []string{"uint64(module.numWorkers)", "uint64(uint64(module.numWorkers))"} {
			if idx == "int(xxhash.ChecksumString64("+g+")%"+n+")" {
				return "RHashed"
			}
		}
	}
	if strings.Contains(idx, "rand.") && !strings.Contains(idx, "xxhash") && !identRef(idx, req) {
		return "RAny"
	}
	return "RUnknown"
}

// routes reads the dispatch of mainLoop.  Supported shapes: a switch over <req>.RequestType whose clauses list the
// constants, or a switch over T[<req>.RequestType] where T is a package-level map literal (constant -> class constant)
// that is never written; in the chosen clause the request is sent to module.workers[idx], either directly or by
// assigning module.workers[idx] to a local channel variable that receives the request after the switch.
func routes() (rs []route, problems []string) {
	fd := funcs["mainLoop"]
	if fd == nil {
		return nil, []string{"mainLoop not found"}
	}
	// the loop over the request channel and its request variable
	var loop *ast.RangeStmt
	ast.Inspect(fd.Body, func(n ast.Node) bool {
		if r, ok := n.(*ast.RangeStmt); ok && loop == nil && strings.HasSuffix(exprString(r.X), "requestChannel") {
			loop = r
		}
		return true
	})
	if loop == nil || loop.Key == nil {
		return nil, []string{"mainLoop: loop over the request channel not found"}
	}
	req := exprString(loop.Key)
	// local aliases defined once before the loop
	alias := map[string]string{}
	count := map[string]int{}
	ast.Inspect(fd.Body, func(n ast.Node) bool {
		if a, ok := n.(*ast.AssignStmt); ok {
			for _, l := range a.Lhs {
				if id, ok := l.(*ast.Ident); ok {
					count[id.Name]++
				}
			}
		}
		return true
	})
	for _, st := range fd.Body.List {
		if a, ok := st.(*ast.AssignStmt); ok && a.Tok == token.DEFINE && len(a.Lhs) == 1 && len(a.Rhs) == 1 {
			if id, ok := a.Lhs[0].(*ast.Ident); ok && count[id.Name] == 1 {
				alias[id.Name] = normExpr(a.Rhs[0], alias, 0)
			}
		}
	}
	var sw *ast.SwitchStmt
	for _, st := range loop.Body.List {
		if s, ok := st.(*ast.SwitchStmt); ok && s.Tag != nil && strings.Contains(exprString(s.Tag), req+".RequestType") {
			if sw != nil {
				return nil, []string{"mainLoop: more than one switch on the request type"}
			}
			sw = s
		}
	}
	if sw == nil {
		return nil, []string{"dispatch switch on RequestType not found in mainLoop"}
	}
	// constant -> the label the clauses are selected by
	labelOf := map[string]string{}
	tag := exprString(sw.Tag)
	switch {
	case tag == req+".RequestType":
		for _, c := range protocolConstants() {
			labelOf[c] = "protocol." + c
		}
	case strings.HasSuffix(tag, "["+req+".RequestType]"):
		tbl := strings.TrimSuffix(tag, "["+req+".RequestType]")
		var lit *ast.CompositeLit
		var tblObj types.Object
		for _, f := range files {
			for _, d := range f.Decls {
				gd, ok := d.(*ast.GenDecl)
				if !ok || gd.Tok != token.VAR {
					continue
				}
				for _, sp := range gd.Specs {
					vs := sp.(*ast.ValueSpec)
					for i, n := range vs.Names {
						if n.Name == tbl && i < len(vs.Values) {
							if cl, ok := vs.Values[i].(*ast.CompositeLit); ok {
								lit = cl
								tblObj = info.Defs[n]
							}
						}
					}
				}
			}
		}
		if lit == nil {
			return nil, []string{"mainLoop: routing table " + tbl + " is not a package-level map literal"}
		}
		if tv, ok := info.Types[lit]; !ok {
			return nil, []string{"mainLoop: routing table " + tbl + " has no type"}
		} else if _, ok := isConstMap(tv.Type); !ok {
			return nil, []string{"mainLoop: routing table " + tbl + " is not keyed by StorageRequestConstant"}
		}
		// never written, never re-assigned
		for _, f := range files {
			ast.Inspect(f, func(n ast.Node) bool {
				bad := func(x ast.Expr, pos token.Pos) {
					for {
						if ix, ok := x.(*ast.IndexExpr); ok {
							x = ix.X
							continue
						}
						break
					}
					if id, ok := x.(*ast.Ident); ok && info.Uses[id] == tblObj && tblObj != nil {
						problems = append(problems, fmt.Sprintf("%s:%d the routing table %s is modified", storageFile, line(pos), tbl))
					}
				}
				switch s := n.(type) {
				case *ast.AssignStmt:
					for _, l := range s.Lhs {
						bad(l, l.Pos())
					}
				case *ast.IncDecStmt:
					bad(s.X, s.Pos())
				case *ast.CallExpr:
					if id, ok := s.Fun.(*ast.Ident); ok && (id.Name == "delete" || id.Name == "clear") && len(s.Args) > 0 {
						bad(s.Args[0], s.Pos())
					}
				case *ast.UnaryExpr:
					if s.Op == token.AND {
						bad(s.X, s.Pos())
					}
				}
				return true
			})
		}
		for _, el := range lit.Elts {
			kv, ok := el.(*ast.KeyValueExpr)
			if !ok || !strings.HasPrefix(exprString(kv.Key), "protocol.") {
				problems = append(problems, fmt.Sprintf("%s:%d routing table entry the walk cannot read", storageFile, line(el.Pos())))
				continue
			}
			if _, isId := kv.Value.(*ast.Ident); !isId {
				problems = append(problems, fmt.Sprintf("%s:%d routing table value is not a named class", storageFile, line(el.Pos())))
				continue
			}
			k := strings.TrimPrefix(exprString(kv.Key), "protocol.")
			if _, dup := labelOf[k]; dup {
				problems = append(problems, fmt.Sprintf("%s:%d routing table names %s twice", storageFile, line(el.Pos()), k))
			}
			labelOf[k] = exprString(kv.Value)
		}
	default:
		return nil, []string{"mainLoop: switch tag the walk cannot read: " + tag}
	}
	// sends of the request in the loop body
	type sendInfo struct {
		s      *ast.SendStmt
		clause *ast.CaseClause
	}
	var sends []sendInfo
	for _, st := range loop.Body.List {
		inSwitch := st == ast.Stmt(sw)
		if inSwitch {
			for _, c := range sw.Body.List {
				cc := c.(*ast.CaseClause)
				ast.Inspect(&ast.BlockStmt{List: cc.Body}, func(n ast.Node) bool {
					if s, ok := n.(*ast.SendStmt); ok && exprString(s.Value) == req {
						sends = append(sends, sendInfo{s, cc})
					}
					return true
				})
			}
			continue
		}
		ast.Inspect(st, func(n ast.Node) bool {
			if s, ok := n.(*ast.SendStmt); ok && exprString(s.Value) == req {
				sends = append(sends, sendInfo{s, nil})
			}
			return true
		})
	}
	// a local channel variable that receives the request after the switch
	chanVar := ""
	for _, si := range sends {
		if si.clause == nil {
			id, ok := si.s.Chan.(*ast.Ident)
			if !ok || chanVar != "" {
				return nil, append(problems, fmt.Sprintf("%s:%d mainLoop: send outside the dispatch switch the walk cannot read", storageFile, line(si.s.Pos())))
			}
			chanVar = id.Name
		}
	}
	if chanVar != "" {
		// assigned only inside the clauses of the switch
		for _, st := range loop.Body.List {
			if st == ast.Stmt(sw) {
				continue
			}
			ast.Inspect(st, func(n ast.Node) bool {
				if a, ok := n.(*ast.AssignStmt); ok {
					for _, l := range a.Lhs {
						if id, ok := l.(*ast.Ident); ok && id.Name == chanVar {
							problems = append(problems, fmt.Sprintf("%s:%d mainLoop: %s is assigned outside the dispatch switch", storageFile, line(a.Pos()), chanVar))
						}
					}
				}
				return true
			})
		}
	}
	clauseKind := func(cc *ast.CaseClause) string {
		var idx []ast.Expr
		for _, si := range sends {
			if si.clause == cc {
				if ix, ok := si.s.Chan.(*ast.IndexExpr); ok && normExpr(ix.X, alias, 0) == "module.workers" {
					idx = append(idx, ix.Index)
				} else {
					return "RUnknown"
				}
			}
		}
		if chanVar != "" {
			ast.Inspect(&ast.BlockStmt{List: cc.Body}, func(n ast.Node) bool {
				if a, ok := n.(*ast.AssignStmt); ok && len(a.Lhs) == 1 && len(a.Rhs) == 1 {
					if id, ok := a.Lhs[0].(*ast.Ident); ok && id.Name == chanVar {
						if ix, ok := a.Rhs[0].(*ast.IndexExpr); ok && normExpr(ix.X, alias, 0) == "module.workers" {
							idx = append(idx, ix.Index)
						} else {
							idx = append(idx, nil)
						}
					}
				}
				return true
			})
		}
		if len(idx) != 1 || idx[0] == nil {
			return "RUnknown"
		}
		return classifyIndex(normExpr(idx[0], alias, 0), req)
	}
	for _, c := range sw.Body.List {
		cc := c.(*ast.CaseClause)
		if cc.List == nil {
			continue
		}
		kind := clauseKind(cc)
		for _, x := range cc.List {
			lbl := exprString(x)
			for _, k := range protocolConstants() {
				if labelOf[k] == lbl {
					rs = append(rs, route{k, kind, line(x.Pos())})
				}
			}
		}
	}
	return
}

// ---------------------------------------------------------------------------------------------
// output
// ---------------------------------------------------------------------------------------------

func heldList(hs []held) string {
	var parts []string
	seen := map[string]bool{}
	for _, h := range hs {
		s := "(" + h.class + ", " + h.mode + ")"
		if !seen[s] {
			seen[s] = true
			parts = append(parts, s)
		}
	}
	return "[" + strings.Join(parts, "; ") + "]"
}

func emitLocks() {
	entries, problems := requestTypeMap()
	var rows []row
	var acqs []acqRow
	done := map[string]bool{}
	for _, e := range entries {
		if done[e.method] {
			continue
		}
		done[e.method] = true
		fd := funcs[e.method]
		w := &walker{handler: e.method}
		f := &frame{fname: e.method, env: map[types.Object]owner{}}
		if fd.Recv != nil && len(fd.Recv.List[0].Names) == 1 {
			f.env[info.Defs[fd.Recv.List[0].Names[0]]] = owner{k: oModule}
		}
		pi := 0
		for _, fl := range fd.Type.Params.List {
			for _, n := range fl.Names {
				if pi == 0 {
					f.env[info.Defs[n]] = owner{k: oRequest}
				} else {
					f.env[info.Defs[n]] = owner{}
				}
				pi++
			}
		}
		f.solve(fd.Body)
		w.function(f, fd.Body, fd.Pos())
		if len(w.held) != 0 {
			w.unknown(f, fd.End(), "handler returns holding "+heldList(w.held))
		}
		rows = append(rows, w.rows...)
		acqs = append(acqs, w.acqs...)
	}
	for _, p := range problems {
		rows = append(rows, row{handler: "requestWorker", fn: "requestWorker", line: 0, class: "CUnknown " + strconv.Quote(p), rw: "W"})
	}
	// readers of delivered replies (evaluator, HTTP server) dereference the Lag pointers copied into a reply
	// without any storage lock: a synthetic row so that a write to a published Lag value is seen as a conflict
	rows = append(rows, row{handler: "<reply reader>", fn: "<outside storage>", line: 0, class: "CLagValue", rw: "R"})

	seen := map[string]bool{}
	fmt.Println("(* GENERATED by /verif/translator/lockset from core/internal/storage/inmemory.go -- do not edit. *)")
	fmt.Println("From Coq Require Import String List NArith.")
	fmt.Println("From Burrow Require Import Lockset.")
	fmt.Println("Import ListNotations.")
	fmt.Println("Open Scope string_scope.")
	fmt.Println()
	fmt.Println("(* mkRow handler function line class access locks-held-that-protect-the-object own-group *)")
	fmt.Println("Definition table : list row := [")
	var outs []string
	for _, r := range rows {
		own := "false"
		if r.own {
			own = "true"
		}
		s := fmt.Sprintf("  mkRow %s %s %d%%N (%s) %s %s %s", strconv.Quote(r.handler), strconv.Quote(r.fn), r.line, r.class, r.rw, heldList(r.locks), own)
		if !seen[s] {
			seen[s] = true
			outs = append(outs, s)
		}
	}
	fmt.Println(strings.Join(outs, ";\n"))
	fmt.Println("].")
	fmt.Println()
	fmt.Println("(* mkAcq handler function line lock-class mode locks-held-at-that-moment *)")
	fmt.Println("Definition acquires : list acq := [")
	outs = nil
	for _, a := range acqs {
		var parts []string
		for _, h := range a.before {
			parts = append(parts, "("+h.class+", "+h.mode+")")
		}
		s := fmt.Sprintf("  mkAcq %s %s %d%%N %s %s [%s]", strconv.Quote(a.handler), strconv.Quote(a.fn), a.line, a.class, a.mode, strings.Join(parts, "; "))
		if !seen[s] {
			seen[s] = true
			outs = append(outs, s)
		}
	}
	fmt.Println(strings.Join(outs, ";\n"))
	fmt.Println("].")
}

func emitRouter() {
	entries, problems := requestTypeMap()
	rs, p2 := routes()
	problems = append(problems, p2...)
	fmt.Println("(* GENERATED by /verif/translator/lockset from core/internal/storage/inmemory.go and core/protocol -- do not edit. *)")
	fmt.Println("From Coq Require Import String List NArith.")
	fmt.Println("From Burrow Require Import Lockset.")
	fmt.Println("Import ListNotations.")
	fmt.Println("Open Scope string_scope.")
	fmt.Println()
	fmt.Println("(* every constant of type protocol.StorageRequestConstant *)")
	fmt.Println("Definition constants : list string := [")
	var outs []string
	for _, c := range protocolConstants() {
		outs = append(outs, "  "+strconv.Quote(c))
	}
	fmt.Println(strings.Join(outs, ";\n"))
	fmt.Println("].")
	fmt.Println()
	fmt.Println("(* the dispatch switch of mainLoop: (constant, how the worker is chosen, line) *)")
	fmt.Println("Definition routes : list (string * route * N) := [")
	outs = nil
	for _, r := range rs {
		outs = append(outs, fmt.Sprintf("  (%s, %s, %d%%N)", strconv.Quote(r.constant), r.kind, r.line))
	}
	fmt.Println(strings.Join(outs, ";\n"))
	fmt.Println("].")
	fmt.Println()
	fmt.Println("(* requestTypeMap of requestWorker: (constant, handler method) *)")
	fmt.Println("Definition handlers : list (string * string) := [")
	outs = nil
	for _, e := range entries {
		outs = append(outs, fmt.Sprintf("  (%s, %s)", strconv.Quote(e.constant), strconv.Quote(e.method)))
	}
	fmt.Println(strings.Join(outs, ";\n"))
	fmt.Println("].")
	fmt.Println()
	fmt.Println("(* anything the translator could not read; must be empty *)")
	fmt.Println("Definition problems : list string := [")
	outs = nil
	for _, p := range problems {
		outs = append(outs, "  "+strconv.Quote(p))
	}
	fmt.Println(strings.Join(outs, ";\n"))
	fmt.Println("].")
}

func main() {
	if len(os.Args) < 2 {
		fmt.Fprintln(os.Stderr, "usage: lockset locks|router   (cwd = repository root)")
		os.Exit(2)
	}
	if _, err := os.Stat(filepath.Join(storageDir, storageFile)); err != nil {
		fmt.Fprintln(os.Stderr, "cannot find", filepath.Join(storageDir, storageFile), "- run from the repository root")
		os.Exit(2)
	}
	load()
	switch os.Args[1] {
	case "locks":
		emitLocks()
	case "router":
		emitRouter()
	default:
		fmt.Fprintln(os.Stderr, "unknown mode", os.Args[1])
		os.Exit(2)
	}
}
