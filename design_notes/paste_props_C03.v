(* ---- the completeness gate in real numbers (proofs: F32Proofs.v, EvalCompleteProofs.v) ---- *)

(* Complete >= minimum-complete is the comparison of the real values: minimum <= (filled/slots rounded to binary32) *)
Theorem C03_gate_is_real_comparison :
  forall b k minimum,
    (0 < b + k)%nat -> Z.of_nat (b + k) <= 2 ^ 24 -> is_finite 24 128 minimum = true ->
    (f32_ge (part_complete b k) minimum = true <->
     (B2R 24 128 minimum <=
      round radix2 (FLT_exp (-149) 24) ZnearestE (IZR (Z.of_nat k) / IZR (Z.of_nat (b + k))))%R).
Proof. exact gate_is_real_comparison. Qed.
Print Assumptions C03_gate_is_real_comparison.

(* a full window passes the gate exactly when minimum <= 1 *)
Theorem C03_gate_full_window :
  forall k minimum, is_finite 24 128 minimum = true ->
    (f32_ge (part_complete 0 k) minimum = true <-> (B2R 24 128 minimum <= 1)%R).
Proof. exact gate_full_window. Qed.
Print Assumptions C03_gate_full_window.

(* a NaN threshold closes the gate *)
Theorem C03_gate_nan_minimum :
  forall b k minimum, is_nan 24 128 minimum = true -> f32_ge (part_complete b k) minimum = false.
Proof. exact gate_nan_minimum. Qed.
Print Assumptions C03_gate_nan_minimum.

(* evaluatePartitionStatus applies the rules exactly when minimum <= rounded(filled/slots), else reports OK *)
Theorem C03_partition_gate_real :
  forall b c0 cs p minimum allowed now,
    cp_offsets p = repeat None b ++ map Some (c0 :: cs) ->
    Z.of_nat (b + S (length cs)) <= 2 ^ 24 -> is_finite 24 128 minimum = true ->
    let q := round radix2 (FLT_exp (-149) 24) ZnearestE
               (IZR (Z.of_nat (S (length cs))) / IZR (Z.of_nat (b + S (length cs)))) in
    ((B2R 24 128 minimum <= q)%R ->
       eval_partition p minimum allowed now =
       Ok (calc_status_some (c0 :: cs) (cp_brokers p) (cp_lag p) now allowed,
           Some c0, Some (last (c0 :: cs) c0), part_complete b (S (length cs)))) /\
    ((q < B2R 24 128 minimum)%R ->
       eval_partition p minimum allowed now =
       Ok (StOK, Some c0, Some (last (c0 :: cs) c0), part_complete b (S (length cs)))).
Proof. exact partition_gate_real. Qed.
Print Assumptions C03_partition_gate_real.

(* non-vacuity: threshold 0.75 (0x3F400000): 3 of 4 slots passes, 2 of 3 does not *)
Example C03_gate_witness :
  f32_ge (part_complete 1 3) (f32_of_bits 0x3F400000) = true /\
  f32_ge (part_complete 1 2) (f32_of_bits 0x3F400000) = false /\
  is_finite 24 128 (f32_of_bits 0x3F400000) = true.
Proof. exact ex_gate. Qed.
