From Coq Require Import Reals.
From Flocq Require Import Core IEEE754.Binary IEEE754.Bits.
From Burrow Require Import F32Proofs EvalProofs EvalCompleteProofs.
