(* C10, storage: acceptConsumerGroup as a function of the four booleans — block for props/C10.v.
   Needs `From Burrow Require Import Int64 Eval AMap Ring Storage StorageDelProofs.` (already required by the storage block).
   Compile-checked against StorageDelProofs.v by builder "del". *)

(* inmemory.go acceptConsumerGroup (two guarded returns): all 16 combinations — a group is tracked by storage exactly when it
   matches the allowlist (if one is set) and does not match the denylist (if one is set) *)
Theorem C10_accept_spec_storage : forall a_set a_m d_set d_m,
  storage_accept a_set a_m d_set d_m = true <->
  (a_set = true -> a_m = true) /\ (d_set = true -> d_m = false).
Proof. exact storage_accept_spec. Qed.
Print Assumptions C10_accept_spec_storage.

Theorem C10_accept_formula_storage : forall a_set a_m d_set d_m,
  storage_accept a_set a_m d_set d_m = (negb a_set || a_m) && negb (d_set && d_m).
Proof. exact storage_accept_formula. Qed.
Print Assumptions C10_accept_formula_storage.

(* storage with real lists: for arbitrary match functions of the two patterns, a group that fails the allowlist (when set) or
   matches the denylist (when set) never enters storage and is never shown — every ingestion path, every history *)
Theorem C10_storage_lists_enforced :
  forall cf a_set allow d_set deny cls g h s reps,
    (a_set = true /\ allow g = false) \/ (d_set = true /\ deny g = true) ->
    run (with_lists cf a_set allow d_set deny) (init_state cls) h = Some (s, reps) ->
    (forall c cl, get s c = Some cl -> get (cl_consumer cl) g = None) /\
    Forall2 (fun nr rep => forall c, ~ mentions_group c g (snd nr) rep) h reps.
Proof. exact storage_lists_enforced. Qed.
Print Assumptions C10_storage_lists_enforced.

(* ... and every request of a group the lists accept is processed exactly as by a storage module without lists *)
Theorem C10_storage_lists_accepted_unfiltered :
  forall cf a_set allow d_set deny now s r,
    (forall g, ingest_group r = Some g -> (a_set = true -> allow g = true) /\ (d_set = true -> deny g = false)) ->
    step (with_lists cf a_set allow d_set deny) now s r = step (no_lists cf) now s r.
Proof. exact storage_lists_accepted_unfiltered. Qed.
Print Assumptions C10_storage_lists_accepted_unfiltered.
