(* Extraction of the HTTP-layer model (C16, C18) for the correspondence driver.  ExtrOcamlBasic only; the
   regenerated route table is compiled (inside Coq) to byte strings and extracted with the model, so the
   driver dispatches on the same table the proof obligations were checked on. *)
From Burrow Require Import Http.
From BurrowGen Require Import RouteTable.
Require Import ZArith Arith ExtrOcamlBasic.
Definition compiled_table : list brow := Eval vm_compute in compile_table RouteTable.table.
Extraction "model.ml"
  Z.add Nat.add
  handle handle_v0 dispatch serve router_level_possible world_backend compiled_table.
