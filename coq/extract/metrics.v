(* Extraction of the served-data model (C17) for the correspondence driver; ExtrOcamlBasic only. *)
From Burrow Require Import Int64 F32 Eval AMap Ring Storage Metrics.
Require Import ExtrOcamlBasic.
Extraction "model.ml"
  f32_of_bits f32_bits mkConfig mkSconfig init_sys
  sys_storage sys_storage_v0 sys_status json_status scrape scrape_v0
  delete_topic_metrics delete_topic_metrics_v0 delete_consumer_metrics
  expected broker_offset topic_no_gap group_expired
  init_csys cscrape cscrape_v1 cstatus cjson_status mkCsys.
