(* Extraction of the C15 evaluation-gate model for the correspondence driver (ExtrOcamlBasic only). *)
From Burrow Require Import EvalLoop.
Require Import ExtrOcamlBasic.
Extraction "model.ml"
  step_i step_s init_state feed settle groups_of_list groups_to_list phase_num configure_min configure_mod configure zk_session refresh_events
  Nat.add. (* Nat.add only so that the shared Vutil glue finds type nat *)
