(* Extraction of the C19 configuration model for the correspondence driver (ExtrOcamlBasic only). *)
From Burrow Require Import ConfigValid.
Require Import ExtrOcamlBasic.
Extraction "model.ml"
  canonical_order reverse_order coordinators configure_all configured config_valid start start_old requirements
  panic_violation have_notifiers fresh_app used_app app_valid app_after app_after_history.
