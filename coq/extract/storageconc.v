From Burrow Require Import Int64 Eval AMap Ring Storage Lockset StorageConc.
Require Import ExtrOcamlBasic.
Extraction "model.ml" init_state init_g sched_run drain unfinished run_alone mkConfig.
