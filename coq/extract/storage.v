From Burrow Require Import Int64 Eval AMap Ring Storage.
Require Import ExtrOcamlBasic.
Extraction "model.ml" init_state step mkConfig.
