(* Extraction of the executable models for the correspondence driver.
   Only ExtrOcamlBasic is used (bool, option, unit, list, prod, sumbool, sumor mapped to the OCaml
   types; no Extract Constant; numbers stay Coq positive/Z/N/nat). *)
From Burrow Require Import Int64 F32 Eval.
Require Import ExtrOcamlBasic.
Extraction "model.ml"
  f32_of_bits f32_bits
  calc_status eval_partition eval_group filter_view.
