(* Extraction of the cluster-module model for the correspondence driver (ExtrOcamlBasic only). *)
From Burrow Require Import ClusterMod.
Require Import ExtrOcamlBasic.
Extraction "model.ml" init_state env_of_tables run cycle tick run_s received_updates received_deletes prompt xrun xenv_of_tables.
