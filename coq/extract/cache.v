(* Extraction of the cache model (C05) for the correspondence driver.  ExtrOcamlBasic only; the evaluation of a
   storage reply is Eval.eval_group / Eval.filter_view, passed to the generic model by the driver. *)
From Burrow Require Import Int64 F32 Eval Cache.
Require Import ExtrOcamlBasic.
Extraction "model.ml"
  f32_of_bits f32_bits status_num eval_group filter_view
  bytes_eqb mk_key split_key mk_key_old split_key_old
  init step find_entry expired check_obs.
