(* Extraction of the wire-layer models for the correspondence driver (ExtrOcamlBasic only). *)
From Burrow Require Import Int64 Wire WireEnc.
Require Import ExtrOcamlBasic.
Extraction "model.ml"
  process_message_gen process_message process_message_unrepaired msg_group sumz reader_accept address process_message_for
  enc_offset_key enc_offset_value enc_meta_key enc_meta_value.
