(* Extraction of the template / JSON models and of the tables regenerated from /repo for the C20
   correspondence driver.  ExtrOcamlBasic only (strings stay Coq strings of 8-bit ascii). *)
From Burrow Require Import Tmpl Json.
From BurrowGen Require Import TmplSchema Templates.
Require Import ExtrOcamlBasic.
(* Coq's [string] would be emitted as an OCaml type named "string" and shadow OCaml's own in the
   shared glue (ocaml/vutil.ml opens Model).  It is therefore mapped to the isomorphic OCaml type
   "ascii list" (ascii stays the extracted Coq inductive; same kind of mapping ExtrOcamlBasic
   applies to list/option/prod; no Extract Constant). *)
Extract Inductive String.string => "ascii list" [ "[]" "(::)" ].
Extraction "model.ml"
  exec typecheck wt pieces_valid json_valid satisfies build_struct sch_root module_renders run_notifications apply_fn
  TmplSchema.burrow_schema Templates.all_templates.
