(* Extraction of the Zookeeper reader model (C10, ZK half) for the correspondence driver (ExtrOcamlBasic only). *)
From Burrow Require Import ZkReader.
Require Import ExtrOcamlBasic.
Extraction "model.ml"
  zk_accept zk_step zk_init zk_run quiesce answer_of lookup update
  Nat.add. (* Nat.add only so that the shared Vutil glue finds type nat *)
