(* Extraction of the notifier incident machine for the correspondence driver.
   Only ExtrOcamlBasic is used (no Extract Constant; numbers stay Coq positive/Z). *)
From Burrow Require Import Int64 Notifier.
Require Import ExtrOcamlBasic.
Extraction "model.ml"
  mk_mod lists_accept c_init run_gen run group_of has_record ev_response on_event_gen on_event on_response on_response_gen
  on_refresh on_clusters state_at calls_at.
