(* Extraction of the notifier incident machine for the correspondence driver.
   Only ExtrOcamlBasic is used (no Extract Constant; numbers stay Coq positive/Z). *)
From Burrow Require Import Int64 Notifier.
Require Import ExtrOcamlBasic.
Extraction "model.ml"
  mk_mod lists_accept c_init run_gen run group_of on_response on_response_gen state_at calls_at.
