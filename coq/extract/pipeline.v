(* Extraction of the composed data-path model (Pipeline.v and the layers it composes) for the end-to-end
   correspondence driver (ExtrOcamlBasic only; numbers stay Coq positive/Z/nat). *)
From Burrow Require Import Int64 F32 Eval AMap Ring Storage Wire ClusterMod Pipeline.
Require Import ExtrOcamlBasic.
Extraction "model.ml" pipe_step step pinit mkPconfig mkConfig env_of_tables f32_of_bits f32_bits status_num.
