(* The data path as ONE model: offsets-topic reader (Wire) and cluster module (ClusterMod) feed the storage module
   (Storage / Ring); a status request is answered by the evaluator (Eval) from storage's FetchConsumer reply.

   Anchors (the wiring, not the layers):
     core/internal/consumer/kafka_client.go   decodeAndSendOffset / decodeAndSendGroupMetadata / decodeGroupMetadata:
                                              the four protocol.StorageRequest literals handed to
                                              helpers.TimeoutSendStorageRequest(module.App.StorageChannel, ..)
     core/internal/cluster/kafka_cluster.go   maybeUpdateMetadataAndDeleteTopics (StorageSetDeleteTopic) and
                                              getOffsets (StorageSetBrokerOffset), same channel
     core/internal/storage/coordinator.go     mainLoop: one request at a time to the module's RequestChannel
     core/internal/storage/inmemory.go        requestWorker -> the handlers of Storage.v
     core/internal/evaluator/caching.go       getConsumerStatus (expire-cache = 0: no cache) ->
                                              evaluateConsumerStatus: StorageFetchConsumer, reply -> group status

   What the composition adds to the layers:
     wire_to_storage     a Wire.request (names are byte strings) becomes the Storage.req the reader sends, for the cluster
                         the reader module is configured for; names are interned by [name] (Section variable: ANY
                         function; the end-to-end theorems ask it to be injective, the extracted driver supplies a table)
     cluster_to_storage  one cycle's deletions and updates become DeleteTopic / SetBrokerOffset requests (deletions first:
                         maybeUpdateMetadataAndDeleteTopics runs before the offset requests are made)
     reply_to_eval       protocol.ConsumerTopics is handed to the evaluator as it is (Storage.v already uses Eval.cpart)
     pipe_step           one event of the outside world, with the virtual clock as part of the state

   Assumptions of the composition (stated in design_notes/PIPE.md):
     * one storage worker, requests executed in the order the events produce them (C08 gives per-group FIFO for more
       workers); helpers.TimeoutSendStorageRequest delivers (it drops a request when storage is blocked for 1 s);
     * one reader module and one cluster module per cluster;
     * the evaluator's cache is off (expire-cache = 0); C05 relates cached answers to these;
     * a Go panic in any of the modules ends the process: [pipe_step] returns None. *)
From Coq Require Import ZArith List Bool.
From Burrow Require Import Int64 F32 Eval AMap Ring Storage.
From Burrow Require Wire ClusterMod.
Import ListNotations.
Open Scope Z_scope.

Section Pipeline.

(* interning of names: cluster names are configuration (already interned); group, topic, host and client-id names arrive
   as bytes.  The empty string is 0 in Storage.v ([name_nil] where it matters). *)
Variable name : list Z -> Z.

(* ---- glue ------------------------------------------------------------------------------------------------------ *)

(* the protocol.StorageRequest literals of kafka_client.go, Cluster = module.cluster *)
Definition wire_to_storage (c : Z) (r : Wire.request) : req :=
  match r with
  | Wire.SetConsumerOffset g t p off ts order => SetConsumerOffset c (name g) (name t) p off order ts
  | Wire.SetConsumerOwner g t p owner cid => SetConsumerOwner c (name g) (name t) p (name owner) (name cid)
  | Wire.ClearConsumerOwners g => ClearConsumerOwners c (name g)
  | Wire.DeleteGroup g => DeleteGroup c (name g) 0           (* no Topic: the whole group *)
  end.

Definition update_to_storage (c : Z) (u : ClusterMod.update) : req :=
  let '(t, p, off, cnt) := u in SetBrokerOffset c t p cnt off.

Definition cluster_to_storage (c : Z) (o : ClusterMod.cycle_out) : list req :=
  map (DeleteTopic c) (ClusterMod.co_deletes o) ++ map (update_to_storage c) (ClusterMod.co_updates o).

Definition reply_to_eval (l : list (Z * list cpart)) : list (Z * list cpart) := l.

(* ---- the composed machine -------------------------------------------------------------------------------------- *)

Record pconfig := mkPconfig {
  pc_storage : config;                       (* intervals, expire-group, min-distance, storage's allow/deny verdict *)
  pc_clusters : list Z;                      (* the configured clusters *)
  pc_reader_accept : Z -> list Z -> bool;    (* per cluster: the reader module's allow/deny verdict on a group name *)
  pc_minimum : f32;                          (* evaluator minimum-complete *)
  pc_allowed : Z }.                          (* evaluator allowed-lag *)

Record pstate := mkPstate {
  p_now : Z;                                 (* the clock, seconds *)
  p_storage : state;
  p_cluster : amap ClusterMod.state }.       (* one cluster module per configured cluster *)

Definition pinit (pc : pconfig) (now : Z) : pstate :=
  mkPstate now (init_state (pc_clusters pc)) (map (fun c => (c, ClusterMod.init_state)) (pc_clusters pc)).

Inductive pevent :=
| KafkaMessage (c : Z) (key value : list Z) (offset : Z)   (* the reader of cluster c consumes one __consumer_offsets message *)
| ClusterCycle (c : Z) (tk : bool) (e : ClusterMod.env)    (* the cluster module of c runs getOffsets; tk: metadata ticker fired *)
| StatusRequest (c : Z) (g : list Z) (showall : bool)      (* an evaluator request for (cluster, group) *)
| Tick (now : Z).                                          (* the clock moves *)

(* what the evaluator answers: None = the 404 reply (Status NOTFOUND, no partitions) *)
Inductive pout := OStatus (c g : Z) (showall : bool) (r : option gstatus).

Definition stamp (now : Z) (rs : list req) : list (Z * req) := map (fun r => (now, r)) rs.

(* the storage requests an event causes, in order; None = the module that would send them panicked *)
Definition event_reqs (pc : pconfig) (ps : pstate) (ev : pevent) : option (list req) :=
  match ev with
  | KafkaMessage c key value o =>
      match Wire.process_message (pc_reader_accept pc c) key value o with
      | Wire.Done rs _ => Some (map (wire_to_storage c) rs)
      | Wire.Crash _ => None
      end
  | ClusterCycle c tk e =>
      match get (p_cluster ps) c with
      | None => Some []                                      (* no such module *)
      | Some cs =>
          match ClusterMod.cycle (ClusterMod.tick tk cs) e with
          | ClusterMod.Done o => Some (cluster_to_storage c o)
          | ClusterMod.Crash => None
          end
      end
  | StatusRequest c g _ => Some [FetchConsumer c (name g)]
  | Tick _ => Some []
  end.

Definition cluster_after (ps : pstate) (ev : pevent) : amap ClusterMod.state :=
  match ev with
  | ClusterCycle c tk e =>
      match get (p_cluster ps) c with
      | None => p_cluster ps
      | Some cs =>
          match ClusterMod.cycle (ClusterMod.tick tk cs) e with
          | ClusterMod.Done o => set (p_cluster ps) c (ClusterMod.co_state o)
          | ClusterMod.Crash => p_cluster ps
          end
      end
  | _ => p_cluster ps
  end.

Definition view (showall : bool) (g : gstatus) : gstatus := if showall then g else filter_view g.

(* the evaluator's part of a status request, from storage's reply *)
Definition answer (pc : pconfig) (now : Z) (c g : Z) (showall : bool) (rep : reply) : option (list pout) :=
  match rep with
  | RConsumer l =>
      match eval_group (reply_to_eval l) (pc_minimum pc) (pc_allowed pc) now with
      | Ok gs => Some [OStatus c g showall (Some (view showall gs))]
      | Crash => None
      end
  | _ => Some [OStatus c g showall None]
  end.

Definition pipe_step (pc : pconfig) (ps : pstate) (ev : pevent) : option (pstate * list pout) :=
  match ev with
  | Tick now => Some (mkPstate now (p_storage ps) (p_cluster ps), [])
  | StatusRequest c g showall =>
      match step (pc_storage pc) (p_now ps) (p_storage ps) (FetchConsumer c (name g)) with
      | Crashed => None
      | Done st' rep =>
          match answer pc (p_now ps) c (name g) showall rep with
          | Some outs => Some (mkPstate (p_now ps) st' (p_cluster ps), outs)
          | None => None
          end
      end
  | _ =>
      match event_reqs pc ps ev with
      | None => None
      | Some rs =>
          match run (pc_storage pc) (p_storage ps) (stamp (p_now ps) rs) with
          | Some (st', _) => Some (mkPstate (p_now ps) st' (cluster_after ps ev), [])
          | None => None
          end
      end
  end.

(* ghost: the storage history of one event *)
Definition step_hist (pc : pconfig) (ps : pstate) (ev : pevent) : list (Z * req) :=
  match event_reqs pc ps ev with Some rs => stamp (p_now ps) rs | None => [] end.

(* the run: final state, every answer in order, and (ghost) the storage history the events produced *)
Fixpoint pipe_exec (pc : pconfig) (ps : pstate) (evs : list pevent) : option (pstate * list pout * list (Z * req)) :=
  match evs with
  | [] => Some (ps, [], [])
  | ev :: rest =>
      match pipe_step pc ps ev with
      | None => None
      | Some (ps', outs) =>
          match pipe_exec pc ps' rest with
          | None => None
          | Some (ps'', outs', h') => Some (ps'', outs ++ outs', step_hist pc ps ev ++ h')
          end
      end
  end.

Definition pipe_run (pc : pconfig) (now0 : Z) (evs : list pevent) : option (pstate * list pout * list (Z * req)) :=
  pipe_exec pc (pinit pc now0) evs.

End Pipeline.
