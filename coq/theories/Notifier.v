(* Executable model of the notifier coordinator's incident machine, group-list refresh included.
   Anchors: core/internal/notifier/coordinator.go (tree after commit aea5b6c, the fix for finding F3)
     consumerGroup {ID, Start, LastNotify}          :58-63     clusterGroups {Groups} :65-68     nc.clusters :92
     responseLoop (NOTFOUND is dropped)             :393-413
     checkAndSendResponseToModules                  :415-466
       no record for the group: return :424-428  ("The group must have just been deleted")
       open incident   :430-441  Start zero and Status > OK: fresh ID, Start = now, remembered notify times forgotten
       per module      :443-459  allowlist / denylist / AcceptConsumerGroup, then notifyModule (called synchronously)
       close incident  :461-465  Status = OK: ID and Start cleared
     processClusterList                             :468-507   cluster entries added (empty) / deleted
     processConsumerList                            :509-539   group records added (blank) / kept / deleted
     notifyModule                                   :541-575
       close branch :552-557, threshold :559-562, send-once :564-567, send-interval (strict >) :569-574

   Conventions.  Status is the numeric protocol.StatusConstant (0 NOTFOUND, 1 OK, 2 WARN, 3 ERR, ...).
   Time is Unix nanoseconds (int64 range; what the probe feeds to VerifSetClock); the zero time.Time is [None].
   Cluster, group and module names are interned to Z.  The event id is the next value of a counter
   (uuid.NewRandom is assumed fresh; the probe numbers the UUIDs by first appearance).
   Go iterates nc.modules in map order: each module only reads and writes its own LastNotify slot,
   so the order only permutes the calls of one response (NotifierProofs.notify_all_perm); the tie compares
   them as a sorted set.

   A history is a list of events: evaluator responses, and the two halves of the periodic refresh
   (sendClusterRequest -> processClusterList -> one processConsumerList per cluster; each half runs in its own goroutine
   under the coordinator's locks, so the halves interleave with responses in any order - every order is a history).
   consumerGroup.LastEval (when the next evaluation is requested; random initial value) plays no part in what a
   response does and is left out.  A response for a cluster that has no entry in nc.clusters makes the real
   checkAndSendResponseToModules dereference a nil *clusterGroups (panic); the model drops it like a response for a
   group without record - sendEvaluatorRequests only asks for evaluations of recorded groups of known clusters, and
   storage's cluster list is the static configuration (see design_notes/C13.md).

   [fixed = false] is the behaviour of the tree before the `fix:` commit for finding F3 (LastNotify
   survives from one incident into the next unless a close notification was actually sent); it is kept only for
   the documentation theorem NotifierProofs.announce_refuted_before_fix.  [fixed = true] is the current code. *)
From Coq Require Import ZArith List Bool.
From Burrow Require Import Int64.
Import ListNotations.
Open Scope Z_scope.

(* ---- allow / deny lists: the four facts the real regexp package supplies for (module, group name) ---- *)
Record rx4 := mkRx { rx_allow_set : bool; rx_allow_match : bool; rx_deny_set : bool; rx_deny_match : bool }.

(* coordinator.go:439-450, the two `continue`s written as one test *)
Definition lists_accept (x : rx4) : bool :=
  if rx_allow_set x && negb (rx_allow_match x) then false
  else if rx_deny_set x && rx_deny_match x then false
  else true.

(* ---- configuration, input, output ---- *)
Record nmod := mkNmod {
  nm_name : Z;               (* key of nc.modules *)
  nm_threshold : Z;          (* notifier.<name>.threshold *)
  nm_interval : Z;           (* notifier.<name>.send-interval, seconds *)
  nm_once : bool;            (* notifier.<name>.send-once *)
  nm_close : bool;           (* notifier.<name>.send-close *)
  nm_lists : Z -> rx4;       (* group name |-> outcome of the module's two regexps *)
  nm_accept_group : bool     (* module.AcceptConsumerGroup *)
}.

Record nresp := mkNresp { nr_cluster : Z; nr_group : Z; nr_status : Z }.

(* one Module.Notify(status, eventID, startTime, stateGood) call *)
Record ncall := mkNcall {
  nc_module : Z; nc_cluster : Z; nc_group : Z; nc_status : Z;
  nc_id : option Z; nc_start : option Z; nc_good : bool
}.

(* ---- state ---- *)
Record gstate := mkG { g_id : option Z; g_start : option Z; g_last : Z -> option Z }.
(* &consumerGroup{LastNotify: make(map[string]time.Time)} - the blank record processConsumerList creates *)
Definition g_init : gstate := mkG None None (fun _ => None).

Definition nkey := (Z * Z)%type.     (* cluster, group *)
Definition nkey_eqb (a b : nkey) : bool := (fst a =? fst b) && (snd a =? snd b).
Definition resp_key (r : nresp) : nkey := (nr_cluster r, nr_group r).

Record cstate := mkC {
  c_groups : nkey -> gstate;   (* nc.clusters[cluster].Groups[group]; meaningful only where [c_reg] holds *)
  c_next : Z;                  (* number of the next event id *)
  c_known : Z -> bool;         (* nc.clusters has an entry for the cluster *)
  c_reg : nkey -> bool         (* nc.clusters[cluster].Groups has a record for the group *)
}.
(* after Configure: nc.clusters = make(map) *)
Definition c_init : cstate := mkC (fun _ => g_init) 1 (fun _ => false) (fun _ => false).

Definition is_some {A : Type} (o : option A) : bool := match o with Some _ => true | None => false end.

Definition set_last (g : gstate) (n : Z) (v : option Z) : gstate :=
  mkG (g_id g) (g_start g) (fun x => if x =? n then v else g_last g x).

(* ---- notifyModule ---- *)

(* time.Time.Sub saturates at the int64 range of time.Duration *)
Definition dur_sat (x : Z) : Z :=
  if x <? - two63 then - two63 else if two63 <=? x then two63 - 1 else x.

(* currentTime.Sub(LastNotify) > time.Duration(send-interval) * time.Second
   Zero LastNotify: the distance to year 1 saturates to 2^63-1 (every int64 Unix-nanosecond clock is more than
   292 years after it), and the right-hand side, a wrapped multiple of 10^9, is even, hence smaller. *)
Definition interval_elapsed (now : Z) (last : option Z) (iv : Z) : bool :=
  match last with
  | None => true
  | Some t => mul64 iv 1000000000 <? dur_sat (now - t)
  end.

Definition notify_module (m : nmod) (g : gstate) (now : Z) (r : nresp) (start id : option Z)
  : gstate * list ncall :=
  let n := nm_name m in
  let mk := mkNcall n (nr_cluster r) (nr_group r) (nr_status r) id start in
  if is_some start && (nr_status r =? 1) && nm_close m then
    (set_last g n None, [mk true])
  else if nr_status r <? nm_threshold m then (g, [])
  else if is_some (g_last g n) && nm_once m then (g, [])
  else if interval_elapsed now (g_last g n) (nm_interval m) then
    (set_last g n (Some now), [mk false])
  else (g, []).

Definition module_accepts (m : nmod) (r : nresp) : bool :=
  lists_accept (nm_lists m (nr_group r)) && nm_accept_group m.

(* the `for _, genericModule := range nc.modules` loop *)
Fixpoint notify_all (mods : list nmod) (g : gstate) (now : Z) (r : nresp) (start id : option Z)
  : gstate * list ncall :=
  match mods with
  | [] => (g, [])
  | m :: ms =>
      let gc := if module_accepts m r then notify_module m g now r start id else (g, []) in
      let gc' := notify_all ms (fst gc) now r start id in
      (fst gc', snd gc ++ snd gc')
  end.

(* ---- checkAndSendResponseToModules on the group's own record ---- *)
Definition group_step (fixed : bool) (mods : list nmod) (g : gstate) (next now : Z) (r : nresp)
  : gstate * list ncall * Z :=
  let opening := negb (is_some (g_start g)) && (1 <? nr_status r) in
  let g1 := if opening
            then mkG (Some next) (Some now) (if fixed then (fun _ => None) else g_last g)
            else g in
  let next1 := if opening then next + 1 else next in
  let gc := notify_all mods g1 now r (g_start g1) (g_id g1) in
  let g3 := if nr_status r =? 1 then mkG None None (g_last (fst gc)) else fst gc in
  (g3, snd gc, next1).

(* a response that reaches the modules: not NOTFOUND (responseLoop) and the group has a record *)
Definition live_resp (st : cstate) (r : nresp) : bool :=
  negb (nr_status r =? 0) && c_reg st (resp_key r).

(* ---- responseLoop body: one evaluator response at clock [now] ---- *)
Definition on_response_gen (fixed : bool) (mods : list nmod) (st : cstate) (now : Z) (r : nresp)
  : cstate * list ncall :=
  if live_resp st r then
    let k := resp_key r in
    let res := group_step fixed mods (c_groups st k) (c_next st) now r in
    (mkC (fun k' => if nkey_eqb k' k then fst (fst res) else c_groups st k') (snd res) (c_known st) (c_reg st),
     snd (fst res))
  else (st, []).

Definition on_response := on_response_gen true.

(* ---- the refresh ---- *)
Definition memz (x : Z) (l : list Z) : bool := existsb (Z.eqb x) l.

(* processConsumerList(cluster, reply = groups): nothing for a cluster without entry; otherwise every listed group
   without record gets a blank one, every listed group with a record keeps it untouched, every other record of the
   cluster is deleted.  (Deleted = [c_reg] false; the slot is reset to the blank record a re-listing would create.) *)
Definition on_refresh (st : cstate) (c : Z) (gs : list Z) : cstate :=
  if c_known st c then
    mkC (fun k => if fst k =? c
                  then (if memz (snd k) gs && c_reg st k then c_groups st k else g_init)
                  else c_groups st k)
        (c_next st) (c_known st)
        (fun k => if fst k =? c then memz (snd k) gs else c_reg st k)
  else st.

(* processClusterList(reply = clusters), the update of nc.clusters: a listed cluster without entry gets an empty
   one, a listed cluster with an entry keeps it, every other entry is deleted together with its group records. *)
Definition on_clusters (st : cstate) (cs : list Z) : cstate :=
  mkC (fun k => if memz (fst k) cs && c_known st (fst k) && c_reg st k then c_groups st k else g_init)
      (c_next st)
      (fun c => memz c cs)
      (fun k => memz (fst k) cs && c_known st (fst k) && c_reg st k).

(* ---- histories ---- *)
Inductive nevent :=
| HResponse (now : Z) (r : nresp)                      (* an evaluator response handled at clock [now] *)
| HRefresh (now : Z) (cluster : Z) (groups : list Z)   (* processConsumerList for [cluster] receives [groups] *)
| HClusters (now : Z) (clusters : list Z).             (* processClusterList receives [clusters] *)

Definition nhist := list nevent.

Definition on_event_gen (fixed : bool) (mods : list nmod) (st : cstate) (e : nevent) : cstate * list ncall :=
  match e with
  | HResponse now r => on_response_gen fixed mods st now r
  | HRefresh _ c gs => (on_refresh st c gs, [])
  | HClusters _ cs => (on_clusters st cs, [])
  end.

Definition on_event := on_event_gen true.

Fixpoint run_gen (fixed : bool) (mods : list nmod) (st : cstate) (h : nhist) : list (list ncall) * cstate :=
  match h with
  | [] => ([], st)
  | e :: h' =>
      let sc := on_event_gen fixed mods st e in
      let rest := run_gen fixed mods (fst sc) h' in
      (snd sc :: fst rest, snd rest)
  end.

Definition run := run_gen true.

(* State reached before step j of a history, and the calls made by step j (used by the theorems;
   NotifierProofs.run_calls_at shows they describe [run]). *)
Fixpoint state_after (mods : list nmod) (st : cstate) (h : nhist) : cstate :=
  match h with
  | [] => st
  | e :: h' => state_after mods (fst (on_event mods st e)) h'
  end.

Definition state_at (mods : list nmod) (h : nhist) (j : nat) : cstate :=
  state_after mods c_init (firstn j h).

Definition calls_at (mods : list nmod) (h : nhist) (j : nat) : list ncall :=
  match nth_error h j with
  | Some e => snd (on_event mods (state_at mods h j) e)
  | None => []
  end.

(* helpers for the driver *)
Definition mk_mod (name thr iv : Z) (once close accg : bool) (lists : Z -> rx4) : nmod :=
  mkNmod name thr iv once close lists accg.
Definition group_of (st : cstate) (cluster group : Z) : gstate := c_groups st (cluster, group).
Definition has_record (st : cstate) (cluster group : Z) : bool := c_reg st (cluster, group).
Definition ev_response (now cluster group status : Z) : nevent := HResponse now (mkNresp cluster group status).
