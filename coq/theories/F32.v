(* Go float32 as Flocq binary32, bit-exact (round to nearest even).
   Anchors: float32(len)/float32(len) and the >= / == 1.0 comparisons of
   core/internal/evaluator/caching.go:246,256,295,308. *)
From Coq Require Import ZArith.
From Flocq Require Import IEEE754.Binary IEEE754.Bits.
From Flocq Require IEEE754.BinarySingleNaN.
Open Scope Z_scope.

Definition f32 := binary32.
Definition mode_NE := BinarySingleNaN.mode_NE.
Definition f32_of_bits (z : Z) : f32 := b32_of_bits z.
Definition f32_bits (f : f32) : Z := bits_of_b32 f.
(* float32(int) : conversion of a Go int, rounding to nearest even *)
Definition f32_of_int (z : Z) : f32 :=
  Binary.binary_normalize 24 128 eq_refl eq_refl mode_NE z 0 false.
Definition f32_div (a b : f32) : f32 := b32_div mode_NE a b.
Definition f32_ge (a b : f32) : bool :=
  match Bcompare 24 128 a b with Some Gt | Some Eq => true | _ => false end.
Definition f32_eq (a b : f32) : bool :=
  match Bcompare 24 128 a b with Some Eq => true | _ => false end.
Definition f32_zero : f32 := f32_of_int 0.
Definition f32_one : f32 := f32_of_int 1.
