(* Reference encoders: the specification of "well-formed" offsets-topic messages.
   Written from the Kafka schemas (OffsetCommitKey v0/v1, OffsetCommitValue v0/v1/v3, GroupMetadataKey v2,
   GroupMetadataValue v0..v3, ConsumerProtocolAssignment), independently of the decoders in Wire.v.
   Anchored by the Examples at the end, which reproduce by vm_compute the literal byte strings of
   core/internal/consumer/kafka_client_test.go. *)
From Coq Require Import ZArith List Bool String Ascii.
From Burrow Require Import Int64 Wire.
Import ListNotations.
Open Scope Z_scope.

(* n bytes, big endian, two's complement (Z division floors, so negative values come out right) *)
Fixpoint enc_be (n : nat) (u : Z) : list Z :=
  match n with O => [] | S m => enc_be m (u / 256) ++ [u mod 256] end.
Definition enc_i16 (x : Z) : list Z := enc_be 2 x.
Definition enc_i32 (x : Z) : list Z := enc_be 4 x.
Definition enc_i64 (x : Z) : list Z := enc_be 8 x.

(* Kafka STRING / NULLABLE_STRING: int16 length, -1 = null *)
Definition enc_string (s : option (list Z)) : list Z :=
  match s with None => enc_i16 (-1) | Some b => enc_i16 (blen b) ++ b end.
(* Kafka BYTES / NULLABLE_BYTES: int32 length, -1 = null *)
Definition enc_bytes (s : option (list Z)) : list Z :=
  match s with None => enc_i32 (-1) | Some b => enc_i32 (blen b) ++ b end.
(* what Burrow reads a (possibly null) string as *)
Definition str_val (s : option (list Z)) : list Z := match s with None => [] | Some b => b end.

(* ---------- offset commit ---------- *)

Definition enc_offset_key (kv : Z) (g t : option (list Z)) (p : Z) : list Z :=
  enc_i16 kv ++ enc_string g ++ enc_string t ++ enc_i32 p.

Record offset_value := mkOV {
  ov_offset : Z; ov_leader_epoch : Z; ov_metadata : option (list Z); ov_commit_ts : Z; ov_expire_ts : Z }.

(* v0: offset metadata timestamp; v1: offset metadata commit_timestamp expire_timestamp;
   v3: offset leader_epoch metadata commit_timestamp *)
Definition enc_offset_value (vv : Z) (v : offset_value) : list Z :=
  enc_i16 vv ++ enc_i64 (ov_offset v)
  ++ (if vv =? 3 then enc_i32 (ov_leader_epoch v) else [])
  ++ enc_string (ov_metadata v) ++ enc_i64 (ov_commit_ts v)
  ++ (if vv =? 1 then enc_i64 (ov_expire_ts v) else []).

(* ---------- group metadata ---------- *)

Definition enc_meta_key (g : option (list Z)) : list Z := enc_i16 2 ++ enc_string g.

Record assignment := mkAsg {
  a_version : Z;
  a_topics : list (option (list Z) * list Z);       (* topic name, partition ids *)
  a_userdata : option (list Z) }.

Definition enc_topic (tp : option (list Z) * list Z) : list Z :=
  enc_string (fst tp) ++ enc_i32 (blen (snd tp)) ++ flat_map enc_i32 (snd tp).

Definition enc_assignment (a : assignment) : list Z :=
  enc_i16 (a_version a) ++ enc_i32 (blen (a_topics a)) ++ flat_map enc_topic (a_topics a)
  ++ enc_bytes (a_userdata a).

(* the member's assignment field is BYTES: null, empty, or an encoded assignment *)
Inductive asg_field := AsgNull | AsgEmpty | Asg (a : assignment).
Definition enc_asg_field (f : asg_field) : list Z :=
  match f with
  | AsgNull => enc_i32 (-1)
  | AsgEmpty => enc_i32 0
  | Asg a => enc_i32 (blen (enc_assignment a)) ++ enc_assignment a
  end.

Record wmember := mkWM {
  wm_id : option (list Z); wm_instance : option (list Z);
  wm_client_id : option (list Z); wm_host : option (list Z);
  wm_rebalance : Z; wm_session : Z;
  wm_subscription : option (list Z);
  wm_assignment : asg_field }.

(* v0: id client_id client_host session subscription assignment; rebalance_timeout from v1;
   group_instance_id in v3 *)
Definition enc_member (vv : Z) (m : wmember) : list Z :=
  enc_string (wm_id m)
  ++ (if vv =? 3 then enc_string (wm_instance m) else [])
  ++ enc_string (wm_client_id m) ++ enc_string (wm_host m)
  ++ (if vv >=? 1 then enc_i32 (wm_rebalance m) else [])
  ++ enc_i32 (wm_session m)
  ++ enc_bytes (wm_subscription m)
  ++ enc_asg_field (wm_assignment m).

Record meta_value := mkMV {
  mv_ptype : option (list Z); mv_generation : Z; mv_protocol : option (list Z);
  mv_leader : option (list Z); mv_state_ts : Z; mv_members : list wmember }.

(* current_state_timestamp from v2 *)
Definition enc_meta_value (vv : Z) (v : meta_value) : list Z :=
  enc_i16 vv ++ enc_string (mv_ptype v) ++ enc_i32 (mv_generation v)
  ++ enc_string (mv_protocol v) ++ enc_string (mv_leader v)
  ++ (if vv >=? 2 then enc_i64 (mv_state_ts v) else [])
  ++ enc_i32 (blen (mv_members v)) ++ flat_map (enc_member vv) (mv_members v).

(* ---------- the requests a well-formed message stands for ---------- *)

Definition asg_topics (f : asg_field) : list (option (list Z) * list Z) :=
  match f with Asg a => a_topics a | _ => [] end.

Definition owner_requests (g : list Z) (m : wmember) : list request :=
  flat_map (fun tp => map (fun p => SetConsumerOwner g (str_val (fst tp)) p
                                      (str_val (wm_host m)) (str_val (wm_client_id m))) (snd tp))
           (asg_topics (wm_assignment m)).

(* ---------- anchors: the byte strings of the unit tests ---------- *)

Definition str (s : string) : list Z := map (fun a => Z.of_N (N_of_ascii a)) (list_ascii_of_string s).
Definition sstr (s : string) : option (list Z) := Some (str s).

Definition lit_okey1 : list Z :=
  [0; 1; 0; 9; 116; 101; 115; 116; 103; 114; 111; 117; 112; 0; 9; 116; 101; 115; 116; 116; 111; 112; 105; 99; 0; 0; 0; 11].
Definition lit_oval0 : list Z :=
  [0; 0; 0; 0; 0; 0; 0; 0; 32; 180; 0; 8; 116; 101; 115; 116; 100; 97; 116; 97; 0; 0; 0; 0; 0; 0; 6; 101].
Definition lit_oval3 : list Z :=
  [0; 3; 0; 0; 0; 0; 0; 0; 32; 180; 0; 0; 0; 0; 0; 8; 116; 101; 115; 116; 100; 97; 116; 97; 0; 0; 0; 0; 0; 0; 6; 101].
Definition lit_mkey : list Z :=
  [0; 2; 0; 9; 116; 101; 115; 116; 103; 114; 111; 117; 112].
Definition lit_mval1 : list Z :=
  [0; 1; 0; 8; 99; 111; 110; 115; 117; 109; 101; 114; 0; 0; 0; 1; 0; 12; 116; 101; 115; 116; 112; 114; 111; 116; 111; 99; 111; 108; 0; 10; 116; 101; 115; 116; 108; 101; 97; 100; 101; 114; 0; 0; 0; 1; 0; 12; 116; 101; 115; 116; 109; 101; 109; 98; 101; 114; 105; 100; 0; 12; 116; 101; 115; 116; 99; 108; 105; 101; 110; 116; 105; 100; 0; 14; 116; 101; 115; 116; 99; 108; 105; 101; 110; 116; 104; 111; 115; 116; 0; 0; 0; 4; 0; 0; 0; 8; 0; 0; 0; 0; 0; 0; 0; 26; 0; 0; 0; 0; 0; 1; 0; 6; 116; 111; 112; 105; 99; 49; 0; 0; 0; 1; 0; 0; 0; 11; 0; 0; 0; 0].
Definition lit_mval2 : list Z :=
  [0; 2; 0; 8; 99; 111; 110; 115; 117; 109; 101; 114; 0; 0; 0; 3; 0; 5; 114; 97; 110; 103; 101; 0; 44; 116; 76; 101; 97; 100; 101; 114; 45; 97; 52; 50; 100; 50; 98; 97; 97; 45; 98; 102; 97; 97; 45; 52; 98; 57; 54; 45; 57; 101; 97; 50; 45; 100; 101; 101; 53; 102; 52; 50; 98; 50; 97; 98; 50; 0; 0; 1; 105; 95; 28; 74; 74; 0; 0; 0; 1; 0; 44; 116; 76; 101; 97; 100; 101; 114; 45; 97; 52; 50; 100; 50; 98; 97; 97; 45; 98; 102; 97; 97; 45; 52; 98; 57; 54; 45; 57; 101; 97; 50; 45; 100; 101; 101; 53; 102; 52; 50; 98; 50; 97; 98; 50; 0; 7; 116; 77; 101; 109; 98; 101; 114; 0; 11; 47; 49; 55; 50; 46; 49; 56; 46; 48; 46; 49; 0; 0; 117; 48; 0; 0; 117; 48; 0; 0; 0; 21; 0; 0; 0; 0; 0; 1; 0; 9; 116; 101; 115; 116; 116; 111; 112; 105; 99; 0; 0; 0; 0; 0; 0; 0; 61; 0; 0; 0; 0; 0; 1; 0; 9; 116; 101; 115; 116; 116; 111; 112; 105; 99; 0; 0; 0; 9; 0; 0; 0; 0; 0; 0; 0; 1; 0; 0; 0; 2; 0; 0; 0; 3; 0; 0; 0; 4; 0; 0; 0; 5; 0; 0; 0; 6; 0; 0; 0; 7; 0; 0; 0; 8; 0; 0; 0; 0].
Definition lit_mval3 : list Z :=
  [0; 3; 0; 8; 99; 111; 110; 115; 117; 109; 101; 114; 0; 0; 0; 1; 0; 18; 82; 111; 117; 110; 100; 82; 111; 98; 105; 110; 65; 115; 115; 105; 103; 110; 101; 114; 0; 44; 116; 76; 101; 97; 100; 101; 114; 45; 97; 52; 50; 100; 50; 98; 97; 97; 45; 98; 102; 97; 97; 45; 52; 98; 57; 54; 45; 57; 101; 97; 50; 45; 100; 101; 101; 53; 102; 52; 50; 98; 50; 97; 98; 50; 0; 0; 1; 108; 223; 53; 7; 107; 0; 0; 0; 1; 0; 6; 109; 101; 109; 98; 101; 114; 255; 255; 0; 6; 99; 108; 105; 101; 110; 116; 0; 13; 47; 49; 48; 46; 49; 48; 46; 49; 48; 46; 49; 48; 48; 255; 255; 255; 255; 0; 0; 117; 48; 0; 0; 0; 18; 0; 1; 0; 0; 0; 1; 0; 6; 116; 111; 112; 105; 99; 49; 0; 0; 0; 0; 0; 0; 0; 26; 0; 1; 0; 0; 0; 1; 0; 6; 116; 111; 112; 105; 99; 49; 0; 0; 0; 1; 0; 0; 0; 0; 0; 0; 0; 0].
Definition lit_sub2 : list Z :=
  [0; 0; 0; 0; 0; 1; 0; 9; 116; 101; 115; 116; 116; 111; 112; 105; 99; 0; 0; 0; 0].
Definition lit_sub3 : list Z :=
  [0; 1; 0; 0; 0; 1; 0; 6; 116; 111; 112; 105; 99; 49; 0; 0; 0; 0].

(* TestKafkaClient_processConsumerOffsetsMessage_Metadata, TestKafkaClient_decodeOffsetKeyV0 *)
Example anchor_offset_key_v1 :
  enc_offset_key 1 (sstr "testgroup") (sstr "testtopic") 11 = lit_okey1.
Proof. vm_compute. reflexivity. Qed.
(* TestKafkaClient_decodeKeyAndOffset, TestKafkaClient_decodeOffsetValueV0 *)
Example anchor_offset_value_v0 :
  enc_offset_value 0 (mkOV 8372 0 (sstr "testdata") 1637 0) = lit_oval0.
Proof. vm_compute. reflexivity. Qed.
(* TestKafkaClient_decodeOffsetValueV3 (behind the version field) *)
Example anchor_offset_value_v3 :
  enc_offset_value 3 (mkOV 8372 0 (sstr "testdata") 1637 0) = lit_oval3.
Proof. vm_compute. reflexivity. Qed.
(* TestKafkaClient_processConsumerOffsetsMessage_Offset, TestKafkaClient_decodeGroupMetadata *)
Example anchor_meta_key : enc_meta_key (sstr "testgroup") = lit_mkey.
Proof. vm_compute. reflexivity. Qed.
Example anchor_meta_value_v1 :
  enc_meta_value 1
    (mkMV (sstr "consumer") 1 (sstr "testprotocol") (sstr "testleader") 0
       [mkWM (sstr "testmemberid") None (sstr "testclientid") (sstr "testclienthost") 4 8 (Some [])
          (Asg (mkAsg 0 [(sstr "topic1", [11])] (Some [])))]) = lit_mval1.
Proof. vm_compute. reflexivity. Qed.
(* TestKafkaClient_decodeMetadataValueHeaderV2 *)
Example anchor_meta_value_v2 :
  enc_meta_value 2
    (mkMV (sstr "consumer") 3 (sstr "range") (sstr "tLeader-a42d2baa-bfaa-4b96-9ea2-dee5f42b2ab2") 1552078883402
       [mkWM (sstr "tLeader-a42d2baa-bfaa-4b96-9ea2-dee5f42b2ab2") None (sstr "tMember") (sstr "/172.18.0.1")
          30000 30000 (Some lit_sub2)
          (Asg (mkAsg 0 [(sstr "testtopic", [0; 1; 2; 3; 4; 5; 6; 7; 8])] (Some [])))]) = lit_mval2.
Proof. vm_compute. reflexivity. Qed.
(* TestKafkaClient_decodeMetadataValueHeaderV3, TestKafkaClient_decodeMetadataMemberV3 *)
Example anchor_meta_value_v3 :
  enc_meta_value 3
    (mkMV (sstr "consumer") 1 (sstr "RoundRobinAssigner") (sstr "tLeader-a42d2baa-bfaa-4b96-9ea2-dee5f42b2ab2")
       1567112890219
       [mkWM (sstr "member") None (sstr "client") (sstr "/10.10.10.100") (-1) 30000 (Some lit_sub3)
          (Asg (mkAsg 1 [(sstr "topic1", [0])] (Some [])))]) = lit_mval3.
Proof. vm_compute. reflexivity. Qed.

(* and the decoder on them: what the unit tests assert *)
Example anchor_decode_offset :
  process_message (fun _ => true) lit_okey1 lit_oval0 8372
  = Done [SetConsumerOffset (str "testgroup") (str "testtopic") 11 8372 1637 8372] [9; 9; 8].
Proof. vm_compute. reflexivity. Qed.
Example anchor_decode_metadata :
  process_message (fun _ => true) lit_mkey lit_mval1 0
  = Done [SetConsumerOwner (str "testgroup") (str "topic1") 11 (str "testclienthost") (str "testclientid")]
         [9; 8; 12; 10; 12; 12; 14; 6; 4].
Proof. vm_compute. reflexivity. Qed.
