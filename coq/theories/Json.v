(* A pushdown recogniser for JSON well-formedness (the grammar of encoding/json's scanner, i.e. of
   json.Valid: RFC 8259 values, whitespace = space \t \r \n, no UTF-8 validation inside strings),
   run over characters and over output pieces with holes (Tmpl.piece). *)
From Coq Require Import NArith List Bool String Ascii.
From Burrow Require Import Tmpl.
Import ListNotations.
Open Scope N_scope.

Inductive frame := FObj | FArr.

Inductive numst := NMinus | NZero | NInt | NDot | NFrac | NExp | NExpSign | NExpDig.

Inductive mode :=
| MValue                      (* a value is expected *)
| MArrFirst                   (* after '[': a value or ']' *)
| MObjFirst                   (* after '{': a key or '}' *)
| MKey                        (* after ',' inside an object: a key *)
| MStr (key : bool)           (* inside a string (key: it is an object key) *)
| MEsc (key : bool)           (* after a backslash *)
| MHex (key : bool) (n : nat) (* inside \uXXXX, n hex digits still to come (n = 1..4) *)
| MColon                      (* after a key *)
| MAfter                      (* after a complete value *)
| MNum (s : numst)            (* inside a number *)
| MLit (rest : string).       (* inside true / false / null *)

Definition jstate := (mode * list frame)%type.

Definition is_ws (c : N) : bool := (c =? 32) || (c =? 9) || (c =? 10) || (c =? 13).
Definition is_digit (c : N) : bool := (48 <=? c) && (c <=? 57).
Definition is_digit19 (c : N) : bool := (49 <=? c) && (c <=? 57).
Definition is_hex (c : N) : bool :=
  is_digit c || ((97 <=? c) && (c <=? 102)) || ((65 <=? c) && (c <=? 70)).
Definition is_e (c : N) : bool := (c =? 101) || (c =? 69).
Definition is_sign (c : N) : bool := (c =? 43) || (c =? 45).
Definition is_escapable (c : N) : bool :=
  (c =? 34) || (c =? 92) || (c =? 47) || (c =? 98) || (c =? 102) || (c =? 110) || (c =? 114) || (c =? 116).

(* a character that may appear unescaped inside a JSON string without ending it *)
Definition safe_code (c : N) : bool := (32 <=? c) && negb (c =? 34) && negb (c =? 92).
Definition safe_char (a : ascii) : bool := safe_code (N_of_ascii a).
Fixpoint safe_string (s : string) : bool :=
  match s with EmptyString => true | String a r => safe_char a && safe_string r end.

Definition num_final (s : numst) : bool :=
  match s with NZero | NInt | NFrac | NExpDig => true | _ => false end.

Definition final_mode (m : mode) : bool :=
  match m with MAfter => true | MNum s => num_final s | _ => false end.

Definition start_value (c : N) (stk : list frame) : option jstate :=
  if c =? 34 then Some (MStr false, stk)
  else if c =? 123 then Some (MObjFirst, FObj :: stk)
  else if c =? 91 then Some (MArrFirst, FArr :: stk)
  else if c =? 45 then Some (MNum NMinus, stk)
  else if c =? 48 then Some (MNum NZero, stk)
  else if is_digit19 c then Some (MNum NInt, stk)
  else if c =? 116 then Some (MLit "rue", stk)
  else if c =? 102 then Some (MLit "alse", stk)
  else if c =? 110 then Some (MLit "ull", stk)
  else None.

Definition after_value (c : N) (stk : list frame) : option jstate :=
  if is_ws c then Some (MAfter, stk)
  else if c =? 44 then
    match stk with FObj :: _ => Some (MKey, stk) | FArr :: _ => Some (MValue, stk) | [] => None end
  else if c =? 125 then match stk with FObj :: r => Some (MAfter, r) | _ => None end
  else if c =? 93 then match stk with FArr :: r => Some (MAfter, r) | _ => None end
  else None.

Definition num_step (s : numst) (c : N) : option numst :=
  match s with
  | NMinus => if c =? 48 then Some NZero else if is_digit19 c then Some NInt else None
  | NZero => if c =? 46 then Some NDot else if is_e c then Some NExp else None
  | NInt => if is_digit c then Some NInt else if c =? 46 then Some NDot else if is_e c then Some NExp else None
  | NDot => if is_digit c then Some NFrac else None
  | NFrac => if is_digit c then Some NFrac else if is_e c then Some NExp else None
  | NExp => if is_sign c then Some NExpSign else if is_digit c then Some NExpDig else None
  | NExpSign => if is_digit c then Some NExpDig else None
  | NExpDig => if is_digit c then Some NExpDig else None
  end.

Definition json_step_code (st : jstate) (c : N) : option jstate :=
  let '(m, stk) := st in
  match m with
  | MValue => if is_ws c then Some (MValue, stk) else start_value c stk
  | MArrFirst =>
      if is_ws c then Some (MArrFirst, stk)
      else if c =? 93 then match stk with FArr :: r => Some (MAfter, r) | _ => None end
      else start_value c stk
  | MObjFirst =>
      if is_ws c then Some (MObjFirst, stk)
      else if c =? 125 then match stk with FObj :: r => Some (MAfter, r) | _ => None end
      else if c =? 34 then Some (MStr true, stk) else None
  | MKey => if is_ws c then Some (MKey, stk) else if c =? 34 then Some (MStr true, stk) else None
  | MStr k =>
      if c =? 34 then Some (if k then MColon else MAfter, stk)
      else if c =? 92 then Some (MEsc k, stk)
      else if c <? 32 then None else Some (MStr k, stk)
  | MEsc k => if is_escapable c then Some (MStr k, stk) else if c =? 117 then Some (MHex k 4, stk) else None
  | MHex k n =>
      if is_hex c then
        match n with
        | S (S n') => Some (MHex k (S n'), stk)
        | _ => Some (MStr k, stk)
        end
      else None
  | MColon => if is_ws c then Some (MColon, stk) else if c =? 58 then Some (MValue, stk) else None
  | MAfter => after_value c stk
  | MNum s =>
      match num_step s c with
      | Some s' => Some (MNum s', stk)
      | None => if num_final s then after_value c stk else None
      end
  | MLit rest =>
      match rest with
      | String a r => if c =? N_of_ascii a then Some (match r with EmptyString => MAfter | _ => MLit r end, stk) else None
      | EmptyString => None
      end
  end.

Definition json_step (st : jstate) (a : ascii) : option jstate := json_step_code st (N_of_ascii a).

Fixpoint json_run (st : jstate) (s : string) : option jstate :=
  match s with
  | EmptyString => Some st
  | String a r => match json_step st a with Some st' => json_run st' r | None => None end
  end.

Definition init : jstate := (MValue, []).

Definition accepting (st : jstate) : bool :=
  match st with (m, []) => final_mode m | _ => false end.

(* json.Valid *)
Definition json_valid (s : string) : bool :=
  match json_run init s with Some st => accepting st | None => false end.

(* --- number literals --------------------------------------------------------------------------- *)

(* a JSON number literal, stated without the pushdown machine: first character, then num_step *)
Definition num_start (c : N) : option numst :=
  if c =? 45 then Some NMinus else if c =? 48 then Some NZero else if is_digit19 c then Some NInt else None.

Fixpoint num_run (s : numst) (t : string) : option numst :=
  match t with
  | EmptyString => Some s
  | String a r => match num_step s (N_of_ascii a) with Some s' => num_run s' r | None => None end
  end.

Definition is_number (t : string) : bool :=
  match t with
  | EmptyString => false
  | String a r =>
      match num_start (N_of_ascii a) with
      | Some s => match num_run s r with Some s' => num_final s' | None => false end
      | None => false
      end
  end.

(* --- pieces with holes ---------------------------------------------------------------------- *)

(* StrHole: any JSON-string-safe text, only inside a string.
   NumHole: a number printed by Go: a whole value where a value is expected, or text inside a string.
   ValHole: json.Marshal output: a whole value where a value is expected. *)
Definition value_expected (m : mode) : bool :=
  match m with MValue | MArrFirst => true | _ => false end.

Definition piece_step (st : jstate) (p : piece) : option jstate :=
  match p with
  | Lit s => json_run st s
  | StrHole => match fst st with MStr _ => Some st | _ => None end
  | NumHole => match fst st with
               | MStr _ => Some st
               | m => if value_expected m then Some (MAfter, snd st) else None
               end
  | ValHole => if value_expected (fst st) then Some (MAfter, snd st) else None
  end.

Fixpoint pieces_run (st : jstate) (ps : list piece) : option jstate :=
  match ps with
  | [] => Some st
  | p :: r => match piece_step st p with Some st' => pieces_run st' r | None => None end
  end.

Definition pieces_valid (ps : list piece) : bool :=
  match pieces_run init ps with Some st => accepting st | None => false end.

(* The texts a list of pieces stands for.  The hole languages are the trusted description of what Go
   prints there: StrHole - any JSON-string-safe text (time.Format output, String methods);
   NumHole - a JSON number literal (fmt %v of Go integers and finite floats);
   ValHole - a text json.Valid accepts (json.Marshal output). *)
Inductive inst : list piece -> string -> Prop :=
| inst_nil : inst [] EmptyString
| inst_lit : forall s ps r, inst ps r -> inst (Lit s :: ps) (s ++ r)
| inst_str : forall h ps r, safe_string h = true -> inst ps r -> inst (StrHole :: ps) (h ++ r)
| inst_num : forall h ps r, is_number h = true -> inst ps r -> inst (NumHole :: ps) (h ++ r)
| inst_val : forall h ps r, json_valid h = true -> inst ps r -> inst (ValHole :: ps) (h ++ r).

(* --- abstract run of a template over the recogniser ------------------------------------------- *)

(* what an action of this static type prints *)
Definition hole_of (sch : schema) (st : sty) : option piece :=
  match s_ty st with
  | TStr => Some (if s_json st then ValHole else StrHole)
  | TInt _ | TFloat => Some NumHole
  | TNamed n => if is_named_int sch n then (if has_stringer sch n then Some StrHole else Some NumHole)
               else match tentry_of sch n with
                    | Some (mkTentry DOpaque _) => Some StrHole      (* time.Time printed by its String method *)
                    | _ => None
                    end
  | _ => None
  end.

Definition frame_eq_dec : forall a b : frame, {a = b} + {a <> b}.
Proof. decide equality. Defined.
Definition numst_eq_dec : forall a b : numst, {a = b} + {a <> b}.
Proof. decide equality. Defined.
Definition mode_eq_dec : forall a b : mode, {a = b} + {a <> b}.
Proof.
  decide equality; try apply Bool.bool_dec; try apply PeanoNat.Nat.eq_dec; try apply numst_eq_dec;
    apply String.string_dec.
Defined.
Definition jstate_eq_dec : forall a b : jstate, {a = b} + {a <> b}.
Proof. decide equality; [apply (list_eq_dec frame_eq_dec) | apply mode_eq_dec]. Defined.

(* a complete number may still be extended by digits; "after a value" is the state that only allows what
   both allow *)
Definition norm (x : jstate) : jstate :=
  match x with
  | (MNum s, k) => if num_final s then (MAfter, k) else x
  | _ => x
  end.

Definition join (x y : jstate) : option jstate :=
  if jstate_eq_dec x y then Some x
  else if jstate_eq_dec (norm x) (norm y) then Some (norm x) else None.

(* string constants written in the template itself may be printed: they must be JSON-string-safe *)
Definition arg_safe (a : arg) : bool := match a with AStr s => safe_string s | _ => true end.
Definition cmd_safe (c : cmd) : bool :=
  match c with
  | CArgs f r => arg_safe f && forallb arg_safe r
  | CCall _ args => forallb arg_safe args
  end.
Definition pipe_safe (p : pipe) : bool := forallb cmd_safe p.

Definition seq_arun (f : node -> jstate -> option jstate) : list node -> jstate -> option jstate :=
  fix go (ns : list node) (st : jstate) {struct ns} : option jstate :=
    match ns with
    | [] => Some st
    | n :: r => match f n st with Some st' => go r st' | None => None end
    end.

(* The recogniser state after the node, whatever the data: text is run, an action is a hole of its static
   type, the two branches of an if must meet in one state, the body of a range must come back to the state
   it started in (loop invariant: any number of iterations) and so must its else branch; the then-branch of an if
   and the body of a with are walked with their guard fact (Tmpl.check_node). *)
Fixpoint arun_node (sch : schema) (facts : list path) (dot : sty) (n : node) (st : jstate) {struct n}
  : option jstate :=
  match n with
  | NText s => json_run st s
  | NAction p =>
      if pipe_safe p then
        match ty_pipe sch facts dot p with
        | Some t => match hole_of sch t with Some h => piece_step st h | None => None end
        | None => None
        end
      else None
  | NIf p th el =>
      match ty_pipe sch facts dot p with
      | Some _ =>
          match seq_arun (arun_node sch (guard_fact sch facts dot p ++ facts) dot) th st,
                seq_arun (arun_node sch facts dot) el st with
          | Some a, Some b => join a b
          | _, _ => None
          end
      | None => None
      end
  | NRange p body el =>
      if pipe_safe p then
        match ty_pipe sch facts dot p with
        | Some (mkSty (TSlice et) pa _) =>
            match seq_arun (arun_node sch facts (mkSty et (path_app pa PElem) false)) body st,
                  seq_arun (arun_node sch facts dot) el st with
            | Some a, Some b => if jstate_eq_dec a st then join st b else None
            | _, _ => None
            end
        | _ => None
        end
      else None
  | NWith p body el =>
      if pipe_safe p then
        match ty_pipe sch facts dot p with
        | Some t =>
            if s_json t then None
            else match seq_arun (arun_node sch (path_fact t ++ facts) t) body st,
                       seq_arun (arun_node sch facts dot) el st with
                 | Some a, Some b => join a b
                 | _, _ => None
                 end
        | None => None
        end
      else None
  | NOther _ => None
  end.

Definition arun (sch : schema) (facts : list path) (t : tmpl) : option jstate :=
  seq_arun (arun_node sch facts (root_sty sch)) t init.

Definition names_safe (sch : schema) : bool :=
  forallb safe_string (sch_status_unknown sch :: sch_status_names sch).

Definition json_skeleton_ok (sch : schema) (facts : list path) (t : tmpl) : bool :=
  names_safe sch &&
  match arun sch facts t with
  | Some st => accepting st
  | None => false
  end.

(* JSON-safe data: every string is JSON-string-safe, every float finite, no marshalled text *)
Fixpoint safe_val (v : value) : bool :=
  match v with
  | VStr s => safe_string s
  | VAbsStr j => negb j
  | VFloat fin => fin
  | VPtr v => safe_val v
  | VStruct _ fs => forallb (fun p => safe_val (snd p)) fs
  | VSlice _ l => forallb safe_val l
  | VMap _ kv => forallb (fun p => safe_val (snd p)) kv
  | _ => true
  end.
