(* A pushdown recogniser for JSON well-formedness (the grammar of encoding/json's scanner, i.e. of
   json.Valid: RFC 8259 values, whitespace = space \t \r \n, no UTF-8 validation inside strings),
   run over characters and over output pieces with holes (Tmpl.piece). *)
From Coq Require Import NArith List Bool String Ascii.
From Burrow Require Import Tmpl.
Import ListNotations.
Open Scope N_scope.

Inductive frame := FObj | FArr.

Inductive numst := NMinus | NZero | NInt | NDot | NFrac | NExp | NExpSign | NExpDig.

Inductive mode :=
| MValue                      (* a value is expected *)
| MArrFirst                   (* after '[': a value or ']' *)
| MObjFirst                   (* after '{': a key or '}' *)
| MKey                        (* after ',' inside an object: a key *)
| MStr (key : bool)           (* inside a string (key: it is an object key) *)
| MEsc (key : bool)           (* after a backslash *)
| MHex (key : bool) (n : nat) (* inside \uXXXX, n hex digits still to come (n = 1..4) *)
| MColon                      (* after a key *)
| MAfter                      (* after a complete value *)
| MNum (s : numst)            (* inside a number *)
| MLit (rest : string).       (* inside true / false / null *)

Definition jstate := (mode * list frame)%type.

Definition is_ws (c : N) : bool := (c =? 32) || (c =? 9) || (c =? 10) || (c =? 13).
Definition is_digit (c : N) : bool := (48 <=? c) && (c <=? 57).
Definition is_digit19 (c : N) : bool := (49 <=? c) && (c <=? 57).
Definition is_hex (c : N) : bool :=
  is_digit c || ((97 <=? c) && (c <=? 102)) || ((65 <=? c) && (c <=? 70)).
Definition is_e (c : N) : bool := (c =? 101) || (c =? 69).
Definition is_sign (c : N) : bool := (c =? 43) || (c =? 45).
Definition is_escapable (c : N) : bool :=
  (c =? 34) || (c =? 92) || (c =? 47) || (c =? 98) || (c =? 102) || (c =? 110) || (c =? 114) || (c =? 116).

(* a character that may appear unescaped inside a JSON string without ending it *)
Definition safe_code (c : N) : bool := (32 <=? c) && negb (c =? 34) && negb (c =? 92).
Definition safe_char (a : ascii) : bool := safe_code (N_of_ascii a).
Fixpoint safe_string (s : string) : bool :=
  match s with EmptyString => true | String a r => safe_char a && safe_string r end.

Definition num_final (s : numst) : bool :=
  match s with NZero | NInt | NFrac | NExpDig => true | _ => false end.

Definition final_mode (m : mode) : bool :=
  match m with MAfter => true | MNum s => num_final s | _ => false end.

Definition start_value (c : N) (stk : list frame) : option jstate :=
  if c =? 34 then Some (MStr false, stk)
  else if c =? 123 then Some (MObjFirst, FObj :: stk)
  else if c =? 91 then Some (MArrFirst, FArr :: stk)
  else if c =? 45 then Some (MNum NMinus, stk)
  else if c =? 48 then Some (MNum NZero, stk)
  else if is_digit19 c then Some (MNum NInt, stk)
  else if c =? 116 then Some (MLit "rue", stk)
  else if c =? 102 then Some (MLit "alse", stk)
  else if c =? 110 then Some (MLit "ull", stk)
  else None.

Definition after_value (c : N) (stk : list frame) : option jstate :=
  if is_ws c then Some (MAfter, stk)
  else if c =? 44 then
    match stk with FObj :: _ => Some (MKey, stk) | FArr :: _ => Some (MValue, stk) | [] => None end
  else if c =? 125 then match stk with FObj :: r => Some (MAfter, r) | _ => None end
  else if c =? 93 then match stk with FArr :: r => Some (MAfter, r) | _ => None end
  else None.

Definition num_step (s : numst) (c : N) : option numst :=
  match s with
  | NMinus => if c =? 48 then Some NZero else if is_digit19 c then Some NInt else None
  | NZero => if c =? 46 then Some NDot else if is_e c then Some NExp else None
  | NInt => if is_digit c then Some NInt else if c =? 46 then Some NDot else if is_e c then Some NExp else None
  | NDot => if is_digit c then Some NFrac else None
  | NFrac => if is_digit c then Some NFrac else if is_e c then Some NExp else None
  | NExp => if is_sign c then Some NExpSign else if is_digit c then Some NExpDig else None
  | NExpSign => if is_digit c then Some NExpDig else None
  | NExpDig => if is_digit c then Some NExpDig else None
  end.

Definition json_step_code (st : jstate) (c : N) : option jstate :=
  let '(m, stk) := st in
  match m with
  | MValue => if is_ws c then Some (MValue, stk) else start_value c stk
  | MArrFirst =>
      if is_ws c then Some (MArrFirst, stk)
      else if c =? 93 then match stk with FArr :: r => Some (MAfter, r) | _ => None end
      else start_value c stk
  | MObjFirst =>
      if is_ws c then Some (MObjFirst, stk)
      else if c =? 125 then match stk with FObj :: r => Some (MAfter, r) | _ => None end
      else if c =? 34 then Some (MStr true, stk) else None
  | MKey => if is_ws c then Some (MKey, stk) else if c =? 34 then Some (MStr true, stk) else None
  | MStr k =>
      if c =? 34 then Some (if k then MColon else MAfter, stk)
      else if c =? 92 then Some (MEsc k, stk)
      else if c <? 32 then None else Some (MStr k, stk)
  | MEsc k => if is_escapable c then Some (MStr k, stk) else if c =? 117 then Some (MHex k 4, stk) else None
  | MHex k n =>
      if is_hex c then
        match n with
        | S (S n') => Some (MHex k (S n'), stk)
        | _ => Some (MStr k, stk)
        end
      else None
  | MColon => if is_ws c then Some (MColon, stk) else if c =? 58 then Some (MValue, stk) else None
  | MAfter => after_value c stk
  | MNum s =>
      match num_step s c with
      | Some s' => Some (MNum s', stk)
      | None => if num_final s then after_value c stk else None
      end
  | MLit rest =>
      match rest with
      | String a r => if c =? N_of_ascii a then Some (match r with EmptyString => MAfter | _ => MLit r end, stk) else None
      | EmptyString => None
      end
  end.

Definition json_step (st : jstate) (a : ascii) : option jstate := json_step_code st (N_of_ascii a).

Fixpoint json_run (st : jstate) (s : string) : option jstate :=
  match s with
  | EmptyString => Some st
  | String a r => match json_step st a with Some st' => json_run st' r | None => None end
  end.

Definition init : jstate := (MValue, []).

Definition accepting (st : jstate) : bool :=
  match st with (m, []) => final_mode m | _ => false end.

(* json.Valid *)
Definition json_valid (s : string) : bool :=
  match json_run init s with Some st => accepting st | None => false end.

(* --- pieces with holes ---------------------------------------------------------------------- *)

(* StrHole: any JSON-string-safe text, only inside a string.
   NumHole: a number printed by Go: a whole value where a value is expected, or text inside a string.
   ValHole: json.Marshal output: a whole value where a value is expected. *)
Definition piece_step (st : jstate) (p : piece) : option jstate :=
  match p with
  | Lit s => json_run st s
  | StrHole => match fst st with MStr _ => Some st | _ => None end
  | NumHole => match fst st with MStr _ => Some st | MValue => Some (MAfter, snd st) | _ => None end
  | ValHole => match fst st with MValue => Some (MAfter, snd st) | _ => None end
  end.

Fixpoint pieces_run (st : jstate) (ps : list piece) : option jstate :=
  match ps with
  | [] => Some st
  | p :: r => match piece_step st p with Some st' => pieces_run st' r | None => None end
  end.

Definition pieces_valid (ps : list piece) : bool :=
  match pieces_run init ps with Some st => accepting st | None => false end.

(* --- the skeleton of a template ------------------------------------------------------------- *)

(* what an action of this static type prints *)
Definition hole_of (sch : schema) (st : sty) : option piece :=
  match s_ty st with
  | TStr => Some (if s_json st then ValHole else StrHole)
  | TInt _ | TFloat => Some NumHole
  | TNamed n => if is_named_int sch n then (if has_stringer sch n then Some StrHole else Some NumHole) else None
  | _ => None
  end.

(* every way the template text and holes can be laid out: if-branches are enumerated; range is
   not supported in a JSON template *)
Definition seq_skel (f : node -> option (list (list piece))) : list node -> option (list (list piece)) :=
  fix go (ns : list node) : option (list (list piece)) :=
    match ns with
    | [] => Some [[]]
    | n :: r =>
        match f n, go r with
        | Some a, Some b => Some (flat_map (fun x => map (fun y => x ++ y) b) a)
        | _, _ => None
        end
    end.

Fixpoint skel_node (sch : schema) (facts : list path) (dot : sty) (n : node) {struct n} : option (list (list piece)) :=
  match n with
  | NText s => Some [[Lit s]]
  | NAction p =>
      match ty_pipe sch facts dot p with
      | Some st => match hole_of sch st with Some h => Some [[h]] | None => None end
      | None => None
      end
  | NIf p th el =>
      match ty_pipe sch facts dot p, seq_skel (skel_node sch facts dot) th, seq_skel (skel_node sch facts dot) el with
      | Some _, Some a, Some b => Some (a ++ b)
      | _, _, _ => None
      end
  | NRange _ _ _ | NOther _ => None
  end.

Definition skel_list (sch : schema) (facts : list path) (dot : sty) : list node -> option (list (list piece)) :=
  seq_skel (skel_node sch facts dot).

Definition skeletons (sch : schema) (facts : list path) (t : tmpl) : option (list (list piece)) :=
  skel_list sch facts (root_sty sch) t.

Definition json_skeleton_ok (sch : schema) (facts : list path) (t : tmpl) : bool :=
  forallb safe_string (sch_status_unknown sch :: sch_status_names sch) &&
  match skeletons sch facts t with
  | Some sks => forallb pieces_valid sks
  | None => false
  end.
