(* C19 — configuration validation and start-up: executable model of

     core/burrow.go            newCoordinators (38-111), configureCoordinators incl. the deferred recover handler (113-130),
                               Start (146-203)
     core/internal/*/          every coordinator's and module's Configure (first panic wins)
     core/internal/helpers/    GetSaramaConfigFromClientProfile (sarama.go:67-148)

   and the declarative catalogue of documented requirements (`requirements`).

   Strings are atoms (interned by the driver, 0 = the empty string): configuration keys are looked up by viper, which is
   modelled, not verified.  Everything the real code computes with library code on the *structure* of a string (host:port
   syntax, zookeeper paths, regexp compilation, template parsing, file access, X509 key pairs, Kafka version parsing,
   reachability of brokers at start time) enters as a function field of the configuration record. *)
From Coq Require Import List ZArith Bool.
Import ListNotations.
Open Scope Z_scope.

Definition str := Z.
Definition is_empty (s : str) : bool := s =? 0.

(* class-name values; ClsOther = any string that is not one of the known class names (incl. the empty string) *)
Inductive cls := ClsInmemory | ClsCaching | ClsHttp | ClsEmail | ClsNull | ClsKafka | ClsKafkaZk | ClsOther.

(* auth-type of the email notifier after strings.ToLower (notifier/email.go:112) *)
Inductive auth := AuthNone | AuthPlain | AuthCramMD5 | AuthOther.

(* ------------------------------------------------------------------------------------------------------------------ *)
(* Panic sites = entries of the requirement catalogue; each cites the check in /repo.                                  *)
(* ------------------------------------------------------------------------------------------------------------------ *)
Inductive site :=
  (* zookeeper coordinator — only configured when a notifier section exists (core/burrow.go:42-55) *)
  | ZkNoServers            (* zookeeper/coordinator.go:62-64   "No Zookeeper servers specified" *)
  | ZkBadServers           (* zookeeper/coordinator.go:65-66   "Failed to validate Zookeeper servers" *)
  | ZkBadRoot              (* zookeeper/coordinator.go:69-72   "Zookeeper root path is not valid" *)
  (* storage *)
  | StorageCount           (* storage/coordinator.go:87-98     "Only one storage module must be configured" *)
  | StorageClass           (* storage/coordinator.go:72-73     "Unknown storage className provided" *)
  | StorageWorkers         (* storage/inmemory.go:133-136      "must be configured with at least one worker" (fix: 746d605) *)
  | StorageIntervals       (* storage/inmemory.go:137-140      "must be configured with at least one interval" (fix: c110ef6) *)
  | StorageQueueDepth      (* storage/inmemory.go:142          make(chan, queue-depth) with a negative size: runtime error *)
  | StorageLegacy          (* storage/inmemory.go:139-142      group-whitelist / group-blacklist *)
  | StorageAllow           (* storage/inmemory.go:144-152      group-allowlist does not compile *)
  | StorageDeny            (* storage/inmemory.go:154-162      group-denylist does not compile *)
  (* evaluator *)
  | EvaluatorCount         (* evaluator/coordinator.go:86-98   "Only one evaluator module must be configured" *)
  | EvaluatorClass         (* evaluator/coordinator.go:70-71   "Unknown evaluator className provided" *)
  | EvaluatorCache         (* evaluator/caching.go:72-80       goswarm refuses a negative expiry: "Failed to start cache" *)
  (* httpserver *)
  | HttpAddress            (* httpserver/coordinator.go:78-81  "invalid HTTP server listener address" *)
  | HttpCaFile             (* httpserver/coordinator.go:100-104 "cannot read TLS CA file" *)
  | HttpNoCert             (* httpserver/coordinator.go:110-112 "TLS HTTP server specified with missing certificate or key" *)
  | HttpKeyPair            (* httpserver/coordinator.go:113-116 "cannot read TLS certificate or key file" *)
  (* notifier coordinator (per module) *)
  | NotifierInterval       (* notifier/coordinator.go:178-184  "invalid interval (must be between 1 and 9223372036 seconds)" (fix: 38fa1ff) *)
  | NotifierLegacy         (* notifier/coordinator.go:189-193  group-whitelist / group-blacklist *)
  | NotifierAllow          (* notifier/coordinator.go:196-205  group-allowlist does not compile *)
  | NotifierDeny           (* notifier/coordinator.go:208-217  group-denylist does not compile *)
  | NotifierTemplateOpen   (* notifier/coordinator.go:224-230  "Failed to compile TemplateOpen" *)
  | NotifierTemplateClose  (* notifier/coordinator.go:232-239  "Failed to compile TemplateClose" (only with send-close) *)
  | NotifierClass          (* notifier/coordinator.go:138-139  "Unknown notifier className provided" *)
  | NotifierUrlOpen        (* notifier/http.go:64-68           "no url-open specified" *)
  | NotifierUrlClose       (* notifier/http.go:73-79           "no url-close specified" (only with send-close) *)
  | NotifierExtraCa        (* notifier/helpers.go:133-138      log.Panicf "Failed to append ... to RootCAs" (unless noverify) *)
  | EmailServer            (* notifier/email.go:65-73          "bad server or port" *)
  | EmailFrom              (* notifier/email.go:75-79          "missing from address" *)
  | EmailTo                (* notifier/email.go:81-85          "missing to address" *)
  | EmailAuth              (* notifier/email.go:112-122        "unknown auth type" *)
  (* client profiles (helpers/sarama.go), reached from cluster and kafka consumer modules *)
  | ProfileUnknown         (* helpers/sarama.go:70-72          "unknown client-profile" *)
  | ProfileVersion         (* helpers/sarama.go:49-56          "Unknown Kafka Version" *)
  | ProfileCaFile          (* helpers/sarama.go:94-97          "cannot read TLS CA file" *)
  | ProfileKeyPair         (* helpers/sarama.go:104-108        "cannot read TLS certificate or key file" *)
  (* cluster *)
  | ClusterClass           (* cluster/coordinator.go:64-65     "Unknown cluster className provided" *)
  | ClusterNoServers       (* cluster/kafka_cluster.go:68-70   "No Kafka brokers specified for cluster" *)
  | ClusterBadServers      (* cluster/kafka_cluster.go:71-72   "improperly formatted servers" *)
  | ClusterRefresh         (* cluster/kafka_cluster.go:83-86   offset-refresh / topic-refresh below 1 second (fix: 4350030) *)
  | ClusterReaperRefresh   (* cluster/kafka_cluster.go:87-89   negative groups-reaper-refresh (fix: 4350030) *)
  (* consumer *)
  | ConsumerCluster        (* consumer/coordinator.go:87-89, kafka_client.go:97-100  "references an unknown cluster" *)
  | ConsumerClass          (* consumer/coordinator.go:71-72    "Unknown consumer className provided" *)
  | ConsumerNoServers      (* consumer/kafka_client.go:105-107, kafka_zk_client.go:75-77 *)
  | ConsumerBadServers     (* consumer/kafka_client.go:108-109, kafka_zk_client.go:78-79 *)
  | ConsumerZkPath         (* consumer/kafka_zk_client.go:85-90 "bad zookeeper path configuration" *)
  | ConsumerLegacy         (* consumer/kafka_client.go:119-123, kafka_zk_client.go:92-96 *)
  | ConsumerAllow          (* consumer/kafka_client.go:125-133, kafka_zk_client.go:98-106 *)
  | ConsumerDeny           (* consumer/kafka_client.go:135-143, kafka_zk_client.go:108-116 *)
  (* the old recover handler's own failure: r.(string) on a non-string value (core/burrow.go:117 before the fix) *)
  | HandlerAssertion.

(* A violated requirement: which one, and in which module (0 = the coordinator itself). *)
Definition violation := (site * str)%type.

(* What Configure panics with.  The kind matters to the recover handler of configureCoordinators:
     PanicString  panic("...") / log.Panicf        — a Go string
     PanicError   panic(err) or a runtime error    — an error value
     PanicZap     zap Logger.Panic(msg)            — logs at panic level, then panics with the message (a string) *)
Inductive panic :=
  | PanicString (s : site) (m : str)
  | PanicError (s : site) (m : str)
  | PanicZap (s : site) (m : str).

Definition panic_violation (p : panic) : violation :=
  match p with PanicString s m | PanicError s m | PanicZap s m => (s, m) end.

(* ------------------------------------------------------------------------------------------------------------------ *)
(* The configuration                                                                                                   *)
(* ------------------------------------------------------------------------------------------------------------------ *)
Record storage_mod := {
  st_name : str; st_class : cls;
  st_workers : Z;                     (* effective value (default 20): Start makes that many channels and goroutines *)
  st_intervals : Z;                   (* effective value (default 10): size of every partition's offset ring *)
  st_queue_depth : Z;                 (* effective value (default 1) *)
  st_legacy : bool;                   (* group-whitelist or group-blacklist is set *)
  st_allow : str; st_deny : str }.

Record evaluator_mod := {
  ev_name : str; ev_class : cls;
  ev_expire : Z }.                    (* effective expire-cache (default 10) *)

Record listener := {
  hs_name : str; hs_addr : str;
  hs_tls : option str }.              (* Some profile when httpserver.<name>.tls is set *)

Record notifier_mod := {
  nt_name : str; nt_class : cls;
  nt_interval : Z;                    (* effective value in seconds (default 60) *)
  nt_legacy : bool; nt_allow : str; nt_deny : str;
  nt_template_open : str; nt_send_close : bool; nt_template_close : str;
  nt_url_open : str; nt_url_close : str;            (* http *)
  nt_extra_ca : str; nt_noverify : bool;            (* http and email *)
  nt_server : str; nt_port : Z; nt_from : str; nt_to : str; nt_auth : auth }.   (* email *)

Record cluster_mod := {
  cl_name : str; cl_class : cls; cl_profile : str; cl_servers : list str;
  cl_offset_refresh : Z; cl_topic_refresh : Z;     (* effective values in seconds (defaults 10, 60): ticker periods of Start *)
  cl_reaper_refresh : Z }.                         (* default 0 = no groups reaper *)

Record consumer_mod := {
  cn_name : str; cn_class : cls; cn_cluster : str; cn_profile : str; cn_servers : list str;
  cn_zkpath : str;                    (* zookeeper-path (kafka_zk); "/consumers" is appended before validation *)
  cn_legacy : bool; cn_allow : str; cn_deny : str }.

Record client_profile := {
  cp_name : str;
  cp_version : option str;            (* None: default "2.8.0" *)
  cp_tls : option str; cp_sasl : option str }.

Record sasl_profile := { sp_name : str; sp_mechanism : str }.    (* never validated at configure time *)

Record tls_profile := { tp_name : str; tp_cert : str; tp_key : str; tp_ca : str }.

Record config := {
  cfg_notifier_table : bool;          (* a [notifier] table is present, possibly without modules *)
  cfg_zk_servers : list str;
  cfg_zk_root : option str;           (* None: default "/burrow" *)
  cfg_zk_tls : option str;            (* Some profile when zookeeper.tls is set (looked at by Start, not by Configure) *)
  cfg_storage : list storage_mod;
  cfg_evaluator : list evaluator_mod;
  cfg_http : list listener;
  cfg_notifier : list notifier_mod;
  cfg_cluster : list cluster_mod;
  cfg_consumer : list consumer_mod;
  cfg_profiles : list client_profile;
  cfg_sasl : list sasl_profile;
  cfg_tls : list tls_profile;
  cfg_files : list str;               (* the readable files *)
  (* oracles: library behaviour on string structure / the outside world *)
  regex_ok : str -> bool;             (* regexp.Compile succeeds *)
  template_ok : str -> bool;          (* template ParseFiles(path) succeeds and yields a template *)
  hostport_ok : str -> bool;          (* helpers.ValidateHostPort(s, false) *)
  listen_ok : str -> bool;            (* helpers.ValidateHostPort(s, true) *)
  zkpath_ok : str -> bool;            (* helpers.ValidateZookeeperPath(s) *)
  zkroot_trivial : str -> bool;       (* s == "/": createRecursive has nothing to create (zookeeper/coordinator.go:119-121) *)
  zkcons_ok : str -> bool;            (* helpers.ValidateZookeeperPath(s + "/consumers") *)
  kversion_ok : str -> bool;          (* parseKafkaVersion(s) returns *)
  mail_ok : str -> Z -> bool;         (* ValidateHostList([server:port]) *)
  keypair_ok : str -> str -> bool;    (* tls.LoadX509KeyPair(cert, key) succeeds *)
  ca_pem_ok : str -> bool;            (* the file is readable and AppendCertsFromPEM finds a certificate in it *)
  reachable : list str -> bool }.     (* start time: a client for these servers can be created *)

(* Go ranges over maps in an unspecified order: the sequence in which each coordinator visits its modules is an explicit
   argument.  It is a permutation of the configured modules (order_ok in ConfigValidProofs). *)
Record order := {
  ord_storage : list storage_mod;
  ord_evaluator : list evaluator_mod;
  ord_http : list listener;
  ord_notifier : list notifier_mod;
  ord_cluster : list cluster_mod;
  ord_consumer : list consumer_mod }.

Definition canonical_order (c : config) : order :=
  {| ord_storage := cfg_storage c; ord_evaluator := cfg_evaluator c; ord_http := cfg_http c;
     ord_notifier := cfg_notifier c; ord_cluster := cfg_cluster c; ord_consumer := cfg_consumer c |}.

Definition reverse_order (c : config) : order :=
  {| ord_storage := rev (cfg_storage c); ord_evaluator := rev (cfg_evaluator c); ord_http := rev (cfg_http c);
     ord_notifier := rev (cfg_notifier c); ord_cluster := rev (cfg_cluster c); ord_consumer := rev (cfg_consumer c) |}.

(* ------------------------------------------------------------------------------------------------------------------ *)
(* Lookups (viper, modelled)                                                                                           *)
(* ------------------------------------------------------------------------------------------------------------------ *)
Definition mem (x : str) (l : list str) : bool := existsb (Z.eqb x) l.
Definition file_ok (c : config) (f : str) : bool := mem f (cfg_files c).

Definition have_notifiers (c : config) : bool :=            (* viper.IsSet("notifier")   core/burrow.go:42 *)
  cfg_notifier_table c || match cfg_notifier c with [] => false | _ => true end.

Definition empty_tls : tls_profile := {| tp_name := 0; tp_cert := 0; tp_key := 0; tp_ca := 0 |}.
Definition find_tls (c : config) (n : str) : tls_profile :=  (* viper.GetString("tls."+n+".x") = "" when unset *)
  match find (fun t => tp_name t =? n) (cfg_tls c) with Some t => t | None => empty_tls end.

Definition find_profile (c : config) (n : str) : option client_profile :=
  find (fun p => cp_name p =? n) (cfg_profiles c).

Definition cluster_known (c : config) (n : str) : bool :=    (* viper.IsSet("cluster." + n) *)
  negb (is_empty n) && existsb (fun m => cl_name m =? n) (cfg_cluster c).

Definition servers_ok (c : config) (l : list str) : bool := forallb (hostport_ok c) l.   (* helpers.ValidateHostList *)
Definition nonempty {A} (l : list A) : bool := match l with [] => false | _ => true end.
Definition pattern_ok (c : config) (s : str) : bool := is_empty s || regex_ok c s.

(* ------------------------------------------------------------------------------------------------------------------ *)
(* Configure: first failure wins                                                                                       *)
(* ------------------------------------------------------------------------------------------------------------------ *)
Definition guard (ok : bool) (p : panic) (k : option panic) : option panic := if ok then k else Some p.

Fixpoint scan {A} (f : A -> option panic) (l : list A) : option panic :=
  match l with
  | [] => None
  | x :: r => match f x with Some p => Some p | None => scan f r end
  end.

(* the elements visited by scan (up to and including the first failure) *)
Fixpoint scan_prefix {A} (f : A -> option panic) (l : list A) : list A :=
  match l with
  | [] => []
  | x :: r => match f x with Some _ => [x] | None => x :: scan_prefix f r end
  end.

(* zookeeper/coordinator.go:48-75 *)
Definition configure_zookeeper (c : config) : option panic :=
  guard (nonempty (cfg_zk_servers c)) (PanicString ZkNoServers 0)
  (guard (servers_ok c (cfg_zk_servers c)) (PanicString ZkBadServers 0)
  (guard (match cfg_zk_root c with None => true | Some p => zkpath_ok c p end) (PanicString ZkBadRoot 0)
   None)).

(* storage/inmemory.go:117-163 (class check: storage/coordinator.go:60-75) *)
Definition configure_storage_mod (c : config) (m : storage_mod) : option panic :=
  guard (match st_class m with ClsInmemory => true | _ => false end) (PanicString StorageClass (st_name m))
  (guard (1 <=? st_workers m) (PanicString StorageWorkers (st_name m))
  (guard (1 <=? st_intervals m) (PanicString StorageIntervals (st_name m))
  (guard (0 <=? st_queue_depth m) (PanicError StorageQueueDepth (st_name m))
  (guard (negb (st_legacy m)) (PanicZap StorageLegacy (st_name m))
  (guard (pattern_ok c (st_allow m)) (PanicZap StorageAllow (st_name m))
  (guard (pattern_ok c (st_deny m)) (PanicZap StorageDeny (st_name m))
   None)))))).

(* storage/coordinator.go:81-107: no module = default inmemory module, which configures without failure *)
Definition configure_storage (o : order) (c : config) : option panic :=
  guard (Nat.leb (length (cfg_storage c)) 1) (PanicString StorageCount 0)
  (scan (configure_storage_mod c) (ord_storage o)).

(* evaluator/caching.go:57-82 (class check: evaluator/coordinator.go:59-73) *)
Definition configure_evaluator_mod (c : config) (m : evaluator_mod) : option panic :=
  guard (match ev_class m with ClsCaching => true | _ => false end) (PanicString EvaluatorClass (ev_name m))
  (guard (0 <=? ev_expire m) (PanicZap EvaluatorCache (ev_name m))
   None).

Definition configure_evaluator (o : order) (c : config) : option panic :=
  guard (Nat.leb (length (cfg_evaluator c)) 1) (PanicString EvaluatorCount 0)
  (scan (configure_evaluator_mod c) (ord_evaluator o)).

(* httpserver/coordinator.go:72-118; no listener = default ":0", which validates *)
Definition configure_listener (c : config) (l : listener) : option panic :=
  guard (listen_ok c (hs_addr l)) (PanicString HttpAddress (hs_name l))
  match hs_tls l with
  | None => None
  | Some t =>
      let p := find_tls c t in
      guard (is_empty (tp_ca p) || file_ok c (tp_ca p)) (PanicString HttpCaFile (hs_name l))
      (guard (negb (is_empty (tp_cert p)) && negb (is_empty (tp_key p))) (PanicString HttpNoCert (hs_name l))
      (guard (keypair_ok c (tp_cert p) (tp_key p)) (PanicString HttpKeyPair (hs_name l))
       None))
  end.

Definition configure_httpserver (o : order) (c : config) : option panic :=
  scan (configure_listener c) (ord_http o).

(* notifier/helpers.go:124-146 buildRootCAs *)
Definition extra_ca_ok (c : config) (m : notifier_mod) : bool :=
  is_empty (nt_extra_ca m) || nt_noverify m || file_ok c (nt_extra_ca m).

(* notifier/http.go:60-101 *)
Definition configure_http_notifier (c : config) (m : notifier_mod) : option panic :=
  guard (negb (is_empty (nt_url_open m))) (PanicZap NotifierUrlOpen (nt_name m))
  (guard (negb (nt_send_close m) || negb (is_empty (nt_url_close m))) (PanicZap NotifierUrlClose (nt_name m))
  (guard (extra_ca_ok c m) (PanicString NotifierExtraCa (nt_name m))
   None)).

(* notifier/email.go:57-125 (getSMTPAuth runs before the TLS configuration is built) *)
Definition configure_email_notifier (c : config) (m : notifier_mod) : option panic :=
  guard (mail_ok c (nt_server m) (nt_port m)) (PanicZap EmailServer (nt_name m))
  (guard (negb (is_empty (nt_from m))) (PanicZap EmailFrom (nt_name m))
  (guard (negb (is_empty (nt_to m))) (PanicZap EmailTo (nt_name m))
  (guard (match nt_auth m with AuthOther => false | _ => true end) (PanicZap EmailAuth (nt_name m))
  (guard (extra_ca_ok c m) (PanicString NotifierExtraCa (nt_name m))
   None)))).

(* notifier/coordinator.go:179-250: the body of the loop over the modules *)
Definition max_interval : Z := 9223372036.      (* math.MaxInt64 / int64(time.Second) *)
Definition interval_ok (m : notifier_mod) : bool := (1 <=? nt_interval m) && (nt_interval m <=? max_interval).

Definition configure_notifier_mod (c : config) (m : notifier_mod) : option panic :=
  guard (interval_ok m) (PanicString NotifierInterval (nt_name m))
  (guard (negb (nt_legacy m)) (PanicZap NotifierLegacy (nt_name m))
  (guard (pattern_ok c (nt_allow m)) (PanicZap NotifierAllow (nt_name m))
  (guard (pattern_ok c (nt_deny m)) (PanicZap NotifierDeny (nt_name m))
  (guard (template_ok c (nt_template_open m)) (PanicZap NotifierTemplateOpen (nt_name m))
  (guard (negb (nt_send_close m) || template_ok c (nt_template_close m)) (PanicZap NotifierTemplateClose (nt_name m))
   match nt_class m with
   | ClsHttp => configure_http_notifier c m
   | ClsEmail => configure_email_notifier c m
   | ClsNull => None
   | _ => Some (PanicString NotifierClass (nt_name m))
   end))))).

Definition configure_notifier (o : order) (c : config) : option panic :=
  scan (configure_notifier_mod c) (ord_notifier o).

(* helpers/sarama.go:67-148 GetSaramaConfigFromClientProfile *)
Definition configure_profile (c : config) (who : str) (n : str) : option panic :=
  if is_empty n then None       (* "client-profile." : nothing is set below it, the defaults apply *)
  else match find_profile c n with
  | None => Some (PanicString ProfileUnknown who)
  | Some p =>
      guard (match cp_version p with None => true | Some v => kversion_ok c v end) (PanicString ProfileVersion who)
      match cp_tls p with
      | None => None
      | Some t =>
          let tp := find_tls c t in
          if is_empty (tp_ca tp) then None
          else guard (file_ok c (tp_ca tp)) (PanicString ProfileCaFile who)
               (if negb (is_empty (tp_cert tp)) && negb (is_empty (tp_key tp))
                then guard (keypair_ok c (tp_cert tp) (tp_key tp)) (PanicString ProfileKeyPair who) None
                else None)
      end
  end.

(* cluster/kafka_cluster.go:58-82 (class check: cluster/coordinator.go:52-67) *)
Definition configure_cluster_mod (c : config) (m : cluster_mod) : option panic :=
  guard (match cl_class m with ClsKafka => true | _ => false end) (PanicString ClusterClass (cl_name m))
  match configure_profile c (cl_name m) (cl_profile m) with
  | Some p => Some p
  | None =>
      guard (nonempty (cl_servers m)) (PanicString ClusterNoServers (cl_name m))
      (guard (servers_ok c (cl_servers m)) (PanicString ClusterBadServers (cl_name m))
      (guard ((1 <=? cl_offset_refresh m) && (1 <=? cl_topic_refresh m)) (PanicString ClusterRefresh (cl_name m))
      (guard (0 <=? cl_reaper_refresh m) (PanicString ClusterReaperRefresh (cl_name m))
       None)))
  end.

Definition configure_cluster (o : order) (c : config) : option panic :=
  scan (configure_cluster_mod c) (ord_cluster o).

(* common tail of both consumer classes: legacy keys, allowlist, denylist *)
Definition configure_consumer_lists (c : config) (m : consumer_mod) : option panic :=
  guard (negb (cn_legacy m)) (PanicZap ConsumerLegacy (cn_name m))
  (guard (pattern_ok c (cn_allow m)) (PanicZap ConsumerAllow (cn_name m))
  (guard (pattern_ok c (cn_deny m)) (PanicZap ConsumerDeny (cn_name m))
   None)).

Definition configure_consumer_servers (c : config) (m : consumer_mod) (k : option panic) : option panic :=
  guard (nonempty (cn_servers m)) (PanicString ConsumerNoServers (cn_name m))
  (guard (servers_ok c (cn_servers m)) (PanicString ConsumerBadServers (cn_name m))
   k).

(* consumer/coordinator.go:79-96, kafka_client.go:90-144, kafka_zk_client.go:66-117 *)
Definition configure_consumer_mod (c : config) (m : consumer_mod) : option panic :=
  guard (cluster_known c (cn_cluster m)) (PanicString ConsumerCluster (cn_name m))
  match cn_class m with
  | ClsKafka =>
      match configure_profile c (cn_name m) (cn_profile m) with
      | Some p => Some p
      | None => configure_consumer_servers c m (configure_consumer_lists c m)
      end
  | ClsKafkaZk =>
      configure_consumer_servers c m
        (guard (zkcons_ok c (cn_zkpath m)) (PanicString ConsumerZkPath (cn_name m))
           (configure_consumer_lists c m))
  | _ => Some (PanicString ConsumerClass (cn_name m))
  end.

Definition configure_consumer (o : order) (c : config) : option panic :=
  scan (configure_consumer_mod c) (ord_consumer o).

(* ------------------------------------------------------------------------------------------------------------------ *)
(* core/burrow.go                                                                                                      *)
(* ------------------------------------------------------------------------------------------------------------------ *)
Inductive coord := CZookeeper | CStorage | CEvaluator | CHttpserver | CNotifier | CCluster | CConsumer.

(* newCoordinators, core/burrow.go:38-111 *)
Definition coordinators (c : config) : list coord :=
  (if have_notifiers c then [CZookeeper] else []) ++
  [CStorage; CEvaluator; CHttpserver] ++
  (if have_notifiers c then [CNotifier] else []) ++
  [CCluster; CConsumer].

Definition configure_coord (o : order) (c : config) (k : coord) : option panic :=
  match k with
  | CZookeeper => configure_zookeeper c
  | CStorage => configure_storage o c
  | CEvaluator => configure_evaluator o c
  | CHttpserver => configure_httpserver o c
  | CNotifier => configure_notifier o c
  | CCluster => configure_cluster o c
  | CConsumer => configure_consumer o c
  end.

(* the loop of configureCoordinators, core/burrow.go:126-128 *)
Definition configure_all (o : order) (c : config) : option panic :=
  scan (configure_coord o c) (coordinators c).

(* coordinators whose Configure was entered (they log "configuring") *)
Definition configured (o : order) (c : config) : list coord :=
  scan_prefix (configure_coord o c) (coordinators c).

(* The caller's ApplicationContext when Start is entered.  Start is exported ("it is possible to use Burrow as a
   library"), so the context need not be fresh: it may have been constructed with any field values, or be the one an
   earlier Start returned from.  Of its fields (core/protocol/protocol.go:25-65)
     Logger, LogLevel                   nil => Start builds a fresh context of its own (core/burrow.go:148-153); otherwise
                                        only used for logging
     ConfigurationValid                 READ at core/burrow.go:176 after configureCoordinators        <- the input below
     EvaluatorChannel, StorageChannel   overwritten at core/burrow.go:171-172 before any coordinator sees them
     Zookeeper, ZookeeperRoot, ZookeeperConnected, ZookeeperExpired
                                        written by the zookeeper coordinator's Configure / Start before the notifier
                                        coordinator (the only reader; it exists only together with the zookeeper one) runs
     AppReady                           written by consumer.Coordinator.Start, read only by the /burrow/admin/ready handler
   only ConfigurationValid can carry information from before the call into Start's decision. *)
Record app_state := { app_valid : bool }.          (* app.ConfigurationValid on entry *)

Definition fresh_app : app_state := {| app_valid := false |}.       (* &protocol.ApplicationContext{Logger: .., LogLevel: ..} *)
(* not fresh: constructed with the flag set, or left behind by an earlier Start that got past configuration *)
Definition used_app : app_state := {| app_valid := true |}.

(* Outcome of configureCoordinators as a whole: it returns with app.ConfigurationValid = valid, or a panic leaves it. *)
Inductive configured_result := CfgReturn (valid : bool) | CfgPanic (p : panic).

(* The deferred recover handler; its second argument is app.ConfigurationValid as it is when the handler runs (nothing
   has written it since Start was entered: the assignment of the happy path comes after the loop). *)
Definition handler := panic -> bool -> configured_result.

(* The handler as fixed (core/burrow.go:116-123):
       app.Logger.Error("invalid configuration", zap.String("error", fmt.Sprintf("%v", r)))
       app.ConfigurationValid = false
   Formatting with %v is total on every value; nothing panics again; the flag is RESET, whatever it was. *)
Definition handler_fixed : handler := fun _ _ => CfgReturn false.

(* The handler of the unchanged tree:
       app.Logger.Panic(r.(string))
       app.ConfigurationValid = false
   For a string (plain or from zap) Logger.Panic logs and panics again with that string; for an error value the type
   assertion r.(string) itself raises a runtime error.  The assignment is never reached. *)
Definition handler_old : handler := fun p _ =>
  match p with
  | PanicString s m | PanicZap s m => CfgPanic (PanicZap s m)
  | PanicError _ m => CfgPanic (PanicError HandlerAssertion m)
  end.

(* NOT in /repo — a handler that logs and returns but leaves the flag alone.  It passes every test that starts from a
   fresh context; kept to show (ConfigValidProofs.noreset_handler_accepts_invalid) that the initial state is a genuine
   input of the property and why the probe varies it. *)
Definition handler_noreset : handler := fun _ v => CfgReturn v.

Definition configure_coordinators (h : handler) (o : order) (c : config) (a : app_state) : configured_result :=
  match configure_all o c with
  | None => CfgReturn true                  (* core/burrow.go:129 *)
  | Some p => h p (app_valid a)             (* deferred func *)
  end.

(* helpers/zookeeper.go:46-93 ZookeeperConnectTLS / newTLSDialer: the files of the zookeeper.tls profile are read when the
   coordinator is started; an error makes Start return it (zookeeper/coordinator.go:85-89, after `fix:` 83bca4d; the
   unchanged tree logged it with Log.Panic, and the panic left core.Start). *)
Definition zookeeper_tls_ok (c : config) : bool :=
  match cfg_zk_tls c with
  | None => true
  | Some t =>
      let p := find_tls c t in
      ca_pem_ok c (tp_ca p) &&
      (is_empty (tp_cert p) || is_empty (tp_key p) || keypair_ok c (tp_cert p) (tp_key p))
  end.

(* zookeeper/coordinator.go:92-96,118-139 createRecursive(zookeeper.root-path): for "/" it returns at once; for every other
   path it asks the ensemble (Exists / Create), and with no server reachable the request is answered with an error
   ("zk: could not connect to a server"), which Start returns.  The default root path is "/burrow". *)
Definition zookeeper_root_ok (c : config) : bool :=
  match cfg_zk_root c with Some p => zkroot_trivial c p | None => false end || reachable c (cfg_zk_servers c).

(* What a coordinator's Start does: returns nil, returns an error, or panics (core.Start has no recover around the start
   loop, so such a panic leaves it). *)
Inductive start_outcome := StartOk | StartError | StartPanic (p : panic).

(* storage/inmemory.go:190-196 InMemoryStorage.Start: make([]chan ..., numWorkers) raises a runtime error for a negative
   count.  (Configure refuses workers < 1 since 746d605, so this is dead for accepted configurations: start_accepted_no_panic.) *)
Definition start_storage_mod (m : storage_mod) : option panic :=
  if st_workers m <? 0 then Some (PanicError StorageWorkers (st_name m)) else None.

(* cluster/kafka_cluster.go:91-131 KafkaCluster.Start: sarama.NewClient fails on unreachable brokers (error); once connected,
   time.NewTicker panics for a non-positive offset-refresh / topic-refresh and for a negative groups-reaper-refresh
   (0 = reaper off).  helpers.StartCoordinatorModules stops at the first module that does not start. *)
Definition cluster_tickers_ok (m : cluster_mod) : bool :=
  (1 <=? cl_offset_refresh m) && (1 <=? cl_topic_refresh m) && (0 <=? cl_reaper_refresh m).

Fixpoint start_clusters (c : config) (l : list cluster_mod) : start_outcome :=
  match l with
  | [] => StartOk
  | m :: r =>
      if reachable c (cl_servers m)
      then (if cluster_tickers_ok m then start_clusters c r else StartPanic (PanicString ClusterRefresh (cl_name m)))
      else StartError
  end.

(* Start of one coordinator.  In the model the Kafka clients fail on unreachable brokers (sarama.NewClient), and the
   zookeeper coordinator on unusable TLS files or when it has to create its root path on an unreachable ensemble; the
   connection itself is set up asynchronously, and the OS is assumed to grant the listeners. *)
Definition start_coord (o : order) (c : config) (k : coord) : start_outcome :=
  match k with
  | CZookeeper => if zookeeper_tls_ok c && zookeeper_root_ok c then StartOk else StartError
  | CStorage => match scan start_storage_mod (ord_storage o) with Some p => StartPanic p | None => StartOk end
  | CCluster => start_clusters c (ord_cluster o)
  | CConsumer => if forallb (fun m => reachable c (cn_servers m)) (ord_consumer o) then StartOk else StartError
  | _ => StartOk
  end.

(* Listening sockets ("listeners opened" is what the property observes).  httpserver.Coordinator.Configure only builds
   http.Server values (httpserver/coordinator.go:61-118: no net.Listen); no other Configure opens a socket either.  The
   listeners are bound by httpserver.Coordinator.Start (172-191; if one cannot be bound the ones bound so far are closed
   again, 176-186) and closed by its Stop (213-220).  A listener is named by its module; with no httpserver section the
   coordinator invents the module "default" on ":0" (63-66), written 0 here (no configured module has the empty name). *)
Definition default_listener : str := 0.
Definition listener_names (c : config) : list str :=
  match cfg_http c with [] => [default_listener] | l => map hs_name l end.

Definition configure_listens (c : config) (k : coord) : list str := [].          (* bound by k.Configure *)
Definition start_listens (c : config) (k : coord) : list str :=                  (* bound by k.Start, closed by k.Stop *)
  match k with CHttpserver => listener_names c | _ => [] end.

Definition coord_eqb (x y : coord) : bool :=
  match x, y with
  | CZookeeper, CZookeeper | CStorage, CStorage | CEvaluator, CEvaluator | CHttpserver, CHttpserver
  | CNotifier, CNotifier | CCluster, CCluster | CConsumer, CConsumer => true
  | _, _ => false
  end.

(* the sockets still listening when Start returns: whatever a Configure bound (core.Start has no path that would close
   it: Stop is only called on coordinators that were started), plus what the started-and-not-stopped coordinators hold *)
Definition still_listening (c : config) (configured started stopped : list coord) : list str :=
  flat_map (configure_listens c) configured ++
  flat_map (start_listens c) (filter (fun k => negb (existsb (coord_eqb k) stopped)) started).

Inductive result :=
  | Returned (rc : Z) (started : list coord) (listening : list str)
      (* started = coordinators whose Start was entered; listening = listeners still open when Start returns *)
  | Panicked (p : panic).

Definition nothing_started : list coord := [].
Definition no_listener : list str := [].

(* core/burrow.go:180-202: start in order; on the first error stop the earlier ones (the failing one keeps nothing) and
   return 1; otherwise wait for the exit channel (the probe closes it beforehand), stop everything, return 0. *)
Fixpoint start_list (o : order) (c : config) (todo started : list coord) : result :=
  match todo with
  | [] => Returned 0 started (still_listening c (coordinators c) started started)
  | k :: r => match start_coord o c k with
              | StartOk => start_list o c r (started ++ [k])
              | StartError => Returned 1 (started ++ [k]) (still_listening c (coordinators c) started started)
              | StartPanic p => Panicked p
              end
  end.

Definition start_with (h : handler) (o : order) (c : config) (a : app_state) : result :=
  match configure_coordinators h o c a with
  | CfgPanic p => Panicked p
  | CfgReturn false => Returned 1 nothing_started (still_listening c (configured o c) [] [])   (* core/burrow.go:176-178 *)
  | CfgReturn true => start_list o c (coordinators c) []
  end.

Definition start := start_with handler_fixed.
Definition start_old := start_with handler_old.

(* app.ConfigurationValid after Start (a panic leaves it as it was) *)
Definition config_valid_with (h : handler) (o : order) (c : config) (a : app_state) : bool :=
  match configure_coordinators h o c a with CfgReturn v => v | CfgPanic _ => app_valid a end.

Definition config_valid := config_valid_with handler_fixed.

(* The context after Start returned (or was left by a panic), as the next Start on the same context finds it. *)
Definition app_after (o : order) (c : config) (a : app_state) : app_state := {| app_valid := config_valid o c a |}.

(* A context re-used over a history of earlier Start calls (each with its own configuration and map order). *)
Fixpoint app_after_history (hist : list (order * config)) (a : app_state) : app_state :=
  match hist with
  | [] => a
  | (o, c) :: r => app_after_history r (app_after o c a)
  end.

(* ------------------------------------------------------------------------------------------------------------------ *)
(* The specification: the catalogue of documented requirements, every violated one listed (no order, no first-wins).   *)
(* ------------------------------------------------------------------------------------------------------------------ *)
Definition viol (ok : bool) (s : site) (m : str) : list violation := if ok then [] else [(s, m)].

Definition zookeeper_reqs (c : config) : list violation :=
  viol (nonempty (cfg_zk_servers c)) ZkNoServers 0 ++
  viol (servers_ok c (cfg_zk_servers c)) ZkBadServers 0 ++
  viol (match cfg_zk_root c with None => true | Some p => zkpath_ok c p end) ZkBadRoot 0.

Definition storage_mod_reqs (c : config) (m : storage_mod) : list violation :=
  viol (match st_class m with ClsInmemory => true | _ => false end) StorageClass (st_name m) ++
  viol (1 <=? st_workers m) StorageWorkers (st_name m) ++
  viol (1 <=? st_intervals m) StorageIntervals (st_name m) ++
  viol (0 <=? st_queue_depth m) StorageQueueDepth (st_name m) ++
  viol (negb (st_legacy m)) StorageLegacy (st_name m) ++
  viol (pattern_ok c (st_allow m)) StorageAllow (st_name m) ++
  viol (pattern_ok c (st_deny m)) StorageDeny (st_name m).

Definition storage_reqs (c : config) : list violation :=
  viol (Nat.leb (length (cfg_storage c)) 1) StorageCount 0 ++ flat_map (storage_mod_reqs c) (cfg_storage c).

Definition evaluator_mod_reqs (c : config) (m : evaluator_mod) : list violation :=
  viol (match ev_class m with ClsCaching => true | _ => false end) EvaluatorClass (ev_name m) ++
  viol (0 <=? ev_expire m) EvaluatorCache (ev_name m).

Definition evaluator_reqs (c : config) : list violation :=
  viol (Nat.leb (length (cfg_evaluator c)) 1) EvaluatorCount 0 ++ flat_map (evaluator_mod_reqs c) (cfg_evaluator c).

(* a listener with TLS needs a readable CA file if one is named, both a certificate and a key, and they must load *)
Definition listener_reqs (c : config) (l : listener) : list violation :=
  viol (listen_ok c (hs_addr l)) HttpAddress (hs_name l) ++
  match hs_tls l with
  | None => []
  | Some t =>
      let p := find_tls c t in
      viol (is_empty (tp_ca p) || file_ok c (tp_ca p)) HttpCaFile (hs_name l) ++
      viol (negb (is_empty (tp_cert p)) && negb (is_empty (tp_key p))) HttpNoCert (hs_name l) ++
      viol (is_empty (tp_cert p) || is_empty (tp_key p) || keypair_ok c (tp_cert p) (tp_key p)) HttpKeyPair (hs_name l)
  end.

Definition httpserver_reqs (c : config) : list violation := flat_map (listener_reqs c) (cfg_http c).

Definition is_http (m : notifier_mod) := match nt_class m with ClsHttp => true | _ => false end.
Definition is_email (m : notifier_mod) := match nt_class m with ClsEmail => true | _ => false end.

Definition notifier_mod_reqs (c : config) (m : notifier_mod) : list violation :=
  (* common to every class *)
  viol (match nt_class m with ClsHttp | ClsEmail | ClsNull => true | _ => false end) NotifierClass (nt_name m) ++
  viol (interval_ok m) NotifierInterval (nt_name m) ++
  viol (negb (nt_legacy m)) NotifierLegacy (nt_name m) ++
  viol (pattern_ok c (nt_allow m)) NotifierAllow (nt_name m) ++
  viol (pattern_ok c (nt_deny m)) NotifierDeny (nt_name m) ++
  viol (template_ok c (nt_template_open m)) NotifierTemplateOpen (nt_name m) ++
  viol (negb (nt_send_close m) || template_ok c (nt_template_close m)) NotifierTemplateClose (nt_name m) ++
  (* http *)
  viol (negb (is_http m) || negb (is_empty (nt_url_open m))) NotifierUrlOpen (nt_name m) ++
  viol (negb (is_http m) || negb (nt_send_close m) || negb (is_empty (nt_url_close m))) NotifierUrlClose (nt_name m) ++
  (* email *)
  viol (negb (is_email m) || mail_ok c (nt_server m) (nt_port m)) EmailServer (nt_name m) ++
  viol (negb (is_email m) || negb (is_empty (nt_from m))) EmailFrom (nt_name m) ++
  viol (negb (is_email m) || negb (is_empty (nt_to m))) EmailTo (nt_name m) ++
  viol (negb (is_email m) || match nt_auth m with AuthOther => false | _ => true end) EmailAuth (nt_name m) ++
  (* http and email *)
  viol (negb (is_http m || is_email m) || extra_ca_ok c m) NotifierExtraCa (nt_name m).

Definition notifier_reqs (c : config) : list violation := flat_map (notifier_mod_reqs c) (cfg_notifier c).

(* a module that names a client profile: it must exist; its version must be known; if its TLS profile names a CA file it
   must be readable, and a certificate/key pair given with it must load *)
Definition profile_reqs (c : config) (who : str) (n : str) : list violation :=
  if is_empty n then [] else
  match find_profile c n with
  | None => [(ProfileUnknown, who)]
  | Some p =>
      viol (match cp_version p with None => true | Some v => kversion_ok c v end) ProfileVersion who ++
      match cp_tls p with
      | None => []
      | Some t =>
          let tp := find_tls c t in
          viol (is_empty (tp_ca tp) || file_ok c (tp_ca tp)) ProfileCaFile who ++
          viol (is_empty (tp_ca tp) || is_empty (tp_cert tp) || is_empty (tp_key tp)
                || keypair_ok c (tp_cert tp) (tp_key tp)) ProfileKeyPair who
      end
  end.

Definition cluster_mod_reqs (c : config) (m : cluster_mod) : list violation :=
  viol (match cl_class m with ClsKafka => true | _ => false end) ClusterClass (cl_name m) ++
  profile_reqs c (cl_name m) (cl_profile m) ++
  viol (nonempty (cl_servers m)) ClusterNoServers (cl_name m) ++
  viol (servers_ok c (cl_servers m)) ClusterBadServers (cl_name m) ++
  viol ((1 <=? cl_offset_refresh m) && (1 <=? cl_topic_refresh m)) ClusterRefresh (cl_name m) ++
  viol (0 <=? cl_reaper_refresh m) ClusterReaperRefresh (cl_name m).

Definition cluster_reqs (c : config) : list violation := flat_map (cluster_mod_reqs c) (cfg_cluster c).

Definition is_kafka (m : consumer_mod) := match cn_class m with ClsKafka => true | _ => false end.
Definition is_kafka_zk (m : consumer_mod) := match cn_class m with ClsKafkaZk => true | _ => false end.

Definition consumer_mod_reqs (c : config) (m : consumer_mod) : list violation :=
  viol (cluster_known c (cn_cluster m)) ConsumerCluster (cn_name m) ++
  viol (is_kafka m || is_kafka_zk m) ConsumerClass (cn_name m) ++
  (if is_kafka m then profile_reqs c (cn_name m) (cn_profile m) else []) ++
  viol (nonempty (cn_servers m)) ConsumerNoServers (cn_name m) ++
  viol (servers_ok c (cn_servers m)) ConsumerBadServers (cn_name m) ++
  viol (negb (is_kafka_zk m) || zkcons_ok c (cn_zkpath m)) ConsumerZkPath (cn_name m) ++
  viol (negb (cn_legacy m)) ConsumerLegacy (cn_name m) ++
  viol (pattern_ok c (cn_allow m)) ConsumerAllow (cn_name m) ++
  viol (pattern_ok c (cn_deny m)) ConsumerDeny (cn_name m).

Definition consumer_reqs (c : config) : list violation := flat_map (consumer_mod_reqs c) (cfg_consumer c).

(* Zookeeper and notifier requirements bind only when a notifier section exists (core/burrow.go:42-55: "Only include
   zookeeper if we have dependant coordinators"). *)
Definition requirements (c : config) : list violation :=
  (if have_notifiers c then zookeeper_reqs c else []) ++
  storage_reqs c ++ evaluator_reqs c ++ httpserver_reqs c ++
  (if have_notifiers c then notifier_reqs c else []) ++
  cluster_reqs c ++ consumer_reqs c.
