(* Proofs about the served-data model (C17).  Part 1: the registry and the Delete* functions. *)
From Coq Require Import ZArith List Bool Lia String.
From Burrow Require Import Int64 F32 Eval EvalGroupProofs AMap AMapProofs Ring Storage Metrics.
Import ListNotations.
Open Scope Z_scope.

(* ---------- keys ---------- *)
Lemma key_eqb_refl k : key_eqb k k = true.
Proof. destruct k as [f c g|f c g t p|c t p]; try destruct f; cbn; rewrite ?Z.eqb_refl; reflexivity. Qed.

Lemma key_eqb_eq a b : key_eqb a b = true <-> a = b.
Proof.
  split; [|intros ->; apply key_eqb_refl].
  destruct a as [f c g|f c g t p|c t p], b as [f' c' g'|f' c' g' t' p'|c' t' p']; cbn; try discriminate.
  - rewrite !andb_true_iff, !Z.eqb_eq. intros [[Hf ->] ->]. destruct f, f'; try discriminate; reflexivity.
  - rewrite !andb_true_iff, !Z.eqb_eq. intros [[[[Hf ->] ->] ->] ->]. destruct f, f'; try discriminate; reflexivity.
  - rewrite !andb_true_iff, !Z.eqb_eq. intros [[-> ->] ->]. reflexivity.
Qed.

Lemma key_eqb_neq a b : key_eqb a b = false <-> a <> b.
Proof. rewrite <- key_eqb_eq. destruct (key_eqb a b); split; congruence. Qed.

Lemma key_eqb_sym a b : key_eqb a b = key_eqb b a.
Proof.
  destruct (key_eqb a b) eqn:E.
  - apply key_eqb_eq in E. subst. symmetry. apply key_eqb_refl.
  - symmetry. apply key_eqb_neq. apply key_eqb_neq in E. congruence.
Qed.

(* ---------- registry ---------- *)
Lemma reg_get_filter (f : key -> bool) r k :
  reg_get (filter (fun kv => f (fst kv)) r) k = if f k then reg_get r k else None.
Proof.
  induction r as [|[k' v] r IH]; cbn [filter reg_get fst].
  - destruct (f k); reflexivity.
  - destruct (f k') eqn:Ef; cbn [reg_get].
    + destruct (key_eqb k' k) eqn:E.
      * apply key_eqb_eq in E. subst. rewrite Ef. reflexivity.
      * exact IH.
    + destruct (key_eqb k' k) eqn:E.
      * apply key_eqb_eq in E. subst. rewrite Ef in IH |- *. exact IH.
      * exact IH.
Qed.

Lemma reg_get_set_eq r k v : reg_get (reg_set r k v) k = Some v.
Proof. unfold reg_set. cbn [reg_get]. rewrite key_eqb_refl. reflexivity. Qed.

Lemma reg_get_set_neq r k k' v : k <> k' -> reg_get (reg_set r k v) k' = reg_get r k'.
Proof.
  intros Hn. unfold reg_set. cbn [reg_get].
  assert (E : key_eqb k k' = false) by (apply key_eqb_neq; exact Hn). rewrite E.
  rewrite (reg_get_filter (fun x => negb (key_eqb x k)) r k').
  rewrite key_eqb_sym, E. reflexivity.
Qed.

Lemma reg_get_set r k k' v : reg_get (reg_set r k v) k' = if key_eqb k k' then Some v else reg_get r k'.
Proof.
  destruct (key_eqb k k') eqn:E.
  - apply key_eqb_eq in E. subst. apply reg_get_set_eq.
  - apply reg_get_set_neq. apply key_eqb_neq. exact E.
Qed.

Lemma reg_get_del pred r k : reg_get (reg_del pred r) k = if pred k then None else reg_get r k.
Proof.
  unfold reg_del. rewrite (reg_get_filter (fun x => negb (pred x)) r k). destruct (pred k); reflexivity.
Qed.

(* ---------- Delete / DeletePartialMatch ---------- *)
Lemma vec_delete_get f crit r k :
  reg_get (vec_delete f crit r) k =
  if family_eqb (family_of k) f && exact_match crit k then None else reg_get r k.
Proof. unfold vec_delete. apply reg_get_del. Qed.

Lemma vec_delete_partial_get f crit r k :
  reg_get (vec_delete_partial f crit r) k =
  if family_eqb (family_of k) f && partial_match crit k then None else reg_get r k.
Proof. unfold vec_delete_partial. apply reg_get_del. Qed.

(* DeletePartialMatch with a label the family does not have matches nothing: the two calls of DeleteTopicMetrics
   on the group-level families are no-ops (vendored client: matchPartialLabels) *)
Lemma partial_match_foreign_label c t f cc g :
  partial_match [(LCluster, c); (LTopic, t)] (KGroup f cc g) = false.
Proof. cbn. destruct (cc =? c); reflexivity. Qed.

Lemma delete_partial_group_family_noop c t r k :
  reg_get (vec_delete_partial FStatus [(LCluster, c); (LTopic, t)]
             (vec_delete_partial FTotalLag [(LCluster, c); (LTopic, t)] r)) k = reg_get r k.
Proof.
  rewrite !vec_delete_partial_get.
  destruct k as [f cc g|f cc g tt p|cc tt p]; try destruct f; cbn [family_of family_eqb andb];
    rewrite ?partial_match_foreign_label; reflexivity.
Qed.

Ltac eqb_cases :=
  repeat match goal with |- context [Z.eqb ?a ?b] => destruct (Z.eqb a b) end; cbn; reflexivity.

(* the three exported functions, as predicates on the label set of a series *)
Theorem delete_consumer_metrics_spec c g r k :
  reg_get (delete_consumer_metrics c g r) k = if names_group c g k then None else reg_get r k.
Proof.
  unfold delete_consumer_metrics. rewrite !vec_delete_partial_get, !vec_delete_get.
  destruct k as [f cc gg|f cc gg tt p|cc tt p]; try destruct f;
    unfold names_group_topic, names_group, names_topic, exact_match, partial_match; cbn; eqb_cases.
Qed.

Theorem delete_topic_metrics_spec c t r k :
  reg_get (delete_topic_metrics c t r) k = if names_topic c t k then None else reg_get r k.
Proof.
  unfold delete_topic_metrics. rewrite !vec_delete_partial_get.
  destruct k as [f cc gg|f cc gg tt p|cc tt p]; try destruct f;
    unfold names_group_topic, names_group, names_topic, exact_match, partial_match; cbn; eqb_cases.
Qed.

Theorem delete_consumer_topic_metrics_spec c g t r k :
  reg_get (delete_consumer_topic_metrics c g t r) k = if names_group_topic c g t k then None else reg_get r k.
Proof.
  unfold delete_consumer_topic_metrics. rewrite !vec_delete_partial_get.
  destruct k as [f cc gg|f cc gg tt p|cc tt p]; try destruct f;
    unfold names_group_topic, names_group, names_topic, exact_match, partial_match; cbn; eqb_cases.
Qed.

(* the old DeleteTopicMetrics left the partition status series of the topic behind *)
Theorem delete_topic_metrics_v0_refuted :
  exists c t r k, names_topic c t k = true /\ reg_get (delete_topic_metrics_v0 c t r) k <> None.
Proof.
  exists 1, 1, [(KPart PStatus 1 1 1 0, 4)], (KPart PStatus 1 1 1 0). split; [reflexivity|]. vm_compute. discriminate.
Qed.

(* ====================================================================================================
   Part 2: the scrape.  [Correct sy k]: the registry holds for k exactly what the live state calls for.
   Every round of the scrape loops preserves Correct for every key, establishes it for the keys of the
   item it visits, and leaves every other series alone.
   ==================================================================================================== *)
Definition Correct (sc : sconfig) (now : Z) (sy : sys) (k : key) : Prop :=
  reg_get (s_reg sy) k = expected sc now (s_st sy) k.

(* ---------- set_group ---------- *)
Lemma set_partition_get c g reg ps k :
  reg_get (set_partition c g reg ps) k =
  match k with
  | KPart f c' g' t p =>
      if (c' =? c) && (g' =? g) && (ps_topic ps =? t) && (ps_partition ps =? p) then
        match f with
        | PLag => Some (ps_lag ps)
        | POffset => if reports ps then Some (end_offset ps) else reg_get reg k
        | PStatus => if reports ps then Some (status_num (ps_status ps)) else reg_get reg k
        end
      else reg_get reg k
  | _ => reg_get reg k
  end.
Proof.
  unfold set_partition.
  destruct (reports ps); rewrite ?reg_get_set;
    destruct k as [f c' g'|f c' g' t p|c' t p]; try destruct f; cbn [key_eqb pfam_eqb andb];
    try reflexivity;
    rewrite ?(Z.eqb_sym c c'), ?(Z.eqb_sym g g');
    destruct (c' =? c), (g' =? g), (ps_topic ps =? t), (ps_partition ps =? p); reflexivity.
Qed.

Lemma last_match_snoc q t p l x :
  last_match q t p (l ++ [x]) =
  if (ps_topic x =? t) && (ps_partition x =? p) && q x then Some x else last_match q t p l.
Proof. unfold last_match. rewrite rev_app_distr. cbn [rev app find]. reflexivity. Qed.

Lemma fold_set_partition_get c g parts reg k :
  reg_get (fold_left (set_partition c g) parts reg) k =
  match k with
  | KPart f c' g' t p =>
      if (c' =? c) && (g' =? g) then
        match f with
        | PLag => match last_match (fun _ => true) t p parts with Some ps => Some (ps_lag ps) | None => reg_get reg k end
        | POffset => match last_match reports t p parts with Some ps => Some (end_offset ps) | None => reg_get reg k end
        | PStatus => match last_match reports t p parts with Some ps => Some (status_num (ps_status ps)) | None => reg_get reg k end
        end
      else reg_get reg k
  | _ => reg_get reg k
  end.
Proof.
  induction parts as [|x l IH] using rev_ind.
  - cbn [fold_left]. destruct k as [f c' g'|f c' g' t p|c' t p]; try reflexivity.
    destruct ((c' =? c) && (g' =? g)); destruct f; reflexivity.
  - rewrite fold_left_app. cbn [fold_left]. rewrite set_partition_get.
    destruct k as [f c' g'|f c' g' t p|c' t p]; [exact IH| |exact IH].
    rewrite !last_match_snoc. rewrite IH.
    destruct (c' =? c), (g' =? g); cbn [andb]; try reflexivity.
    destruct (ps_topic x =? t), (ps_partition x =? p); cbn [andb]; try reflexivity.
    destruct f; try reflexivity; destruct (reports x); reflexivity.
Qed.

Lemma set_group_get c g reg gs k :
  reg_get (set_group c g reg gs) k =
  match written c g gs k with Some v => Some v | None => reg_get reg k end.
Proof.
  unfold set_group. rewrite fold_set_partition_get.
  destruct k as [f c' g'|f c' g' t p|c' t p]; cbn [written].
  - rewrite !reg_get_set. cbn [key_eqb]. rewrite (Z.eqb_sym c c'), (Z.eqb_sym g g').
    destruct (c' =? c), (g' =? g); destruct f; cbn [gfam_eqb andb]; reflexivity.
  - destruct ((c' =? c) && (g' =? g)).
    + destruct f; cbn [option_map];
        match goal with |- context [last_match ?q t p ?l] => destruct (last_match q t p l) end; cbn [option_map]; try reflexivity;
        rewrite !reg_get_set; reflexivity.
    + rewrite !reg_get_set. reflexivity.
  - rewrite !reg_get_set. reflexivity.
Qed.

Lemma written_names c g gs k v : written c g gs k = Some v -> names_group c g k = true.
Proof.
  destruct k as [f c' g'|f c' g' t p|c' t p]; cbn [written]; try discriminate;
    unfold names_group; cbn [key_cluster key_group];
    destruct (c' =? c), (g' =? g); cbn [andb]; try discriminate; reflexivity.
Qed.

(* ---------- how a removed group changes what the state calls for ---------- *)
Lemma find_group_purge st c cl g c' g' :
  get st c = Some cl ->
  find_group (set st c (mkCluster (cl_broker cl) (remove (cl_consumer cl) g))) c' g' =
  if (c' =? c) && (g' =? g) then None else find_group st c' g'.
Proof.
  intros Hc. unfold find_group.
  destruct (c' =? c) eqn:Ec.
  - apply Z.eqb_eq in Ec. subst c'. rewrite get_set_eq, Hc. cbn [cl_consumer andb].
    destruct (g' =? g) eqn:Eg.
    + apply Z.eqb_eq in Eg. subst. apply get_remove_eq.
    + apply get_remove_neq. apply Z.eqb_neq in Eg. congruence.
  - cbn [andb]. rewrite get_set_neq; [reflexivity|]. apply Z.eqb_neq in Ec. congruence.
Qed.

Lemma group_view_purge sc now st c cl g c' g' :
  get st c = Some cl ->
  group_view sc now (set st c (mkCluster (cl_broker cl) (remove (cl_consumer cl) g))) c' g' =
  if (c' =? c) && (g' =? g) then None else group_view sc now st c' g'.
Proof.
  intros Hc. unfold group_view.
  destruct (c' =? c) eqn:Ec.
  - apply Z.eqb_eq in Ec. subst c'. rewrite get_set_eq, Hc. cbn [cl_consumer cl_broker andb].
    destruct (g' =? g) eqn:Eg.
    + apply Z.eqb_eq in Eg. subst. rewrite get_remove_eq. reflexivity.
    + rewrite get_remove_neq; [reflexivity|]. apply Z.eqb_neq in Eg. congruence.
  - cbn [andb]. rewrite get_set_neq; [reflexivity|]. apply Z.eqb_neq in Ec. congruence.
Qed.

Lemma topic_offsets_purge st c cl g c' t :
  get st c = Some cl ->
  topic_offsets (set st c (mkCluster (cl_broker cl) (remove (cl_consumer cl) g))) c' t = topic_offsets st c' t.
Proof.
  intros Hc. unfold topic_offsets, fetch_topic.
  destruct (Z.eq_dec c' c) as [->|Hn].
  - rewrite get_set_eq, Hc. cbn. destruct (get (cl_broker cl) t); reflexivity.
  - rewrite get_set_neq by congruence.
    destruct (get st c') as [cl'|]; [destruct (get (cl_broker cl') t)|]; reflexivity.
Qed.

Lemma expected_purge sc now st c cl g k :
  get st c = Some cl ->
  expected sc now (set st c (mkCluster (cl_broker cl) (remove (cl_consumer cl) g))) k =
  if names_group c g k then None else expected sc now st k.
Proof.
  intros Hc. destruct k as [f c' g'|f c' g' t p|c' t p]; unfold names_group; cbn [expected key_cluster key_group].
  - rewrite (group_view_purge _ _ _ _ _ _ _ _ Hc). destruct ((c' =? c) && (g' =? g)); reflexivity.
  - rewrite (group_view_purge _ _ _ _ _ _ _ _ Hc). destruct ((c' =? c) && (g' =? g)); reflexivity.
  - rewrite (topic_offsets_purge _ _ _ _ _ _ Hc). rewrite andb_false_r. reflexivity.
Qed.

Lemma names_group_inv c g k :
  names_group c g k = true -> (exists f, k = KGroup f c g) \/ (exists f t p, k = KPart f c g t p).
Proof.
  destruct k as [f c' g'|f c' g' t p|c' t p]; unfold names_group; cbn [key_cluster key_group].
  - intros H. apply andb_true_iff in H. destruct H as [Hc Hg]. apply Z.eqb_eq in Hc, Hg. subst. left. eauto.
  - intros H. apply andb_true_iff in H. destruct H as [Hc Hg]. apply Z.eqb_eq in Hc, Hg. subst. right. eauto.
  - rewrite andb_false_r. discriminate.
Qed.

Lemma expected_group_key sc now st c g k :
  names_group c g k = true ->
  expected sc now st k = match group_view sc now st c g with Some gs => written c g gs k | None => None end.
Proof. intros H. destruct (names_group_inv _ _ _ H) as [(f & ->)|(f & t & p & ->)]; reflexivity. Qed.

Lemma expected_absent sc now st c g k :
  find_group st c g = None -> names_group c g k = true -> expected sc now st k = None.
Proof.
  intros Hf Hn. rewrite (expected_group_key _ _ _ _ _ _ Hn).
  unfold group_view. unfold find_group in Hf. destruct (get st c); [rewrite Hf|]; reflexivity.
Qed.

(* ---------- one evaluator request ---------- *)
Lemma status_cases sc now sy c g sy' o :
  sys_status sc now sy c g = Some (sy', o) ->
  (find_group (s_st sy) c g = None /\ sy' = sy /\ o = None) \/
  (exists cl, get (s_st sy) c = Some cl /\ group_expired (sc_st sc) now (s_st sy) c g = true /\
              sy' = mkSys (set (s_st sy) c (mkCluster (cl_broker cl) (remove (cl_consumer cl) g)))
                          (delete_consumer_metrics c g (s_reg sy)) /\ o = None) \/
  (group_expired (sc_st sc) now (s_st sy) c g = false /\ sy' = sy /\
   exists gs, o = Some gs /\ group_view sc now (s_st sy) c g = Some gs).
Proof.
  unfold sys_status, sys_status_gen, sys_storage_gen. cbn [step andb].
  unfold fetch_consumer, group_expired, find_group, group_view.
  destruct sy as [st reg]. cbn [s_st s_reg].
  destruct (get st c) as [cl|] eqn:Hc.
  2:{ intros H. injection H as <- <-. left. auto. }
  destruct (get (cl_consumer cl) g) as [grp|] eqn:Hg.
  2:{ intros H. injection H as <- <-. left. auto. }
  destruct (expired (sc_st sc) now (g_last grp)) eqn:He.
  - intros H. injection H as <- <-. right. left. exists cl. auto.
  - destruct (fetch_topics_lags _ _) as [l|]; [|discriminate].
    destruct (eval_group l _ _ now) as [gs|]; [|discriminate].
    intros H. injection H as <- <-. right. right. eauto.
Qed.

(* one round of the consumer loop *)
Lemma group_step_spec sc now c sy g sy' :
  group_step_gen true true sc now c sy g = Some sy' ->
  (forall k, Correct sc now sy k -> Correct sc now sy' k) /\
  (forall k, names_group c g k = true -> expected sc now (s_st sy') k <> None -> Correct sc now sy' k) /\
  (forall k, reg_get (s_reg sy') k = reg_get (s_reg sy) k \/ Correct sc now sy' k) /\
  (forall k, expected sc now (s_st sy') k = expected sc now (s_st sy) k \/ expected sc now (s_st sy') k = None) /\
  (forall k, reg_get (s_reg sy) k = None -> expected sc now (s_st sy) k = None -> reg_get (s_reg sy') k = None) /\
  (forall c' g', find_group (s_st sy') c' g' = find_group (s_st sy) c' g' \/ find_group (s_st sy') c' g' = None) /\
  (forall c' g', find_group (s_st sy) c' g' <> None -> find_group (s_st sy') c' g' = None ->
                 forall k, names_group c' g' k = true -> reg_get (s_reg sy') k = None) /\
  (forall grp, find_group (s_st sy') c g = Some grp -> expired (sc_st sc) now (g_last grp) = false).
Proof.
  unfold group_step_gen. fold (sys_status sc now sy c g).
  destruct (sys_status sc now sy c g) as [[sy1 o]|] eqn:Hs; [|discriminate].
  destruct (status_cases _ _ _ _ _ _ _ Hs) as [(Hf & -> & ->)|[(cl & Hc & He & -> & ->)|(He & -> & gs & -> & Hv)]].
  - intros H. injection H as <-. repeat split; auto.
    + intros k Hn Hx. exfalso. apply Hx. apply (expected_absent _ _ _ _ _ _ Hf Hn).
    + intros c' g' Hp Ha. congruence.
    + intros grp Hg. congruence.
  - intros H. injection H as <-. unfold Correct. cbn [s_st s_reg].
    repeat split; intros k; rewrite ?(expected_purge _ _ _ _ _ _ _ Hc), ?delete_consumer_metrics_spec.
    + intros Hk. destruct (names_group c g k); [reflexivity|exact Hk].
    + intros ->. congruence.
    + destruct (names_group c g k); [right; reflexivity|left; reflexivity].
    + destruct (names_group c g k); [right; reflexivity|left; reflexivity].
    + intros Hr Hx. destruct (names_group c g k); [reflexivity|exact Hr].
    + intros g'. rewrite (find_group_purge _ _ _ _ _ _ Hc). destruct ((k =? c) && (g' =? g)); [right|left]; reflexivity.
    + intros g' Hp Ha k0 Hn. rewrite (find_group_purge _ _ _ _ _ _ Hc) in Ha. rewrite delete_consumer_metrics_spec.
      destruct ((k =? c) && (g' =? g)) eqn:E; [|congruence].
      apply andb_true_iff in E. destruct E as [E1 E2]. apply Z.eqb_eq in E1, E2. subst. rewrite Hn. reflexivity.
    + rewrite (find_group_purge _ _ _ _ _ _ Hc), !Z.eqb_refl. cbn [andb]. discriminate.
  - cbn [negb andb]. intros H. injection H as <-. unfold Correct. cbn [s_st s_reg].
    assert (Hw : forall k v, written c g gs k = Some v -> expected sc now (s_st sy) k = Some v).
    { intros k v Hk. pose proof (written_names _ _ _ _ _ Hk) as Hn.
      rewrite (expected_group_key _ _ _ _ _ _ Hn), Hv. exact Hk. }
    repeat split; intros k; rewrite ?set_group_get.
    + intros Hk. destruct (written c g gs k) as [v|] eqn:Hwk; [symmetry; apply Hw; exact Hwk|exact Hk].
    + intros Hn Hx. destruct (written c g gs k) as [v|] eqn:Hwk; [symmetry; apply Hw; exact Hwk|].
      exfalso. apply Hx. rewrite (expected_group_key _ _ _ _ _ _ Hn), Hv. exact Hwk.
    + destruct (written c g gs k) as [v|] eqn:Hwk; [right; symmetry; apply Hw; exact Hwk|left; reflexivity].
    + left. reflexivity.
    + intros Hr Hx. destruct (written c g gs k) as [v|] eqn:Hwk; [|exact Hr].
      rewrite (Hw _ _ Hwk) in Hx. discriminate.
    + left. reflexivity.
    + intros g' Hp Ha. congruence.
    + intros Hg. unfold group_expired in He. rewrite Hg in He. exact He.
Qed.

(* ---------- the relation between the system before and after some rounds of the scrape ---------- *)
Record StepOK (sc : sconfig) (now : Z) (sy sy' : sys) : Prop := mkStepOK {
  so_pres : forall k, Correct sc now sy k -> Correct sc now sy' k;
  so_chg : forall k, reg_get (s_reg sy') k = reg_get (s_reg sy) k \/ Correct sc now sy' k;
  so_exp : forall k, expected sc now (s_st sy') k = expected sc now (s_st sy) k \/ expected sc now (s_st sy') k = None;
  so_none : forall k, reg_get (s_reg sy) k = None -> expected sc now (s_st sy) k = None -> reg_get (s_reg sy') k = None;
  so_gmono : forall c g, find_group (s_st sy') c g = find_group (s_st sy) c g \/ find_group (s_st sy') c g = None;
  so_gone : forall c g, find_group (s_st sy) c g <> None -> find_group (s_st sy') c g = None ->
                        forall k, names_group c g k = true -> reg_get (s_reg sy') k = None }.

Lemma StepOK_refl sc now sy : StepOK sc now sy sy.
Proof. constructor; auto. intros c g Hp Ha. congruence. Qed.

Lemma StepOK_trans sc now a b c : StepOK sc now a b -> StepOK sc now b c -> StepOK sc now a c.
Proof.
  intros [p1 c1 e1 n1 m1 g1] [p2 c2 e2 n2 m2 g2]. constructor.
  - auto.
  - intros k. destruct (c2 k) as [H2|H2]; [|right; exact H2].
    destruct (c1 k) as [H1|H1]; [left; congruence|right; apply p2; exact H1].
  - intros k. destruct (e2 k) as [H2|H2]; [|right; exact H2].
    destruct (e1 k) as [H1|H1]; [left; congruence|right; congruence].
  - intros k Hr Hx. apply n2; [apply n1; assumption|].
    destruct (e1 k) as [H1|H1]; congruence.
  - intros c0 g0. destruct (m2 c0 g0) as [H2|H2]; [|right; exact H2].
    destruct (m1 c0 g0) as [H1|H1]; [left; congruence|right; congruence].
  - intros c0 g0 Hp Ha k Hn.
    destruct (find_group (s_st b) c0 g0) as [grp|] eqn:Hb.
    + apply (g2 c0 g0); [congruence|exact Ha|exact Hn].
    + apply n2; [apply (g1 c0 g0); assumption|]. apply (expected_absent _ _ _ _ _ _ Hb Hn).
Qed.

Lemma group_step_ok sc now c sy g sy' :
  group_step_gen true true sc now c sy g = Some sy' ->
  StepOK sc now sy sy' /\
  (forall k, names_group c g k = true -> expected sc now (s_st sy') k <> None -> Correct sc now sy' k) /\
  (forall grp, find_group (s_st sy') c g = Some grp -> expired (sc_st sc) now (g_last grp) = false).
Proof.
  intros H. destruct (group_step_spec _ _ _ _ _ _ H) as (p & e & c1 & x & n & m & go & ne).
  split; [constructor; assumption|split; assumption].
Qed.

(* the consumer loop over one cluster *)
Lemma scrape_groups_ok sc now c gs : forall sy sy',
  scrape_groups_gen true true sc now c gs sy = Some sy' ->
  StepOK sc now sy sy' /\
  (forall g k, In g gs -> names_group c g k = true -> expected sc now (s_st sy') k <> None -> Correct sc now sy' k) /\
  (forall g grp, In g gs -> find_group (s_st sy') c g = Some grp -> expired (sc_st sc) now (g_last grp) = false).
Proof.
  induction gs as [|g0 rest IH]; intros sy sy'; cbn [scrape_groups_gen].
  - intros H. injection H as <-. split; [apply StepOK_refl|]. split; [intros g k []|intros g grp []].
  - destruct (group_step_gen true true sc now c sy g0) as [sy1|] eqn:H1; [|discriminate].
    intros H2. destruct (group_step_ok _ _ _ _ _ _ H1) as (S1 & E1 & N1). destruct (IH _ _ H2) as (S2 & E2 & N2).
    split; [eapply StepOK_trans; eassumption|]. split.
    + intros g k [<-|Hin] Hn Hx; [|eapply E2; eassumption].
      apply (so_pres _ _ _ _ S2). apply E1; [exact Hn|].
      destruct (so_exp _ _ _ _ S2 k) as [He|He]; congruence.
    + intros g grp [<-|Hin] Hg; [|eapply N2; eassumption].
      apply N1. destruct (so_gmono _ _ _ _ S2 c g0) as [Hm|Hm]; congruence.
Qed.

(* ---------- the topic loop ---------- *)
Lemma set_topic_offsets_get c t l : forall i reg k, 0 <= i ->
  reg_get (set_topic_offsets c t i l reg) k =
  match k with
  | KTopic c' t' p =>
      if (c' =? c) && (t' =? t) && (i <=? p)
      then match nth_error l (Z.to_nat (p - i)) with Some o => Some o | None => reg_get reg k end
      else reg_get reg k
  | _ => reg_get reg k
  end.
Proof.
  induction l as [|o rest IH]; intros i reg k Hi; cbn [set_topic_offsets].
  - destruct k as [f c' g'|f c' g' t' p|c' t' p]; try reflexivity.
    destruct ((c' =? c) && (t' =? t) && (i <=? p)); [|reflexivity]. destruct (Z.to_nat (p - i)); reflexivity.
  - rewrite IH by lia. destruct k as [f c' g'|f c' g' t' p|c' t' p]; try (rewrite reg_get_set; reflexivity).
    rewrite reg_get_set. cbn [key_eqb]. rewrite (Z.eqb_sym c c'), (Z.eqb_sym t t'), (Z.eqb_sym i p).
    destruct (c' =? c), (t' =? t); cbn [andb]; try (destruct (i + 1 <=? p); reflexivity).
    destruct (Z.leb_spec (i + 1) p) as [Hle|Hgt].
    + assert (E : (i <=? p) = true) by (apply Z.leb_le; lia). rewrite E.
      assert (E2 : (p =? i) = false) by (apply Z.eqb_neq; lia). rewrite E2.
      replace (Z.to_nat (p - i)) with (S (Z.to_nat (p - (i + 1)))) by lia. cbn [nth_error]. reflexivity.
    + destruct (Z.eqb_spec p i) as [->|Hne].
      * assert (E : (i <=? i) = true) by (apply Z.leb_le; lia). rewrite E.
        replace (Z.to_nat (i - i)) with O by lia. reflexivity.
      * assert (E : (i <=? p) = false) by (apply Z.leb_gt; lia). rewrite E. reflexivity.
Qed.

Definition topic_step (c : Z) (sy : sys) (t : Z) : sys :=
  mkSys (s_st sy) (match topic_offsets (s_st sy) c t with Some l => set_topic_offsets c t 0 l (s_reg sy) | None => s_reg sy end).

Definition is_topic_key (c t : Z) (k : key) : bool :=
  match k with KTopic c' t' _ => (c' =? c) && (t' =? t) | _ => false end.

Lemma topic_step_get sc now c sy t l k :
  topic_offsets (s_st sy) c t = Some l ->
  reg_get (s_reg (topic_step c sy t)) k =
  if is_topic_key c t k
  then match expected sc now (s_st sy) k with Some o => Some o | None => reg_get (s_reg sy) k end
  else reg_get (s_reg sy) k.
Proof.
  intros Ht. unfold topic_step. rewrite Ht. cbn [s_reg]. rewrite set_topic_offsets_get by lia.
  destruct k as [f c' g'|f c' g' t' p|c' t' p]; cbn [is_topic_key]; try reflexivity.
  destruct (Z.eqb_spec c' c) as [->|Hc]; [|reflexivity].
  destruct (Z.eqb_spec t' t) as [->|Htt]; [|reflexivity].
  cbn [andb expected]. rewrite Ht. replace (p - 0) with p by lia.
  destruct (Z.leb_spec 0 p), (Z.ltb_spec p 0); try lia; reflexivity.
Qed.

Lemma topic_step_ok sc now c sy t :
  StepOK sc now sy (topic_step c sy t) /\
  (forall p, expected sc now (s_st sy) (KTopic c t p) <> None -> Correct sc now (topic_step c sy t) (KTopic c t p)).
Proof.
  destruct (topic_offsets (s_st sy) c t) as [l|] eqn:Ht.
  - pose proof (topic_step_get sc now c sy t l) as G. specialize (fun k => G k Ht).
    assert (Est : s_st (topic_step c sy t) = s_st sy) by reflexivity.
    split; [constructor|]; unfold Correct; intros k; rewrite ?Est, ?G.
    + intros Hk. destruct (is_topic_key c t k); [|exact Hk].
      destruct (expected sc now (s_st sy) k); [reflexivity|exact Hk].
    + destruct (is_topic_key c t k); [|left; reflexivity].
      destruct (expected sc now (s_st sy) k); [right; reflexivity|left; reflexivity].
    + left. reflexivity.
    + intros Hr Hx. rewrite Hx. destruct (is_topic_key c t k); exact Hr.
    + left. reflexivity.
    + intros g Hp Ha. congruence.
    + intros Hx. cbn [is_topic_key]. rewrite !Z.eqb_refl. cbn [andb].
      destruct (expected sc now (s_st sy) (KTopic c t k)); [reflexivity|congruence].
  - assert (E : topic_step c sy t = sy) by (unfold topic_step; rewrite Ht; destruct sy; reflexivity).
    rewrite E. split; [apply StepOK_refl|]. intros p Hx. exfalso. apply Hx. cbn [expected]. rewrite Ht. reflexivity.
Qed.

Lemma scrape_topics_fold st c ts reg :
  mkSys st (scrape_topics st c ts reg) = fold_left (topic_step c) ts (mkSys st reg).
Proof.
  revert reg. induction ts as [|t rest IH]; intros reg; cbn [scrape_topics fold_left]; [reflexivity|].
  rewrite IH. reflexivity.
Qed.

Lemma fold_topic_st c ts : forall sy, s_st (fold_left (topic_step c) ts sy) = s_st sy.
Proof. induction ts as [|t rest IH]; intros sy; cbn [fold_left]; [reflexivity|]. rewrite IH. reflexivity. Qed.

Lemma scrape_topics_ok sc now c ts : forall sy,
  StepOK sc now sy (fold_left (topic_step c) ts sy) /\
  (forall t p, In t ts -> expected sc now (s_st sy) (KTopic c t p) <> None ->
               Correct sc now (fold_left (topic_step c) ts sy) (KTopic c t p)).
Proof.
  induction ts as [|t0 rest IH]; intros sy; cbn [fold_left].
  - split; [apply StepOK_refl|]. intros t p [].
  - destruct (topic_step_ok sc now c sy t0) as [S1 E1]. destruct (IH (topic_step c sy t0)) as [S2 E2].
    split; [eapply StepOK_trans; eassumption|].
    intros t p [<-|Hin] Hx.
    + apply (so_pres _ _ _ _ S2). apply E1. exact Hx.
    + apply E2; [exact Hin|exact Hx].
Qed.

(* ---------- one cluster, all clusters ---------- *)
Lemma expected_some_cluster sc now st k : expected sc now st k <> None -> get st (key_cluster k) <> None.
Proof.
  intros H Hg. apply H. destruct k as [f c g|f c g t p|c t p]; cbn [expected key_cluster] in *;
    unfold group_view, topic_offsets, fetch_topic; rewrite Hg; reflexivity.
Qed.

Lemma expected_group_listed sc now st c g k :
  names_group c g k = true -> expected sc now st k <> None -> In g (cluster_groups st c).
Proof.
  intros Hn Hx. rewrite (expected_group_key _ _ _ _ _ _ Hn) in Hx. unfold group_view in Hx. unfold cluster_groups.
  destruct (get st c) as [cl|]; [|congruence].
  apply get_in_keys. intros Hg. rewrite Hg in Hx. congruence.
Qed.

Lemma expected_topic_listed sc now st c t p :
  expected sc now st (KTopic c t p) <> None -> In t (cluster_topics st c).
Proof.
  cbn [expected]. unfold topic_offsets, fetch_topic, cluster_topics. intros Hx.
  destruct (get st c) as [cl|]; [|congruence].
  apply get_in_keys. intros Hg. rewrite Hg in Hx. congruence.
Qed.

Lemma key_cases k : (exists g, names_group (key_cluster k) g k = true) \/ (exists t p, k = KTopic (key_cluster k) t p).
Proof.
  destruct k as [f c g|f c g t p|c t p]; [left; exists g|left; exists g|right; eauto];
    unfold names_group; cbn [key_cluster key_group]; rewrite !Z.eqb_refl; reflexivity.
Qed.

Definition cluster_step (sc : sconfig) (now : Z) (sy : sys) (c : Z) : option sys :=
  match scrape_groups_gen true true sc now c (cluster_groups (s_st sy) c) sy with
  | None => None
  | Some sy1 => Some (mkSys (s_st sy1) (scrape_topics (s_st sy1) c (cluster_topics (s_st sy1) c) (s_reg sy1)))
  end.

Lemma find_group_listed st c g : find_group st c g <> None -> In g (cluster_groups st c).
Proof.
  unfold find_group, cluster_groups. destruct (get st c) as [cl|]; [|congruence]. intros H. apply get_in_keys. exact H.
Qed.

Lemma find_group_cluster st c g : find_group st c g <> None -> In c (keys st).
Proof. unfold find_group. intros H. apply get_in_keys. destruct (get st c); congruence. Qed.

Lemma cluster_step_ok sc now sy c sy' :
  cluster_step sc now sy c = Some sy' ->
  StepOK sc now sy sy' /\
  (forall k, key_cluster k = c -> expected sc now (s_st sy') k <> None -> Correct sc now sy' k) /\
  (forall g grp, find_group (s_st sy') c g = Some grp -> expired (sc_st sc) now (g_last grp) = false).
Proof.
  unfold cluster_step.
  destruct (scrape_groups_gen true true sc now c (cluster_groups (s_st sy) c) sy) as [sy1|] eqn:Hg; [|discriminate].
  intros H. injection H as <-. rewrite scrape_topics_fold.
  destruct (scrape_groups_ok _ _ _ _ _ _ Hg) as (S1 & E1 & N1).
  assert (Esy1 : mkSys (s_st sy1) (s_reg sy1) = sy1) by (destruct sy1; reflexivity). rewrite Esy1.
  destruct (scrape_topics_ok sc now c (cluster_topics (s_st sy1) c) sy1) as [S2 E2].
  split; [eapply StepOK_trans; eassumption|]. split.
  - intros k Hk Hx. rewrite fold_topic_st in Hx.
    destruct (key_cases k) as [(g & Hn)|(t & p & Ek)]; rewrite Hk in *.
    + apply (so_pres _ _ _ _ S2). apply (E1 g k); [|exact Hn|exact Hx].
      apply (expected_group_listed sc now _ _ _ k Hn).
      destruct (so_exp _ _ _ _ S1 k) as [He|He]; congruence.
    + rewrite Ek in *. apply E2; [|exact Hx]. eapply expected_topic_listed. exact Hx.
  - intros g grp Hf. rewrite fold_topic_st in Hf. apply (N1 g grp); [|exact Hf].
    apply find_group_listed. destruct (so_gmono _ _ _ _ S1 c g) as [Hm|Hm]; congruence.
Qed.

Lemma scrape_clusters_unfold sc now cs sy :
  scrape_clusters_gen true true sc now cs sy =
  match cs with
  | [] => Some sy
  | c :: rest => match cluster_step sc now sy c with Some sy1 => scrape_clusters_gen true true sc now rest sy1 | None => None end
  end.
Proof. destruct cs as [|c rest]; [reflexivity|]. cbn [scrape_clusters_gen]. unfold cluster_step.
  destruct (scrape_groups_gen true true sc now c (cluster_groups (s_st sy) c) sy); reflexivity. Qed.

Lemma scrape_clusters_ok sc now cs : forall sy sy',
  scrape_clusters_gen true true sc now cs sy = Some sy' ->
  StepOK sc now sy sy' /\
  (forall k, In (key_cluster k) cs -> expected sc now (s_st sy') k <> None -> Correct sc now sy' k) /\
  (forall c g grp, In c cs -> find_group (s_st sy') c g = Some grp -> expired (sc_st sc) now (g_last grp) = false).
Proof.
  induction cs as [|c rest IH]; intros sy sy'; rewrite scrape_clusters_unfold.
  - intros H. injection H as <-. split; [apply StepOK_refl|]. split; [intros k []|intros c g grp []].
  - destruct (cluster_step sc now sy c) as [sy1|] eqn:H1; [|discriminate]. intros H2.
    destruct (cluster_step_ok _ _ _ _ _ H1) as (S1 & E1 & N1). destruct (IH _ _ H2) as (S2 & E2 & N2).
    split; [eapply StepOK_trans; eassumption|]. split.
    + intros k [Hc|Hin] Hx; [|apply E2; assumption].
      apply (so_pres _ _ _ _ S2). apply E1; [symmetry; exact Hc|].
      destruct (so_exp _ _ _ _ S2 k) as [He|He]; congruence.
    + intros c0 g grp [<-|Hin] Hf; [|eapply N2; eassumption].
      apply (N1 g grp). destruct (so_gmono _ _ _ _ S2 c g) as [Hm|Hm]; congruence.
Qed.

(* ---------- GET /metrics ---------- *)
Theorem scrape_stepok sc now sy sy' : scrape sc now sy = Some sy' -> StepOK sc now sy sy'.
Proof. intros H. exact (proj1 (scrape_clusters_ok _ _ _ _ _ H)). Qed.

(* whatever the registry held before: after a scrape every series the live state calls for is there, with the
   state's value *)
Theorem scrape_reports_state sc now sy sy' k :
  scrape sc now sy = Some sy' -> expected sc now (s_st sy') k <> None -> Correct sc now sy' k.
Proof.
  intros H Hx. destruct (scrape_clusters_ok _ _ _ _ _ H) as (S & E & _). apply E; [|exact Hx].
  apply get_in_keys. apply (expected_some_cluster sc now).
  destruct (so_exp _ _ _ _ S k) as [He|He]; congruence.
Qed.

(* and a scrape never invents a series: what the state does not call for is either absent or was there before *)
Theorem scrape_spec sc now sy sy' k :
  scrape sc now sy = Some sy' ->
  Correct sc now sy' k \/
  (expected sc now (s_st sy') k = None /\ reg_get (s_reg sy') k = reg_get (s_reg sy) k).
Proof.
  intros H. destruct (expected sc now (s_st sy') k) as [v|] eqn:Hx.
  - left. apply (scrape_reports_state _ _ _ _ _ H). congruence.
  - destruct (so_chg _ _ _ _ (scrape_stepok _ _ _ _ H) k) as [Hr|Hc]; [right; auto|left; exact Hc].
Qed.

(* the first scrape of a process (empty registry): /metrics is exactly what the state calls for *)
Theorem scrape_from_empty sc now st sy' k :
  scrape sc now (mkSys st []) = Some sy' -> reg_get (s_reg sy') k = expected sc now (s_st sy') k.
Proof.
  intros H. destruct (scrape_spec sc now _ _ k H) as [Hc|[Hx Hr]]; [exact Hc|].
  rewrite Hr, Hx. reflexivity.
Qed.

(* the core of "nothing outlives its deletion": a series that is absent and not called for stays absent *)
Theorem scrape_keeps_absent sc now sy sy' k :
  scrape sc now sy = Some sy' ->
  reg_get (s_reg sy) k = None -> expected sc now (s_st sy) k = None -> reg_get (s_reg sy') k = None.
Proof. intros H. apply (so_none _ _ _ _ (scrape_stepok _ _ _ _ H)). Qed.

(* a scrape asks for the status of every listed group: no group that is still there afterwards is expired *)
Theorem scrape_purges_expired sc now sy sy' c g grp :
  scrape sc now sy = Some sy' -> find_group (s_st sy') c g = Some grp -> expired (sc_st sc) now (g_last grp) = false.
Proof.
  intros H Hf. destruct (scrape_clusters_ok _ _ _ _ _ H) as (S & _ & N). apply (N c g grp); [|exact Hf].
  apply (find_group_cluster _ c g). destruct (so_gmono _ _ _ _ S c g) as [Hm|Hm]; congruence.
Qed.

(* ====================================================================================================
   Part 3: nothing outlives its deletion
   ==================================================================================================== *)
Definition group_has_topic (st : state) (c g t : Z) : bool :=
  match find_group st c g with
  | Some grp => match get (g_topics grp) t with Some _ => true | None => false end
  | None => false
  end.

Lemma eval_parts_topic t ps : forall i m a n l,
  eval_parts t i ps m a n = Ok l -> Forall (fun x => ps_topic x = t) l.
Proof.
  induction ps as [|p r IH]; intros i m a n l; cbn [eval_parts].
  - intros H. injection H as <-. constructor.
  - destruct (eval_partition p m a n) as [[[[s st] en] cpl]|]; [|discriminate].
    destruct (eval_parts t (i + 1) r m a n) as [l'|] eqn:E; [|discriminate].
    intros H. injection H as <-. constructor; [reflexivity|]. eapply IH. exact E.
Qed.

Lemma eval_topics_topic ts : forall m a n l,
  eval_topics ts m a n = Ok l -> Forall (fun x => In (ps_topic x) (map fst ts)) l.
Proof.
  induction ts as [|[t ps] r IH]; intros m a n l; cbn [eval_topics].
  - intros H. injection H as <-. constructor.
  - destruct (eval_parts t 0 ps m a n) as [l1|] eqn:E1; [|discriminate].
    destruct (eval_topics r m a n) as [l2|] eqn:E2; [|discriminate].
    intros H. injection H as <-. apply Forall_app. split.
    + eapply Forall_impl; [|eapply eval_parts_topic; exact E1]. cbn. intros x ->. left. reflexivity.
    + eapply Forall_impl; [|eapply IH; exact E2]. cbn. intros x Hx. right. exact Hx.
Qed.

Lemma fetch_topics_lags_keys b tops : forall l, fetch_topics_lags b tops = Some l -> map fst l = map fst tops.
Proof.
  induction tops as [|[t cps] r IH]; intros l; cbn [fetch_topics_lags].
  - intros H. injection H as <-. reflexivity.
  - destruct (match get b t with Some tl => add_lags tl 0 cps | None => Some cps end) as [cps'|]; [|discriminate].
    destruct (fetch_topics_lags b r) as [r'|]; [|discriminate].
    intros H. injection H as <-. cbn [map fst]. f_equal. apply IH. reflexivity.
Qed.

Lemma last_match_in q t p parts ps : last_match q t p parts = Some ps -> In ps parts /\ ps_topic ps = t.
Proof.
  unfold last_match. intros H. apply find_some in H. destruct H as [Hin Hp]. split; [apply in_rev; exact Hin|].
  apply andb_true_iff in Hp. destruct Hp as [Hp _]. apply andb_true_iff in Hp. destruct Hp as [Hp _].
  apply Z.eqb_eq. exact Hp.
Qed.

Lemma expected_part_topic sc now st f c g t p :
  expected sc now st (KPart f c g t p) <> None -> group_has_topic st c g t = true.
Proof.
  cbn [expected]. unfold group_view, group_has_topic, find_group.
  destruct (get st c) as [cl|]; [|congruence].
  destruct (get (cl_consumer cl) g) as [grp|]; [|congruence].
  destruct (fetch_topics_lags _ _) as [l|] eqn:El; [|congruence].
  destruct (eval_group l _ _ now) as [gs|] eqn:Eg; [|congruence].
  cbn [written]. rewrite !Z.eqb_refl. cbn [andb]. intros Hx.
  assert (Hm : exists q ps, last_match q t p (gs_partitions gs) = Some ps).
  { destruct f; cbn [option_map] in Hx;
      match type of Hx with context [last_match ?q t p ?l] => destruct (last_match q t p l) as [ps|] eqn:E end;
      try (exfalso; apply Hx; reflexivity); eauto. }
  destruct Hm as (q & ps & Hm). destruct (last_match_in _ _ _ _ _ Hm) as [Hin Ht].
  destruct (EvalGroupProofs.eval_group_spec _ _ _ _ _ Eg) as (parts & Hparts & Hgp & _).
  rewrite Hgp in Hin. pose proof (eval_topics_topic _ _ _ _ _ Hparts) as Hall.
  rewrite Forall_forall in Hall. specialize (Hall _ Hin). rewrite Ht in Hall.
  rewrite (fetch_topics_lags_keys _ _ _ El), map_map in Hall. cbn [fst] in Hall.
  destruct (get (g_topics grp) t) eqn:Egt; [reflexivity|].
  exfalso. assert (Hk : In t (keys (g_topics grp))) by exact Hall.
  apply get_in_keys in Hk. congruence.
Qed.

Lemma expected_no_topic sc now st c g t k :
  group_has_topic st c g t = false -> names_group_topic c g t k = true -> expected sc now st k = None.
Proof.
  intros Hh Hn. unfold names_group_topic in Hn. apply andb_true_iff in Hn. destruct Hn as [Hg Ht].
  destruct (names_group_inv _ _ _ Hg) as [(f & ->)|(f & t' & p & ->)].
  - unfold names_topic in Ht. cbn [key_topic] in Ht. rewrite andb_false_r in Ht. discriminate.
  - unfold names_topic in Ht. cbn [key_cluster key_topic] in Ht. apply andb_true_iff in Ht. destruct Ht as [_ Ht].
    apply Z.eqb_eq in Ht. subst t'.
    destruct (expected sc now st (KPart f c g t p)) eqn:E; [|reflexivity].
    assert (Hx : expected sc now st (KPart f c g t p) <> None) by congruence.
    apply expected_part_topic in Hx. congruence.
Qed.

(* ---- what the storage deletions do to the state ---- *)
Lemma delete_group_all st c g st' rep : delete_group st c g 0 = Done st' rep -> find_group st' c g = None.
Proof.
  unfold delete_group, find_group.
  destruct (get st c) as [cl|] eqn:Hc; [|intros H; injection H as <- _; rewrite Hc; reflexivity].
  destruct (get (cl_consumer cl) g) as [grp|] eqn:Hg.
  - cbn [Z.eqb]. intros H. injection H as <- _. rewrite get_set_eq. cbn [cl_consumer]. apply get_remove_eq.
  - intros H. injection H as <- _. rewrite Hc. exact Hg.
Qed.

Lemma delete_group_topic st c g t st' rep :
  delete_group st c g t = Done st' rep -> t <> 0 -> group_has_topic st' c g t = false.
Proof.
  unfold delete_group, group_has_topic, find_group. intros H Ht.
  destruct (get st c) as [cl|] eqn:Hc; [|injection H as <- _; rewrite Hc; reflexivity].
  destruct (get (cl_consumer cl) g) as [grp|] eqn:Hg; [|injection H as <- _; rewrite Hc, Hg; reflexivity].
  destruct (Z.eqb_spec t 0) as [|_]; [contradiction|].
  destruct (remove (g_topics grp) t) as [|x r] eqn:Er.
  - destruct (get (g_topics grp) t).
    + injection H as <- _. rewrite get_set_eq. cbn [cl_consumer]. rewrite get_remove_eq. reflexivity.
    + injection H as <- _. rewrite get_set_eq. cbn [cl_consumer]. rewrite get_set_eq. reflexivity.
  - injection H as <- _. rewrite get_set_eq. cbn [cl_consumer]. rewrite get_set_eq. cbn [g_topics].
    rewrite <- Er, get_remove_eq. reflexivity.
Qed.

Lemma delete_topic_effect st c t st' rep :
  delete_topic st c t = Done st' rep ->
  (forall g, group_has_topic st' c g t = false) /\ topic_offsets st' c t = None.
Proof.
  unfold delete_topic, group_has_topic, find_group, topic_offsets, fetch_topic.
  destruct (get st c) as [cl|] eqn:Hc.
  - intros H. injection H as <- _. rewrite get_set_eq. cbn [cl_consumer cl_broker]. split.
    + intros g. rewrite get_map_vals. destruct (get (cl_consumer cl) g); cbn [option_map g_topics]; [|reflexivity].
      rewrite get_remove_eq. reflexivity.
    + rewrite get_remove_eq. reflexivity.
  - intros H. injection H as <- _. rewrite Hc. split; reflexivity.
Qed.

Lemma names_topic_cases c t k :
  names_topic c t k = true -> (exists p, k = KTopic c t p) \/ (exists g, names_group_topic c g t k = true).
Proof.
  destruct k as [f c' g'|f c' g' t' p|c' t' p]; unfold names_topic; cbn [key_cluster key_topic]; intros H.
  - rewrite andb_false_r in H. discriminate.
  - right. exists g'. unfold names_group_topic, names_group, names_topic. cbn [key_cluster key_group key_topic].
    apply andb_true_iff in H. destruct H as [-> ->]. rewrite Z.eqb_refl. reflexivity.
  - left. apply andb_true_iff in H. destruct H as [Hc Ht]. apply Z.eqb_eq in Hc, Ht. subst. eauto.
Qed.

(* ---- the deletion paths; [now'] is the time of the next scrape ---- *)
(* metadata tombstone (consumer module) and reaper (cluster module) *)
Theorem no_series_outlives_group_gone sc now now' sy sy1 sy2 c g k :
  sys_step sc now sy (OGroupGone c g) = Some sy1 -> scrape sc now' sy1 = Some sy2 ->
  names_group c g k = true -> reg_get (s_reg sy2) k = None /\ find_group (s_st sy2) c g = None.
Proof.
  cbn [sys_step]. unfold sys_storage, sys_storage_gen. cbn [step].
  destruct (delete_group (s_st sy) c g 0) as [st1 rep|] eqn:Hd; [|discriminate].
  intros H. injection H as <-. cbn [s_st s_reg]. intros Hs Hn.
  pose proof (delete_group_all _ _ _ _ _ Hd) as Hf. split.
  - apply (scrape_keeps_absent _ _ _ _ _ Hs); cbn [s_reg s_st].
    + rewrite delete_consumer_metrics_spec, Hn. reflexivity.
    + apply (expected_absent _ _ _ _ _ _ Hf Hn).
  - destruct (so_gmono _ _ _ _ (scrape_stepok _ _ _ _ Hs) c g) as [Hm|Hm]; cbn [s_st] in Hm; congruence.
Qed.

(* HTTP DELETE /v3/kafka/:cluster/consumer/:group *)
Theorem no_series_outlives_api_group sc now now' sy sy1 sy2 c g k :
  get (s_st sy) c <> None ->
  sys_step sc now sy (OStorage (DeleteGroup c g 0)) = Some sy1 -> scrape sc now' sy1 = Some sy2 ->
  names_group c g k = true -> reg_get (s_reg sy2) k = None /\ find_group (s_st sy2) c g = None.
Proof.
  intros Hc. cbn [sys_step]. unfold sys_storage, sys_storage_gen. cbn [step].
  destruct (delete_group (s_st sy) c g 0) as [st1 rep|] eqn:Hd; [|discriminate].
  intros H. injection H as <-. cbn [s_st s_reg]. intros Hs Hn.
  pose proof (delete_group_all _ _ _ _ _ Hd) as Hf. split.
  - apply (scrape_keeps_absent _ _ _ _ _ Hs); cbn [s_reg s_st].
    + destruct (get (s_st sy) c); [|congruence]. rewrite Hf, delete_consumer_metrics_spec, Hn. reflexivity.
    + apply (expected_absent _ _ _ _ _ _ Hf Hn).
  - destruct (so_gmono _ _ _ _ (scrape_stepok _ _ _ _ Hs) c g) as [Hm|Hm]; cbn [s_st] in Hm; congruence.
Qed.

(* HTTP DELETE /v3/kafka/:cluster/consumer/:group/topic/:topic *)
Theorem no_series_outlives_api_group_topic sc now now' sy sy1 sy2 c g t k :
  get (s_st sy) c <> None -> t <> 0 ->
  sys_step sc now sy (OStorage (DeleteGroup c g t)) = Some sy1 -> scrape sc now' sy1 = Some sy2 ->
  names_group_topic c g t k = true -> reg_get (s_reg sy2) k = None.
Proof.
  intros Hc Ht. cbn [sys_step]. unfold sys_storage, sys_storage_gen. cbn [step].
  destruct (delete_group (s_st sy) c g t) as [st1 rep|] eqn:Hd; [|discriminate].
  intros H. injection H as <-. cbn [s_st s_reg]. intros Hs Hn.
  pose proof (delete_group_topic _ _ _ _ _ _ Hd Ht) as Hh.
  apply (scrape_keeps_absent _ _ _ _ _ Hs); cbn [s_reg s_st].
  - destruct (get (s_st sy) c); [|congruence].
    destruct (find_group st1 c g).
    + rewrite delete_consumer_topic_metrics_spec, Hn. reflexivity.
    + rewrite delete_consumer_metrics_spec. unfold names_group_topic in Hn. apply andb_true_iff in Hn.
      destruct Hn as [-> _]. reflexivity.
  - apply (expected_no_topic _ _ _ _ _ _ _ Hh Hn).
Qed.

(* topic deletion noticed by the cluster module *)
Theorem no_series_outlives_topic sc now now' sy sy1 sy2 c t k :
  sys_step sc now sy (OTopicDeleted c t) = Some sy1 -> scrape sc now' sy1 = Some sy2 ->
  names_topic c t k = true -> reg_get (s_reg sy2) k = None.
Proof.
  cbn [sys_step]. unfold sys_storage, sys_storage_gen. cbn [step].
  destruct (delete_topic (s_st sy) c t) as [st1 rep|] eqn:Hd; [|discriminate].
  intros H. injection H as <-. cbn [s_st s_reg]. intros Hs Hn.
  destruct (delete_topic_effect _ _ _ _ _ Hd) as [Hh Ho].
  apply (scrape_keeps_absent _ _ _ _ _ Hs); cbn [s_reg s_st].
  - rewrite delete_topic_metrics_spec, Hn. reflexivity.
  - destruct (names_topic_cases _ _ _ Hn) as [(p & ->)|(g & Hgt)].
    + cbn [expected]. rewrite Ho. reflexivity.
    + apply (expected_no_topic _ _ _ _ _ _ _ (Hh g) Hgt).
Qed.

(* expiry: the scrape itself purges (and, since the repair, deletes the series of) every expired group *)
Theorem no_series_outlives_expiry sc now sy sy' c g k :
  group_expired (sc_st sc) now (s_st sy) c g = true -> scrape sc now sy = Some sy' ->
  names_group c g k = true -> reg_get (s_reg sy') k = None /\ find_group (s_st sy') c g = None.
Proof.
  intros He Hs Hn. unfold group_expired in He.
  destruct (find_group (s_st sy) c g) as [grp|] eqn:Hf; [|discriminate].
  assert (Hgone : find_group (s_st sy') c g = None).
  { destruct (find_group (s_st sy') c g) as [grp'|] eqn:Hf'; [|reflexivity].
    pose proof (scrape_purges_expired _ _ _ _ _ _ _ Hs Hf') as Hne.
    destruct (so_gmono _ _ _ _ (scrape_stepok _ _ _ _ Hs) c g) as [Hm|Hm]; congruence. }
  split; [|exact Hgone].
  apply (so_gone _ _ _ _ (scrape_stepok _ _ _ _ Hs) c g); [congruence|exact Hgone|exact Hn].
Qed.

(* ... and so does any request for the group's detail or status (JSON endpoints, notifier) *)
Theorem no_series_outlives_expiry_fetch sc now sy sy1 rep c g k :
  group_expired (sc_st sc) now (s_st sy) c g = true ->
  sys_storage sc now sy (FetchConsumer c g) = Some (sy1, rep) ->
  names_group c g k = true ->
  rep = RNil /\ reg_get (s_reg sy1) k = None /\ find_group (s_st sy1) c g = None.
Proof.
  unfold sys_storage, sys_storage_gen. cbn [step andb]. intros He. rewrite He.
  unfold group_expired, find_group in He. unfold fetch_consumer.
  destruct (get (s_st sy) c) as [cl|] eqn:Hc; [|discriminate].
  destruct (get (cl_consumer cl) g) as [grp|] eqn:Hg; [|discriminate].
  rewrite He. intros H. injection H as <- <-. intros Hn. cbn [s_reg s_st].
  split; [reflexivity|]. split.
  - rewrite delete_consumer_metrics_spec, Hn. reflexivity.
  - rewrite (find_group_purge _ _ _ _ _ _ Hc), !Z.eqb_refl. reflexivity.
Qed.

(* ====================================================================================================
   Part 4: attribution of topic offsets, the JSON views, the first scrape of a history, witnesses
   ==================================================================================================== *)
Lemma no_gap_nth tl : no_gap tl = true -> forall n,
  nth_error (flat_map (fun r : bring => match last r None with Some o => [o] | None => [] end) tl) n =
  match nth_error tl n with Some r => last r None | None => None end.
Proof.
  induction tl as [|r rest IH]; intros Hg n; cbn [flat_map no_gap] in *.
  - destruct n; reflexivity.
  - destruct (last r None) as [o|] eqn:El.
    + destruct n as [|m]; cbn [app nth_error]; [symmetry; exact El|]. apply IH. exact Hg.
    + cbn [app].
      assert (Hnil : flat_map (fun r : bring => match last r None with Some o => [o] | None => [] end) rest = []).
      { clear IH. induction rest as [|r' rest' IHr]; [reflexivity|]. cbn [forallb flat_map] in *.
        apply andb_true_iff in Hg. destruct Hg as [H1 H2]. destruct (last r' None); [discriminate|]. cbn [app]. apply IHr. exact H2. }
      rewrite Hnil. destruct n as [|m]; cbn [nth_error]; [symmetry; exact El|].
      destruct (nth_error rest m) as [r'|] eqn:En; [|reflexivity].
      rewrite forallb_forall in Hg. specialize (Hg r' (nth_error_In _ _ En)). destruct (last r' None); [discriminate|reflexivity].
Qed.

(* where no partition without an offset precedes one with an offset, the offset reported for partition p
   (series label and JSON position) is partition p's own newest broker offset *)
Theorem topic_offset_own_partition sc now st c t p :
  topic_no_gap st c t = true -> expected sc now st (KTopic c t p) = broker_offset st c t p.
Proof.
  unfold topic_no_gap, broker_offset. cbn [expected]. unfold topic_offsets, fetch_topic.
  destruct (get st c) as [cl|]; [|reflexivity].
  destruct (get (cl_broker cl) t) as [tl|]; [|reflexivity].
  intros Hg. destruct (p <? 0); [reflexivity|]. apply no_gap_nth. exact Hg.
Qed.

Definition wsc (intervals : nat) (expire : Z) : sconfig :=
  mkSconfig (mkConfig intervals expire 0 (fun _ => true)) f32_zero 0.

(* finding C17:topic-offset-position: partition 1 never got an offset, partition 2's offset is reported as partition 1's *)
Theorem topic_offset_position_refuted :
  exists sc now st c t p, expected sc now st (KTopic c t p) <> broker_offset st c t p.
Proof.
  exists (wsc 1 100), 1000, [(1, mkCluster [(1, [[Some 100]; [None]; [Some 300]])] [])], 1, 1, 1.
  vm_compute. discriminate.
Qed.

(* ---- JSON status / lag endpoints: the evaluation of the stored group, unfiltered or filtered ---- *)
Theorem json_status_equals_state sc now sy c g show_all sy' v :
  json_status sc now sy c g show_all = Some (sy', Some v) ->
  sy' = sy /\ exists gs, group_view sc now (s_st sy) c g = Some gs /\ v = (if show_all then gs else filter_view gs).
Proof.
  unfold json_status. destruct (sys_status sc now sy c g) as [[sy1 [gs|]]|] eqn:Hs; try discriminate.
  intros H. injection H as <- <-.
  destruct (status_cases _ _ _ _ _ _ _ Hs) as [(_ & _ & Ho)|[(cl & _ & _ & _ & Ho)|(_ & -> & gs' & Ho & Hv)]]; try discriminate.
  injection Ho as <-. split; [reflexivity|]. eauto.
Qed.

Theorem json_status_notfound sc now sy c g show_all sy' :
  json_status sc now sy c g show_all = Some (sy', None) -> find_group (s_st sy') c g = None.
Proof.
  unfold json_status. destruct (sys_status sc now sy c g) as [[sy1 [gs|]]|] eqn:Hs; try discriminate.
  intros H. injection H as <-.
  destruct (status_cases _ _ _ _ _ _ _ Hs) as [(Hf & -> & _)|[(cl & Hc & _ & -> & _)|(_ & _ & gs' & Ho & _)]]; try discriminate.
  - exact Hf.
  - cbn [s_st]. rewrite (find_group_purge _ _ _ _ _ _ Hc), !Z.eqb_refl. reflexivity.
Qed.

(* ---- the first scrape after any history that contains no scrape: the registry IS the expected one ---- *)
Definition not_scrape (o : op) : bool := match o with OScrape => false | _ => true end.

Lemma reg_del_nil pred : reg_del pred [] = [].
Proof. reflexivity. Qed.

Lemma delete_consumer_metrics_nil c g : delete_consumer_metrics c g [] = [].
Proof. reflexivity. Qed.

Lemma storage_keeps_empty pd sc now sy r sy' rep :
  s_reg sy = [] -> sys_storage_gen pd sc now sy r = Some (sy', rep) -> s_reg sy' = [].
Proof.
  intros Hr. unfold sys_storage_gen. destruct (step _ _ _ r) as [st' rep'|]; [|discriminate].
  intros H. injection H as <- _. cbn [s_reg]. rewrite Hr.
  destruct r; try reflexivity;
    repeat match goal with |- context [match ?x with _ => _ end] => destruct x end; reflexivity.
Qed.

Lemma step_keeps_empty sc now sy o sy' :
  not_scrape o = true -> s_reg sy = [] -> sys_step sc now sy o = Some sy' -> s_reg sy' = [].
Proof.
  intros Hn Hr. destruct o as [r|c t|c g|c g|]; try discriminate; cbn [sys_step].
  - destruct (sys_storage sc now sy r) as [[sy1 rep]|] eqn:Hs; [|discriminate].
    intros H. injection H as <-. eapply storage_keeps_empty; eassumption.
  - destruct (sys_storage sc now sy (DeleteTopic c t)) as [[sy1 rep]|] eqn:Hs; [|discriminate].
    intros H. injection H as <-. cbn [s_reg]. rewrite (storage_keeps_empty _ _ _ _ _ _ _ Hr Hs). reflexivity.
  - destruct (sys_storage sc now sy (DeleteGroup c g 0)) as [[sy1 rep]|] eqn:Hs; [|discriminate].
    intros H. injection H as <-. cbn [s_reg]. rewrite (storage_keeps_empty _ _ _ _ _ _ _ Hr Hs). reflexivity.
  - unfold sys_status, sys_status_gen.
    destruct (sys_storage_gen true sc now sy (FetchConsumer c g)) as [[sy1 rep]|] eqn:Hs; [|discriminate].
    pose proof (storage_keeps_empty _ _ _ _ _ _ _ Hr Hs) as He.
    destruct rep; try (intros H; injection H as <-; exact He).
    destruct (eval_group l _ _ now); [|discriminate]. intros H. injection H as <-. exact He.
Qed.

Lemma run_keeps_empty sc h : forall sy sy',
  forallb (fun no => not_scrape (snd no)) h = true -> s_reg sy = [] -> sys_run sc sy h = Some sy' -> s_reg sy' = [].
Proof.
  induction h as [|[now o] rest IH]; intros sy sy' Hn Hr; cbn [sys_run].
  - intros H. injection H as <-. exact Hr.
  - cbn [forallb snd] in Hn. apply andb_true_iff in Hn. destruct Hn as [Ho Hrest].
    destruct (sys_step sc now sy o) as [sy1|] eqn:Hs; [|discriminate].
    apply IH; [exact Hrest|]. eapply step_keeps_empty; eassumption.
Qed.

Theorem metrics_equal_state_first_scrape sc clusters h sy now sy' k :
  forallb (fun no => not_scrape (snd no)) h = true ->
  sys_run sc (init_sys clusters) h = Some sy -> scrape sc now sy = Some sy' ->
  reg_get (s_reg sy') k = expected sc now (s_st sy') k.
Proof.
  intros Hn Hr Hs. assert (He : s_reg sy = []) by (eapply run_keeps_empty; [exact Hn| |exact Hr]; reflexivity).
  destruct sy as [st reg]. cbn [s_reg] in He. subst reg. apply (scrape_from_empty _ _ _ _ _ Hs).
Qed.

(* ---- witnesses: old behaviour, and the recorded finding about listing ---- *)
Definition w_ingest (sc : sconfig) (clusters : list Z) (h : list (Z * req)) : option sys :=
  sys_run sc (init_sys clusters) (map (fun nr => (fst nr, OStorage (snd nr))) h).

(* before 8eaa8f9: the expired group is purged by the scrape, its series stay *)
Theorem expiry_outlives_v0_refuted :
  exists sc sy now c g k sy',
    group_expired (sc_st sc) now (s_st sy) c g = true /\ names_group c g k = true /\
    scrape_v0 sc now sy = Some sy' /\ find_group (s_st sy') c g = None /\ reg_get (s_reg sy') k <> None.
Proof.
  destruct (w_ingest (wsc 1 100) [3] [(1000, SetBrokerOffset 3 1 0 1 100); (1000, SetConsumerOffset 3 1 1 0 90 1 999000)])
    as [sy0|] eqn:E0; [|vm_compute in E0; discriminate].
  destruct (scrape_v0 (wsc 1 100) 1000 sy0) as [sy1|] eqn:E1; [|vm_compute in E0; injection E0 as <-; vm_compute in E1; discriminate].
  destruct (scrape_v0 (wsc 1 100) 2000 sy1) as [sy2|] eqn:E2;
    [|vm_compute in E0; injection E0 as <-; vm_compute in E1; injection E1 as <-; vm_compute in E2; discriminate].
  exists (wsc 1 100), sy1, 2000, 3, 1, (KGroup GStatus 3 1), sy2.
  vm_compute in E0. injection E0 as <-. vm_compute in E1. injection E1 as <-. vm_compute in E2. injection E2 as <-.
  repeat split; try (vm_compute; reflexivity). vm_compute. discriminate.
Qed.

(* before ff5734c: a status entry with Complete = 1.0 and End = nil made the handler dereference nil.  Until the
   evaluator repair 21f3585 evaluatePartitionStatus produced exactly that for intervals = 1 and a partition known
   only through an owner update (window [nil]); the guarded handler skips it. *)
Definition w_nil_end_status : gstatus :=
  mkGstatus StOK f32_one [mkPstatus 1 1 7 8 StOK None None 0 f32_one] 1 None 0.

Theorem scrape_nil_end_v0_refuted :
  exists gs, nil_end_panics gs = true /\
             reg_get (set_group 4 1 [] gs) (KPart PLag 4 1 1 1) = Some 0 /\
             reg_get (set_group 4 1 [] gs) (KPart POffset 4 1 1 1) = None.
Proof. exists w_nil_end_status. vm_compute. auto. Qed.

(* finding C17:expired-group-listed: the list requests do not look at the expiry *)
Theorem expired_group_listed_refuted :
  exists sc sy now c g sy' l,
    group_expired (sc_st sc) now (s_st sy) c g = true /\
    sys_storage sc now sy (FetchConsumers c) = Some (sy', RStrings l) /\ In g l.
Proof.
  destruct (w_ingest (wsc 1 100) [3] [(1000, SetBrokerOffset 3 1 0 1 100); (1000, SetConsumerOffset 3 1 1 0 90 1 999000)])
    as [sy0|] eqn:E0; [|vm_compute in E0; discriminate].
  exists (wsc 1 100), sy0, 2000, 3, 1. vm_compute in E0. injection E0 as <-.
  eexists. eexists. split; [vm_compute; reflexivity|]. split; [vm_compute; reflexivity|]. left. reflexivity.
Qed.

(* non-vacuity: a history with two groups, a complete window, a leaderless partition and a topic deletion; the
   scrapes succeed and the registry is non-trivial *)
Example scrape_nonvacuous :
  exists sy1 sy2 sy3,
    w_ingest (wsc 1 604800) [1]
      [(1000, SetBrokerOffset 1 1 0 2 100); (1000, SetBrokerOffset 1 2 0 1 50);
       (1000, SetConsumerOffset 1 1 1 0 90 1 999000); (1000, SetConsumerOffset 1 2 2 0 50 2 999500);
       (1000, SetConsumerOwner 1 1 1 0 7 8)] = Some sy1 /\
    scrape (wsc 1 604800) 1001 sy1 = Some sy2 /\
    reg_get (s_reg sy2) (KPart POffset 1 1 1 0) = Some 90 /\
    reg_get (s_reg sy2) (KPart PLag 1 1 1 0) = Some 10 /\
    reg_get (s_reg sy2) (KTopic 1 2 0) = Some 50 /\
    sys_step (wsc 1 604800) 1002 sy2 (OTopicDeleted 1 1) = Some sy3 /\
    reg_get (s_reg sy3) (KPart POffset 1 1 1 0) = None /\
    reg_get (s_reg sy3) (KGroup GStatus 1 1) <> None.
Proof.
  eexists. eexists. eexists.
  split; [vm_compute; reflexivity|]. split; [vm_compute; reflexivity|].
  repeat (split; [vm_compute; reflexivity|]). vm_compute. discriminate.
Qed.

(* ====================================================================================================
   Part 5: the regenerated tables
   ==================================================================================================== *)
Theorem sites_ok_sound l :
  sites_ok l = true ->
  (exists s, In s l /\ site_req s = "StorageSetDeleteTopic"%string) /\
  (forall s, In s l -> site_req s = "StorageSetDeleteTopic"%string -> In (wanted_call s) (site_calls s)).
Proof.
  unfold sites_ok. intros H. apply andb_true_iff in H. destruct H as [He Hf]. split.
  - apply existsb_exists in He. destruct He as (s & Hin & Ht). exists s. split; [exact Hin|].
    unfold topic_site in Ht. apply String.eqb_eq. exact Ht.
  - intros s Hin Hr. rewrite forallb_forall in Hf. specialize (Hf s Hin). unfold site_ok, topic_site in Hf.
    rewrite Hr in Hf. cbn [String.eqb Ascii.eqb Bool.eqb] in Hf. apply existsb_exists in Hf. destruct Hf as (c & Hc & Heq).
    apply String.eqb_eq in Heq. subst c. exact Hc.
Qed.

Theorem tags_ok_sound tbl :
  tags_ok tbl = true -> forall s f k, In (s, f, k) required_tags -> In (s, f, k) tbl.
Proof.
  unfold tags_ok. intros H. apply andb_true_iff in H. destruct H as [Hr _]. rewrite forallb_forall in Hr.
  intros s f k Hin. specialize (Hr _ Hin). apply existsb_exists in Hr. destruct Hr as ([[s' f'] k'] & Hin' & He).
  unfold tag_eqb in He. cbn [fst snd] in He. apply andb_true_iff in He. destruct He as [He Hk].
  apply andb_true_iff in He. destruct He as [Hs Hf]. apply String.eqb_eq in Hs, Hf, Hk. subst. exact Hin'.
Qed.
