(* Proofs about the composed data path (Pipeline.v): each layer's output meets the next layer's assumptions, for all
   inputs; the storage history of any event sequence is well-formed; every reply evaluates. *)
From Coq Require Import ZArith List Bool Lia ZifyBool.
From Burrow Require Import Int64 Int64Proofs F32 Eval EvalProofs EvalGroupProofs EvalCompleteProofs.
From Burrow Require Import AMap AMapProofs Ring RingProofs Storage StorageProofs StorageWindows StorageDelProofs Pipeline.
From Burrow Require Wire WireProofs WireRoundtripProofs ClusterMod ClusterModProofs.
Import ListNotations.
Open Scope Z_scope.

(* ------------------------------------------------------------------------------------------------------------------ *)
(* the cluster module: final state of a list of cycles, and the trace of a list extended by one cycle                   *)
(* ------------------------------------------------------------------------------------------------------------------ *)
Module CM := ClusterMod.
Module CP := ClusterModProofs.

(* what one cluster's environment must satisfy: Kafka numbers partitions 0..n-1 (C11's env_ids_ok), an ErrNoError block
   carries an offset (C11's env_offsets_ok), and offsets are int64 (the wire type of the field) *)
Definition env_i64_ok (e : CM.env) : Prop :=
  forall b ans t p, CM.e_answer e b = CM.Good ans -> Forall in_i64 (snd (ans t p)).
Definition env_ok (e : CM.env) : Prop := CP.env_ids_ok e /\ CP.env_offsets_ok e /\ env_i64_ok e.

Fixpoint cfinal (st : CM.state) (l : list (bool * CM.env)) : CM.state :=
  match l with
  | [] => st
  | (tk, e) :: r =>
      match CM.cycle (CM.tick tk st) e with
      | CM.Done o => cfinal (CM.co_state o) r
      | CM.Crash => st
      end
  end.

Lemma cycle_ok_done st e : CP.env_offsets_ok e -> exists o, CM.cycle st e = CM.Done o.
Proof.
  intros Hok. destruct (CM.cycle st e) as [o|] eqn:Ec; [eauto|].
  exfalso. apply CP.cycle_crash_iff in Ec as [b [t [p [ans [_ [Ha Hb]]]]]].
  apply (Hok b ans t p Ha); rewrite Hb; reflexivity.
Qed.

Lemma trace_snoc l : forall st g tk e o,
  (forall x, In x l -> CP.env_offsets_ok (snd x)) ->
  CM.cycle (CM.tick tk (cfinal st l)) e = CM.Done o ->
  exists g', CM.trace st g (l ++ [(tk, e)]) = CM.trace st g l ++ [CM.mkEntry (CM.tick tk (cfinal st l)) e g' o].
Proof.
  induction l as [|[tk0 e0] r IH]; intros st g tk e o Hok Hc; cbn [app CM.trace cfinal] in *.
  - rewrite Hc. exists g. reflexivity.
  - destruct (cycle_ok_done (CM.tick tk0 st) e0 (Hok (tk0, e0) (or_introl eq_refl))) as [o0 E0].
    rewrite E0 in *. destruct (IH (CM.co_state o0) (CM.ghost_next (CM.tick tk0 st) e0 g) tk e o) as [g' Hg'].
    + intros x Hx. apply Hok. right. exact Hx.
    + exact Hc.
    + exists g'. rewrite Hg'. reflexivity.
Qed.

Lemma cfinal_snoc l : forall st tk e o,
  (forall x, In x l -> CP.env_offsets_ok (snd x)) ->
  CM.cycle (CM.tick tk (cfinal st l)) e = CM.Done o ->
  cfinal st (l ++ [(tk, e)]) = CM.co_state o.
Proof.
  induction l as [|[tk0 e0] r IH]; intros st tk e o Hok Hc; cbn [app cfinal] in *.
  - rewrite Hc. reflexivity.
  - destruct (cycle_ok_done (CM.tick tk0 st) e0 (Hok (tk0, e0) (or_introl eq_refl))) as [o0 E0].
    rewrite E0 in *. apply IH; [intros x Hx; apply Hok; right; exact Hx|exact Hc].
Qed.

Lemma trace_env_in l : forall st g en, In en (CM.trace st g l) -> exists tk, In (tk, CM.en_env en) l.
Proof.
  induction l as [|[tk e] r IH]; cbn [CM.trace]; intros st g en Hin; [contradiction|].
  destruct (CM.cycle (CM.tick tk st) e) as [o|]; [|contradiction].
  destruct Hin as [<-|Hin]; [exists tk; left; reflexivity|].
  destruct (IH _ _ _ Hin) as [tk' H]. exists tk'. right. exact H.
Qed.

(* a cluster-module state the pipeline can be in: the result of some list of cycles in acceptable environments *)
Definition creach (cs : CM.state) : Prop :=
  exists l, (forall x, In x l -> env_ok (snd x)) /\ cs = cfinal CM.init_state l.

Lemma creach_init : creach CM.init_state.
Proof. exists []. split; [intros x []|reflexivity]. Qed.

Lemma cfinal_wf l : forall st, CP.wf st -> CP.wf (cfinal st l).
Proof.
  induction l as [|[tk e] r IH]; intros st Hw; cbn [cfinal]; [exact Hw|].
  destruct (CM.cycle (CM.tick tk st) e) as [o|] eqn:Ec; [|exact Hw].
  apply IH. eapply CP.cycle_wf; [apply CP.wf_tick; exact Hw|exact Ec].
Qed.

Lemma creach_wf cs : creach cs -> CP.wf cs.
Proof. intros [l [_ ->]]. apply cfinal_wf. apply CP.wf_init. Qed.

Section Glue.
Variable name : list Z -> Z.

(* ------------------------------------------------------------------------------------------------------------------ *)
(* interface 1: reader -> storage                                                                                       *)
(* ------------------------------------------------------------------------------------------------------------------ *)

(* everything storage's arithmetic assumes of a request: Go's field widths, and for a broker offset the partition below
   the announced count (topicList[request.Partition] in addBrokerOffset) *)
Definition sreq_in_range (r : req) : Prop :=
  match r with
  | SetBrokerOffset _ _ p cnt off => 0 <= p < cnt /\ in_i64 off
  | SetConsumerOffset _ _ _ p off order ts => in_i32 p /\ in_i64 off /\ in_i64 order /\ in_i64 ts
  | SetConsumerOwner _ _ _ p _ _ => in_i32 p
  | _ => True
  end.

Lemma sreq_in_range_wf r : sreq_in_range r -> wf_req r.
Proof. destruct r; cbn; tauto. Qed.

(* every request the decoder emits, for ANY key and value, satisfies storage's side conditions *)
Theorem wire_output_wf accept key value o rs al c :
  in_i64 o ->
  Wire.process_message accept key value o = Wire.Done rs al ->
  Forall (fun r => sreq_in_range (wire_to_storage name c r)) rs.
Proof.
  intros Ho Hp. pose proof (WireRoundtripProofs.in_range accept key value o rs al Hp) as Hr.
  eapply Forall_impl; [|exact Hr]. intros r Hrr.
  destruct r; cbn in *; try tauto. destruct Hrr as (H1 & H2 & H3 & ->). tauto.
Qed.

(* ------------------------------------------------------------------------------------------------------------------ *)
(* interface 2: cluster module -> storage                                                                               *)
(* ------------------------------------------------------------------------------------------------------------------ *)

(* every request of every cycle of every run of a fresh cluster module in acceptable environments *)
Theorem cluster_output_wf l en c :
  (forall x, In x l -> env_ok (snd x)) ->
  In en (CM.trace CM.init_state None l) ->
  Forall sreq_in_range (cluster_to_storage c (CM.en_out en)).
Proof.
  intros Hok Hin. unfold cluster_to_storage. apply Forall_app. split.
  - apply Forall_forall. intros r Hr. apply in_map_iff in Hr as [t [<- _]]. exact I.
  - apply Forall_forall. intros r Hr. apply in_map_iff in Hr as [[[[t p] off] cnt] [<- Hu]]. cbn.
    split.
    + eapply CP.count_bounds_partition; [|exact Hin|exact Hu]. intros x Hx. apply (Hok x Hx).
    + apply (CP.answer_to_update_run _ _ Hin) in Hu as [b [ans [rest [ge [ps [_ [Ha [Hb _]]]]]]]].
      destruct (trace_env_in _ _ _ _ Hin) as [tk Htk].
      destruct (Hok _ Htk) as (_ & _ & H64). cbn [snd] in H64.
      specialize (H64 b ans t p Ha). rewrite Hb in H64. cbn [snd] in H64. inversion H64; assumption.
Qed.

(* the same, one step at a time: a reachable module state, one more cycle *)
Lemma creach_cycle cs tk e c :
  creach cs -> env_ok e ->
  exists o, CM.cycle (CM.tick tk cs) e = CM.Done o /\ creach (CM.co_state o) /\
            Forall sreq_in_range (cluster_to_storage c o).
Proof.
  intros [l [Hok ->]] He.
  destruct (cycle_ok_done (CM.tick tk (cfinal CM.init_state l)) e (proj1 (proj2 He))) as [o Ho].
  exists o. split; [exact Ho|].
  assert (Hoff : forall x, In x l -> CP.env_offsets_ok (snd x)) by (intros x Hx; apply (Hok x Hx)).
  assert (Hok' : forall x, In x (l ++ [(tk, e)]) -> env_ok (snd x)).
  { intros x Hx. apply in_app_or in Hx as [Hx|[<-|[]]]; [apply (Hok x Hx)|exact He]. }
  split.
  - exists (l ++ [(tk, e)]). split; [exact Hok'|]. symmetry. apply cfinal_snoc; assumption.
  - destruct (trace_snoc l CM.init_state None tk e o Hoff Ho) as [g' Hg'].
    apply (cluster_output_wf (l ++ [(tk, e)]) (CM.mkEntry (CM.tick tk (cfinal CM.init_state l)) e g' o) c Hok').
    rewrite Hg'. apply in_or_app. right. left. reflexivity.
Qed.

(* ------------------------------------------------------------------------------------------------------------------ *)
(* the storage history of any event sequence                                                                            *)
(* ------------------------------------------------------------------------------------------------------------------ *)

(* what is assumed of an event: the message's position in the offsets log is an int64 (sarama.ConsumerMessage.Offset);
   the cluster environment is acceptable.  Nothing about keys, values, group names, clock values. *)
Definition event_ok (ev : pevent) : Prop :=
  match ev with
  | KafkaMessage _ _ _ o => in_i64 o
  | ClusterCycle _ _ e => env_ok e
  | _ => True
  end.

Definition clusters_ok (m : amap CM.state) : Prop := forall c cs, get m c = Some cs -> creach cs.

Lemma clusters_ok_init cls : clusters_ok (map (fun c => (c, CM.init_state)) cls).
Proof.
  intros c cs H. induction cls as [|c0 cls IH]; cbn in H; [discriminate|].
  destruct (c0 =? c); [injection H as <-; apply creach_init|auto].
Qed.

Lemma Forall_stamp (P : req -> Prop) now rs : Forall P rs -> Forall (fun x => P (snd x)) (stamp now rs).
Proof. intros H. unfold stamp. apply Forall_forall. intros x Hx. apply in_map_iff in Hx as [r [<- Hr]]. cbn. rewrite Forall_forall in H. auto. Qed.

(* the requests of one event are in range, the module that sends them does not panic, the module states stay reachable *)
Lemma event_reqs_ok pc ps ev :
  clusters_ok (p_cluster ps) -> event_ok ev ->
  exists rs, event_reqs name pc ps ev = Some rs /\ Forall sreq_in_range rs /\ clusters_ok (cluster_after ps ev).
Proof.
  intros Hcl Hev. destruct ev as [c key value o|c tk e|c g sa|now]; cbn [event_reqs cluster_after event_ok] in *.
  - destruct (WireProofs.process_never_crashes (pc_reader_accept pc c) key value o) as (rs & al & Hp).
    rewrite Hp. exists (map (wire_to_storage name c) rs). split; [reflexivity|]. split; [|exact Hcl].
    pose proof (wire_output_wf _ _ _ _ _ _ c Hev Hp) as H. rewrite Forall_forall in *. intros r Hr.
    apply in_map_iff in Hr as [r0 [<- Hr0]]. auto.
  - destruct (get (p_cluster ps) c) as [cs|] eqn:Ec.
    + destruct (creach_cycle cs tk e c (Hcl c cs Ec) Hev) as (o & Ho & Hr & Hw). rewrite Ho.
      exists (cluster_to_storage c o). split; [reflexivity|]. split; [exact Hw|].
      intros c' cs' H. destruct (Z.eq_dec c c') as [<-|Hne].
      * rewrite get_set_eq in H. injection H as <-. exact Hr.
      * rewrite get_set_neq in H by exact Hne. eauto.
    + exists []. split; [reflexivity|]. split; [constructor|exact Hcl].
  - exists [FetchConsumer c (name g)]. split; [reflexivity|]. split; [repeat constructor|exact Hcl].
  - exists []. split; [reflexivity|]. split; [constructor|exact Hcl].
Qed.

Lemma wf_hist_app h1 h2 : wf_hist (h1 ++ h2) <-> wf_hist h1 /\ wf_hist h2.
Proof. unfold wf_hist. apply Forall_app. Qed.

Lemma wf_hist_stamp now rs : Forall sreq_in_range rs -> wf_hist (stamp now rs).
Proof. intros H. apply Forall_stamp. eapply Forall_impl; [|exact H]. apply sreq_in_range_wf. Qed.

(* the invariant of the composed machine: storage is the run of a well-formed history; the cluster modules are reachable *)
Definition pinv (pc : pconfig) (ps : pstate) (h : hist) : Prop :=
  wf_hist h /\ Forall (fun x => sreq_in_range (snd x)) h /\
  (exists reps, run (pc_storage pc) (init_state (pc_clusters pc)) h = Some (p_storage ps, reps)) /\
  clusters_ok (p_cluster ps).

Lemma pinv_init pc now : pinv pc (pinit pc now) [].
Proof.
  split; [constructor|]. split; [constructor|]. split; [exists []; reflexivity|]. apply clusters_ok_init.
Qed.

(* every storage-shaped reply evaluates (C03_no_nil_dereference lifted to the group) *)
Lemma eval_parts_total t ps minimum allowed now : forall i,
  Forall storage_shaped ps -> exists l, eval_parts t i ps minimum allowed now = Ok l.
Proof.
  induction ps as [|p ps IH]; intros i Hs; cbn [eval_parts]; [eauto|].
  inversion Hs as [|? ? Hp Hps]; subst. destruct Hp as [(b & cs & Hsh) _].
  destruct (eval_partition_no_crash b cs p minimum allowed now Hsh) as [[[[s st] en] cpl] ->].
  destruct (IH (i + 1) Hps) as [l ->]. eauto.
Qed.

Lemma eval_topics_total ts minimum allowed now :
  Forall storage_shaped (all_parts ts) -> exists l, eval_topics ts minimum allowed now = Ok l.
Proof.
  induction ts as [|[t ps] ts IH]; intros Hs; cbn [eval_topics]; [eauto|].
  unfold all_parts in Hs. cbn [flat_map snd] in Hs. apply Forall_app in Hs as [H1 H2].
  destruct (eval_parts_total t ps minimum allowed now 0 H1) as [l ->].
  destruct (IH H2) as [l' ->]. eauto.
Qed.

Theorem eval_group_total ts minimum allowed now :
  Forall storage_shaped (all_parts ts) -> exists g, eval_group ts minimum allowed now = Ok g.
Proof.
  intros Hs. unfold eval_group. destruct (eval_topics_total ts minimum allowed now Hs) as [l ->].
  destruct (fold_left fold_part l (StOK, None, 0, [])) as [[[st mx] nc] lst]. eauto.
Qed.

(* every FetchConsumer reply of a state reached by a well-formed history has the shape the evaluator theorems assume *)
Theorem reply_shaped cf cls h st reps now c g st' l :
  (1 <= cf_intervals cf)%nat -> Z.of_nat (cf_intervals cf) <= 2 ^ 24 -> wf_hist h ->
  run cf (init_state cls) h = Some (st, reps) ->
  fetch_consumer cf now st c g = Done st' (RConsumer l) ->
  Forall storage_shaped (all_parts l).
Proof.
  intros HN H24 Hwf Hrun Hf. apply Forall_forall. intros cp Hcp.
  unfold all_parts in Hcp. apply in_flat_map in Hcp as [[t cps] [Hin Hcp]]. cbn [snd] in Hcp.
  apply In_nth_error in Hcp as [i Hi].
  destruct (storage_reply_windows cf cls h st reps now c g st' l t cps i cp HN Hwf Hrun Hf Hin Hi) as [He|[_ (b & cs & Hw & Hlen & _)]].
  - split; [exists 0%nat, []; rewrite He; reflexivity|rewrite He; cbn; lia].
  - split; [exists b, cs; exact Hw|]. rewrite Hw. unfold window. rewrite app_length, repeat_length, map_length. lia.
Qed.

Section Run.
Variable pc : pconfig.
Hypothesis HN : (1 <= cf_intervals (pc_storage pc))%nat.
Hypothesis H24 : Z.of_nat (cf_intervals (pc_storage pc)) <= 2 ^ 24.

(* one event: the machine does not die, and the invariant moves to the extended history *)
Lemma pipe_step_inv ps h ev :
  pinv pc ps h -> event_ok ev ->
  exists ps' outs, pipe_step name pc ps ev = Some (ps', outs) /\ pinv pc ps' (h ++ step_hist name pc ps ev).
Proof.
  intros (Hwf & Hrng & [reps Hrun] & Hcl) Hev.
  destruct (event_reqs_ok pc ps ev Hcl Hev) as (rs & Hrs & Hrr & Hcl').
  assert (Hwf' : wf_hist (h ++ stamp (p_now ps) rs)).
  { apply wf_hist_app. split; [exact Hwf|apply wf_hist_stamp; exact Hrr]. }
  assert (Hrng' : Forall (fun x => sreq_in_range (snd x)) (h ++ stamp (p_now ps) rs)).
  { apply Forall_app. split; [exact Hrng|apply Forall_stamp; exact Hrr]. }
  destruct (run_hinv (pc_storage pc) (pc_clusters pc) _ HN Hwf') as (st2 & reps2 & Hrun2 & _).
  pose proof Hrun2 as Hrun2'. rewrite run_app, Hrun in Hrun2'.
  destruct (run (pc_storage pc) (p_storage ps) (stamp (p_now ps) rs)) as [[st3 reps3]|] eqn:Erun3; [|discriminate].
  injection Hrun2' as <- <-.
  unfold step_hist. rewrite Hrs.
  destruct ev as [c key value o|c tk e|c g sa|now].
  - unfold pipe_step. rewrite Hrs, Erun3. eexists _, _. split; [reflexivity|].
    split; [exact Hwf'|]. split; [exact Hrng'|]. split; [exists (reps ++ reps3); exact Hrun2|exact Hcl'].
  - unfold pipe_step. rewrite Hrs, Erun3. eexists _, _. split; [reflexivity|].
    split; [exact Hwf'|]. split; [exact Hrng'|]. split; [exists (reps ++ reps3); exact Hrun2|exact Hcl'].
  - cbn [event_reqs] in Hrs. injection Hrs as <-. cbn [stamp map run] in Erun3.
    cbn [pipe_step].
    destruct (step (pc_storage pc) (p_now ps) (p_storage ps) (FetchConsumer c (name g))) as [st4 rep|] eqn:Es; [|discriminate].
    injection Erun3 as <- <-.
    assert (Hans : exists outs, answer pc (p_now ps) c (name g) sa rep = Some outs).
    { unfold answer. destruct rep as [| | | |l]; eauto.
      cbn [step] in Es.
      pose proof (reply_shaped _ _ _ _ _ _ _ _ _ _ HN H24 Hwf Hrun Es) as Hsh.
      destruct (eval_group_total l (pc_minimum pc) (pc_allowed pc) (p_now ps) Hsh) as [gs Hg].
      unfold reply_to_eval. rewrite Hg. eauto. }
    destruct Hans as [outs Hans]. rewrite Hans. eexists _, _. split; [reflexivity|].
    split; [exact Hwf'|]. split; [exact Hrng'|]. split; [exists (reps ++ [rep]); exact Hrun2|exact Hcl].
  - cbn [event_reqs] in Hrs. injection Hrs as <-. cbn [stamp map run] in Erun3. injection Erun3 as <- <-.
    cbn [pipe_step]. eexists _, _. split; [reflexivity|].
    split; [exact Hwf'|]. split; [exact Hrng'|]. split; [exists (reps ++ []); exact Hrun2|exact Hcl].
Qed.

Lemma pipe_exec_inv evs : forall ps h,
  pinv pc ps h -> Forall event_ok evs ->
  exists ps' outs h', pipe_exec name pc ps evs = Some (ps', outs, h') /\ pinv pc ps' (h ++ h').
Proof.
  induction evs as [|ev evs IH]; intros ps h Hinv Hok; cbn [pipe_exec].
  - exists ps, [], []. rewrite app_nil_r. auto.
  - inversion Hok as [|? ? Hev Hevs]; subst.
    destruct (pipe_step_inv ps h ev Hinv Hev) as (ps1 & outs1 & Hs & Hinv1). rewrite Hs.
    destruct (IH ps1 _ Hinv1 Hevs) as (ps2 & outs2 & h2 & He & Hinv2). rewrite He.
    eexists _, _, _. split; [reflexivity|]. rewrite app_assoc. exact Hinv2.
Qed.

(* No sequence of Kafka messages (any bytes), cluster cycles, status requests and clock moves ends the process, and the
   storage history it produces is well-formed in C01's sense: C01 / C02 / C09 apply to everything the ingest side can
   produce. *)
Theorem pipeline_hist_wf now0 evs :
  Forall event_ok evs ->
  exists ps outs h,
    pipe_run name pc now0 evs = Some (ps, outs, h) /\
    wf_hist h /\ Forall (fun x => sreq_in_range (snd x)) h /\
    exists reps, run (pc_storage pc) (init_state (pc_clusters pc)) h = Some (p_storage ps, reps).
Proof.
  intros Hok. destruct (pipe_exec_inv evs (pinit pc now0) [] (pinv_init pc now0) Hok) as (ps & outs & h & He & Hinv).
  cbn [app] in Hinv. destruct Hinv as (H1 & H2 & H3 & _). exists ps, outs, h. auto.
Qed.

(* every FetchConsumer reply of every reachable storage state is storage_shaped (EvalCompleteProofs) ... *)
Theorem storage_reply_shaped now0 evs ps outs h now c g st' l :
  Forall event_ok evs ->
  pipe_run name pc now0 evs = Some (ps, outs, h) ->
  fetch_consumer (pc_storage pc) now (p_storage ps) c g = Done st' (RConsumer l) ->
  Forall storage_shaped (all_parts l).
Proof.
  intros Hok Hrun Hf. destruct (pipeline_hist_wf now0 evs Hok) as (ps0 & outs0 & h0 & Hrun0 & Hwf & _ & [reps Hr]).
  rewrite Hrun in Hrun0. injection Hrun0 as <- <- <-.
  eapply reply_shaped; eauto.
Qed.

(* ... hence evaluating any reachable storage state never crashes, whatever the evaluator's settings and clock *)
Theorem pipeline_eval_total now0 evs ps outs h now c g st' l minimum allowed enow :
  Forall event_ok evs ->
  pipe_run name pc now0 evs = Some (ps, outs, h) ->
  fetch_consumer (pc_storage pc) now (p_storage ps) c g = Done st' (RConsumer l) ->
  exists gs, eval_group (reply_to_eval l) minimum allowed enow = Ok gs.
Proof.
  intros Hok Hrun Hf. apply eval_group_total. eapply storage_reply_shaped; eauto.
Qed.

End Run.
End Glue.

(* ================================================================================================================== *)
(* Which commits make up a window, read off the HISTORY: StorageWindows.arrivals without the state                        *)
(* ================================================================================================================== *)

(* the drop rules on arrival, as a function of the configuration, the request, the clock of arrival and the history before
   it (StorageProofs.reaches_ring_history): configured cluster; not older than expire-group; accepted by storage's lists;
   partition >= 0; a broker offset recorded for exactly (c,t,p) that no deletion of the topic follows *)
Definition accepted_on_arrival (cf : config) (cls : list Z) (h1 : hist) (now c g t p ts : Z) : bool :=
  in_cls c cls && negb (too_old cf now ts) && cf_accept cf g && (0 <=? p) && broker_known h1 c t p.

(* the requests that remove the windows of group g on topic t: deletion of the topic, deletion of the group (whole, or this topic) *)
Definition removes (c g t : Z) (r : req) : bool :=
  match r with
  | DeleteTopic c' t' => (c' =? c) && (t' =? t)
  | DeleteGroup c' g' t' => (c' =? c) && (g' =? g) && ((t' =? 0) || (t =? t'))
  | _ => false
  end.
(* ... and the expiry purge: a FetchConsumer for (c,g) that finds the group's last commit older than expire-group *)
Definition purges (cf : config) (now : Z) (st : state) (c g : Z) (r : req) : bool :=
  match r with
  | FetchConsumer c' g' => (c' =? c) && (g' =? g) && group_expired cf now st c g
  | _ => false
  end.

(* the expiry purge is observable: the request that purges the group is answered "not found" *)
Lemma purge_is_404 cf now st c g r st' rep :
  purges cf now st c g r = true -> step cf now st r = Done st' rep -> rep = RNil.
Proof.
  destruct r; cbn [purges]; try discriminate. intros H. apply andb_true_iff in H as [H He]. apply andb_true_iff in H as [H1 H2].
  apply Z.eqb_eq in H1, H2. subst. cbn [step]. unfold fetch_consumer. unfold group_expired in He.
  destruct (get st c) as [cl|]; [|discriminate]. destruct (get (cl_consumer cl) g) as [grp|]; [|discriminate].
  rewrite He. intros E. injection E as _ <-. reflexivity.
Qed.

Lemma resets_split cf now st c g t r : resets cf now st c g t r = removes c g t r || purges cf now st c g r.
Proof. destruct r; cbn [resets removes purges orb]; try reflexivity; rewrite orb_false_r; reflexivity. Qed.

(* nothing after the commit removes it: [pre] is the history up to and including the commit, [h2] what follows *)
Definition not_removed_after (cf : config) (cls : list Z) (pre h2 : hist) (c g t : Z) : Prop :=
  forall h2a now' r h2b, h2 = h2a ++ (now', r) :: h2b ->
    removes c g t r = false /\
    forall st' reps', run cf (init_state cls) (pre ++ h2a) = Some (st', reps') -> purges cf now' st' c g r = false.

(* a commit request of the history that was not dropped on arrival and that nothing removed afterwards *)
Definition live_commit (cf : config) (cls : list Z) (h : hist) (c g t p : Z) (cm : commit) : Prop :=
  exists h1 now h2,
    h = h1 ++ (now, SetConsumerOffset c g t p (cm_offset cm) (cm_order cm) (cm_ts cm)) :: h2 /\
    accepted_on_arrival cf cls h1 now c g t p (cm_ts cm) = true /\
    not_removed_after cf cls (h1 ++ [(now, SetConsumerOffset c g t p (cm_offset cm) (cm_order cm) (cm_ts cm))]) h2 c g t.

Lemma snoc_split {A} (h : list A) a h1 x h2 :
  h ++ [a] = h1 ++ x :: h2 -> (h2 = [] /\ h = h1 /\ a = x) \/ exists h2', h2 = h2' ++ [a] /\ h = h1 ++ x :: h2'.
Proof.
  intros E. destruct h2 as [|y h2] using rev_ind.
  - left. apply app_inj_tail in E. destruct E as [-> ->]. auto.
  - right. clear IHh2.
    change (h1 ++ x :: h2 ++ [y]) with (h1 ++ (x :: h2) ++ [y]) in E. rewrite app_assoc in E.
    apply app_inj_tail in E. destruct E as [-> ->]. exists h2. auto.
Qed.

Lemma reaches_accepted cf cls h st reps now c g t p ts :
  run cf (init_state cls) h = Some (st, reps) ->
  (reaches_ring cf now st c g t p ts <> None <-> accepted_on_arrival cf cls h now c g t p ts = true).
Proof.
  intros Hrun. rewrite (reaches_ring_history cf cls h st reps now c g t p ts Hrun). unfold accepted_on_arrival.
  destruct (in_cls c cls && negb (too_old cf now ts) && cf_accept cf g && (0 <=? p) && broker_known h c t p) eqn:E.
  - split; [reflexivity|]. intros _.
    apply andb_true_iff in E as [E Ebk]. apply andb_true_iff in E as [E Ep]. apply andb_true_iff in E as [E _].
    apply andb_true_iff in E as [Ein _]. apply in_cls_spec in Ein. apply Z.leb_le in Ep.
    destruct (broker_known_iff_history cf cls h st reps c t p Hrun) as [Hiff Hval].
    destruct (proj2 Hiff (conj Ein (conj Ep Ebk))) as (cl & Hg & Hk). rewrite (Hval cl Hg Hk). discriminate.
  - split; [intros H; contradiction H; reflexivity|discriminate].
Qed.

Lemma not_removed_snoc cf cls pre h2 now r c g t st reps :
  not_removed_after cf cls pre h2 c g t ->
  run cf (init_state cls) (pre ++ h2) = Some (st, reps) ->
  removes c g t r = false -> purges cf now st c g r = false ->
  not_removed_after cf cls pre (h2 ++ [(now, r)]) c g t.
Proof.
  intros Hn Hrun Hr Hp h2a now' r' h2b E.
  destruct h2b as [|y h2b] using rev_ind.
  - apply app_inj_tail in E. destruct E as [<- E]. injection E as <- <-. split; [exact Hr|].
    intros st' reps' Hrun'. rewrite Hrun in Hrun'. injection Hrun' as <- _. exact Hp.
  - clear IHh2b. change (h2a ++ (now', r') :: h2b ++ [y]) with (h2a ++ ((now', r') :: h2b) ++ [y]) in E.
    rewrite app_assoc in E. apply app_inj_tail in E. destruct E as [E _]. exact (Hn _ _ _ _ E).
Qed.

Lemma not_removed_prefix cf cls pre h2 a c g t :
  not_removed_after cf cls pre (h2 ++ [a]) c g t -> not_removed_after cf cls pre h2 c g t.
Proof.
  intros Hn h2a now' r h2b E. apply (Hn h2a now' r (h2b ++ [a])). rewrite E, <- app_assoc. reflexivity.
Qed.

(* the window's arrival list (StorageWindows.arrivals: defined with the storage state at each arrival) holds exactly the
   live commits of the history *)
Theorem arrivals_are_live_commits cf cls c g t p h : forall st reps,
  run cf (init_state cls) h = Some (st, reps) ->
  forall cm, (exists lagv, In (cm, lagv) (arrivals cf cls h c g t p)) <-> live_commit cf cls h c g t p cm.
Proof.
  induction h as [|[now r] h IH] using rev_ind; intros st reps Hrun cm.
  - unfold arrivals. cbn [arrivals_from]. split; [intros [? []]|]. intros (h1 & now & h2 & E & _). destruct h1; discriminate.
  - pose proof Hrun as Hrun'. rewrite run_snoc in Hrun'.
    destruct (run cf (init_state cls) h) as [[st1 reps1]|] eqn:Hrun1; [|discriminate].
    destruct (step cf now st1 r) as [st2 rep|] eqn:Hstep; [|discriminate].
    specialize (IH st1 reps1 eq_refl).
    unfold arrivals. rewrite arrivals_from_snoc, Hrun1, Hstep. fold (arrivals cf cls h c g t p).
    set (acc := arrivals cf cls h c g t p) in *.
    assert (Hext : forall cm0, live_commit cf cls h c g t p cm0 -> resets cf now st1 c g t r = false ->
                               live_commit cf cls (h ++ [(now, r)]) c g t p cm0).
    { intros cm0 (h1 & now0 & h2 & E & Hacc & Hnr) Hres. exists h1, now0, (h2 ++ [(now, r)]). split; [rewrite E, <- app_assoc; reflexivity|].
      split; [exact Hacc|]. rewrite resets_split in Hres. apply orb_false_iff in Hres as [Hr1 Hr2].
      eapply not_removed_snoc; [exact Hnr| |exact Hr1|exact Hr2].
      rewrite <- app_assoc. cbn [app]. rewrite <- E. exact Hrun1. }
    assert (Hback : forall cm0, live_commit cf cls (h ++ [(now, r)]) c g t p cm0 ->
              (h ++ [(now, r)] = h ++ [(now, SetConsumerOffset c g t p (cm_offset cm0) (cm_order cm0) (cm_ts cm0))] /\
               accepted_on_arrival cf cls h now c g t p (cm_ts cm0) = true) \/
              (live_commit cf cls h c g t p cm0 /\ resets cf now st1 c g t r = false)).
    { intros cm0 (h1 & now0 & h2 & E & Hacc & Hnr). apply snoc_split in E as [(-> & -> & E)|(h2' & -> & ->)].
      - left. injection E as -> ->. auto.
      - right. split.
        + exists h1, now0, h2'. split; [reflexivity|]. split; [exact Hacc|]. eapply not_removed_prefix; exact Hnr.
        + destruct (Hnr h2' now r [] eq_refl) as [Hr1 Hr2]. rewrite resets_split, Hr1. cbn [orb]. apply (Hr2 st1 reps1).
          rewrite <- app_assoc. cbn [app]. exact Hrun1. }
    unfold next_arrivals. destruct (is_commit_for c g t p r) as [[[off order] ts]|] eqn:Eic.
    + apply is_commit_for_some in Eic. subst r.
      assert (Hres : resets cf now st1 c g t (SetConsumerOffset c g t p off order ts) = false) by reflexivity.
      pose proof (reaches_accepted cf cls h st1 reps1 now c g t p ts Hrun1) as Hra.
      split.
      * intros [lagv Hin]. destruct (reaches_ring cf now st1 c g t p ts) as [boff|] eqn:Err.
        -- apply in_app_or in Hin as [Hin|[Hin|[]]].
           ++ apply Hext; [apply IH; eauto|exact Hres].
           ++ injection Hin as <- _. exists h, now, []. cbn [cm_offset cm_order cm_ts]. split; [reflexivity|].
              split; [apply Hra; discriminate|]. intros h2a now' r' h2b E. destruct h2a; discriminate.
        -- apply Hext; [apply IH; eauto|exact Hres].
      * intros Hl. destruct (Hback cm Hl) as [[E Hacc]|[Hl' _]].
        -- apply app_inj_tail in E as [_ E]. injection E as -> -> ->.
           apply Hra in Hacc. destruct (reaches_ring cf now st1 c g t p (cm_ts cm)) as [boff|]; [|contradiction Hacc; reflexivity].
           exists (commit_lag boff (cm_offset cm)). apply in_or_app. right. left. destruct cm; reflexivity.
        -- apply IH in Hl' as [lagv Hin]. exists lagv. destruct (reaches_ring cf now st1 c g t p ts); [apply in_or_app; left|]; exact Hin.
    + pose proof (is_commit_for_none _ _ _ _ _ Eic) as Hnot. split.
      * intros [lagv Hin]. destruct (resets cf now st1 c g t r) eqn:Hres; [contradiction|].
        apply Hext; [apply IH; eauto|reflexivity].
      * intros Hl. destruct (Hback cm Hl) as [[E _]|[Hl' Hres]].
        -- apply app_inj_tail in E as [_ E]. injection E as E. exfalso. exact (Hnot _ _ _ E).
        -- rewrite Hres. apply IH. exact Hl'.
Qed.

(* ---- the same, with the expiry clause read off the history too (StorageWindows.group_expired_history) ---- *)

(* "the group's last commit is older than expire-group at clock now": h_ginfo's first component is the timestamp of the last
   commit of the group that was placed as the newest since the group was last created (StorageWindows.hsim, a recursion over
   the history alone) *)
Definition expired_h (cf : config) (cls : list Z) (hpre : hist) (now c g : Z) : bool :=
  match h_ginfo cf cls hpre c g with Some (L, _) => expired cf now L | None => false end.

Definition purges_h (cf : config) (cls : list Z) (hpre : hist) (now c g : Z) (r : req) : bool :=
  match r with
  | FetchConsumer c' g' => (c' =? c) && (g' =? g) && expired_h cf cls hpre now c g
  | _ => false
  end.

Definition not_removed_after_h (cf : config) (cls : list Z) (pre h2 : hist) (c g t : Z) : Prop :=
  forall h2a now' r h2b, h2 = h2a ++ (now', r) :: h2b ->
    removes c g t r = false /\ purges_h cf cls (pre ++ h2a) now' c g r = false.

(* a commit request of the history, not dropped on arrival, not removed afterwards - every clause a function of the
   configuration and the request list *)
Definition live_commit_h (cf : config) (cls : list Z) (h : hist) (c g t p : Z) (cm : commit) : Prop :=
  exists h1 now h2,
    h = h1 ++ (now, SetConsumerOffset c g t p (cm_offset cm) (cm_order cm) (cm_ts cm)) :: h2 /\
    accepted_on_arrival cf cls h1 now c g t p (cm_ts cm) = true /\
    not_removed_after_h cf cls (h1 ++ [(now, SetConsumerOffset c g t p (cm_offset cm) (cm_order cm) (cm_ts cm))]) h2 c g t.

Lemma run_prefix cf st h1 h2 s reps :
  run cf st (h1 ++ h2) = Some (s, reps) -> exists s1 reps1, run cf st h1 = Some (s1, reps1).
Proof. rewrite run_app. destruct (run cf st h1) as [[s1 r1]|]; [eauto|discriminate]. Qed.

Lemma live_commit_h_iff cf cls h st reps c g t p cm :
  (1 <= cf_intervals cf)%nat -> wf_hist h -> run cf (init_state cls) h = Some (st, reps) ->
  (live_commit cf cls h c g t p cm <-> live_commit_h cf cls h c g t p cm).
Proof.
  intros HN Hwf Hrun.
  assert (Hp : forall pre h2 h2a now' r h2b st' reps',
             h = pre ++ h2 -> h2 = h2a ++ (now', r) :: h2b ->
             run cf (init_state cls) (pre ++ h2a) = Some (st', reps') ->
             purges cf now' st' c g r = purges_h cf cls (pre ++ h2a) now' c g r).
  { intros pre h2 h2a now' r h2b st' reps' E1 E2 Hr. destruct r; try reflexivity. cbn [purges purges_h]. unfold expired_h.
    rewrite <- (group_expired_history cf cls (pre ++ h2a) st' reps' now' c g HN); [reflexivity| |exact Hr].
    rewrite E1, E2, app_assoc in Hwf. apply wf_hist_app in Hwf. exact (proj1 Hwf). }
  split; intros (h1 & now & h2 & E & Hacc & Hnr); exists h1, now, h2; (split; [exact E|]); (split; [exact Hacc|]);
    intros h2a now' r h2b E2.
  - destruct (Hnr h2a now' r h2b E2) as [Hr1 Hr2]. split; [exact Hr1|].
    assert (Hrun' : exists st' reps', run cf (init_state cls)
              ((h1 ++ [(now, SetConsumerOffset c g t p (cm_offset cm) (cm_order cm) (cm_ts cm))]) ++ h2a) = Some (st', reps')).
    { apply (run_prefix cf (init_state cls) _ ((now', r) :: h2b) st reps). rewrite <- !app_assoc. cbn [app]. rewrite <- E2, <- E. exact Hrun. }
    destruct Hrun' as (st' & reps' & Hrun').
    rewrite <- (Hp (h1 ++ [(now, SetConsumerOffset c g t p (cm_offset cm) (cm_order cm) (cm_ts cm))]) h2 h2a now' r h2b st' reps');
      [exact (Hr2 st' reps' Hrun')| |exact E2|exact Hrun'].
    rewrite <- app_assoc. cbn [app]. exact E.
  - destruct (Hnr h2a now' r h2b E2) as [Hr1 Hr2]. split; [exact Hr1|]. intros st' reps' Hrun'.
    rewrite (Hp (h1 ++ [(now, SetConsumerOffset c g t p (cm_offset cm) (cm_order cm) (cm_ts cm))]) h2 h2a now' r h2b st' reps');
      [exact Hr2| |exact E2|exact Hrun'].
    rewrite <- app_assoc. cbn [app]. exact E.
Qed.

(* ================================================================================================================== *)
(* End-to-end theorems                                                                                                  *)
(* ================================================================================================================== *)
Section EndToEnd.
Variable name : list Z -> Z.

Lemma pipe_exec_app pc evs1 : forall ps evs2,
  pipe_exec name pc ps (evs1 ++ evs2) =
  match pipe_exec name pc ps evs1 with
  | None => None
  | Some (ps1, o1, h1) =>
      match pipe_exec name pc ps1 evs2 with
      | None => None
      | Some (ps2, o2, h2) => Some (ps2, o1 ++ o2, h1 ++ h2)
      end
  end.
Proof.
  induction evs1 as [|ev evs1 IH]; intros ps evs2; cbn [app pipe_exec].
  - destruct (pipe_exec name pc ps evs2) as [[[ps2 o2] h2]|]; reflexivity.
  - destruct (pipe_step name pc ps ev) as [[ps' outs]|]; [|reflexivity]. rewrite IH.
    destruct (pipe_exec name pc ps' evs1) as [[[ps1 o1] h1]|]; [|reflexivity].
    destruct (pipe_exec name pc ps1 evs2) as [[[ps2 o2] h2]|]; [|reflexivity].
    rewrite !app_assoc. reflexivity.
Qed.

(* ------------------------------------------------------------------------------------------------------------------ *)
(* e2e_malformed_ignored: a message from which the decoder forwards nothing changes nothing, now or later               *)
(* ------------------------------------------------------------------------------------------------------------------ *)
Lemma silent_message_step pc ps c key value o al :
  Wire.process_message (pc_reader_accept pc c) key value o = Wire.Done [] al ->
  pipe_step name pc ps (KafkaMessage c key value o) = Some (ps, []) /\
  step_hist name pc ps (KafkaMessage c key value o) = [].
Proof.
  intros H. unfold pipe_step, step_hist. cbn [event_reqs]. rewrite H. cbn [map stamp run cluster_after].
  destruct ps; split; reflexivity.
Qed.

(* the same run with the message taken out: same final state, same answers, same storage history *)
Theorem silent_message_ignored pc ps evs1 evs2 c key value o al :
  Wire.process_message (pc_reader_accept pc c) key value o = Wire.Done [] al ->
  pipe_exec name pc ps (evs1 ++ KafkaMessage c key value o :: evs2) = pipe_exec name pc ps (evs1 ++ evs2).
Proof.
  intros H. rewrite !pipe_exec_app.
  destruct (pipe_exec name pc ps evs1) as [[[ps1 o1] h1]|]; [|reflexivity].
  cbn [pipe_exec]. destruct (silent_message_step pc ps1 c key value o al H) as [-> ->].
  destruct (pipe_exec name pc ps1 evs2) as [[[ps2 o2] h2]|]; reflexivity.
Qed.

(* a commit message (key version 0 or 1) that is not well-formed - any field Burrow reads cut short or with an impossible
   length, in the sense of C06 - is such a message, whatever the lists say *)
Theorem malformed_commit_ignored pc ps evs1 evs2 c key value o :
  WireRoundtripProofs.bytes key -> WireRoundtripProofs.bytes value -> WireProofs.is_commit_key key ->
  ~ WireRoundtripProofs.commit_wellformed (pc_reader_accept pc c) key value ->
  pipe_exec name pc ps (evs1 ++ KafkaMessage c key value o :: evs2) = pipe_exec name pc ps (evs1 ++ evs2).
Proof.
  intros Hk Hv Hck Hnw.
  destruct (WireProofs.process_never_crashes (pc_reader_accept pc c) key value o) as (rs & al & Hp).
  pose proof (WireRoundtripProofs.commit_malformed_skipped _ _ _ _ _ _ Hk Hv Hck Hnw Hp) as ->.
  eapply silent_message_ignored; exact Hp.
Qed.

(* a key without a version, or with a version other than 0, 1, 2, likewise *)
Theorem unknown_key_ignored pc ps evs1 evs2 c key value o :
  match Wire.read_i16 key with
  | None => True
  | Some (kv, _) => kv <> 0 /\ kv <> 1 /\ kv <> 2
  end ->
  pipe_exec name pc ps (evs1 ++ KafkaMessage c key value o :: evs2) = pipe_exec name pc ps (evs1 ++ evs2).
Proof.
  intros H. apply (silent_message_ignored pc ps evs1 evs2 c key value o []).
  unfold Wire.process_message, Wire.process_message_gen. destruct (Wire.read_i16 key) as [[kv kr]|]; [|reflexivity].
  destruct H as (H0 & H1 & H2).
  replace (kv =? 0) with false by (symmetry; apply Z.eqb_neq; exact H0).
  replace (kv =? 1) with false by (symmetry; apply Z.eqb_neq; exact H1).
  replace (kv =? 2) with false by (symmetry; apply Z.eqb_neq; exact H2). reflexivity.
Qed.

(* ------------------------------------------------------------------------------------------------------------------ *)
(* e2e_rejected_invisible: C10 across reader + storage                                                                  *)
(* ------------------------------------------------------------------------------------------------------------------ *)
Hypothesis name_inj : forall a b, name a = name b -> a = b.


Lemma run_absent cf c gz h : forall s s' reps,
  (forall x, In x h -> ~ creates_group c gz (snd x) \/ cf_accept cf gz = false) ->
  absent_group s c gz -> run cf s h = Some (s', reps) -> absent_group s' c gz.
Proof.
  induction h as [|[now r] h IH]; intros s s' reps Hall Ha Hr; cbn [run] in Hr.
  - injection Hr as <- _. exact Ha.
  - destruct (step cf now s r) as [s1 rep|] eqn:Es; [|discriminate].
    destruct (run cf s1 h) as [[s2 reps2]|] eqn:Er; [|discriminate]. injection Hr as <- _.
    apply (IH s1 s2 reps2); [intros x Hx; apply Hall; right; exact Hx| |exact Er].
    destruct (Hall (now, r) (or_introl eq_refl)) as [Hn|Hrej]; cbn [snd] in *.
    + eapply step_absent_group; eauto.
    + eapply step_absent_group_rejected; eauto.
Qed.

(* the group g0 of cluster c is rejected by the reader of that cluster or by storage *)
Definition rejected_somewhere (pc : pconfig) (c : Z) (g0 : list Z) : Prop :=
  pc_reader_accept pc c g0 = false \/ cf_accept (pc_storage pc) (name g0) = false.

Lemma event_reqs_no_create pc ps ev c g0 rs :
  rejected_somewhere pc c g0 -> event_reqs name pc ps ev = Some rs ->
  forall r, In r rs -> ~ creates_group c (name g0) r \/ cf_accept (pc_storage pc) (name g0) = false.
Proof.
  intros [Hrd|Hst] Hrs r Hr; [|right; exact Hst]. left.
  destruct ev as [c' key value o|c' tk e|c' g sa|now]; cbn [event_reqs] in Hrs.
  - destruct (Wire.process_message (pc_reader_accept pc c') key value o) as [w|rs0 al] eqn:Hp; [discriminate|].
    injection Hrs as <-. apply in_map_iff in Hr as [r0 [<- Hr0]].
    pose proof (WireProofs.reader_rejected_silent _ _ _ _ _ _ Hp) as Hacc. rewrite Forall_forall in Hacc.
    specialize (Hacc r0 Hr0).
    destruct r0; cbn [wire_to_storage creates_group Wire.req_group] in *; try tauto;
      intros [-> Hn]; apply name_inj in Hn; subst; congruence.
  - destruct (get (p_cluster ps) c') as [cs|]; [|injection Hrs as <-; contradiction].
    destruct (ClusterMod.cycle (ClusterMod.tick tk cs) e) as [o|]; [|discriminate]. injection Hrs as <-.
    unfold cluster_to_storage in Hr. apply in_app_or in Hr as [Hr|Hr]; apply in_map_iff in Hr as [x [<- _]].
    + cbn. tauto.
    + destruct x as [[[t p] off] cnt]. cbn. tauto.
  - injection Hrs as <-. destruct Hr as [<-|[]]. cbn. tauto.
  - injection Hrs as <-. contradiction.
Qed.

Lemma fetch_absent cf now s c gz s' rep :
  absent_group s c gz -> step cf now s (FetchConsumer c gz) = Done s' rep -> s' = s /\ rep = RNil.
Proof.
  intros Ha. cbn [step]. unfold fetch_consumer. destruct (get s c) as [cl|] eqn:Hc.
  - rewrite (Ha cl Hc). intros H; injection H as <- <-. auto.
  - intros H; injection H as <- <-. auto.
Qed.

Lemma pipe_exec_rejected pc c g0 evs : forall ps ps' outs h,
  rejected_somewhere pc c g0 ->
  absent_group (p_storage ps) c (name g0) ->
  pipe_exec name pc ps evs = Some (ps', outs, h) ->
  absent_group (p_storage ps') c (name g0) /\
  forall sa r, In (OStatus c (name g0) sa r) outs -> r = None.
Proof.
  induction evs as [|ev evs IH]; intros ps ps' outs h Hrej Ha He; cbn [pipe_exec] in He.
  - injection He as <- <- _. split; [exact Ha|intros sa r []].
  - destruct (pipe_step name pc ps ev) as [[ps1 outs1]|] eqn:Es; [|discriminate].
    destruct (pipe_exec name pc ps1 evs) as [[[ps2 outs2] h2]|] eqn:Ee; [|discriminate]. injection He as <- <- _.
    assert (H1 : absent_group (p_storage ps1) c (name g0) /\ forall sa r, In (OStatus c (name g0) sa r) outs1 -> r = None).
    { destruct ev as [c' key value o|c' tk e|c' g sa|now]; cbn [pipe_step] in Es.
      - destruct (event_reqs name pc ps (KafkaMessage c' key value o)) as [rs|] eqn:Er; [|discriminate].
        destruct (run (pc_storage pc) (p_storage ps) (stamp (p_now ps) rs)) as [[st' reps]|] eqn:Erun; [|discriminate].
        injection Es as <- <-. cbn [p_storage]. split; [|intros sa r []].
        eapply run_absent; [|exact Ha|exact Erun]. intros x Hx. unfold stamp in Hx. apply in_map_iff in Hx as [r [<- Hr]].
        cbn [snd]. eapply event_reqs_no_create; eauto.
      - destruct (event_reqs name pc ps (ClusterCycle c' tk e)) as [rs|] eqn:Er; [|discriminate].
        destruct (run (pc_storage pc) (p_storage ps) (stamp (p_now ps) rs)) as [[st' reps]|] eqn:Erun; [|discriminate].
        injection Es as <- <-. cbn [p_storage]. split; [|intros sa r []].
        eapply run_absent; [|exact Ha|exact Erun]. intros x Hx. unfold stamp in Hx. apply in_map_iff in Hx as [r [<- Hr]].
        cbn [snd]. eapply event_reqs_no_create; eauto.
      - destruct (step (pc_storage pc) (p_now ps) (p_storage ps) (FetchConsumer c' (name g))) as [st' rep|] eqn:Ef; [|discriminate].
        destruct (answer pc (p_now ps) c' (name g) sa rep) as [outs0|] eqn:Ea; [|discriminate]. injection Es as <- <-.
        cbn [p_storage]. split.
        + eapply step_absent_group; [exact Ha| |exact Ef]. cbn. tauto.
        + intros sa' r Hin. unfold answer in Ea.
          destruct (Z.eq_dec c' c) as [->|Hc]; [destruct (Z.eq_dec (name g) (name g0)) as [Hg|Hg]|].
          * rewrite Hg in Ef. destruct (fetch_absent _ _ _ _ _ _ _ Ha Ef) as [_ ->].
            injection Ea as <-. destruct Hin as [Hin|[]]. injection Hin as _ _ <-. reflexivity.
          * destruct rep; try (injection Ea as <-; destruct Hin as [Hin|[]]; injection Hin as ? _ _; contradiction).
            destruct (eval_group _ _ _ _); [|discriminate]. injection Ea as <-. destruct Hin as [Hin|[]]. injection Hin as ? _ _. contradiction.
          * destruct rep; try (injection Ea as <-; destruct Hin as [Hin|[]]; injection Hin as ? _ _ _; contradiction).
            destruct (eval_group _ _ _ _); [|discriminate]. injection Ea as <-. destruct Hin as [Hin|[]]. injection Hin as ? _ _ _. contradiction.
      - injection Es as <- <-. split; [exact Ha|intros sa r []]. }
    destruct H1 as [Ha1 Ho1]. destruct (IH ps1 ps2 outs2 h2 Hrej Ha1 Ee) as [Ha2 Ho2].
    split; [exact Ha2|]. intros sa r Hin. apply in_app_or in Hin as [Hin|Hin]; eauto.
Qed.

(* A group that the reader's lists of its cluster or storage's lists reject appears in no status (every answer for it
   is the 404 reply) and is absent from storage (hence from every listing, C10_storage) after ANY event sequence. *)
Theorem rejected_invisible pc now0 c g0 evs ps outs h :
  rejected_somewhere pc c g0 ->
  pipe_run name pc now0 evs = Some (ps, outs, h) ->
  (forall sa r, In (OStatus c (name g0) sa r) outs -> r = None) /\
  absent_group (p_storage ps) c (name g0).
Proof.
  intros Hrej Hrun. unfold pipe_run in Hrun.
  destruct (pipe_exec_rejected pc c g0 evs (pinit pc now0) ps outs h Hrej) as [H1 H2]; [|exact Hrun|auto].
  unfold pinit. cbn [p_storage]. apply absent_init.
Qed.

(* ------------------------------------------------------------------------------------------------------------------ *)
(* e2e_lag_exact                                                                                                        *)
(* ------------------------------------------------------------------------------------------------------------------ *)

(* -- the broker side: the last offset a broker ANSWERED for (c, t, p), as a function of the events -- *)
Fixpoint find_update (ups : list CM.update) (t p : Z) : option Z :=
  match ups with
  | [] => None
  | (t', p', off, _) :: rest =>
      match find_update rest t p with
      | Some b => Some b
      | None => if (t' =? t) && (p' =? p) then Some off else None
      end
  end.

Lemma find_update_in ups t p b : find_update ups t p = Some b -> exists cnt, In (t, p, b, cnt) ups.
Proof.
  induction ups as [|[[[t' p'] off] cnt] ups IH]; cbn [find_update]; [discriminate|].
  destruct (find_update ups t p) as [b'|].
  - intros H. injection H as ->. destruct (IH eq_refl) as [cnt' H]. exists cnt'. right. exact H.
  - destruct ((t' =? t) && (p' =? p)) eqn:E; [|discriminate]. intros H. injection H as ->.
    apply andb_true_iff in E as [E1 E2]. apply Z.eqb_eq in E1, E2. subst. exists cnt. left. reflexivity.
Qed.

(* the update of (t, p) in the cycle this event is, if it is a cycle of cluster c that produced one *)
Definition answered_in (ps : pstate) (ev : pevent) (c t p : Z) : option Z :=
  match ev with
  | ClusterCycle c' tk e =>
      if c' =? c then
        match get (p_cluster ps) c' with
        | Some cs => match CM.cycle (CM.tick tk cs) e with
                     | CM.Done o => find_update (CM.co_updates o) t p
                     | CM.Crash => None
                     end
        | None => None
        end
      else None
  | _ => None
  end.

Fixpoint last_answer (pc : pconfig) (ps : pstate) (evs : list pevent) (c t p : Z) : option Z :=
  match evs with
  | [] => None
  | ev :: rest =>
      match pipe_step name pc ps ev with
      | None => None
      | Some (ps', _) =>
          match last_answer pc ps' rest c t p with
          | Some b => Some b
          | None => answered_in ps ev c t p
          end
      end
  end.

Lemma last_broker_none now rs c t p :
  (forall r, In r rs -> is_broker c t p r = None) -> last_broker (stamp now rs) c t p = None.
Proof.
  induction rs as [|r rs IH]; intros H; cbn [stamp map last_broker]; [reflexivity|].
  unfold stamp in IH. rewrite IH by (intros r' Hr'; apply H; right; exact Hr').
  apply H. left. reflexivity.
Qed.

Lemma last_broker_updates now c' ups c t p :
  last_broker (stamp now (map (update_to_storage c') ups)) c t p = if c' =? c then find_update ups t p else None.
Proof.
  induction ups as [|[[[t' p'] off] cnt] ups IH]; cbn [stamp map last_broker find_update].
  - destruct (c' =? c); reflexivity.
  - unfold stamp in IH. rewrite IH. cbn [update_to_storage is_broker].
    destruct (c' =? c); cbn [andb]; [|reflexivity]. destruct (find_update ups t p); reflexivity.
Qed.

Lemma last_broker_step_hist pc ps ev c t p :
  last_broker (step_hist name pc ps ev) c t p = answered_in ps ev c t p.
Proof.
  unfold step_hist. destruct ev as [c' key value o|c' tk e|c' g sa|now]; cbn [event_reqs answered_in].
  - destruct (Wire.process_message (pc_reader_accept pc c') key value o) as [w|rs al]; [reflexivity|].
    apply last_broker_none. intros r Hr. apply in_map_iff in Hr as [r0 [<- _]]. destruct r0; reflexivity.
  - destruct (get (p_cluster ps) c') as [cs|]; [|destruct (c' =? c); reflexivity].
    destruct (CM.cycle (CM.tick tk cs) e) as [o|]; [|destruct (c' =? c); reflexivity].
    unfold cluster_to_storage, stamp. rewrite map_app, last_broker_app.
    fold (stamp (p_now ps) (map (update_to_storage c') (CM.co_updates o))). rewrite last_broker_updates.
    destruct (c' =? c); [destruct (find_update (CM.co_updates o) t p); [reflexivity|]|];
      (apply (last_broker_none (p_now ps) (map (DeleteTopic c') (CM.co_deletes o)));
       intros r Hr; apply in_map_iff in Hr as [x [<- _]]; reflexivity).
  - reflexivity.
  - reflexivity.
Qed.

(* the history's last_broker (C01's spec function) is the events' last answer *)
Lemma last_broker_pipe pc c t p evs : forall ps ps' outs h,
  pipe_exec name pc ps evs = Some (ps', outs, h) -> last_broker h c t p = last_answer pc ps evs c t p.
Proof.
  induction evs as [|ev evs IH]; intros ps ps' outs h He; cbn [pipe_exec last_answer] in *.
  - injection He as _ _ <-. reflexivity.
  - destruct (pipe_step name pc ps ev) as [[ps1 outs1]|]; [|discriminate].
    destruct (pipe_exec name pc ps1 evs) as [[[ps2 outs2] h2]|] eqn:Ee; [|discriminate]. injection He as _ _ <-.
    rewrite last_broker_app, (IH ps1 ps2 outs2 h2 Ee), last_broker_step_hist. reflexivity.
Qed.

(* -- the commit side: every stored commit is the (offset, position) of an arrival -- *)
Lemma ring_run_entries md n l e :
  In (Some e) (ring_run md n l) -> exists cl, In cl l /\ co_offset e = cm_offset (fst cl) /\ co_order e = cm_order (fst cl).
Proof.
  induction l as [|cl l IH] using rev_ind; intros Hin.
  - unfold ring_run in Hin. cbn [fold_left] in Hin. unfold new_ring in Hin. apply repeat_spec in Hin. discriminate.
  - rewrite ring_run_snoc in Hin.
    destruct (ring_step md (ring_run md n l) (fst cl) (snd cl)) as [r' app] eqn:Es. cbn [fst] in Hin.
    destruct (ring_step_slots _ _ _ _ _ _ _ Es Hin) as [Hold|(e' & He' & Hn)].
    + destruct (IH Hold) as (cl0 & Hin0 & H). exists cl0. split; [apply in_or_app; left; exact Hin0|exact H].
    + injection He' as <-. destruct Hn as (H1 & H2 & _). exists cl. split; [apply in_or_app; right; left; reflexivity|auto].
Qed.

(* an arrival is a commit request of the history *)
Lemma arrivals_in_hist cf cls c g t p h : forall x,
  In x (arrivals cf cls h c g t p) ->
  exists now, In (now, SetConsumerOffset c g t p (cm_offset (fst x)) (cm_order (fst x)) (cm_ts (fst x))) h.
Proof.
  induction h as [|[now r] h IH] using rev_ind; intros x Hin.
  - unfold arrivals in Hin. cbn in Hin. contradiction.
  - unfold arrivals in Hin. rewrite arrivals_from_snoc in Hin. fold (arrivals cf cls h c g t p) in Hin.
    assert (Hold : In x (arrivals cf cls h c g t p) ->
                   exists now0, In (now0, SetConsumerOffset c g t p (cm_offset (fst x)) (cm_order (fst x)) (cm_ts (fst x))) (h ++ [(now, r)])).
    { intros H. destruct (IH x H) as [now0 H0]. exists now0. apply in_or_app. left. exact H0. }
    destruct (run cf (init_state cls) h) as [[st1 r1]|]; [|auto].
    destruct (step cf now st1 r) as [st2 rep|]; [|auto].
    unfold next_arrivals in Hin. destruct (is_commit_for c g t p r) as [[[off order] ts]|] eqn:Eic.
    + apply is_commit_for_some in Eic. subst r.
      destruct (reaches_ring cf now st1 c g t p ts); [|auto].
      apply in_app_or in Hin as [Hin|[<-|[]]]; [auto|]. exists now. apply in_or_app. right. left. reflexivity.
    + destruct (resets cf now st1 c g t r); [contradiction|auto].
Qed.

(* a commit request of the pipeline's history was decoded from a message of that cluster's reader, and carries the
   message's own log position *)
Lemma hist_from_message pc c gz tz p off order ts evs : forall ps ps' outs h now,
  pipe_exec name pc ps evs = Some (ps', outs, h) ->
  In (now, SetConsumerOffset c gz tz p off order ts) h ->
  exists key value rs al g0 t0,
    In (KafkaMessage c key value order) evs /\
    Wire.process_message (pc_reader_accept pc c) key value order = Wire.Done rs al /\
    In (Wire.SetConsumerOffset g0 t0 p off ts order) rs /\ name g0 = gz /\ name t0 = tz.
Proof.
  induction evs as [|ev evs IH]; intros ps ps' outs h now He Hin; cbn [pipe_exec] in He.
  - injection He as _ _ <-. contradiction.
  - destruct (pipe_step name pc ps ev) as [[ps1 outs1]|]; [|discriminate].
    destruct (pipe_exec name pc ps1 evs) as [[[ps2 outs2] h2]|] eqn:Ee; [|discriminate]. injection He as _ _ <-.
    apply in_app_or in Hin as [Hin|Hin].
    + unfold step_hist in Hin. destruct ev as [c' key value o|c' tk e|c' g sa|now']; cbn [event_reqs] in Hin.
      * destruct (Wire.process_message (pc_reader_accept pc c') key value o) as [w|rs al] eqn:Hp; [contradiction|].
        unfold stamp in Hin. apply in_map_iff in Hin as [r [Hr Hin]]. injection Hr as _ Hr.
        apply in_map_iff in Hin as [r0 [Hr0 Hin0]]. subst r.
        pose proof (WireRoundtripProofs.in_range _ _ _ _ _ _ Hp) as Hrng. rewrite Forall_forall in Hrng. specialize (Hrng r0 Hin0).
        destruct r0 as [g0 t0 p0 off0 ts0 order0| | |]; cbn [wire_to_storage] in Hr0; try discriminate.
        injection Hr0 as -> <- <- <- <- <- <-. cbn in Hrng. destruct Hrng as (_ & _ & _ & ->).
        exists key, value, rs, al, g0, t0. split; [left; reflexivity|]. auto.
      * destruct (get (p_cluster ps) c') as [cs|]; [|contradiction].
        destruct (CM.cycle (CM.tick tk cs) e) as [o|]; [|contradiction].
        unfold stamp in Hin. apply in_map_iff in Hin as [r [Hr Hin]]. injection Hr as _ Hr. subst r.
        unfold cluster_to_storage in Hin. apply in_app_or in Hin as [Hin|Hin]; apply in_map_iff in Hin as [x [Hx _]];
          [discriminate|destruct x as [[[? ?] ?] ?]; discriminate].
      * destruct Hin as [Hin|[]]. discriminate.
      * contradiction.
    + destruct (IH ps1 ps2 outs2 h2 now Ee Hin) as (key & value & rs & al & g0 & t0 & H1 & H2).
      exists key, value, rs, al, g0, t0. split; [right; exact H1|exact H2].
Qed.

(* -- the evaluator side: a partition status of the answer is the evaluation of one partition of storage's reply -- *)
Lemma eval_parts_in t ps minimum allowed now : forall i l pst,
  eval_parts t i ps minimum allowed now = Ok l -> In pst l ->
  exists k cp s st en cpl, nth_error ps k = Some cp /\ eval_partition cp minimum allowed now = Ok (s, st, en, cpl) /\
    pst = mkPstatus t (i + Z.of_nat k) (cp_owner cp) (cp_client cp) s st en (cp_lag cp) cpl.
Proof.
  induction ps as [|p ps IH]; intros i l pst He Hin; cbn [eval_parts] in He.
  - injection He as <-. contradiction.
  - destruct (eval_partition p minimum allowed now) as [[[[s st] en] cpl]|] eqn:Ep; [|discriminate].
    destruct (eval_parts t (i + 1) ps minimum allowed now) as [l'|] eqn:El; [|discriminate]. injection He as <-.
    destruct Hin as [<-|Hin].
    + exists 0%nat, p, s, st, en, cpl. split; [reflexivity|]. split; [exact Ep|]. f_equal. cbn. lia.
    + destruct (IH (i + 1) l' pst El Hin) as (k & cp & s' & st' & en' & cpl' & H1 & H2 & ->).
      exists (S k), cp, s', st', en', cpl'. split; [exact H1|]. split; [exact H2|]. f_equal. lia.
Qed.

Lemma eval_topics_in ts minimum allowed now : forall l pst,
  eval_topics ts minimum allowed now = Ok l -> In pst l ->
  exists t cps k cp s st en cpl, In (t, cps) ts /\ nth_error cps k = Some cp /\
    eval_partition cp minimum allowed now = Ok (s, st, en, cpl) /\
    pst = mkPstatus t (Z.of_nat k) (cp_owner cp) (cp_client cp) s st en (cp_lag cp) cpl.
Proof.
  induction ts as [|[t cps] ts IH]; intros l pst He Hin; cbn [eval_topics] in He.
  - injection He as <-. contradiction.
  - destruct (eval_parts t 0 cps minimum allowed now) as [l1|] eqn:E1; [|discriminate].
    destruct (eval_topics ts minimum allowed now) as [l2|] eqn:E2; [|discriminate]. injection He as <-.
    apply in_app_or in Hin as [Hin|Hin].
    + destruct (eval_parts_in t cps minimum allowed now 0 l1 pst E1 Hin) as (k & cp & s & st & en & cpl & H1 & H2 & H3).
      exists t, cps, k, cp, s, st, en, cpl. split; [left; reflexivity|]. auto.
    + destruct (IH l2 pst eq_refl Hin) as (t' & cps' & k & cp & s & st & en & cpl & H0 & H).
      exists t', cps', k, cp, s, st, en, cpl. split; [right; exact H0|exact H].
Qed.

Lemma last_cons_cons {A} (a b : A) l d : last (a :: b :: l) d = last (b :: l) d.
Proof. reflexivity. Qed.

Lemma last_repeat_none {A} b : last (repeat (@None A) b) None = None.
Proof.
  induction b as [|b IH]; [reflexivity|]. destruct b as [|b]; [reflexivity|].
  change (repeat (@None A) (S (S b))) with (@None A :: None :: repeat None b). rewrite last_cons_cons. exact IH.
Qed.

Lemma last_app_cons {A} (l1 : list A) x l2 d : last (l1 ++ x :: l2) d = last (x :: l2) d.
Proof.
  induction l1 as [|a l1 IH]; [reflexivity|]. cbn [app]. destruct (l1 ++ x :: l2) eqn:E.
  - destruct l1; discriminate.
  - rewrite last_cons_cons. exact IH.
Qed.

Lemma last_indep {A} (l : list A) a d d' : last (a :: l) d = last (a :: l) d'.
Proof. revert a. induction l as [|x l IH]; intros a; [reflexivity|]. rewrite !last_cons_cons. apply IH. Qed.

Lemma last_map_some {A} (l : list A) : forall c0, last (map Some (c0 :: l)) None = Some (last (c0 :: l) c0).
Proof.
  induction l as [|a l IH]; intros c0; [reflexivity|].
  change (map Some (c0 :: a :: l)) with (Some c0 :: Some a :: map Some l).
  rewrite !last_cons_cons. change (Some a :: map Some l) with (map Some (a :: l)). rewrite IH. f_equal. apply last_indep.
Qed.

(* the End of a partition status is the newest slot of the window *)
Lemma eval_partition_end cp minimum allowed now s st en cpl :
  storage_shaped cp -> eval_partition cp minimum allowed now = Ok (s, st, en, cpl) -> en = last (cp_offsets cp) None.
Proof.
  intros [(b & cs & Hsh) _] He. destruct cs as [|c0 cs].
  - cbn [map] in Hsh. rewrite app_nil_r in Hsh. rewrite (eval_partition_all_nil b cp minimum allowed now Hsh) in He.
    injection He as _ _ <- _. rewrite Hsh. symmetry. apply last_repeat_none.
  - rewrite (eval_partition_shape _ _ _ _ _ _ _ Hsh) in He. injection He as _ _ <- _.
    rewrite Hsh. cbn [map]. rewrite last_app_cons. symmetry. apply (last_map_some cs c0).
Qed.

Lemma last_some_in {A} (l : list (option A)) k : last l None = Some k -> In (Some k) l.
Proof.
  induction l as [|a l IH]; [discriminate|]. destruct l as [|b l]; [cbn; intros ->; left; reflexivity|].
  rewrite last_cons_cons. intros H. right. apply IH. exact H.
Qed.

Section Main.
Variable pc : pconfig.
Hypothesis HN : (1 <= cf_intervals (pc_storage pc))%nat.
Hypothesis H24 : Z.of_nat (cf_intervals (pc_storage pc)) <= 2 ^ 24.

(* what a status request answers after a run: the evaluation of storage's reply *)
Lemma status_request_answer ps c g showall ps' cz gz sa gsv :
  pipe_step name pc ps (StatusRequest c g showall) = Some (ps', [OStatus cz gz sa (Some gsv)]) ->
  exists st' l gs,
    fetch_consumer (pc_storage pc) (p_now ps) (p_storage ps) c (name g) = Done st' (RConsumer l) /\
    eval_group l (pc_minimum pc) (pc_allowed pc) (p_now ps) = Ok gs /\
    gsv = view showall gs /\ cz = c /\ gz = name g /\ sa = showall.
Proof.
  cbn [pipe_step step].
  destruct (fetch_consumer (pc_storage pc) (p_now ps) (p_storage ps) c (name g)) as [st' rep|] eqn:Ef; [|discriminate].
  unfold answer, reply_to_eval. destruct rep as [| | | |l]; try (intros H; injection H as _ _ _ _ H; discriminate).
  destruct (eval_group l (pc_minimum pc) (pc_allowed pc) (p_now ps)) as [gs|] eqn:Eg; [|discriminate].
  intros H. injection H as _ <- <- <- <-. exists st', l, gs. auto 10.
Qed.

(* e2e_lag_exact.  After ANY event sequence, in the answer to a status request for (cluster c, group g): every listed
   partition has 0 <= CurrentLag < 2^64; a partition that reports no commit has CurrentLag 0; a partition whose newest
   reported commit is k has
     CurrentLag = max 0 (b - offset of k), b = the offset a broker answered for (c, topic, partition) in the last cluster
                  cycle of c that got an answer for it ([last_answer], characterised by [last_answer_spec] below);
     k is the (offset, log position) of a commit the reader of c decoded from a message of the sequence, the log position
       being that message's own (C06_commit_update_wellformed / C07_offset_roundtrip say which bytes decode to it);
     and no commit that reached the window since it was last removed - the commits not dropped on arrival by the documented
       rules (StorageWindows.arrivals: known cluster, not older than expire-group, accepted by the lists, broker offset
       known for the partition) - has a higher log position;
   and TotalLag is the sum of the listed CurrentLags modulo 2^64. *)
Theorem lag_exact now0 evs ps outs h c g showall ps' cz gz sa gsv :
  Forall event_ok evs ->
  pipe_run name pc now0 evs = Some (ps, outs, h) ->
  pipe_step name pc ps (StatusRequest c g showall) = Some (ps', [OStatus cz gz sa (Some gsv)]) ->
  exists gs,
    gsv = view showall gs /\ cz = c /\ gz = name g /\ sa = showall /\
    (forall pst, In pst (gs_partitions gs) ->
       0 <= ps_lag pst < two64 /\
       match ps_end pst with
       | None => ps_lag pst = 0
       | Some k =>
           (exists b, last_answer pc (pinit pc now0) evs c (ps_topic pst) (ps_partition pst) = Some b /\
                      ps_lag pst = Z.max 0 (b - co_offset k)) /\
           (exists key value rs al g0 t0 ts,
               In (KafkaMessage c key value (co_order k)) evs /\
               Wire.process_message (pc_reader_accept pc c) key value (co_order k) = Wire.Done rs al /\
               In (Wire.SetConsumerOffset g0 t0 (ps_partition pst) (co_offset k) ts (co_order k)) rs /\
               name g0 = name g /\ name t0 = ps_topic pst) /\
           (exists x, In x (arrivals (pc_storage pc) (pc_clusters pc) h c (name g) (ps_topic pst) (ps_partition pst)) /\
                      cm_offset (fst x) = co_offset k /\ cm_order (fst x) = co_order k) /\
           (forall x, In x (arrivals (pc_storage pc) (pc_clusters pc) h c (name g) (ps_topic pst) (ps_partition pst)) ->
                      cm_order (fst x) <= co_order k)
       end) /\
    gs_totallag gs = fold_right Z.add 0 (map ps_lag (gs_partitions gs)) mod two64.
Proof.
  intros Hok Hrun Hstep.
  destruct (pipeline_hist_wf name pc HN H24 now0 evs Hok) as (ps0 & outs0 & h0 & Hrun0 & Hwf & _ & [reps Hr]).
  rewrite Hrun in Hrun0. injection Hrun0 as <- <- <-.
  destruct (status_request_answer _ _ _ _ _ _ _ _ _ Hstep) as (st' & l & gs & Hf & Hg & -> & -> & -> & ->).
  exists gs. do 4 (split; [reflexivity|]).
  destruct (eval_group_spec _ _ _ _ _ Hg) as (parts & Het & Hparts & _ & _ & _ & Htot & Hlags & _).
  pose proof (reply_shaped _ _ _ _ _ _ _ _ _ _ HN H24 Hwf Hr Hf) as Hshaped.
  set (cf := pc_storage pc) in *. set (cls := pc_clusters pc) in *.
  assert (Hlag : forall t cps i cp, In (t, cps) l -> nth_error cps i = Some cp -> 0 <= cp_lag cp < two64).
  { intros t cps i cp Hin Hi.
    pose proof (StorageProofs.current_lag_exact cf cls h _ _ _ _ _ _ _ _ _ _ _ HN Hwf Hr Hf Hin Hi) as Hc.
    destruct (last (cp_offsets cp) None); [destruct Hc as (b & _ & _ & _ & H); exact H|rewrite Hc; unfold two64; lia]. }
  split.
  - intros pst Hpst. rewrite Hparts in Hpst.
    destruct (eval_topics_in _ _ _ _ _ _ Het Hpst) as (t & cps & i & cp & s & st & en & cpl & Hin & Hi & Hev & ->).
    cbn [ps_lag ps_end ps_topic ps_partition].
    split; [eapply Hlag; eauto|].
    assert (Hsh : storage_shaped cp).
    { rewrite Forall_forall in Hshaped. apply Hshaped. unfold all_parts. apply in_flat_map. exists (t, cps).
      split; [exact Hin|]. cbn [snd]. eapply nth_error_In; exact Hi. }
    rewrite (eval_partition_end _ _ _ _ _ _ _ _ Hsh Hev).
    pose proof (StorageProofs.current_lag_exact cf cls h _ _ _ _ _ _ _ _ _ _ _ HN Hwf Hr Hf Hin Hi) as Hc.
    destruct (last (cp_offsets cp) None) as [k|] eqn:Elast; [|exact Hc].
    destruct Hc as (b & Hlb & _ & Hcl & _).
    destruct (storage_reply_windows cf cls h _ _ _ _ _ _ _ _ _ _ _ HN Hwf Hr Hf Hin Hi) as [He|[Hro _]].
    { rewrite He in Elast. discriminate. }
    set (arr := arrivals cf cls h c (name g) t (Z.of_nat i)) in *.
    assert (Hk : In (Some k) (ring_run (cf_min_distance cf) (cf_intervals cf) arr)).
    { apply last_some_in in Elast. rewrite Hro in Elast. unfold readout in Elast. apply in_rev in Elast. exact Elast. }
    destruct (ring_run_entries _ _ _ _ Hk) as (cl & Hcl_in & Hoff & Hord).
    split; [|split; [|split]].
    + exists b. split; [|exact Hcl]. unfold pipe_run in Hrun. rewrite <- (last_broker_pipe pc c t (Z.of_nat i) evs _ _ _ _ Hrun). exact Hlb.
    + destruct (arrivals_in_hist cf cls c (name g) t (Z.of_nat i) h cl Hcl_in) as [now Hh].
      rewrite <- Hoff, <- Hord in Hh. unfold pipe_run in Hrun.
      destruct (hist_from_message pc c (name g) t (Z.of_nat i) (co_offset k) (co_order k) (cm_ts (fst cl)) evs _ _ _ _ now Hrun Hh)
        as (key & value & rs & al & g0 & t0 & H1 & H2 & H3 & H4 & H5).
      exists key, value, rs, al, g0, t0, (cm_ts (fst cl)). auto 10.
    + exists cl. auto.
    + assert (Hne : arr <> []) by (intros E; rewrite E in Hcl_in; contradiction).
      destruct (run_newest_last (cf_min_distance cf) (cf_intervals cf) arr HN Hne) as (k' & Hl' & _ & Hmax).
      rewrite <- Hro, Elast in Hl'. injection Hl' as <-. exact Hmax.
  - rewrite Htot, Hparts, Hlags. apply total_lag_sum. unfold part_lags. apply Forall_forall. intros z Hz.
    apply in_flat_map in Hz as [[t cps] [Hin Hz]]. cbn [snd] in Hz. apply in_map_iff in Hz as [cp [<- Hcp]].
    apply In_nth_error in Hcp as [i Hi]. unfold in_u64. eapply Hlag; eauto.
Qed.

(* e2e_lag_exact with the drop rules read off the history: the newest reported commit is a LIVE commit of the history - not
   dropped on arrival by the state-free rules [accepted_on_arrival], not removed afterwards - and no live commit of that
   group / topic / partition has a higher log position. *)
Theorem lag_exact_live now0 evs ps outs h c g showall ps' cz gz sa gsv :
  Forall event_ok evs ->
  pipe_run name pc now0 evs = Some (ps, outs, h) ->
  pipe_step name pc ps (StatusRequest c g showall) = Some (ps', [OStatus cz gz sa (Some gsv)]) ->
  exists gs,
    gsv = view showall gs /\ cz = c /\ gz = name g /\ sa = showall /\
    (forall pst, In pst (gs_partitions gs) ->
       0 <= ps_lag pst < two64 /\
       match ps_end pst with
       | None => ps_lag pst = 0
       | Some k =>
           (exists b, last_answer pc (pinit pc now0) evs c (ps_topic pst) (ps_partition pst) = Some b /\
                      ps_lag pst = Z.max 0 (b - co_offset k)) /\
           (exists key value rs al g0 t0 ts,
               In (KafkaMessage c key value (co_order k)) evs /\
               Wire.process_message (pc_reader_accept pc c) key value (co_order k) = Wire.Done rs al /\
               In (Wire.SetConsumerOffset g0 t0 (ps_partition pst) (co_offset k) ts (co_order k)) rs /\
               name g0 = name g /\ name t0 = ps_topic pst) /\
           (exists ts, live_commit (pc_storage pc) (pc_clusters pc) h c (name g) (ps_topic pst) (ps_partition pst)
                                   (mkCommit (co_offset k) (co_order k) ts)) /\
           (forall cm, live_commit (pc_storage pc) (pc_clusters pc) h c (name g) (ps_topic pst) (ps_partition pst) cm ->
                       cm_order cm <= co_order k)
       end) /\
    gs_totallag gs = fold_right Z.add 0 (map ps_lag (gs_partitions gs)) mod two64.
Proof.
  intros Hok Hrun Hstep.
  destruct (pipeline_hist_wf name pc HN H24 now0 evs Hok) as (ps0 & outs0 & h0 & Hrun0 & Hwf & _ & [reps Hr]).
  rewrite Hrun in Hrun0. injection Hrun0 as <- <- <-.
  destruct (lag_exact now0 evs ps outs h c g showall ps' cz gz sa gsv Hok Hrun Hstep) as (gs & E1 & E2 & E3 & E4 & Hparts & Htot).
  exists gs. do 4 (split; [assumption|]). split; [|exact Htot].
  intros pst Hpst. destruct (Hparts pst Hpst) as [Hrange Hm]. split; [exact Hrange|].
  destruct (ps_end pst) as [k|]; [|exact Hm]. destruct Hm as (Hb & Hmsg & Hk & Hmax).
  split; [exact Hb|]. split; [exact Hmsg|].
  pose proof (arrivals_are_live_commits (pc_storage pc) (pc_clusters pc) c (name g) (ps_topic pst) (ps_partition pst) h _ _ Hr) as Hlive.
  split.
  - destruct Hk as ([cm lagv] & Hin & Hoff & Hord). cbn [fst] in Hoff, Hord. exists (cm_ts cm).
    replace (mkCommit (co_offset k) (co_order k) (cm_ts cm)) with cm by (destruct cm; cbn in *; subst; reflexivity).
    apply Hlive. exists lagv. exact Hin.
  - intros cm Hl. apply Hlive in Hl as [lagv Hin]. exact (Hmax (cm, lagv) Hin).
Qed.

(* e2e_lag_exact, closed form: as [lag_exact_live] with [live_commit_h], every clause of which is a function of the
   configuration and the produced request list (itself the concatenation, in event order, of each event's requests stamped
   with the clock: [hist_split_events]). *)
Theorem lag_exact_closed now0 evs ps outs h c g showall ps' cz gz sa gsv :
  Forall event_ok evs ->
  pipe_run name pc now0 evs = Some (ps, outs, h) ->
  pipe_step name pc ps (StatusRequest c g showall) = Some (ps', [OStatus cz gz sa (Some gsv)]) ->
  exists gs,
    gsv = view showall gs /\ cz = c /\ gz = name g /\ sa = showall /\
    (forall pst, In pst (gs_partitions gs) ->
       0 <= ps_lag pst < two64 /\
       match ps_end pst with
       | None => ps_lag pst = 0
       | Some k =>
           (exists b, last_answer pc (pinit pc now0) evs c (ps_topic pst) (ps_partition pst) = Some b /\
                      ps_lag pst = Z.max 0 (b - co_offset k)) /\
           (exists key value rs al g0 t0 ts,
               In (KafkaMessage c key value (co_order k)) evs /\
               Wire.process_message (pc_reader_accept pc c) key value (co_order k) = Wire.Done rs al /\
               In (Wire.SetConsumerOffset g0 t0 (ps_partition pst) (co_offset k) ts (co_order k)) rs /\
               name g0 = name g /\ name t0 = ps_topic pst) /\
           (exists ts, live_commit_h (pc_storage pc) (pc_clusters pc) h c (name g) (ps_topic pst) (ps_partition pst)
                                     (mkCommit (co_offset k) (co_order k) ts)) /\
           (forall cm, live_commit_h (pc_storage pc) (pc_clusters pc) h c (name g) (ps_topic pst) (ps_partition pst) cm ->
                       cm_order cm <= co_order k)
       end) /\
    gs_totallag gs = fold_right Z.add 0 (map ps_lag (gs_partitions gs)) mod two64.
Proof.
  intros Hok Hrun Hstep.
  destruct (pipeline_hist_wf name pc HN H24 now0 evs Hok) as (ps0 & outs0 & h0 & Hrun0 & Hwf & _ & [reps Hr]).
  rewrite Hrun in Hrun0. injection Hrun0 as <- <- <-.
  destruct (lag_exact_live now0 evs ps outs h c g showall ps' cz gz sa gsv Hok Hrun Hstep) as (gs & E1 & E2 & E3 & E4 & Hparts & Htot).
  exists gs. do 4 (split; [assumption|]). split; [|exact Htot].
  intros pst Hpst. destruct (Hparts pst Hpst) as [Hrange Hm]. split; [exact Hrange|].
  destruct (ps_end pst) as [k|]; [|exact Hm]. destruct Hm as (Hb & Hmsg & [ts Hk] & Hmax).
  split; [exact Hb|]. split; [exact Hmsg|]. split.
  - exists ts. apply (live_commit_h_iff _ _ _ _ _ _ _ _ _ _ HN Hwf Hr). exact Hk.
  - intros cm Hl. apply Hmax. apply (live_commit_h_iff _ _ _ _ _ _ _ _ _ _ HN Hwf Hr). exact Hl.
Qed.

(* where a request of the produced history comes from: the events before it, the event itself (its requests at the state
   and clock it met), the events after it.  Positions in the history are positions in the event sequence. *)
Lemma hist_split_events evs : forall ps ps' outs h ha now r hb,
  pipe_exec name pc ps evs = Some (ps', outs, h) -> h = ha ++ (now, r) :: hb ->
  exists evs1 ev evs2 ps1 o1 h1 rs ra rb ps2 o2 h2 outs_ev,
    evs = evs1 ++ ev :: evs2 /\
    pipe_exec name pc ps evs1 = Some (ps1, o1, h1) /\
    event_reqs name pc ps1 ev = Some rs /\ rs = ra ++ r :: rb /\ now = p_now ps1 /\
    pipe_step name pc ps1 ev = Some (ps2, outs_ev) /\
    pipe_exec name pc ps2 evs2 = Some (ps', o2, h2) /\
    ha = h1 ++ stamp (p_now ps1) ra /\ hb = stamp (p_now ps1) rb ++ h2.
Proof.
  induction evs as [|ev evs IH]; intros ps ps' outs h ha now r hb He Hsplit; cbn [pipe_exec] in He.
  - injection He as _ _ <-. destruct ha; discriminate.
  - destruct (pipe_step name pc ps ev) as [[ps1 outs1]|] eqn:Es; [|discriminate].
    destruct (pipe_exec name pc ps1 evs) as [[[ps2 outs2] h2]|] eqn:Ee; [|discriminate]. injection He as <- _ <-.
    symmetry in Hsplit. apply app_eq_app in Hsplit as [l [[Ha Hb]|[Ha Hb]]].
    + (* the request lies in a later event *)
      destruct (IH ps1 ps2 outs2 h2 l now r hb Ee Hb) as
        (evs1 & ev' & evs2 & psa & o1 & h1 & rs & ra & rb & psb & o2 & h2' & oev & -> & H1 & H2 & H3 & H4 & H5 & H6 & H7 & H8).
      exists (ev :: evs1), ev', evs2, psa, (outs1 ++ o1), (step_hist name pc ps ev ++ h1), rs, ra, rb, psb, o2, h2', oev.
      split; [reflexivity|]. split; [cbn [pipe_exec]; rewrite Es, H1; reflexivity|].
      do 5 (split; [assumption|]). split; [|exact H8]. rewrite Ha, H7, app_assoc. reflexivity.
    + destruct l as [|x l].
      * (* exactly at the border: the first request of the next events *)
        rewrite app_nil_r in Ha. cbn [app] in Hb.
        destruct (IH ps1 ps2 outs2 h2 [] now r hb Ee (eq_sym Hb)) as
          (evs1 & ev' & evs2 & psa & o1 & h1 & rs & ra & rb & psb & o2 & h2' & oev & -> & H1 & H2 & H3 & H4 & H5 & H6 & H7 & H8).
        exists (ev :: evs1), ev', evs2, psa, (outs1 ++ o1), (step_hist name pc ps ev ++ h1), rs, ra, rb, psb, o2, h2', oev.
        split; [reflexivity|]. split; [cbn [pipe_exec]; rewrite Es, H1; reflexivity|].
        do 5 (split; [assumption|]). split; [|exact H8]. rewrite <- app_assoc, <- H7, app_nil_r. symmetry. exact Ha.
      * (* one of this event's requests *)
        cbn [app] in Hb. injection Hb as <- ->.
        unfold step_hist in Ha. destruct (event_reqs name pc ps ev) as [rs|] eqn:Er; [|destruct ha; discriminate].
        unfold stamp in Ha. apply map_eq_app in Ha as (ra & rest & -> & Hra & Hrest).
        destruct rest as [|r0 rb]; [discriminate|]. cbn [map] in Hrest. injection Hrest as Hnow <- Hrb.
        exists [], ev, evs, ps, [], [], (ra ++ r0 :: rb), ra, rb, ps1, outs2, h2, outs1.
        split; [reflexivity|]. split; [reflexivity|]. split; [exact Er|]. split; [reflexivity|]. split; [auto|].
        split; [exact Es|]. split; [exact Ee|]. split; [cbn [app]; rewrite <- Hra; reflexivity|]. unfold stamp. rewrite Hrb. reflexivity.
Qed.

(* [last_answer] in C11's terms: the value is the first offset of the ErrNoError answer that the broker asked for (t, p)
   gave in a cycle of cluster c of the sequence, and no later cycle of the sequence got an answer for (t, p). *)
Lemma last_answer_spec_gen c t p evs : forall ps h0 b,
  pinv pc ps h0 -> Forall event_ok evs ->
  last_answer pc ps evs c t p = Some b ->
  exists evs1 tk e evs2 ps1 o1 h1 cs o cnt br ans rest,
    evs = evs1 ++ ClusterCycle c tk e :: evs2 /\
    pipe_exec name pc ps evs1 = Some (ps1, o1, h1) /\
    get (p_cluster ps1) c = Some cs /\ CM.cycle (CM.tick tk cs) e = CM.Done o /\
    In (t, p, b, cnt) (CM.co_updates o) /\
    In (br, t, p) (CM.co_asks o) /\ CM.e_answer e br = CM.Good ans /\ ans t p = (0, b :: rest) /\
    (forall ps2 outs2, pipe_step name pc ps1 (ClusterCycle c tk e) = Some (ps2, outs2) ->
                       last_answer pc ps2 evs2 c t p = None).
Proof.
  induction evs as [|ev evs IH]; intros ps h0 b Hinv Hok Hla; cbn [last_answer] in Hla; [discriminate|].
  inversion Hok as [|? ? Hev Hevs]; subst.
  destruct (pipe_step_inv name pc HN H24 ps h0 ev Hinv Hev) as (ps' & outs & Hs & Hinv').
  rewrite Hs in Hla.
  destruct (last_answer pc ps' evs c t p) as [b'|] eqn:Erest.
  - injection Hla as ->.
    destruct (IH ps' _ b Hinv' Hevs Erest) as (evs1 & tk & e & evs2 & ps1 & o1 & h1 & cs & o & cnt & br & ans & rest & -> & He & H).
    exists (ev :: evs1), tk, e, evs2, ps1, (outs ++ o1), (step_hist name pc ps ev ++ h1), cs, o, cnt, br, ans, rest.
    split; [reflexivity|]. split; [cbn [pipe_exec]; rewrite Hs, He; reflexivity|exact H].
  - destruct ev as [c' key value o|c' tk e|c' g sa|now]; cbn [answered_in] in Hla; try discriminate.
    destruct (c' =? c) eqn:Ec; [|discriminate]. apply Z.eqb_eq in Ec. subst c'.
    destruct (get (p_cluster ps) c) as [cs|] eqn:Eg; [|discriminate].
    destruct (CM.cycle (CM.tick tk cs) e) as [o|] eqn:Ecy; [|discriminate].
    destruct (find_update_in _ _ _ _ Hla) as [cnt Hin].
    destruct Hinv as (_ & _ & _ & Hcl).
    pose proof (CP.wf_tick tk cs (creach_wf cs (Hcl c cs Eg))) as Hw.
    destruct (CP.answer_to_update _ _ _ Hw Ecy) as [Hiff _].
    destruct (proj1 (Hiff t p b cnt) Hin) as (br & ans & rest & Ha & Hb & Hc & _).
    exists [], tk, e, evs, ps, [], [], cs, o, cnt, br, ans, rest.
    split; [reflexivity|]. split; [reflexivity|]. do 6 (split; [assumption|]).
    intros ps2 outs2 Hs2. rewrite Hs in Hs2. injection Hs2 as <- _. exact Erest.
Qed.

Theorem last_answer_spec now0 c t p evs b :
  Forall event_ok evs ->
  last_answer pc (pinit pc now0) evs c t p = Some b ->
  exists evs1 tk e evs2 ps1 o1 h1 cs o cnt br ans rest,
    evs = evs1 ++ ClusterCycle c tk e :: evs2 /\
    pipe_exec name pc (pinit pc now0) evs1 = Some (ps1, o1, h1) /\
    get (p_cluster ps1) c = Some cs /\ CM.cycle (CM.tick tk cs) e = CM.Done o /\
    In (t, p, b, cnt) (CM.co_updates o) /\
    In (br, t, p) (CM.co_asks o) /\ CM.e_answer e br = CM.Good ans /\ ans t p = (0, b :: rest) /\
    (forall ps2 outs2, pipe_step name pc ps1 (ClusterCycle c tk e) = Some (ps2, outs2) ->
                       last_answer pc ps2 evs2 c t p = None).
Proof. intros Hok. apply (last_answer_spec_gen c t p evs (pinit pc now0) [] b (pinv_init pc now0) Hok). Qed.

End Main.

End EndToEnd.
