(* Proofs about the composed data path (Pipeline.v): each layer's output meets the next layer's assumptions, for all
   inputs; the storage history of any event sequence is well-formed; every reply evaluates. *)
From Coq Require Import ZArith List Bool Lia ZifyBool.
From Burrow Require Import Int64 Int64Proofs F32 Eval EvalProofs EvalGroupProofs EvalCompleteProofs.
From Burrow Require Import AMap AMapProofs Ring RingProofs Storage StorageProofs StorageWindows Pipeline.
From Burrow Require Wire WireProofs WireRoundtripProofs ClusterMod ClusterModProofs.
Import ListNotations.
Open Scope Z_scope.

(* ------------------------------------------------------------------------------------------------------------------ *)
(* the cluster module: final state of a list of cycles, and the trace of a list extended by one cycle                   *)
(* ------------------------------------------------------------------------------------------------------------------ *)
Module CM := ClusterMod.
Module CP := ClusterModProofs.

(* what one cluster's environment must satisfy: Kafka numbers partitions 0..n-1 (C11's env_ids_ok), an ErrNoError block
   carries an offset (C11's env_offsets_ok), and offsets are int64 (the wire type of the field) *)
Definition env_i64_ok (e : CM.env) : Prop :=
  forall b ans t p, CM.e_answer e b = CM.Good ans -> Forall in_i64 (snd (ans t p)).
Definition env_ok (e : CM.env) : Prop := CP.env_ids_ok e /\ CP.env_offsets_ok e /\ env_i64_ok e.

Fixpoint cfinal (st : CM.state) (l : list (bool * CM.env)) : CM.state :=
  match l with
  | [] => st
  | (tk, e) :: r =>
      match CM.cycle (CM.tick tk st) e with
      | CM.Done o => cfinal (CM.co_state o) r
      | CM.Crash => st
      end
  end.

Lemma cycle_ok_done st e : CP.env_offsets_ok e -> exists o, CM.cycle st e = CM.Done o.
Proof.
  intros Hok. destruct (CM.cycle st e) as [o|] eqn:Ec; [eauto|].
  exfalso. apply CP.cycle_crash_iff in Ec as [b [t [p [ans [_ [Ha Hb]]]]]].
  apply (Hok b ans t p Ha); rewrite Hb; reflexivity.
Qed.

Lemma trace_snoc l : forall st g tk e o,
  (forall x, In x l -> CP.env_offsets_ok (snd x)) ->
  CM.cycle (CM.tick tk (cfinal st l)) e = CM.Done o ->
  exists g', CM.trace st g (l ++ [(tk, e)]) = CM.trace st g l ++ [CM.mkEntry (CM.tick tk (cfinal st l)) e g' o].
Proof.
  induction l as [|[tk0 e0] r IH]; intros st g tk e o Hok Hc; cbn [app CM.trace cfinal] in *.
  - rewrite Hc. exists g. reflexivity.
  - destruct (cycle_ok_done (CM.tick tk0 st) e0 (Hok (tk0, e0) (or_introl eq_refl))) as [o0 E0].
    rewrite E0 in *. destruct (IH (CM.co_state o0) (CM.ghost_next (CM.tick tk0 st) e0 g) tk e o) as [g' Hg'].
    + intros x Hx. apply Hok. right. exact Hx.
    + exact Hc.
    + exists g'. rewrite Hg'. reflexivity.
Qed.

Lemma cfinal_snoc l : forall st tk e o,
  (forall x, In x l -> CP.env_offsets_ok (snd x)) ->
  CM.cycle (CM.tick tk (cfinal st l)) e = CM.Done o ->
  cfinal st (l ++ [(tk, e)]) = CM.co_state o.
Proof.
  induction l as [|[tk0 e0] r IH]; intros st tk e o Hok Hc; cbn [app cfinal] in *.
  - rewrite Hc. reflexivity.
  - destruct (cycle_ok_done (CM.tick tk0 st) e0 (Hok (tk0, e0) (or_introl eq_refl))) as [o0 E0].
    rewrite E0 in *. apply IH; [intros x Hx; apply Hok; right; exact Hx|exact Hc].
Qed.

Lemma trace_env_in l : forall st g en, In en (CM.trace st g l) -> exists tk, In (tk, CM.en_env en) l.
Proof.
  induction l as [|[tk e] r IH]; cbn [CM.trace]; intros st g en Hin; [contradiction|].
  destruct (CM.cycle (CM.tick tk st) e) as [o|]; [|contradiction].
  destruct Hin as [<-|Hin]; [exists tk; left; reflexivity|].
  destruct (IH _ _ _ Hin) as [tk' H]. exists tk'. right. exact H.
Qed.

(* a cluster-module state the pipeline can be in: the result of some list of cycles in acceptable environments *)
Definition creach (cs : CM.state) : Prop :=
  exists l, (forall x, In x l -> env_ok (snd x)) /\ cs = cfinal CM.init_state l.

Lemma creach_init : creach CM.init_state.
Proof. exists []. split; [intros x []|reflexivity]. Qed.

Section Glue.
Variable name : list Z -> Z.

(* ------------------------------------------------------------------------------------------------------------------ *)
(* interface 1: reader -> storage                                                                                       *)
(* ------------------------------------------------------------------------------------------------------------------ *)

(* everything storage's arithmetic assumes of a request: Go's field widths, and for a broker offset the partition below
   the announced count (topicList[request.Partition] in addBrokerOffset) *)
Definition sreq_in_range (r : req) : Prop :=
  match r with
  | SetBrokerOffset _ _ p cnt off => 0 <= p < cnt /\ in_i64 off
  | SetConsumerOffset _ _ _ p off order ts => in_i32 p /\ in_i64 off /\ in_i64 order /\ in_i64 ts
  | SetConsumerOwner _ _ _ p _ _ => in_i32 p
  | _ => True
  end.

Lemma sreq_in_range_wf r : sreq_in_range r -> wf_req r.
Proof. destruct r; cbn; tauto. Qed.

(* every request the decoder emits, for ANY key and value, satisfies storage's side conditions *)
Theorem wire_output_wf accept key value o rs al c :
  in_i64 o ->
  Wire.process_message accept key value o = Wire.Done rs al ->
  Forall (fun r => sreq_in_range (wire_to_storage name c r)) rs.
Proof.
  intros Ho Hp. pose proof (WireRoundtripProofs.in_range accept key value o rs al Hp) as Hr.
  eapply Forall_impl; [|exact Hr]. intros r Hrr.
  destruct r; cbn in *; try tauto. destruct Hrr as (H1 & H2 & H3 & ->). tauto.
Qed.

(* ------------------------------------------------------------------------------------------------------------------ *)
(* interface 2: cluster module -> storage                                                                               *)
(* ------------------------------------------------------------------------------------------------------------------ *)

(* every request of every cycle of every run of a fresh cluster module in acceptable environments *)
Theorem cluster_output_wf l en c :
  (forall x, In x l -> env_ok (snd x)) ->
  In en (CM.trace CM.init_state None l) ->
  Forall sreq_in_range (cluster_to_storage c (CM.en_out en)).
Proof.
  intros Hok Hin. unfold cluster_to_storage. apply Forall_app. split.
  - apply Forall_forall. intros r Hr. apply in_map_iff in Hr as [t [<- _]]. exact I.
  - apply Forall_forall. intros r Hr. apply in_map_iff in Hr as [[[[t p] off] cnt] [<- Hu]]. cbn.
    split.
    + eapply CP.count_bounds_partition; [|exact Hin|exact Hu]. intros x Hx. apply (Hok x Hx).
    + apply (CP.answer_to_update_run _ _ Hin) in Hu as [b [ans [rest [ge [ps [_ [Ha [Hb _]]]]]]]].
      destruct (trace_env_in _ _ _ _ Hin) as [tk Htk].
      destruct (Hok _ Htk) as (_ & _ & H64). cbn [snd] in H64.
      specialize (H64 b ans t p Ha). rewrite Hb in H64. cbn [snd] in H64. inversion H64; assumption.
Qed.

(* the same, one step at a time: a reachable module state, one more cycle *)
Lemma creach_cycle cs tk e c :
  creach cs -> env_ok e ->
  exists o, CM.cycle (CM.tick tk cs) e = CM.Done o /\ creach (CM.co_state o) /\
            Forall sreq_in_range (cluster_to_storage c o).
Proof.
  intros [l [Hok ->]] He.
  destruct (cycle_ok_done (CM.tick tk (cfinal CM.init_state l)) e (proj1 (proj2 He))) as [o Ho].
  exists o. split; [exact Ho|].
  assert (Hoff : forall x, In x l -> CP.env_offsets_ok (snd x)) by (intros x Hx; apply (Hok x Hx)).
  assert (Hok' : forall x, In x (l ++ [(tk, e)]) -> env_ok (snd x)).
  { intros x Hx. apply in_app_or in Hx as [Hx|[<-|[]]]; [apply (Hok x Hx)|exact He]. }
  split.
  - exists (l ++ [(tk, e)]). split; [exact Hok'|]. symmetry. apply cfinal_snoc; assumption.
  - destruct (trace_snoc l CM.init_state None tk e o Hoff Ho) as [g' Hg'].
    apply (cluster_output_wf (l ++ [(tk, e)]) (CM.mkEntry (CM.tick tk (cfinal CM.init_state l)) e g' o) c Hok').
    rewrite Hg'. apply in_or_app. right. left. reflexivity.
Qed.

(* ------------------------------------------------------------------------------------------------------------------ *)
(* the storage history of any event sequence                                                                            *)
(* ------------------------------------------------------------------------------------------------------------------ *)

(* what is assumed of an event: the message's position in the offsets log is an int64 (sarama.ConsumerMessage.Offset);
   the cluster environment is acceptable.  Nothing about keys, values, group names, clock values. *)
Definition event_ok (ev : pevent) : Prop :=
  match ev with
  | KafkaMessage _ _ _ o => in_i64 o
  | ClusterCycle _ _ e => env_ok e
  | _ => True
  end.

Definition clusters_ok (m : amap CM.state) : Prop := forall c cs, get m c = Some cs -> creach cs.

Lemma clusters_ok_init cls : clusters_ok (map (fun c => (c, CM.init_state)) cls).
Proof.
  intros c cs H. induction cls as [|c0 cls IH]; cbn in H; [discriminate|].
  destruct (c0 =? c); [injection H as <-; apply creach_init|auto].
Qed.

Lemma Forall_stamp (P : req -> Prop) now rs : Forall P rs -> Forall (fun x => P (snd x)) (stamp now rs).
Proof. intros H. unfold stamp. apply Forall_forall. intros x Hx. apply in_map_iff in Hx as [r [<- Hr]]. cbn. rewrite Forall_forall in H. auto. Qed.

(* the requests of one event are in range, the module that sends them does not panic, the module states stay reachable *)
Lemma event_reqs_ok pc ps ev :
  clusters_ok (p_cluster ps) -> event_ok ev ->
  exists rs, event_reqs name pc ps ev = Some rs /\ Forall sreq_in_range rs /\ clusters_ok (cluster_after ps ev).
Proof.
  intros Hcl Hev. destruct ev as [c key value o|c tk e|c g sa|now]; cbn [event_reqs cluster_after event_ok] in *.
  - destruct (WireProofs.process_never_crashes (pc_reader_accept pc c) key value o) as (rs & al & Hp).
    rewrite Hp. exists (map (wire_to_storage name c) rs). split; [reflexivity|]. split; [|exact Hcl].
    pose proof (wire_output_wf _ _ _ _ _ _ c Hev Hp) as H. rewrite Forall_forall in *. intros r Hr.
    apply in_map_iff in Hr as [r0 [<- Hr0]]. auto.
  - destruct (get (p_cluster ps) c) as [cs|] eqn:Ec.
    + destruct (creach_cycle cs tk e c (Hcl c cs Ec) Hev) as (o & Ho & Hr & Hw). rewrite Ho.
      exists (cluster_to_storage c o). split; [reflexivity|]. split; [exact Hw|].
      intros c' cs' H. destruct (Z.eq_dec c c') as [<-|Hne].
      * rewrite get_set_eq in H. injection H as <-. exact Hr.
      * rewrite get_set_neq in H by exact Hne. eauto.
    + exists []. split; [reflexivity|]. split; [constructor|exact Hcl].
  - exists [FetchConsumer c (name g)]. split; [reflexivity|]. split; [repeat constructor|exact Hcl].
  - exists []. split; [reflexivity|]. split; [constructor|exact Hcl].
Qed.

Lemma wf_hist_app h1 h2 : wf_hist (h1 ++ h2) <-> wf_hist h1 /\ wf_hist h2.
Proof. unfold wf_hist. apply Forall_app. Qed.

Lemma wf_hist_stamp now rs : Forall sreq_in_range rs -> wf_hist (stamp now rs).
Proof. intros H. apply Forall_stamp. eapply Forall_impl; [|exact H]. apply sreq_in_range_wf. Qed.

(* the invariant of the composed machine: storage is the run of a well-formed history; the cluster modules are reachable *)
Definition pinv (pc : pconfig) (ps : pstate) (h : hist) : Prop :=
  wf_hist h /\ Forall (fun x => sreq_in_range (snd x)) h /\
  (exists reps, run (pc_storage pc) (init_state (pc_clusters pc)) h = Some (p_storage ps, reps)) /\
  clusters_ok (p_cluster ps).

Lemma pinv_init pc now : pinv pc (pinit pc now) [].
Proof.
  split; [constructor|]. split; [constructor|]. split; [exists []; reflexivity|]. apply clusters_ok_init.
Qed.

(* every storage-shaped reply evaluates (C03_no_nil_dereference lifted to the group) *)
Lemma eval_parts_total t ps minimum allowed now : forall i,
  Forall storage_shaped ps -> exists l, eval_parts t i ps minimum allowed now = Ok l.
Proof.
  induction ps as [|p ps IH]; intros i Hs; cbn [eval_parts]; [eauto|].
  inversion Hs as [|? ? Hp Hps]; subst. destruct Hp as [(b & cs & Hsh) _].
  destruct (eval_partition_no_crash b cs p minimum allowed now Hsh) as [[[[s st] en] cpl] ->].
  destruct (IH (i + 1) Hps) as [l ->]. eauto.
Qed.

Lemma eval_topics_total ts minimum allowed now :
  Forall storage_shaped (all_parts ts) -> exists l, eval_topics ts minimum allowed now = Ok l.
Proof.
  induction ts as [|[t ps] ts IH]; intros Hs; cbn [eval_topics]; [eauto|].
  unfold all_parts in Hs. cbn [flat_map snd] in Hs. apply Forall_app in Hs as [H1 H2].
  destruct (eval_parts_total t ps minimum allowed now 0 H1) as [l ->].
  destruct (IH H2) as [l' ->]. eauto.
Qed.

Theorem eval_group_total ts minimum allowed now :
  Forall storage_shaped (all_parts ts) -> exists g, eval_group ts minimum allowed now = Ok g.
Proof.
  intros Hs. unfold eval_group. destruct (eval_topics_total ts minimum allowed now Hs) as [l ->].
  destruct (fold_left fold_part l (StOK, None, 0, [])) as [[[st mx] nc] lst]. eauto.
Qed.

(* every FetchConsumer reply of a state reached by a well-formed history has the shape the evaluator theorems assume *)
Theorem reply_shaped cf cls h st reps now c g st' l :
  (1 <= cf_intervals cf)%nat -> Z.of_nat (cf_intervals cf) <= 2 ^ 24 -> wf_hist h ->
  run cf (init_state cls) h = Some (st, reps) ->
  fetch_consumer cf now st c g = Done st' (RConsumer l) ->
  Forall storage_shaped (all_parts l).
Proof.
  intros HN H24 Hwf Hrun Hf. apply Forall_forall. intros cp Hcp.
  unfold all_parts in Hcp. apply in_flat_map in Hcp as [[t cps] [Hin Hcp]]. cbn [snd] in Hcp.
  apply In_nth_error in Hcp as [i Hi].
  destruct (storage_reply_windows cf cls h st reps now c g st' l t cps i cp HN Hwf Hrun Hf Hin Hi) as [He|[_ (b & cs & Hw & Hlen & _)]].
  - split; [exists 0%nat, []; rewrite He; reflexivity|rewrite He; cbn; lia].
  - split; [exists b, cs; exact Hw|]. rewrite Hw. unfold window. rewrite app_length, repeat_length, map_length. lia.
Qed.

Section Run.
Variable pc : pconfig.
Hypothesis HN : (1 <= cf_intervals (pc_storage pc))%nat.
Hypothesis H24 : Z.of_nat (cf_intervals (pc_storage pc)) <= 2 ^ 24.

(* one event: the machine does not die, and the invariant moves to the extended history *)
Lemma pipe_step_inv ps h ev :
  pinv pc ps h -> event_ok ev ->
  exists ps' outs, pipe_step name pc ps ev = Some (ps', outs) /\ pinv pc ps' (h ++ step_hist name pc ps ev).
Proof.
  intros (Hwf & Hrng & [reps Hrun] & Hcl) Hev.
  destruct (event_reqs_ok pc ps ev Hcl Hev) as (rs & Hrs & Hrr & Hcl').
  assert (Hwf' : wf_hist (h ++ stamp (p_now ps) rs)).
  { apply wf_hist_app. split; [exact Hwf|apply wf_hist_stamp; exact Hrr]. }
  assert (Hrng' : Forall (fun x => sreq_in_range (snd x)) (h ++ stamp (p_now ps) rs)).
  { apply Forall_app. split; [exact Hrng|apply Forall_stamp; exact Hrr]. }
  destruct (run_hinv (pc_storage pc) (pc_clusters pc) _ HN Hwf') as (st2 & reps2 & Hrun2 & _).
  pose proof Hrun2 as Hrun2'. rewrite run_app, Hrun in Hrun2'.
  destruct (run (pc_storage pc) (p_storage ps) (stamp (p_now ps) rs)) as [[st3 reps3]|] eqn:Erun3; [|discriminate].
  injection Hrun2' as <- <-.
  unfold step_hist. rewrite Hrs.
  destruct ev as [c key value o|c tk e|c g sa|now].
  - unfold pipe_step. rewrite Hrs, Erun3. eexists _, _. split; [reflexivity|].
    split; [exact Hwf'|]. split; [exact Hrng'|]. split; [exists (reps ++ reps3); exact Hrun2|exact Hcl'].
  - unfold pipe_step. rewrite Hrs, Erun3. eexists _, _. split; [reflexivity|].
    split; [exact Hwf'|]. split; [exact Hrng'|]. split; [exists (reps ++ reps3); exact Hrun2|exact Hcl'].
  - cbn [event_reqs] in Hrs. injection Hrs as <-. cbn [stamp map run] in Erun3.
    cbn [pipe_step].
    destruct (step (pc_storage pc) (p_now ps) (p_storage ps) (FetchConsumer c (name g))) as [st4 rep|] eqn:Es; [|discriminate].
    injection Erun3 as <- <-.
    assert (Hans : exists outs, answer pc (p_now ps) c (name g) sa rep = Some outs).
    { unfold answer. destruct rep as [| | | |l]; eauto.
      cbn [step] in Es.
      pose proof (reply_shaped _ _ _ _ _ _ _ _ _ _ HN H24 Hwf Hrun Es) as Hsh.
      destruct (eval_group_total l (pc_minimum pc) (pc_allowed pc) (p_now ps) Hsh) as [gs Hg].
      unfold reply_to_eval. rewrite Hg. eauto. }
    destruct Hans as [outs Hans]. rewrite Hans. eexists _, _. split; [reflexivity|].
    split; [exact Hwf'|]. split; [exact Hrng'|]. split; [exists (reps ++ [rep]); exact Hrun2|exact Hcl].
  - cbn [event_reqs] in Hrs. injection Hrs as <-. cbn [stamp map run] in Erun3. injection Erun3 as <- <-.
    cbn [pipe_step]. eexists _, _. split; [reflexivity|].
    split; [exact Hwf'|]. split; [exact Hrng'|]. split; [exists (reps ++ []); exact Hrun2|exact Hcl].
Qed.

Lemma pipe_exec_inv evs : forall ps h,
  pinv pc ps h -> Forall event_ok evs ->
  exists ps' outs h', pipe_exec name pc ps evs = Some (ps', outs, h') /\ pinv pc ps' (h ++ h').
Proof.
  induction evs as [|ev evs IH]; intros ps h Hinv Hok; cbn [pipe_exec].
  - exists ps, [], []. rewrite app_nil_r. auto.
  - inversion Hok as [|? ? Hev Hevs]; subst.
    destruct (pipe_step_inv ps h ev Hinv Hev) as (ps1 & outs1 & Hs & Hinv1). rewrite Hs.
    destruct (IH ps1 _ Hinv1 Hevs) as (ps2 & outs2 & h2 & He & Hinv2). rewrite He.
    eexists _, _, _. split; [reflexivity|]. rewrite app_assoc. exact Hinv2.
Qed.

(* No sequence of Kafka messages (any bytes), cluster cycles, status requests and clock moves ends the process, and the
   storage history it produces is well-formed in C01's sense: C01 / C02 / C09 apply to everything the ingest side can
   produce. *)
Theorem pipeline_hist_wf now0 evs :
  Forall event_ok evs ->
  exists ps outs h,
    pipe_run name pc now0 evs = Some (ps, outs, h) /\
    wf_hist h /\ Forall (fun x => sreq_in_range (snd x)) h /\
    exists reps, run (pc_storage pc) (init_state (pc_clusters pc)) h = Some (p_storage ps, reps).
Proof.
  intros Hok. destruct (pipe_exec_inv evs (pinit pc now0) [] (pinv_init pc now0) Hok) as (ps & outs & h & He & Hinv).
  cbn [app] in Hinv. destruct Hinv as (H1 & H2 & H3 & _). exists ps, outs, h. auto.
Qed.

(* every FetchConsumer reply of every reachable storage state is storage_shaped (EvalCompleteProofs) ... *)
Theorem storage_reply_shaped now0 evs ps outs h now c g st' l :
  Forall event_ok evs ->
  pipe_run name pc now0 evs = Some (ps, outs, h) ->
  fetch_consumer (pc_storage pc) now (p_storage ps) c g = Done st' (RConsumer l) ->
  Forall storage_shaped (all_parts l).
Proof.
  intros Hok Hrun Hf. destruct (pipeline_hist_wf now0 evs Hok) as (ps0 & outs0 & h0 & Hrun0 & Hwf & _ & [reps Hr]).
  rewrite Hrun in Hrun0. injection Hrun0 as <- <- <-.
  eapply reply_shaped; eauto.
Qed.

(* ... hence evaluating any reachable storage state never crashes, whatever the evaluator's settings and clock *)
Theorem pipeline_eval_total now0 evs ps outs h now c g st' l minimum allowed enow :
  Forall event_ok evs ->
  pipe_run name pc now0 evs = Some (ps, outs, h) ->
  fetch_consumer (pc_storage pc) now (p_storage ps) c g = Done st' (RConsumer l) ->
  exists gs, eval_group (reply_to_eval l) minimum allowed enow = Ok gs.
Proof.
  intros Hok Hrun Hf. apply eval_group_total. eapply storage_reply_shaped; eauto.
Qed.

End Run.
End Glue.
