(* Executable model of the offsets-topic decoder of the Kafka reader.
   Anchors: core/internal/consumer/kafka_client.go
     processConsumerOffsetsMessage   (dispatch on key version)
     readString                      (int16 length, -1 = null, make([]byte, n), buf.Read)
     decodeKeyAndOffset / decodeAndSendOffset / decodeOffsetKeyV0 / decodeOffsetValueV0 / decodeOffsetValueV3
     decodeGroupMetadata / decodeAndSendGroupMetadata / decodeMetadataValueHeader(V2)
     decodeMetadataMember / decodeGroupInstanceID / decodeMemberAssignmentV0

   Bytes are [Z] (the probe supplies 0..255; the decoders are total on any Z).  A bytes.Buffer is
   modelled by the list of bytes not yet read.  Every decoder returns
     DOk value rest allocs | DErr allocs | DCrash why
   where [allocs] lists, in bytes, every data-dependent [make] the Go code performs on the way:
     make([]byte, n)            -> n
     make([]int32, n)           -> 4 * n
     make(map[string][]int32,n) -> map_entry_bytes * n   (nominal 48 bytes per hinted entry)
   and [DCrash] is a Go panic (makeslice: len out of range).

   Two switches select the code before / after the two repairs made for this project:
     bounds = false : readString and decodeMemberAssignmentV0 as in the unrepaired tree (finding F1)
     bounds = true  : every length / count is checked against the bytes remaining before [make] (repair eb5a1a8), and
                      the assignment map is not pre-sized from the wire at all (second repair; the clamp of eb5a1a8,
                      hint = min(numTopics, bytes left / 6), still bought 8 nominal bytes - 12 measured - of map per
                      byte of message for topics that were merely announced: kept below as [make_topics_clamped])
     macc   = false : the group-metadata path never consults the allow/deny lists (finding F2)
     macc   = true  : acceptConsumerGroup is tested right after the group name has been read
   [process_message] (both switches on) is the model of the code in /repo now. *)
From Coq Require Import ZArith List Bool Lia.
From Burrow Require Import Int64.
Import ListNotations.
Open Scope Z_scope.

Definition blen {A} (b : list A) : Z := Z.of_nat (length b).

(* ---------- integers: encoding/binary.Read(buf, BigEndian, &intN) ---------- *)

Fixpoint be_val (acc : Z) (bs : list Z) : Z :=
  match bs with [] => acc | b :: r => be_val (acc * 256 + b) r end.

Definition wrap16 (z : Z) : Z := (z + 32768) mod 65536 - 32768.

(* io.ReadFull: fewer than n bytes left is an error (EOF / ErrUnexpectedEOF); every caller returns on it *)
Definition read_n (n : nat) (b : list Z) : option (Z * list Z) :=
  if (length b <? n)%nat then None else Some (be_val 0 (firstn n b), skipn n b).

Definition read_i16 (b : list Z) : option (Z * list Z) :=
  match read_n 2 b with Some (u, r) => Some (wrap16 u, r) | None => None end.
Definition read_i32 (b : list Z) : option (Z * list Z) :=
  match read_n 4 b with Some (u, r) => Some (wrap32 u, r) | None => None end.
Definition read_i64 (b : list Z) : option (Z * list Z) :=
  match read_n 8 b with Some (u, r) => Some (wrap64 u, r) | None => None end.

(* ---------- decoder results ---------- *)

Inductive why := MakeSliceLen | FuelExhausted.

Inductive dres (A : Type) : Type :=
| DOk (a : A) (rest : list Z) (al : list Z)
| DErr (al : list Z)
| DCrash (w : why).
Arguments DOk {A} a rest al. Arguments DErr {A} al. Arguments DCrash {A} w.

Definition dec (A : Type) : Type := list Z -> dres A.

Definition ret {A} (a : A) : dec A := fun b => DOk a b [].
Definition fail {A} : dec A := fun _ => DErr [].
Definition bind {A B} (m : dec A) (f : A -> dec B) : dec B :=
  fun b => match m b with
           | DOk a r al =>
               match f a r with
               | DOk x r' al' => DOk x r' (al ++ al')
               | DErr al' => DErr (al ++ al')
               | DCrash w => DCrash w
               end
           | DErr al => DErr al
           | DCrash w => DCrash w
           end.
Notation "x <- m ;; f" := (bind m (fun x => f)) (at level 61, m at next level, right associativity).

Definition of_read (rd : list Z -> option (Z * list Z)) : dec Z :=
  fun b => match rd b with Some (x, r) => DOk x r [] | None => DErr [] end.
Definition d_i16 : dec Z := of_read read_i16.
Definition d_i32 : dec Z := of_read read_i32.
Definition d_i64 : dec Z := of_read read_i64.

(* the first n bytes / the rest, n already known to be within 0..length *)
Definition take (n : Z) (b : list Z) : list Z := firstn (Z.to_nat n) b.
Definition drop (n : Z) (b : list Z) : list Z := skipn (Z.to_nat n) b.

(* buf.Next(n) for n > 0: clamps to what is left, never fails *)
Definition next (n : Z) : dec (list Z) :=
  fun b => if blen b <=? n then DOk b [] [] else DOk (take n b) (drop n b) [].
(* if n > 0 { buf.Next(n) } *)
Definition skip_pos (n : Z) : dec unit :=
  fun b => if n >? 0 then match next n b with DOk _ r al => DOk tt r al | DErr al => DErr al | DCrash w => DCrash w end
           else DOk tt b [].

(* readString *)
Definition read_string (bounds : bool) : dec (list Z) :=
  fun b =>
    match read_i16 b with
    | None => DErr []
    | Some (n, r) =>
        if n =? -1 then DOk [] r []
        else if bounds then
          (* repaired: if strlen < 0 || int(strlen) > buf.Len() { return "", errors.New("string underflow") };
             then string(buf.Next(strlen)): one allocation of strlen bytes *)
          if (n <? 0) || (blen r <? n) then DErr []
          else DOk (take n r) (drop n r) [n]
        else
          (* unrepaired: make([]byte, strlen) first *)
          if n <? 0 then DCrash MakeSliceLen
          else if blen r <? n then DErr [n]
          else DOk (take n r) (drop n r) [n]
    end.

(* ---------- storage requests ---------- *)

Inductive request :=
| SetConsumerOffset (group topic : list Z) (partition offset timestamp order : Z)
| SetConsumerOwner (group topic : list Z) (partition : Z) (owner clientid : list Z)
| ClearConsumerOwners (group : list Z)
| DeleteGroup (group : list Z).

Definition req_group (r : request) : list Z :=
  match r with
  | SetConsumerOffset g _ _ _ _ _ => g
  | SetConsumerOwner g _ _ _ _ => g
  | ClearConsumerOwners g => g
  | DeleteGroup g => g
  end.

Inductive outcome := Crash (w : why) | Done (reqs : list request) (allocs : list Z).

(* ---------- offset commits ---------- *)

Definition decode_offset_key (bounds : bool) : dec (list Z * list Z * Z) :=
  g <- read_string bounds ;; t <- read_string bounds ;; p <- d_i32 ;; ret (g, t, p).

Definition decode_offset_value_v0 (bounds : bool) : dec (Z * Z) :=
  off <- d_i64 ;; _ <- read_string bounds ;; ts <- d_i64 ;; ret (off, ts).

Definition decode_offset_value_v3 (bounds : bool) : dec (Z * Z) :=
  off <- d_i64 ;; _ <- d_i32 ;; _ <- read_string bounds ;; ts <- d_i64 ;; ret (off, ts).

Definition send_offset (g t : list Z) (p order : Z) (al : list Z) (r : dres (Z * Z)) : outcome :=
  match r with
  | DCrash w => Crash w
  | DErr al' => Done [] (al ++ al')
  | DOk (off, ts) _ al' => Done [SetConsumerOffset g t p off ts order] (al ++ al')
  end.

Definition decode_key_and_offset (bounds : bool) (accept : list Z -> bool)
           (kr value : list Z) (order : Z) : outcome :=
  match decode_offset_key bounds kr with
  | DCrash w => Crash w
  | DErr al => Done [] al
  | DOk (g, t, p) _ al =>
      if negb (accept g) then Done [] al
      else match value with
           | [] => Done [] al                                  (* tombstone *)
           | _ =>
               match read_i16 value with
               | None => Done [] al
               | Some (vv, vr) =>
                   if (vv =? 0) || (vv =? 1) then send_offset g t p order al (decode_offset_value_v0 bounds vr)
                   else if vv =? 3 then send_offset g t p order al (decode_offset_value_v3 bounds vr)
                   else Done [] al
               end
           end
  end.

(* ---------- group metadata ---------- *)

Fixpoint bytes_eqb (a b : list Z) : bool :=
  match a, b with
  | [], [] => true
  | x :: a', y :: b' => (x =? y) && bytes_eqb a' b'
  | _, _ => false
  end.

(* "consumer" *)
Definition str_consumer : list Z := [99; 111; 110; 115; 117; 109; 101; 114].

(* decodeMetadataValueHeader (v0, v1) / decodeMetadataValueHeaderV2 (v2, v3); only the protocol type is used *)
Definition decode_meta_header (bounds : bool) (vv : Z) : dec (list Z) :=
  pt <- read_string bounds ;; _ <- d_i32 ;; _ <- read_string bounds ;; _ <- read_string bounds ;;
  if vv >=? 2 then (_ <- d_i64 ;; ret pt) else ret pt.

(* member.Assignment : map[string][]int32, as an association list with Go's overwrite-on-equal-key *)
Definition amap := list (list Z * list Z).
Fixpoint amap_set (k : list Z) (v : list Z) (m : amap) : amap :=
  match m with
  | [] => [(k, v)]
  | (k', v') :: r => if bytes_eqb k k' then (k, v) :: r else (k', v') :: amap_set k v r
  end.

Definition map_entry_bytes : Z := 48.

(* for j := 0; j < partitionCount; j++ { binary.Read(&partitionID) } *)
Fixpoint parts_loop (fuel : nat) (count : Z) : dec (list Z) :=
  fun b =>
    if count <=? 0 then DOk [] b []
    else match fuel with
         | O => DCrash FuelExhausted
         | S f => (p <- d_i32 ;; ps <- parts_loop f (count - 1) ;; ret (p :: ps)) b
         end.

(* numPartitions, then topics[topicName] = make([]int32, numPartitions) *)
Definition make_parts (bounds : bool) (np : Z) : dec unit :=
  fun b =>
    if bounds then
      (* repaired: if numPartitions < 0 { error }; if int(numPartitions) > buf.Len()/4 { error } *)
      if (np <? 0) || (blen b / 4 <? np) then DErr [] else DOk tt b [4 * np]
    else
      if np <? 0 then DCrash MakeSliceLen else DOk tt b [4 * np].

(* the slice is allocated, then filled *)
Definition parts_block (bounds : bool) (np : Z) : dec (list Z) :=
  _ <- make_parts bounds np ;; (fun b => parts_loop (S (length b)) np b).

Fixpoint topics_loop (bounds : bool) (fuel : nat) (count : Z) (m : amap) : dec amap :=
  fun b =>
    if count <=? 0 then DOk m b []
    else match fuel with
         | O => DCrash FuelExhausted
         | S f =>
             (name <- read_string bounds ;;
              np <- d_i32 ;;
              ps <- parts_block bounds np ;;
              topics_loop bounds f (count - 1) (amap_set name ps m)) b
         end.

(* numTopics, then the map *)
Definition make_topics (bounds : bool) (nt : Z) : dec unit :=
  fun b =>
    if bounds then
      (* repaired: if numTopics < -1 { error }; topics = make(map[string][]int32) - no size hint: the map grows as
         topics are actually decoded *)
      if nt <? -1 then DErr [] else DOk tt b []
    else
      (* unrepaired: make(map[string][]int32, numTopics); a negative hint is ignored by the runtime *)
      if nt <? 0 then DOk tt b [] else DOk tt b [map_entry_bytes * nt].

(* the intermediate state of the code (after eb5a1a8, before the second repair): the hint was clamped by what the
   remaining bytes could hold, min(numTopics, buf.Len()/6), at least 0.  Documentation only. *)
Definition make_topics_clamped (nt : Z) : dec unit :=
  fun b => if nt <? -1 then DErr [] else DOk tt b [map_entry_bytes * Z.max 0 (Z.min nt (blen b / 6))].

(* decodeMemberAssignmentV0 *)
Definition decode_assignment (bounds : bool) : dec amap :=
  nt <- d_i32 ;;
  _ <- make_topics bounds nt ;;
  m <- (fun b => topics_loop bounds (S (length b)) nt [] b) ;;
  ud <- d_i32 ;;
  _ <- skip_pos ud ;;
  ret m.

Definition decode_assignment_clamped : dec amap :=
  nt <- d_i32 ;;
  _ <- make_topics_clamped nt ;;
  m <- (fun b => topics_loop true (S (length b)) nt [] b) ;;
  ud <- d_i32 ;;
  _ <- skip_pos ud ;;
  ret m.

(* the assignment bytes are cut out with buf.Next and decoded from their own buffer *)
Definition decode_assignment_bytes (bounds : bool) (ab : Z) : dec amap :=
  fun b =>
    match next ab b with
    | DOk adata rest _ =>
        match (ver <- d_i16 ;; if ver <? 0 then fail else decode_assignment bounds) adata with
        | DOk m _ al => DOk m rest al
        | DErr al => DErr al
        | DCrash w => DCrash w
        end
    | DErr al => DErr al
    | DCrash w => DCrash w
    end.

Record member := mkMember { m_client_id : list Z; m_client_host : list Z; m_assignment : amap }.

(* decodeMetadataMember *)
Definition decode_member (bounds : bool) (vv : Z) : dec member :=
  _ <- read_string bounds ;;                                             (* member id *)
  _ <- (if vv =? 3 then read_string bounds else ret []) ;;               (* group instance id *)
  cid <- read_string bounds ;;
  host <- read_string bounds ;;
  _ <- (if vv >=? 1 then d_i32 else ret 0) ;;                            (* rebalance timeout *)
  _ <- d_i32 ;;                                                          (* session timeout *)
  sb <- d_i32 ;;
  _ <- skip_pos sb ;;
  ab <- d_i32 ;;
  asg <- (if ab >? 0 then decode_assignment_bytes bounds ab else ret []) ;;
  ret (mkMember cid host asg).

Definition member_requests (g : list Z) (m : member) : list request :=
  flat_map (fun tp => map (fun p => SetConsumerOwner g (fst tp) p (m_client_host m) (m_client_id m)) (snd tp))
           (m_assignment m).

(* for i := 0; i < count; i++ : requests of the members decoded so far stay sent when a later member fails *)
Fixpoint members_loop (bounds : bool) (vv : Z) (g : list Z) (fuel : nat) (count : Z) (b : list Z) : outcome :=
  if count <=? 0 then Done [] []
  else match fuel with
       | O => Crash FuelExhausted
       | S f =>
           match decode_member bounds vv b with
           | DCrash w => Crash w
           | DErr al => Done [] al
           | DOk m r al =>
               match members_loop bounds vv g f (count - 1) r with
               | Crash w => Crash w
               | Done rs al' => Done (member_requests g m ++ rs) (al ++ al')
               end
           end
       end.

Definition add_allocs (al : list Z) (o : outcome) : outcome :=
  match o with Crash w => Crash w | Done rs al' => Done rs (al ++ al') end.

(* decodeAndSendGroupMetadata *)
Definition decode_and_send_metadata (bounds : bool) (vv : Z) (g vr : list Z) : outcome :=
  match decode_meta_header bounds vv vr with
  | DCrash w => Crash w
  | DErr al => Done [] al
  | DOk pt r al =>
      if negb (bytes_eqb pt str_consumer) then Done [] al
      else match read_i32 r with
           | None => Done [] al
           | Some (mc, r') =>
               if mc =? 0 then Done [ClearConsumerOwners g] al
               else add_allocs al (members_loop bounds vv g (S (length r')) mc r')
           end
  end.

(* decodeGroupMetadata *)
Definition decode_group_metadata (bounds macc : bool) (accept : list Z -> bool)
           (kr value : list Z) : outcome :=
  match read_string bounds kr with
  | DCrash w => Crash w
  | DErr al => Done [] al
  | DOk g _ al =>
      if macc && negb (accept g) then Done [] al
      else match value with
           | [] => Done [DeleteGroup g] al                       (* tombstone: group deleted *)
           | _ =>
               match read_i16 value with
               | None => Done [] al
               | Some (vv, vr) =>
                   if (0 <=? vv) && (vv <=? 3) then add_allocs al (decode_and_send_metadata bounds vv g vr)
                   else Done [] al
               end
           end
  end.

(* processConsumerOffsetsMessage *)
Definition process_message_gen (bounds macc : bool) (accept : list Z -> bool)
           (key value : list Z) (order : Z) : outcome :=
  match read_i16 key with
  | None => Done [] []
  | Some (kv, kr) =>
      if (kv =? 0) || (kv =? 1) then decode_key_and_offset bounds accept kr value order
      else if kv =? 2 then decode_group_metadata bounds macc accept kr value
      else Done [] []
  end.

(* the code in /repo now *)
Definition process_message := process_message_gen true true.
(* the tree before the repairs (findings F1, F2); kept for the _refuted witnesses *)
Definition process_message_unrepaired := process_message_gen false false.

(* the group a message is about, as far as the key decodes *)
Definition msg_group (key : list Z) : option (list Z) :=
  match read_i16 key with
  | None => None
  | Some (kv, kr) =>
      if (kv =? 0) || (kv =? 1) then
        match decode_offset_key true kr with DOk (g, _, _) _ _ => Some g | _ => None end
      else if kv =? 2 then
        match read_string true kr with DOk g _ _ => Some g | _ => None end
      else None
  end.

Fixpoint sumz (l : list Z) : Z := match l with [] => 0 | x :: r => x + sumz r end.

(* acceptConsumerGroup, from what the two regular expressions answer for the group:
   a_set / d_set = the allowlist / denylist is configured, i.e. Configure found a NON-EMPTY pattern text under
   group-allowlist / group-denylist and compiled it (module.groupAllowlist / groupDenylist is not nil).  A key that is
   absent and a key that is present with the empty string (config/burrow.toml ships group-allowlist="") both mean
   "no list": a_set / d_set = false.  a_m / d_m = the compiled pattern matches the group. *)
Definition reader_accept (a_set a_m d_set d_m : bool) : bool := (negb a_set || a_m) && negb (d_set && d_m).

(* ---------- where a request goes ---------- *)

(* The module: its own name (the first argument of Configure; also the label of its Prometheus metrics) and the cluster
   it reads the offsets topic for (viper consumer.<name>.cluster -> module.cluster).  The two are different strings in
   general.  Every StorageRequest the reader builds names module.cluster in its Cluster field. *)
Record reader_cfg := mkReaderCfg { rc_name : list Z; rc_cluster : list Z }.

(* a request as it is sent: (StorageRequest.Cluster, the rest) *)
Definition addressed : Type := (list Z * request)%type.
Inductive outcome_for := CrashFor (w : why) | DoneFor (reqs : list addressed) (allocs : list Z).

Definition address (cfg : reader_cfg) (o : outcome) : outcome_for :=
  match o with
  | Crash w => CrashFor w
  | Done rs al => DoneFor (map (fun r => (rc_cluster cfg, r)) rs) al
  end.

(* processConsumerOffsetsMessage of the module configured as cfg *)
Definition process_message_for (cfg : reader_cfg) (accept : list Z -> bool) (key value : list Z) (order : Z) : outcome_for :=
  address cfg (process_message accept key value order).
