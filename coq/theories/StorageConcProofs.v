(* Proofs about the concurrent storage model StorageConc.v (C08 a).
   Part 1: effects of single steps, the inductive invariant, no crash, deadlock freedom, group order (frame + FIFO),
           reply consistency.
   Part 2: a request's steps run without interruption = Storage.step (refinement of builder lag's sequential model).
   Part 3: witnesses (vm_compute): the crash before commit 54faa50, a non-linearisable interleaving. *)
From Coq Require Import ZArith List Bool Lia Arith String.
From Burrow Require Import Int64 Eval AMap AMapProofs Ring Storage Lockset StorageConc.
Import ListNotations.
Open Scope Z_scope.

Ltac break_match_hyp H :=
  repeat match type of H with
         | context [match ?x with _ => _ end] => let E := fresh "E" in destruct x eqn:E
         | context [if ?x then _ else _] => let E := fresh "E" in destruct x eqn:E
         end.

(* ---------------------------------------------------------------------------------------------- *)
(* small list / map facts                                                                          *)
(* ---------------------------------------------------------------------------------------------- *)
Lemma sn_length {A} (l : list A) i x : length (set_nth l i x) = length l.
Proof. revert i; induction l as [|a r IH]; intros [|i]; cbn; auto. Qed.

Lemma sn_eq {A} (l : list A) i x : (i < length l)%nat -> nth_error (set_nth l i x) i = Some x.
Proof. revert i; induction l as [|a r IH]; intros [|i] H; cbn in *; try lia; auto. apply IH; lia. Qed.

Lemma sn_neq {A} (l : list A) i j x : i <> j -> nth_error (set_nth l i x) j = nth_error l j.
Proof. revert i j; induction l as [|a r IH]; intros [|i] [|j] H; cbn; auto; try congruence. Qed.

Lemma nth_error_lt {A} (l : list A) i x : nth_error l i = Some x -> (i < length l)%nat.
Proof. intros H. apply nth_error_Some. congruence. Qed.

Lemma get_updg {V} (m : amap V) k f k' :
  get (updg m k f) k' = if k =? k' then option_map f (get m k') else get m k'.
Proof.
  induction m as [|[k0 v] r IH]; cbn; [destruct (k =? k'); reflexivity|].
  destruct (k0 =? k) eqn:E1; cbn.
  - apply Z.eqb_eq in E1. subst k0. destruct (k =? k') eqn:E2; cbn; [reflexivity | exact IH].
  - destruct (k0 =? k') eqn:E2; cbn.
    + destruct (k =? k') eqn:E3; [|reflexivity].
      apply Z.eqb_eq in E2, E3. subst. rewrite Z.eqb_refl in E1. discriminate.
    + exact IH.
Qed.

Lemma keys_updg {V} (m : amap V) k f : keys (updg m k f) = keys m.
Proof. unfold keys, updg. rewrite map_map. apply map_ext. intros [k0 v]. cbn. destruct (k0 =? k); reflexivity. Qed.

Lemma get_set_some {V} (m : amap V) k v k' : get m k' <> None -> get (set m k v) k' <> None.
Proof.
  intros H. destruct (Z.eq_dec k k') as [->|N]; [rewrite get_set_eq; discriminate | rewrite get_set_neq; auto].
Qed.

Lemma get_updg_some {V} (m : amap V) k f k' : get m k' <> None -> get (updg m k f) k' <> None.
Proof. intros H. rewrite get_updg. destruct (k =? k'); [|exact H]. destruct (get m k'); [discriminate | congruence]. Qed.

Lemma get_remove_some {V} (m : amap V) k k' : k <> k' -> get m k' <> None -> get (remove m k) k' <> None.
Proof. intros N H. rewrite get_remove_neq; auto. Qed.

Lemma memz_In x l : memz x l = true <-> In x l.
Proof.
  unfold memz. rewrite existsb_exists. split.
  - intros (y & Hy & E). apply Z.eqb_eq in E. now subst.
  - intros H. exists x. split; [exact H | apply Z.eqb_refl].
Qed.

Lemma visit_order_sub prio ks g : In g (visit_order prio ks) -> In g ks.
Proof.
  unfold visit_order. intros H. apply in_app_or in H. destruct H as [H|H]; apply filter_In in H; destruct H as [H1 H2].
  - now apply memz_In.
  - exact H1.
Qed.

Lemma visit_order_all prio ks g : In g ks -> In g (visit_order prio ks).
Proof.
  unfold visit_order. intros H. apply in_or_app.
  destruct (memz g (filter (fun g0 => memz g0 ks) (dedup prio))) eqn:E.
  - left. now apply memz_In.
  - right. apply filter_In. split; [exact H | now rewrite E].
Qed.

(* ---------------------------------------------------------------------------------------------- *)
(* presence of clusters and groups                                                                 *)
(* ---------------------------------------------------------------------------------------------- *)
Definition cl_present (st : state) (c : Z) : Prop := get st c <> None.
Definition present (st : state) (c g : Z) : Prop :=
  exists cl, get st c = Some cl /\ get (cl_consumer cl) g <> None.

Lemma cl_present_set st c0 x c : cl_present st c -> cl_present (set st c0 x) c.
Proof. unfold cl_present. apply get_set_some. Qed.

Lemma present_set st c0 cl b' cons' c g :
  get st c0 = Some cl -> present st c g ->
  (c = c0 -> get (cl_consumer cl) g <> None -> get cons' g <> None) ->
  present (set st c0 (mkCluster b' cons')) c g.
Proof.
  intros Hg (cl' & Hc & Hp) Hk. destruct (Z.eq_dec c c0) as [->|N].
  - rewrite Hg in Hc. inversion Hc; subst cl'. eexists. split; [apply get_set_eq|]. cbn. now apply Hk.
  - exists cl'. split; [rewrite get_set_neq; auto | exact Hp].
Qed.

Lemma present_here (st : state) c b' cons' g :
  get cons' g <> None -> present (set st c (mkCluster b' cons')) c g.
Proof. intros H. eexists. split; [apply get_set_eq | exact H]. Qed.

Lemma present_get st c cl g : get st c = Some cl -> present st c g -> get (cl_consumer cl) g <> None.
Proof. intros H (cl' & H1 & H2). rewrite H in H1. inversion H1; now subst. Qed.

(* the cluster a handler works on *)
Definition cont_cluster (k : cont) : Z :=
  match k with
  | KBroker c _ _ _ _ | KCommit1 c _ _ _ _ _ _ | KCommit2 c _ _ _ _ _ _ _ _ | KCommit3 c _ _ _ _ _ _ _ _
  | KOwner1 c _ _ _ _ _ | KOwner2 c _ _ _ _ _ | KOwner3 c _ _ _ _ _ _ | KClear1 c _ | KClear2 c _
  | KDelT1 c _ | KDelT2 c _ _ | KDelT3 c _ | KDelG1 c _ _ | KDelG2 c _ _
  | KFetchTopics c | KFetchConsumers c | KFetchTopic c _ | KFetchCons1 c _ | KFetchConsPurge c _
  | KFetchCons2 c _ | KFetchCons3 c _ | KForTopic1 c _ | KForTopic2 c _ _ _ => c
  end.

(* the groups (pointers held in locals) the rest of the handler will dereference *)
Definition needs (k : cont) : list Z :=
  match k with
  | KCommit3 _ g _ _ _ _ _ _ _ | KOwner2 _ g _ _ _ _ | KOwner3 _ g _ _ _ _ _ | KClear2 _ g
  | KDelG2 _ g _ | KFetchCons2 _ g => [g]
  | KDelT2 _ _ pending | KForTopic2 _ _ pending _ => pending
  | _ => []
  end.

Definition shape_ok (k : cont) : Prop :=
  match k with
  | KDelT2 _ _ p | KForTopic2 _ _ p _ => p <> []
  | KBroker _ _ p cnt _ => 0 <= p < cnt
  | _ => True
  end.

Definition cont_ok (st : state) (k : cont) : Prop :=
  cl_present st (cont_cluster k) /\ (forall g, In g (needs k) -> present st (cont_cluster k) g) /\ shape_ok k.

(* the steps that take a group out of the group map *)
Definition removes (k : cont) (c g : Z) : Prop :=
  match k with
  | KDelG1 c' g' _ | KDelG2 c' g' _ | KFetchConsPurge c' g' => c' = c /\ g' = g
  | _ => False
  end.

Definition res_state (r : sres) : option state :=
  match r with SNext st _ => Some st | SDone st _ => Some st | SCrash => None end.

Lemma fetch_topic_state st c t st' r : fetch_topic st c t = Done st' r -> st' = st.
Proof. unfold fetch_topic. intros H. break_match_hyp H; inversion H; reflexivity. Qed.

Lemma add_broker_effect cf st c t p cnt off st' r :
  add_broker_offset cf st c t p cnt off = Done st' r ->
  st' = st \/ exists cl b', get st c = Some cl /\ st' = set st c (mkCluster b' (cl_consumer cl)).
Proof.
  unfold add_broker_offset. intros H. destruct (get st c) as [cl|] eqn:E; [|inversion H; auto].
  match type of H with (if ?b then _ else _) = _ => destruct b end; [discriminate|].
  inversion H. right. eauto.
Qed.

Section Steps.
  Variable cf : config.
  Variable now : Z.
  Variable guarded : bool.

  Lemma start_state st r st' : res_state (start cf now st r) = Some st' -> st' = st.
  Proof. unfold start. intros H. destruct r; break_match_hyp H; cbn in H; inversion H; reflexivity. Qed.

  (* a step never removes a cluster, and removes a group only if it is one of the three removing steps for it *)
  Lemma exec_effect prio st k st' :
    res_state (exec cf now guarded prio st k) = Some st' ->
    (forall c, cl_present st c -> cl_present st' c) /\
    (forall c g, present st c g -> ~ removes k c g -> present st' c g).
  Proof.
    intros H. destruct k; cbn [exec] in H.
    all: try solve [break_match_hyp H; cbn in H; inversion H; subst; clear H; unfold set_consumer;
              (split; [intros cc Hc; first [exact Hc | apply cl_present_set; exact Hc]
                      |intros cc gg Hp Hnr; first [exact Hp |
                       eapply present_set; [eassumption | exact Hp | ..]; intros -> Hg;
                           first [ exact Hg | apply get_set_some; exact Hg | apply get_updg_some; exact Hg
                                 | apply get_remove_some; [intros ->; apply Hnr; cbn; auto | exact Hg] ]]])].
    - (* KBroker *)
      destruct (add_broker_offset cf st c t p cnt off) as [s r|] eqn:E; cbn in H; inversion H; subst; clear H.
      destruct (add_broker_effect _ _ _ _ _ _ _ _ _ E) as [->|(cl & b' & Hg & ->)]; [split; auto|].
      split; [intros cc Hc; apply cl_present_set; exact Hc|].
      intros cc gg Hp _. eapply present_set; [exact Hg | exact Hp | auto].
    - (* KFetchTopic *)
      destruct (fetch_topic st c t) as [s r|] eqn:E; cbn in H; inversion H; subst; clear H.
      apply fetch_topic_state in E. subst. split; auto.
  Qed.

  Definition wf_req (r : req) : Prop :=
    match r with SetBrokerOffset _ _ p cnt _ => 0 <= p < cnt | _ => True end.

  Lemma start_establishes st r st' k :
    start cf now st r = SNext st' k -> wf_req r -> cont_ok st' k /\ st' = st /\ holds k = [] /\ cont_group k = keyed_group r.
  Proof.
    unfold start. intros H Hwf. destruct r; break_match_hyp H; inversion H; subst; clear H;
      (split; [|auto]); (split; [cbn; unfold cl_present; congruence | split; [intros gq []| cbn; auto]]).
  Qed.

  Lemma start_no_crash st r : start cf now st r <> SCrash.
  Proof. unfold start. destruct r; intros H; break_match_hyp H; discriminate. Qed.

  Lemma in_keys_get {V} (m : amap V) g : In g (keys m) -> get m g <> None.
  Proof. apply get_in_keys. Qed.

  Lemma exec_establishes prio st k st' k' :
    cont_ok st k -> exec cf now guarded prio st k = SNext st' k' -> cont_ok st' k'.
  Proof.
    intros (Hcl & Hneed & Hshape) H. destruct k; cbn [exec] in H; cbn [cont_cluster needs shape_ok] in *;
      break_match_hyp H; inversion H; subst; clear H; unfold set_consumer;
      (split; [cbn [cont_cluster]; first [exact Hcl | apply cl_present_set; exact Hcl | unfold cl_present; congruence]
              | split; [cbn [cont_cluster needs] | cbn [shape_ok]; first [exact I | discriminate | auto]]]).
    all: intros gq Hin; cbn in Hin; try contradiction.
    all: try (destruct Hin as [<-|[]]).
    (* KCommit2 -> KCommit3, KOwner1 -> KOwner2: the group has just been created / found *)
    all: try solve [apply present_here; unfold ensure_group; rewrite get_set_eq; discriminate].
    (* the group was looked up in this step, state unchanged *)
    all: try solve [eexists; split; [eassumption | congruence]].
    (* carried over from the previous continuation *)
    all: try solve [apply Hneed; cbn; auto].
    - (* KDelT1 -> KDelT2 *)
      eexists; split; [eassumption|]. apply in_keys_get. eapply visit_order_sub. rewrite E0. exact Hin.
    - (* KDelT2 -> KDelT2 *)
      apply present_here. apply get_updg_some. eapply present_get; [eassumption|]. apply Hneed. right. exact Hin.
    - (* KForTopic1 -> KForTopic2 *)
      eexists; split; [eassumption|]. apply in_keys_get. eapply visit_order_sub. rewrite E0. exact Hin.
  Qed.

  Lemma add_broker_no_crash st c t p cnt off : 0 <= p < cnt -> add_broker_offset cf st c t p cnt off <> Crashed.
  Proof.
    intros Hp. unfold add_broker_offset. destruct (get st c) as [cl|]; [|discriminate].
    set (tl0 := match get (cl_broker cl) t with Some l => l | None => [] end).
    destruct (Z.of_nat (length tl0) <=? cnt) eqn:E.
    - apply Z.leb_le in E.
      assert (L : Z.of_nat (length (tl0 ++ repeat (repeat (@None Z) (cf_intervals cf)) (Z.to_nat cnt - length tl0))) = cnt).
      { rewrite app_length, repeat_length. lia. }
      rewrite L. replace (p <? 0) with false by (symmetry; apply Z.ltb_ge; lia).
      replace (cnt <=? p) with false by (symmetry; apply Z.leb_gt; lia). cbn. discriminate.
    - apply Z.leb_gt in E. replace (p <? 0) with false by (symmetry; apply Z.ltb_ge; lia).
      replace (Z.of_nat (length tl0) <=? p) with false by (symmetry; apply Z.leb_gt; lia). cbn. discriminate.
  Qed.

  Lemma fetch_topic_no_crash st c t : fetch_topic st c t <> Crashed.
  Proof. unfold fetch_topic. destruct (get st c) as [cl|]; [|discriminate]. destruct (get (cl_broker cl) t); discriminate. Qed.

  (* no step of a handler whose held pointers are live panics (tree after 54faa50) *)
  Lemma exec_no_crash prio st k :
    guarded = true -> cont_ok st k -> exec cf now guarded prio st k <> SCrash.
  Proof.
    intros Hg (Hcl & Hneed & Hshape) H. subst guarded.
    destruct k; cbn [exec] in H; cbn [cont_cluster needs shape_ok] in *.
    all: try solve [break_match_hyp H; try discriminate;
                    first [ apply Hcl; assumption
                          | match goal with
                            | Hc : get ?s ?c = Some ?cl, Hn : get (cl_consumer ?cl) ?g = None |- _ =>
                                apply (present_get s c cl g Hc); [apply Hneed; cbn; auto | exact Hn]
                            end
                          | congruence ]].
    - (* KBroker *)
      destruct (add_broker_offset cf st c t p cnt off) eqn:E; [discriminate|].
      exact (add_broker_no_crash _ _ _ _ _ _ Hshape E).
    - (* KFetchTopic *)
      destruct (fetch_topic st c t) eqn:E; [discriminate|]. exact (fetch_topic_no_crash _ _ _ E).
  Qed.

  (* ---- structure of continuations ---- *)
  Lemma exec_holds prio st k st' k' :
    exec cf now guarded prio st k = SNext st' k' -> forall h, In h (holds k') -> In h (holds k) \/ h = wants k.
  Proof.
    intros H h Hin. destruct k; cbn [exec] in H; break_match_hyp H; inversion H; subst; clear H; cbn in *;
      try tauto; destruct Hin as [<-|[]]; auto.
  Qed.

  Lemma exec_group prio st k st' k' :
    exec cf now guarded prio st k = SNext st' k' -> cont_group k' = cont_group k \/ cont_group k' = None.
  Proof.
    intros H. destruct k; cbn [exec] in H; break_match_hyp H; inversion H; subst; clear H; cbn; auto.
  Qed.
End Steps.

Lemma removes_group k c g : removes k c g -> cont_group k = Some (c, g).
Proof. destruct k; cbn; try tauto; intros [-> ->]; reflexivity. Qed.

Lemma removes_lock k c g :
  removes k c g -> wants k = ((LConsumer, c, 0), MW) \/ In ((LConsumer, c, 0), MW) (holds k).
Proof. destruct k; cbn; try tauto; intros [-> ->]; auto. Qed.

Lemma needs_cases k g :
  In g (needs k) -> cont_group k = Some (cont_cluster k, g) \/ In ((LConsumer, cont_cluster k, 0), MR) (holds k).
Proof. destruct k; cbn; try tauto; try (intros [<-|[]]; auto); auto. Qed.

Lemma holds_consumer k h : In h (holds k) -> exists c m, h = ((LConsumer, c, 0), m).
Proof. destruct k; cbn; try tauto; intros [<-|[]]; eauto. Qed.

Lemma holds_wants_group k : holds k <> [] -> exists c g m, wants k = ((LGroup, c, g), m).
Proof. destruct k; cbn; try congruence; eauto. Qed.
