(* Proofs about the concurrent storage model StorageConc.v (C08 a).
   Part 1: effects of single steps, the inductive invariant, no crash, deadlock freedom, group order (frame + FIFO),
           reply consistency.
   Part 2: a request's steps run without interruption = Storage.step (refinement of builder lag's sequential model).
   Part 3: witnesses (vm_compute): the crash before commit 54faa50, a non-linearisable interleaving. *)
From Coq Require Import ZArith List Bool Lia Arith String.
From Burrow Require Import Int64 Eval AMap AMapProofs Ring Storage Lockset StorageConc.
Import ListNotations.
Open Scope Z_scope.

Ltac break_match_hyp H :=
  repeat match type of H with
         | context [match ?x with _ => _ end] => let E := fresh "E" in destruct x eqn:E
         | context [if ?x then _ else _] => let E := fresh "E" in destruct x eqn:E
         end.

(* ---------------------------------------------------------------------------------------------- *)
(* small list / map facts                                                                          *)
(* ---------------------------------------------------------------------------------------------- *)
Lemma sn_length {A} (l : list A) i x : length (set_nth l i x) = length l.
Proof. revert i; induction l as [|a r IH]; intros [|i]; cbn; auto. Qed.

Lemma sn_eq {A} (l : list A) i x : (i < length l)%nat -> nth_error (set_nth l i x) i = Some x.
Proof. revert i; induction l as [|a r IH]; intros [|i] H; cbn in *; try lia; auto. apply IH; lia. Qed.

Lemma sn_neq {A} (l : list A) i j x : i <> j -> nth_error (set_nth l i x) j = nth_error l j.
Proof. revert i j; induction l as [|a r IH]; intros [|i] [|j] H; cbn; auto; try congruence. Qed.

Lemma nth_error_lt {A} (l : list A) i x : nth_error l i = Some x -> (i < length l)%nat.
Proof. intros H. apply nth_error_Some. congruence. Qed.

Lemma get_updg {V} (m : amap V) k f k' :
  get (updg m k f) k' = if k =? k' then option_map f (get m k') else get m k'.
Proof.
  induction m as [|[k0 v] r IH]; cbn; [destruct (k =? k'); reflexivity|].
  destruct (k0 =? k) eqn:E1; cbn.
  - apply Z.eqb_eq in E1. subst k0. destruct (k =? k') eqn:E2; cbn; [reflexivity | exact IH].
  - destruct (k0 =? k') eqn:E2; cbn.
    + destruct (k =? k') eqn:E3; [|reflexivity].
      apply Z.eqb_eq in E2, E3. subst. rewrite Z.eqb_refl in E1. discriminate.
    + exact IH.
Qed.

Lemma keys_updg {V} (m : amap V) k f : keys (updg m k f) = keys m.
Proof. unfold keys, updg. rewrite map_map. apply map_ext. intros [k0 v]. cbn. destruct (k0 =? k); reflexivity. Qed.

Lemma get_set_some {V} (m : amap V) k v k' : get m k' <> None -> get (set m k v) k' <> None.
Proof.
  intros H. destruct (Z.eq_dec k k') as [->|N]; [rewrite get_set_eq; discriminate | rewrite get_set_neq; auto].
Qed.

Lemma get_updg_some {V} (m : amap V) k f k' : get m k' <> None -> get (updg m k f) k' <> None.
Proof. intros H. rewrite get_updg. destruct (k =? k'); [|exact H]. destruct (get m k'); [discriminate | congruence]. Qed.

Lemma get_remove_some {V} (m : amap V) k k' : k <> k' -> get m k' <> None -> get (remove m k) k' <> None.
Proof. intros N H. rewrite get_remove_neq; auto. Qed.

Lemma memz_In x l : memz x l = true <-> In x l.
Proof.
  unfold memz. rewrite existsb_exists. split.
  - intros (y & Hy & E). apply Z.eqb_eq in E. now subst.
  - intros H. exists x. split; [exact H | apply Z.eqb_refl].
Qed.

Lemma visit_order_sub prio ks g : In g (visit_order prio ks) -> In g ks.
Proof.
  unfold visit_order. intros H. apply in_app_or in H. destruct H as [H|H]; apply filter_In in H; destruct H as [H1 H2].
  - now apply memz_In.
  - exact H1.
Qed.

Lemma visit_order_all prio ks g : In g ks -> In g (visit_order prio ks).
Proof.
  unfold visit_order. intros H. apply in_or_app.
  destruct (memz g (filter (fun g0 => memz g0 ks) (dedup prio))) eqn:E.
  - left. now apply memz_In.
  - right. apply filter_In. split; [exact H | now rewrite E].
Qed.

(* ---------------------------------------------------------------------------------------------- *)
(* presence of clusters and groups                                                                 *)
(* ---------------------------------------------------------------------------------------------- *)
Definition cl_present (st : state) (c : Z) : Prop := get st c <> None.
Definition present (st : state) (c g : Z) : Prop :=
  exists cl, get st c = Some cl /\ get (cl_consumer cl) g <> None.

Lemma cl_present_set st c0 x c : cl_present st c -> cl_present (set st c0 x) c.
Proof. unfold cl_present. apply get_set_some. Qed.

Lemma present_set st c0 cl b' cons' c g :
  get st c0 = Some cl -> present st c g ->
  (c = c0 -> get (cl_consumer cl) g <> None -> get cons' g <> None) ->
  present (set st c0 (mkCluster b' cons')) c g.
Proof.
  intros Hg (cl' & Hc & Hp) Hk. destruct (Z.eq_dec c c0) as [->|N].
  - rewrite Hg in Hc. inversion Hc; subst cl'. eexists. split; [apply get_set_eq|]. cbn. now apply Hk.
  - exists cl'. split; [rewrite get_set_neq; auto | exact Hp].
Qed.

Lemma present_here (st : state) c b' cons' g :
  get cons' g <> None -> present (set st c (mkCluster b' cons')) c g.
Proof. intros H. eexists. split; [apply get_set_eq | exact H]. Qed.

Lemma present_get st c cl g : get st c = Some cl -> present st c g -> get (cl_consumer cl) g <> None.
Proof. intros H (cl' & H1 & H2). rewrite H in H1. inversion H1; now subst. Qed.

(* the cluster a handler works on *)
Definition cont_cluster (k : cont) : Z :=
  match k with
  | KBroker c _ _ _ _ | KCommit1 c _ _ _ _ _ _ | KCommit2 c _ _ _ _ _ _ _ _ | KCommit3 c _ _ _ _ _ _ _ _
  | KOwner1 c _ _ _ _ _ | KOwner2 c _ _ _ _ _ | KOwner3 c _ _ _ _ _ _ | KClear1 c _ | KClear2 c _
  | KDelT1 c _ | KDelT2 c _ _ | KDelT3 c _ | KDelG1 c _ _ | KDelG2 c _ _
  | KFetchTopics c | KFetchConsumers c | KFetchTopic c _ | KFetchCons1 c _ | KFetchConsPurge c _
  | KFetchCons2 c _ | KFetchCons3 c _ | KForTopic1 c _ | KForTopic2 c _ _ _ => c
  end.

(* the groups (pointers held in locals) the rest of the handler will dereference *)
Definition needs (k : cont) : list Z :=
  match k with
  | KCommit3 _ g _ _ _ _ _ _ _ | KOwner2 _ g _ _ _ _ | KOwner3 _ g _ _ _ _ _ | KClear2 _ g
  | KDelG2 _ g _ | KFetchCons2 _ g => [g]
  | KDelT2 _ _ pending | KForTopic2 _ _ pending _ => pending
  | _ => []
  end.

Definition shape_ok (k : cont) : Prop :=
  match k with
  | KDelT2 _ _ p | KForTopic2 _ _ p _ => p <> []
  | KBroker _ _ p cnt _ => 0 <= p < cnt
  | _ => True
  end.

Definition cont_ok (st : state) (k : cont) : Prop :=
  cl_present st (cont_cluster k) /\ (forall g, In g (needs k) -> present st (cont_cluster k) g) /\ shape_ok k.

(* the steps that take a group out of the group map *)
Definition removes (k : cont) (c g : Z) : Prop :=
  match k with
  | KDelG1 c' g' _ | KDelG2 c' g' _ | KFetchConsPurge c' g' => c' = c /\ g' = g
  | _ => False
  end.

Definition res_state (r : sres) : option state :=
  match r with SNext st _ => Some st | SDone st _ => Some st | SCrash => None end.

Lemma fetch_topic_state st c t st' r : fetch_topic st c t = Done st' r -> st' = st.
Proof. unfold fetch_topic. intros H. break_match_hyp H; inversion H; reflexivity. Qed.

Lemma add_broker_effect cf st c t p cnt off st' r :
  add_broker_offset cf st c t p cnt off = Done st' r ->
  st' = st \/ exists cl b', get st c = Some cl /\ st' = set st c (mkCluster b' (cl_consumer cl)).
Proof.
  unfold add_broker_offset. intros H. destruct (get st c) as [cl|] eqn:E; [|inversion H; auto].
  match type of H with (if ?b then _ else _) = _ => destruct b end; [discriminate|].
  inversion H. right. eauto.
Qed.

Section Steps.
  Variable cf : config.
  Variable now : Z.
  Variable guarded : bool.

  Lemma start_state st r st' : res_state (start cf now st r) = Some st' -> st' = st.
  Proof. unfold start. intros H. destruct r; break_match_hyp H; cbn in H; inversion H; reflexivity. Qed.

  (* a step never removes a cluster, and removes a group only if it is one of the three removing steps for it *)
  Lemma exec_effect prio st k st' :
    res_state (exec cf now guarded prio st k) = Some st' ->
    (forall c, cl_present st c -> cl_present st' c) /\
    (forall c g, present st c g -> ~ removes k c g -> present st' c g).
  Proof.
    intros H. destruct k; cbn [exec] in H.
    all: try solve [break_match_hyp H; cbn in H; inversion H; subst; clear H; unfold set_consumer;
              (split; [intros cc Hc; first [exact Hc | apply cl_present_set; exact Hc]
                      |intros cc gg Hp Hnr; first [exact Hp |
                       eapply present_set; [eassumption | exact Hp | ..]; intros -> Hg;
                           first [ exact Hg | apply get_set_some; exact Hg | apply get_updg_some; exact Hg
                                 | apply get_remove_some; [intros ->; apply Hnr; cbn; auto | exact Hg] ]]])].
    - (* KBroker *)
      destruct (Nat.eqb (cf_intervals cf) O); [cbn in H; discriminate|].
      destruct (add_broker_offset cf st c t p cnt off) as [s r|] eqn:E; cbn in H; inversion H; subst; clear H.
      destruct (add_broker_effect _ _ _ _ _ _ _ _ _ E) as [->|(cl & b' & Hg & ->)]; [split; auto|].
      split; [intros cc Hc; apply cl_present_set; exact Hc|].
      intros cc gg Hp _. eapply present_set; [exact Hg | exact Hp | auto].
    - (* KFetchTopic *)
      destruct (fetch_topic st c t) as [s r|] eqn:E; cbn in H; inversion H; subst; clear H.
      apply fetch_topic_state in E. subst. split; auto.
  Qed.

  Definition wf_req (r : req) : Prop :=
    match r with SetBrokerOffset _ _ p cnt _ => 0 <= p < cnt | _ => True end.

  Lemma start_establishes st r st' k :
    start cf now st r = SNext st' k -> wf_req r -> cont_ok st' k /\ st' = st /\ holds k = [] /\ cont_group k = keyed_group r.
  Proof.
    unfold start. intros H Hwf. destruct r; break_match_hyp H; inversion H; subst; clear H;
      (split; [|auto]); (split; [cbn; unfold cl_present; congruence | split; [intros gq []| cbn; auto]]).
  Qed.

  Lemma start_no_crash st r : start cf now st r <> SCrash.
  Proof. unfold start. destruct r; intros H; break_match_hyp H; discriminate. Qed.

  Lemma in_keys_get {V} (m : amap V) g : In g (keys m) -> get m g <> None.
  Proof. apply get_in_keys. Qed.

  Lemma exec_establishes prio st k st' k' :
    cont_ok st k -> exec cf now guarded prio st k = SNext st' k' -> cont_ok st' k'.
  Proof.
    intros (Hcl & Hneed & Hshape) H. destruct k; cbn [exec] in H; cbn [cont_cluster needs shape_ok] in *;
      break_match_hyp H; inversion H; subst; clear H; unfold set_consumer;
      (split; [cbn [cont_cluster]; first [exact Hcl | apply cl_present_set; exact Hcl | unfold cl_present; congruence]
              | split; [cbn [cont_cluster needs] | cbn [shape_ok]; first [exact I | discriminate | auto]]]).
    all: intros gq Hin; cbn in Hin; try contradiction.
    all: try (destruct Hin as [<-|[]]).
    (* KCommit2 -> KCommit3, KOwner1 -> KOwner2: the group has just been created / found *)
    all: try solve [apply present_here; unfold ensure_group; rewrite get_set_eq; discriminate].
    (* the group was looked up in this step, state unchanged *)
    all: try solve [eexists; split; [eassumption | congruence]].
    (* carried over from the previous continuation *)
    all: try solve [apply Hneed; cbn; auto].
    - (* KDelT1 -> KDelT2 *)
      eexists; split; [eassumption|]. apply in_keys_get. eapply visit_order_sub. rewrite E0. exact Hin.
    - (* KDelT2 -> KDelT2 *)
      apply present_here. apply get_updg_some. eapply present_get; [eassumption|]. apply Hneed. right. exact Hin.
    - (* KForTopic1 -> KForTopic2 *)
      eexists; split; [eassumption|]. apply in_keys_get. eapply visit_order_sub. rewrite E0. exact Hin.
  Qed.

  Lemma add_broker_no_crash st c t p cnt off : 0 <= p < cnt -> add_broker_offset cf st c t p cnt off <> Crashed.
  Proof.
    intros Hp. unfold add_broker_offset. destruct (get st c) as [cl|]; [|discriminate].
    set (tl0 := match get (cl_broker cl) t with Some l => l | None => [] end).
    destruct (Z.of_nat (length tl0) <=? cnt) eqn:E.
    - apply Z.leb_le in E.
      assert (L : Z.of_nat (length (tl0 ++ repeat (repeat (@None Z) (cf_intervals cf)) (Z.to_nat cnt - length tl0))) = cnt).
      { rewrite app_length, repeat_length. lia. }
      rewrite L. replace (p <? 0) with false by (symmetry; apply Z.ltb_ge; lia).
      replace (cnt <=? p) with false by (symmetry; apply Z.leb_gt; lia). cbn. discriminate.
    - apply Z.leb_gt in E. replace (p <? 0) with false by (symmetry; apply Z.ltb_ge; lia).
      replace (Z.of_nat (length tl0) <=? p) with false by (symmetry; apply Z.leb_gt; lia). cbn. discriminate.
  Qed.

  Lemma fetch_topic_no_crash st c t : fetch_topic st c t <> Crashed.
  Proof. unfold fetch_topic. destruct (get st c) as [cl|]; [|discriminate]. destruct (get (cl_broker cl) t); discriminate. Qed.

  (* no step of a handler whose held pointers are live panics (tree after 54faa50) *)
  Lemma exec_no_crash prio st k :
    (1 <= cf_intervals cf)%nat ->
    guarded = true -> cont_ok st k -> exec cf now guarded prio st k <> SCrash.
  Proof.
    intros HN Hg (Hcl & Hneed & Hshape) H. subst guarded.
    destruct k; cbn [exec] in H; cbn [cont_cluster needs shape_ok] in *.
    all: try solve [break_match_hyp H; try discriminate;
                    first [ apply Hcl; assumption
                          | match goal with
                            | Hc : get ?s ?c = Some ?cl, Hn : get (cl_consumer ?cl) ?g = None |- _ =>
                                apply (present_get s c cl g Hc); [apply Hneed; cbn; auto | exact Hn]
                            end
                          | congruence ]].
    - (* KBroker *)
      destruct (Nat.eqb (cf_intervals cf) O) eqn:EN; [apply Nat.eqb_eq in EN; lia|].
      destruct (add_broker_offset cf st c t p cnt off) eqn:E; [discriminate|].
      exact (add_broker_no_crash _ _ _ _ _ _ Hshape E).
    - (* KFetchTopic *)
      destruct (fetch_topic st c t) eqn:E; [discriminate|]. exact (fetch_topic_no_crash _ _ _ E).
  Qed.

  (* ---- structure of continuations ---- *)
  Lemma exec_holds prio st k st' k' :
    exec cf now guarded prio st k = SNext st' k' -> forall h, In h (holds k') -> In h (holds k) \/ h = wants k.
  Proof.
    intros H h Hin. destruct k; cbn [exec] in H; break_match_hyp H; inversion H; subst; clear H; cbn in *;
      try tauto; destruct Hin as [<-|[]]; auto.
  Qed.

  Lemma exec_group prio st k st' k' :
    exec cf now guarded prio st k = SNext st' k' -> cont_group k' = cont_group k \/ cont_group k' = None.
  Proof.
    intros H. destruct k; cbn [exec] in H; break_match_hyp H; inversion H; subst; clear H; cbn; auto.
  Qed.
End Steps.

Lemma removes_group k c g : removes k c g -> cont_group k = Some (c, g).
Proof. destruct k; cbn; try tauto; intros [-> ->]; reflexivity. Qed.

Lemma removes_lock k c g :
  removes k c g -> wants k = ((LConsumer, c, 0), MW) \/ In ((LConsumer, c, 0), MW) (holds k).
Proof. destruct k; cbn; try tauto; intros [-> ->]; auto. Qed.

Lemma needs_cases k g :
  In g (needs k) -> cont_group k = Some (cont_cluster k, g) \/ In ((LConsumer, cont_cluster k, 0), MR) (holds k).
Proof. destruct k; cbn; try tauto; try (intros [<-|[]]; auto); auto. Qed.

Lemma holds_consumer k h : In h (holds k) -> exists c m, h = ((LConsumer, c, 0), m).
Proof. destruct k; cbn; try tauto; intros [<-|[]]; eauto. Qed.

Lemma holds_wants_group k : holds k <> [] -> exists c g m, wants k = ((LGroup, c, g), m).
Proof. destruct k; cbn; try congruence; eauto. Qed.

(* ---------------------------------------------------------------------------------------------- *)
(* the inductive invariant over global states                                                      *)
(* ---------------------------------------------------------------------------------------------- *)
Lemma clock_eqb_refl l : clock_eqb l l = true.
Proof. destruct l as [[a c] g]. cbn. rewrite !Z.eqb_refl. destruct a; reflexivity. Qed.

Lemma stops_false_same want h : stops want h = false -> fst want = fst h -> snd want = MR /\ snd h = MR.
Proof.
  unfold stops. intros H E. rewrite E, clock_eqb_refl in H. cbn in H. apply orb_false_iff in H. destruct H as [H1 H2].
  destruct (snd want), (snd h); cbn in *; try discriminate; auto.
Qed.

Lemma others_stop_false want ws s i :
  others_stop want ws s i = false ->
  forall j wj, nth_error ws j = Some wj -> (s + j)%nat <> i -> forall h, In h (w_holds wj) -> stops want h = false.
Proof.
  revert s. induction ws as [|a r IH]; intros s H j wj Hj Hne h Hin; [destruct j; discriminate|].
  cbn in H. apply orb_false_iff in H. destruct H as [H1 H2]. destruct j as [|j]; cbn in Hj.
  - inversion Hj; subst a. assert (E : Nat.eqb s i = false) by (apply Nat.eqb_neq; lia). rewrite E in H1. cbn in H1.
    destruct (stops want h) eqn:S; [|reflexivity]. exfalso.
    assert (X : existsb (stops want) (w_holds wj) = true) by (apply existsb_exists; eauto). congruence.
  - apply (IH (S s) H2 j wj Hj); [lia | exact Hin].
Qed.

Lemma others_stop_none want ws s i :
  (forall j wj, nth_error ws j = Some wj -> (s + j)%nat <> i -> forall h, In h (w_holds wj) -> stops want h = false) ->
  others_stop want ws s i = false.
Proof.
  revert s. induction ws as [|a r IH]; intros s H; [reflexivity|]. cbn. apply orb_false_iff. split.
  - destruct (Nat.eqb s i) eqn:E; [reflexivity|]. cbn. apply Nat.eqb_neq in E.
    destruct (existsb (stops want) (w_holds a)) eqn:X; [|reflexivity]. apply existsb_exists in X. destruct X as (h & Hin & Hs).
    rewrite (H O a eq_refl ltac:(lia) h Hin) in Hs. discriminate.
  - apply IH. intros j wj Hj Hne h Hin. apply (H (S j) wj Hj); [lia | exact Hin].
Qed.

Section Global.
  Variable cf : config.
  Variable now : Z.

  Definition concerns (w : worker) (c g : Z) : Prop :=
    (exists k, w_run w = Some k /\ cont_group k = Some (c, g)) \/
    (exists r, In r (w_queue w) /\ keyed_group r = Some (c, g)).

  Record inv (gs : gstate) : Prop := mkInv {
    inv_ok : forall i w k, nth_error (g_ws gs) i = Some w -> w_run w = Some k -> cont_ok (g_st gs) k;
    inv_aff : forall i j wi wj c g, nth_error (g_ws gs) i = Some wi -> nth_error (g_ws gs) j = Some wj ->
              concerns wi c g -> concerns wj c g -> i = j;
    inv_excl : forall i j wi wj l mi mj, i <> j -> nth_error (g_ws gs) i = Some wi -> nth_error (g_ws gs) j = Some wj ->
               In (l, mi) (w_holds wi) -> In (l, mj) (w_holds wj) -> mi = MR /\ mj = MR;
    inv_wf : forall i w r, nth_error (g_ws gs) i = Some w -> In r (w_queue w) -> wf_req r }.

  (* replacing worker i *)
  Lemma inv_update gs i w w' st' cr pr :
    inv gs -> nth_error (g_ws gs) i = Some w ->
    (forall k', w_run w' = Some k' -> cont_ok st' k') ->
    (forall c g, concerns w' c g -> concerns w c g) ->
    (forall l m, In (l, m) (w_holds w') ->
       In (l, m) (w_holds w) \/
       (forall j wj, j <> i -> nth_error (g_ws gs) j = Some wj -> forall mj, In (l, mj) (w_holds wj) -> m = MR /\ mj = MR)) ->
    (forall r, In r (w_queue w') -> In r (w_queue w)) ->
    (forall j wj kj, j <> i -> nth_error (g_ws gs) j = Some wj -> w_run wj = Some kj -> cont_ok (g_st gs) kj -> cont_ok st' kj) ->
    inv (mkG st' (set_nth (g_ws gs) i w') cr pr).
  Proof.
    intros [Iok Iaff Iex Iwf] Hi Hok' Hconc Hholds Hq Hothers.
    pose proof (nth_error_lt _ _ _ Hi) as Hlt.
    assert (G : forall j x, nth_error (set_nth (g_ws gs) i w') j = Some x ->
                (j = i /\ x = w') \/ (j <> i /\ nth_error (g_ws gs) j = Some x)).
    { intros j x Hj. destruct (Nat.eq_dec j i) as [->|N].
      - rewrite sn_eq in Hj by exact Hlt. inversion Hj. auto.
      - rewrite sn_neq in Hj by congruence. auto. }
    constructor; cbn [g_ws g_st].
    - intros j x k Hj Hr. destruct (G j x Hj) as [[-> ->]|[N Hj']]; [auto|]. eapply Hothers; eauto.
    - intros a b wa wb c g Ha Hb Ca Cb.
      destruct (G a wa Ha) as [[-> ->]|[Na Ha']]; destruct (G b wb Hb) as [[-> ->]|[Nb Hb']]; auto.
      + apply (Iaff i b w wb c g); auto.
      + apply (Iaff a i wa w c g); auto.
      + apply (Iaff a b wa wb c g); auto.
    - intros a b wa wb l ma mb Hab Ha Hb Ia Ib.
      destruct (G a wa Ha) as [[-> ->]|[Na Ha']]; destruct (G b wb Hb) as [[-> ->]|[Nb Hb']]; try congruence.
      + destruct (Hholds l ma Ia) as [Old|New]; [apply (Iex i b w wb l ma mb); auto | apply (New b wb); auto].
      + destruct (Hholds l mb Ib) as [Old|New]; [apply (Iex a i wa w l ma mb); auto|].
        destruct (New a wa Na Ha' ma Ia); auto.
      + apply (Iex a b wa wb l ma mb); auto.
    - intros j x r Hj Hin. destruct (G j x Hj) as [[-> ->]|[N Hj']]; [apply (Iwf i w r Hi); auto | apply (Iwf j x r Hj' Hin)].
  Qed.

  Lemma others_survive gs i w k prio st' :
    inv gs -> nth_error (g_ws gs) i = Some w -> w_run w = Some k ->
    others_stop (wants k) (g_ws gs) O i = false ->
    res_state (exec cf now true prio (g_st gs) k) = Some st' ->
    forall j wj kj, j <> i -> nth_error (g_ws gs) j = Some wj -> w_run wj = Some kj -> cont_ok (g_st gs) kj -> cont_ok st' kj.
  Proof.
    intros I Hi Hk Hns Hex j wj kj Hne Hj Hkj (Hcl & Hneed & Hshape).
    destruct (exec_effect cf now true prio _ _ _ Hex) as [Hc Hp].
    split; [apply Hc; exact Hcl | split; [|exact Hshape]].
    intros g Hin. apply Hp; [apply Hneed; exact Hin|]. intros Hr.
    pose proof (removes_group _ _ _ Hr) as Hg.
    destruct (needs_cases kj g Hin) as [Hgj|Hhold].
    - apply Hne. symmetry. apply (inv_aff gs I i j w wj (cont_cluster kj) g Hi Hj); left; eauto.
    - destruct (removes_lock _ _ _ Hr) as [Hw|Hh].
      + assert (S : stops (wants k) ((LConsumer, cont_cluster kj, 0), MR) = false).
        { apply (others_stop_false _ _ _ _ Hns j wj Hj); [cbn; lia|]. unfold w_holds. rewrite Hkj. exact Hhold. }
        rewrite Hw in S. unfold stops in S. cbn [fst snd] in S. rewrite clock_eqb_refl in S. discriminate.
      + assert (X : MW = MR /\ MR = MR).
        { apply (inv_excl gs I i j w wj (LConsumer, cont_cluster kj, 0) MW MR); auto; unfold w_holds.
          - rewrite Hk. exact Hh.
          - rewrite Hkj. exact Hhold. }
        destruct X; discriminate.
  Qed.

  Lemma concerns_shrink w w' :
    (forall k', w_run w' = Some k' -> exists k, w_run w = Some k /\ (cont_group k' = cont_group k \/ cont_group k' = None)) ->
    (forall r, In r (w_queue w') -> In r (w_queue w)) ->
    forall c g, concerns w' c g -> concerns w c g.
  Proof.
    intros Hr Hq c g [(k' & Hk' & Hg)|(r & Hin & Hg)].
    - destruct (Hr k' Hk') as (k & Hk & [E|E]); [left; exists k; split; [exact Hk | congruence] | congruence].
    - right. exists r. split; [apply Hq; exact Hin | exact Hg].
  Qed.

  (* every step of the scheduler preserves the invariant and does not crash (tree after the C08 fix: commits) *)
  Theorem inv_step gs i gs' t :
    (1 <= cf_intervals cf)%nat ->
    inv gs -> g_crashed gs = false -> sched_step cf now true gs i = (gs', t) -> inv gs' /\ g_crashed gs' = false.
  Proof.
    intros HN I Hnc H. unfold sched_step in H. rewrite Hnc in H.
    destruct (nth_error (g_ws gs) i) as [w|] eqn:Hi; [|inversion H; subst; auto].
    destruct (w_run w) as [k|] eqn:Hk.
    - (* a parked handler takes its lock and runs to the next one *)
      destruct (others_stop (wants k) (g_ws gs) O i) eqn:Hns; [inversion H; subst; auto|].
      pose proof (inv_ok gs I i w k Hi Hk) as Hok.
      destruct (exec cf now true (hd [] (g_prios gs)) (g_st gs) k) as [st' k'|st' rep|] eqn:Hex.
      + inversion H; subst; clear H. split; [|reflexivity].
        eapply inv_update; eauto; cbn [w_run w_queue w_holds].
        * intros k0 E. inversion E; subst. eapply exec_establishes; eauto.
        * apply concerns_shrink; cbn; [|auto]. intros k0 E. inversion E; subst. exists k. split; [exact Hk|].
          eapply exec_group; eauto.
        * intros l m Hin. destruct (exec_holds _ _ _ _ _ _ _ _ Hex (l, m) Hin) as [Old|New].
          -- left. unfold w_holds. rewrite Hk. exact Old.
          -- right. intros j wj Hne Hj mj Hinj.
             assert (S : stops (wants k) (l, mj) = false) by (apply (others_stop_false _ _ _ _ Hns j wj Hj); [cbn; lia | exact Hinj]).
             rewrite <- New in S. apply (stops_false_same _ _ S). reflexivity.
        * eapply others_survive; eauto. rewrite Hex. reflexivity.
      + inversion H; subst; clear H. split; [|reflexivity].
        eapply inv_update; eauto; cbn [w_run w_queue w_holds].
        * intros k0 E. discriminate.
        * apply concerns_shrink; cbn; [|auto]. intros k0 E. discriminate.
        * intros l m [].
        * eapply others_survive; eauto. rewrite Hex. reflexivity.
      + exfalso. eapply (exec_no_crash cf now true); eauto.
    - (* an idle worker starts its next request *)
      destruct (w_queue w) as [|r q] eqn:Hq; [inversion H; subst; auto|].
      assert (Hwf : wf_req r) by (apply (inv_wf gs I i w r Hi); rewrite Hq; left; reflexivity).
      destruct (start cf now (g_st gs) r) as [st' k'|st' rep|] eqn:Hst.
      + destruct (start_establishes _ _ _ _ _ _ Hst Hwf) as (Hok & -> & Hh & Hg).
        inversion H; subst; clear H. split; [|reflexivity].
        eapply inv_update; eauto; cbn [w_run w_queue w_holds].
        * intros k0 E. inversion E; subst. exact Hok.
        * intros c g [(k0 & E & Hc)|(r0 & Hin & Hc)].
          -- inversion E; subst. right. exists r. split; [rewrite Hq; left; reflexivity | congruence].
          -- right. exists r0. split; [rewrite Hq; right; exact Hin | exact Hc].
        * rewrite Hh. intros l m [].
        * intros r0 Hin. rewrite Hq. right. exact Hin.
      + assert (st' = g_st gs) by (apply (start_state cf now (g_st gs) r); rewrite Hst; reflexivity). subst st'.
        inversion H; subst; clear H. split; [|reflexivity].
        eapply inv_update; eauto; cbn [w_run w_queue w_holds].
        * intros k0 E. discriminate.
        * intros c g [(k0 & E & Hc)|(r0 & Hin & Hc)]; [discriminate|].
          right. exists r0. split; [rewrite Hq; right; exact Hin | exact Hc].
        * intros l m [].
        * intros r0 Hin. rewrite Hq. right. exact Hin.
      + exfalso. eapply start_no_crash; eauto.
  Qed.
End Global.

(* ---------------------------------------------------------------------------------------------- *)
(* theorems over all schedules                                                                     *)
(* ---------------------------------------------------------------------------------------------- *)
Section Top.
  Variable cf : config.
  Variable now : Z.

  (* what the router guarantees about the initial queues, and well-formed broker requests *)
  Definition wf_queues (queues : list (list req)) : Prop :=
    (forall i j qi qj ri rj c g, nth_error queues i = Some qi -> nth_error queues j = Some qj ->
        In ri qi -> In rj qj -> keyed_group ri = Some (c, g) -> keyed_group rj = Some (c, g) -> i = j) /\
    (forall q r, In q queues -> In r q -> wf_req r).

  Lemma inv_init st queues prios : wf_queues queues -> inv (init_g st queues prios).
  Proof.
    intros [Haff Hwf]. unfold init_g.
    assert (G : forall i w, nth_error (map (fun q => mkWorker q None []) queues) i = Some w ->
                exists q, nth_error queues i = Some q /\ w = mkWorker q None []).
    { intros i w H. rewrite nth_error_map in H. destruct (nth_error queues i) as [q|]; [|discriminate]. inversion H. eauto. }
    constructor; cbn [g_ws g_st].
    - intros i w k Hi Hk. destruct (G i w Hi) as (q & _ & ->). discriminate.
    - intros i j wi wj c g Hi Hj Ci Cj. destruct (G i wi Hi) as (qi & Hqi & ->). destruct (G j wj Hj) as (qj & Hqj & ->).
      destruct Ci as [(k & E & _)|(ri & Hri & Gi)]; [discriminate|]. destruct Cj as [(k & E & _)|(rj & Hrj & Gj)]; [discriminate|].
      eapply Haff; eauto.
    - intros i j wi wj l mi mj _ Hi _ Ii _. destruct (G i wi Hi) as (q & _ & ->). destruct Ii.
    - intros i w r Hi Hin. destruct (G i w Hi) as (q & Hq & ->). apply (Hwf q r); [eapply nth_error_In; eauto | exact Hin].
  Qed.

  Variable HN : (1 <= cf_intervals cf)%nat.

  Lemma sched_run_inv sched : forall gs gs' ts,
    inv gs -> g_crashed gs = false -> sched_run cf now true gs sched = (gs', ts) -> inv gs' /\ g_crashed gs' = false.
  Proof.
    induction sched as [|i rest IH]; intros gs gs' ts I Hc H; cbn in H.
    - inversion H; subst; auto.
    - destruct (sched_step cf now true gs i) as [gs1 t] eqn:E1.
      destruct (sched_run cf now true gs1 rest) as [gs2 ts2] eqn:E2. inversion H; subst.
      destruct (inv_step cf now gs i gs1 t HN I Hc E1) as [I1 Hc1]. eapply IH; eauto.
  Qed.

  (* (a) no crash: whatever the schedule, the number of workers, the queues the router may produce *)
  Theorem conc_no_crash_proof st queues prios sched :
    wf_queues queues -> g_crashed (fst (sched_run cf now true (init_g st queues prios) sched)) = false.
  Proof.
    intros Hwf. destruct (sched_run cf now true (init_g st queues prios) sched) as [gs ts] eqn:E. cbn.
    destruct (sched_run_inv sched _ _ _ (inv_init st queues prios Hwf) eq_refl E) as [_ Hc]. exact Hc.
  Qed.

  (* same-group requests stay with one worker in every reachable state *)
  Theorem conc_group_one_worker_proof st queues prios sched :
    wf_queues queues ->
    let gs := fst (sched_run cf now true (init_g st queues prios) sched) in
    forall i j wi wj c g, nth_error (g_ws gs) i = Some wi -> nth_error (g_ws gs) j = Some wj ->
      concerns wi c g -> concerns wj c g -> i = j.
  Proof.
    intros Hwf. destruct (sched_run cf now true (init_g st queues prios) sched) as [gs ts] eqn:E. cbn.
    destruct (sched_run_inv sched _ _ _ (inv_init st queues prios Hwf) eq_refl E) as [I _]. apply (inv_aff gs I).
  Qed.

  (* deadlock freedom at lock granularity: while there is work, some worker can take its next step *)
  Theorem conc_deadlock_free_proof gs : unfinished gs = true -> exists i, enabled gs i = true.
  Proof.
    intros Hu. unfold unfinished in Hu.
    destruct (existsb (fun w => match w_holds w with [] => false | _ => true end) (g_ws gs)) eqn:Hh.
    - (* somebody holds a lock while parked: it waits for a group lock, which no parked worker holds *)
      apply existsb_exists in Hh. destruct Hh as (w & Hin & Hne). apply In_nth_error in Hin. destruct Hin as (i & Hi).
      exists i. unfold enabled. rewrite Hi. unfold w_holds in Hne. destruct (w_run w) as [k|] eqn:Hk; [|discriminate].
      destruct (holds_wants_group k) as (c & g & m & Hw); [destruct (holds k); [discriminate | discriminate]|].
      rewrite others_stop_none; [reflexivity|]. intros j wj Hj _ h Hinh. unfold w_holds in Hinh.
      destruct (w_run wj) as [kj|]; [|destruct Hinh]. destruct (holds_consumer kj h Hinh) as (c' & m' & ->).
      rewrite Hw. reflexivity.
    - (* nobody holds anything: every worker with work is enabled *)
      apply existsb_exists in Hu. destruct Hu as (w & Hin & Hw). apply In_nth_error in Hin. destruct Hin as (i & Hi).
      exists i. unfold enabled. rewrite Hi. unfold has_work in Hw. destruct (w_run w) as [k|] eqn:Hk.
      + rewrite others_stop_none; [reflexivity|]. intros j wj Hj _ h Hinh.
        assert (X : (match w_holds wj with [] => false | _ => true end) = false).
        { destruct (match w_holds wj with [] => false | _ => true end) eqn:Y; [|reflexivity].
          assert (existsb (fun w => match w_holds w with [] => false | _ => true end) (g_ws gs) = true)
            by (apply existsb_exists; exists wj; split; [eapply nth_error_In; eauto | exact Y]). congruence. }
        destruct (w_holds wj); [destruct Hinh | discriminate].
      + destruct (w_queue w); [discriminate | reflexivity].
  Qed.

  (* ---- group order: FIFO per worker + frame ---- *)
  Definition group_state (st : state) (c g : Z) : option cgroup :=
    match get st c with Some cl => get (cl_consumer cl) g | None => None end.

  Lemma group_state_set_other st c0 x c g : c <> c0 -> group_state (set st c0 x) c g = group_state st c g.
  Proof. intros N. unfold group_state. rewrite get_set_neq; auto. Qed.

  Lemma group_state_set_here st c b' cons' g : group_state (set st c (mkCluster b' cons')) c g = get cons' g.
  Proof. unfold group_state. rewrite get_set_eq. reflexivity. Qed.

  (* a step changes the state of group (c, g) only if it belongs to a request keyed on (c, g) - which runs on that
     group's one worker - or it is deleteTopic's visit of that group, which removes the topic and nothing else *)
  Lemma exec_frame guarded prio st k st' :
    res_state (exec cf now guarded prio st k) = Some st' ->
    forall c g, group_state st' c g = group_state st c g \/ cont_group k = Some (c, g) \/
                (exists t p, k = KDelT2 c t (g :: p) /\ group_state st' c g = option_map (drop_topic t) (group_state st c g)).
  Proof.
    intros H c g. destruct k; cbn [exec] in H.
    all: try solve [break_match_hyp H; cbn in H; inversion H; subst; clear H; unfold set_consumer, ensure_group; auto;
                    match goal with
                    | Hc : get ?s ?c0 = Some ?cl |- context [set ?s ?c0 _] =>
                        destruct (Z.eq_dec c c0) as [->|Nc]; [|left; apply group_state_set_other; exact Nc];
                        rewrite group_state_set_here; unfold group_state at 1; rewrite Hc;
                        match goal with
                        | |- context [cont_group (_ _ ?g0)] => idtac
                        | _ => idtac
                        end
                    end;
                    first [ left; reflexivity
                          | match goal with
                            | |- get (set _ ?g0 _) _ = _ \/ _ => destruct (Z.eq_dec g g0) as [->|Ng]; [right; left; reflexivity | left; apply get_set_neq; congruence]
                            | |- get (remove _ ?g0) _ = _ \/ _ => destruct (Z.eq_dec g g0) as [->|Ng]; [right; left; reflexivity | left; apply get_remove_neq; congruence]
                            end ]].
    - (* KBroker *)
      destruct (Nat.eqb (cf_intervals cf) O); [cbn in H; discriminate|].
      destruct (add_broker_offset cf st c0 t p cnt off) as [s r|] eqn:E; cbn in H; inversion H; subst; clear H.
      destruct (add_broker_effect _ _ _ _ _ _ _ _ _ E) as [->|(cl & b' & Hg & ->)]; [auto|]. left.
      destruct (Z.eq_dec c c0) as [->|Nc]; [|apply group_state_set_other; exact Nc].
      rewrite group_state_set_here. unfold group_state. rewrite Hg. reflexivity.
    - (* KDelT2 *)
      break_match_hyp H; cbn in H; inversion H; subst; clear H; unfold set_consumer.
      all: destruct (Z.eq_dec c c0) as [->|Nc]; [|left; apply group_state_set_other; exact Nc].
      all: match goal with
           | Hc : get ?s ?cc = Some ?cl |- context [updg (cl_consumer ?cl) ?z ?f] =>
               assert (A : forall b', group_state (set s cc (mkCluster b' (updg (cl_consumer cl) z f))) cc g = get (updg (cl_consumer cl) z f) g)
                 by (intros; apply group_state_set_here);
               assert (B : group_state s cc g = get (cl_consumer cl) g) by (unfold group_state; rewrite Hc; reflexivity);
               rewrite get_updg in A; destruct (z =? g) eqn:Ez;
               [apply Z.eqb_eq in Ez; subst z; right; right; do 2 eexists; split; [reflexivity | rewrite A, B; reflexivity]
               |left; rewrite A, B; reflexivity]
           end.
    - (* KFetchTopic *)
      destruct (fetch_topic st c0 t) as [s r|] eqn:E; cbn in H; inversion H; subst; clear H.
      apply fetch_topic_state in E. subst. auto.
  Qed.
End Top.

Section Top2.
  Variable cf : config.
  Variable now : Z.
  Variable guarded : bool.

  (* one scheduler step seen from outside: only worker i changes; its queue loses at most its head (and only when it
     was idle); delivered replies are only ever appended to *)
  Lemma sched_step_shape gs i gs' t :
    sched_step cf now guarded gs i = (gs', t) ->
    gs' = gs \/ (g_ws gs' = g_ws gs /\ g_st gs' = g_st gs) \/
    exists w w', nth_error (g_ws gs) i = Some w /\ g_ws gs' = set_nth (g_ws gs) i w' /\
                 (exists l, w_out w' = w_out w ++ l) /\
                 ((w_queue w' = w_queue w) \/ (w_run w = None /\ exists r, w_queue w = r :: w_queue w')).
  Proof.
    intros H. unfold sched_step in H. destruct (g_crashed gs) eqn:Hc; [inversion H; auto|].
    destruct (nth_error (g_ws gs) i) as [w|] eqn:Hi; [|inversion H; auto].
    destruct (w_run w) as [k|] eqn:Hk.
    - destruct (others_stop (wants k) (g_ws gs) O i); [inversion H; auto|].
      destruct (exec cf now guarded (hd [] (g_prios gs)) (g_st gs) k) as [st' k'|st' rep|]; inversion H; subst; clear H.
      + right; right. exists w. eexists. split; [reflexivity|]. split; [reflexivity|]. cbn. split; [exists []; apply app_nil_end | auto].
      + right; right. exists w. eexists. split; [reflexivity|]. split; [reflexivity|]. cbn. split; [|auto].
        unfold push_reply. destruct rep; eauto; exists []; apply app_nil_end.
      + right; left. cbn. auto.
    - destruct (w_queue w) as [|r q] eqn:Hq; [inversion H; auto|].
      destruct (start cf now (g_st gs) r) as [st' k'|st' rep|]; inversion H; subst; clear H.
      + right; right. exists w. eexists. split; [reflexivity|]. split; [reflexivity|]. cbn. split; [exists []; apply app_nil_end|].
        right. split; [exact Hk|]. eauto.
      + right; right. exists w. eexists. split; [reflexivity|]. split; [reflexivity|]. cbn. split.
        * unfold push_reply. destruct rep; eauto; exists []; apply app_nil_end.
        * right. split; [exact Hk|]. eauto.
      + right; left. cbn. auto.
  Qed.

  Lemma nth_error_set_nth_cases {A} (l : list A) i x j y :
    nth_error (set_nth l i x) j = Some y -> (j = i /\ y = x) \/ (j <> i /\ nth_error l j = Some y).
  Proof.
    intros H. destruct (Nat.eq_dec i j) as [->|N].
    - destruct (lt_dec j (length l)) as [L|L].
      + rewrite sn_eq in H by exact L. inversion H. auto.
      + assert (nth_error (set_nth l j x) j = None) by (apply nth_error_None; rewrite sn_length; lia). congruence.
    - rewrite sn_neq in H by exact N. auto.
  Qed.

  (* FIFO: in every reachable state each worker's queue is a suffix of the queue it was given, and delivered replies
     are never changed afterwards (the list only grows) *)
  Lemma sched_run_fifo sched : forall gs gs' ts,
    sched_run cf now guarded gs sched = (gs', ts) ->
    forall j w', nth_error (g_ws gs') j = Some w' ->
      exists w, nth_error (g_ws gs) j = Some w /\ (exists pre, w_queue w = pre ++ w_queue w') /\ (exists l, w_out w' = w_out w ++ l).
  Proof.
    induction sched as [|i rest IH]; intros gs gs' ts H j w' Hj; cbn in H.
    - inversion H; subst. exists w'. split; [exact Hj|]. split; [exists []; reflexivity | exists []; apply app_nil_end].
    - destruct (sched_step cf now guarded gs i) as [gs1 t] eqn:E1.
      destruct (sched_run cf now guarded gs1 rest) as [gs2 ts2] eqn:E2. inversion H; subst.
      destruct (IH gs1 gs' ts2 E2 j w' Hj) as (w1 & Hw1 & (pre1 & Hq1) & (l1 & Ho1)).
      destruct (sched_step_shape gs i gs1 t E1) as [Eq|[[Eq _]|(w & wn & Hi & Hws & (l0 & Ho) & Hq)]].
      + subst gs1. exists w1. eauto.
      + rewrite Eq in Hw1. exists w1. eauto.
      + rewrite Hws in Hw1. destruct (nth_error_set_nth_cases _ _ _ _ _ Hw1) as [[-> ->]|[N Hw1']].
        * exists w. split; [exact Hi|]. split.
          -- destruct Hq as [Hq|[_ (r & Hq)]]; [exists pre1; congruence | exists (r :: pre1); rewrite Hq, Hq1; reflexivity].
          -- exists (l0 ++ l1). rewrite Ho1, Ho, app_assoc. reflexivity.
        * exists w1. eauto.
  Qed.

  (* frame at the level of global states *)
  Lemma sched_step_frame gs i gs' t c g :
    sched_step cf now guarded gs i = (gs', t) ->
    group_state (g_st gs') c g = group_state (g_st gs) c g \/
    exists w k, nth_error (g_ws gs) i = Some w /\ w_run w = Some k /\
      (cont_group k = Some (c, g) \/
       exists tp p, k = KDelT2 c tp (g :: p) /\ group_state (g_st gs') c g = option_map (drop_topic tp) (group_state (g_st gs) c g)).
  Proof.
    intros H. unfold sched_step in H. destruct (g_crashed gs); [inversion H; auto|].
    destruct (nth_error (g_ws gs) i) as [w|] eqn:Hi; [|inversion H; auto].
    destruct (w_run w) as [k|] eqn:Hk.
    - destruct (others_stop (wants k) (g_ws gs) O i); [inversion H; auto|].
      destruct (exec cf now guarded (hd [] (g_prios gs)) (g_st gs) k) as [st' k'|st' rep|] eqn:Hex; inversion H; subst; clear H; cbn [g_st]; auto.
      all: assert (X : res_state (exec cf now guarded (hd [] (g_prios gs)) (g_st gs) k) = Some st') by (rewrite Hex; reflexivity).
      all: destruct (exec_frame cf now guarded (hd [] (g_prios gs)) (g_st gs) k st' X c g) as [F|[F|F]];
        [left; exact F | right; exists w, k; auto | right; exists w, k; auto].
    - destruct (w_queue w) as [|r q]; [inversion H; auto|].
      destruct (start cf now (g_st gs) r) as [st' k'|st' rep|] eqn:Hst; inversion H; subst; clear H; cbn [g_st]; auto.
      all: left; f_equal; apply (start_state cf now (g_st gs) r); rewrite Hst; reflexivity.
  Qed.

  (* ---- replies ---- *)
  Definition lag_ok (l : list (Z * list cpart)) : Prop :=
    forall t cps cp, In (t, cps) l -> In cp cps ->
      match cp_brokers cp, last (cp_offsets cp) None with
      | b0 :: rest, Some lo => cp_lag cp = current_lag (last (b0 :: rest) b0) (co_offset lo)
      | _, _ => True
      end.

  Definition snap_fresh (snap : list (Z * list cpart)) : Prop :=
    forall t cps cp, In (t, cps) snap -> In cp cps -> cp_brokers cp = [].

  Lemma snapshot_fresh grp : snap_fresh (snapshot_group grp).
  Proof.
    intros t cps cp Hin Hcp. unfold snapshot_group in Hin. apply in_map_iff in Hin. destruct Hin as ([t0 ps] & E & _).
    inversion E; subst. apply in_map_iff in Hcp. destruct Hcp as (pr & <- & _). reflexivity.
  Qed.

  Lemma add_lag_g_ok r cp :
    match cp_brokers (add_lag_g r cp), last (cp_offsets (add_lag_g r cp)) None with
    | b0 :: rest, Some lo => cp_lag (add_lag_g r cp) = current_lag (last (b0 :: rest) b0) (co_offset lo)
    | _, _ => True
    end.
  Proof.
    unfold add_lag_g. destruct (cp_offsets cp) as [|o os] eqn:Eo; cbv beta iota zeta.
    - destruct (somes r); cbn [cp_brokers cp_offsets]; [exact I|]. cbn [last]. exact I.
    - destruct (somes r) as [|b0 bs] eqn:Eb; cbv beta iota; [cbn [cp_brokers]; exact I|].
      destruct (last (o :: os) None) as [lo|] eqn:El; cbn [cp_brokers cp_offsets cp_lag]; rewrite El; [reflexivity | exact I].
  Qed.

  Lemma add_lags_g_ok tl : forall cps i cp,
    (forall x, In x cps -> cp_brokers x = []) -> In cp (add_lags_g tl i cps) ->
    match cp_brokers cp, last (cp_offsets cp) None with
    | b0 :: rest, Some lo => cp_lag cp = current_lag (last (b0 :: rest) b0) (co_offset lo)
    | _, _ => True
    end.
  Proof.
    induction cps as [|x xs IH]; intros i cp Hf Hin; cbn in Hin; [destruct Hin|].
    destruct Hin as [<-|Hin].
    - destruct (nth_error tl i); [apply add_lag_g_ok | rewrite (Hf x (or_introl eq_refl)); exact I].
    - apply (IH (S i)); [intros y Hy; apply Hf; right; exact Hy | exact Hin].
  Qed.

  Lemma fetch_lags_ok broker snap : snap_fresh snap -> lag_ok (fetch_topics_lags_g broker snap).
  Proof.
    intros Hf t cps cp Hin Hcp. unfold fetch_topics_lags_g in Hin. apply in_map_iff in Hin.
    destruct Hin as (tc & E & Hin0). destruct tc as [t0 cps0]. cbn [fst snd] in E.
    assert (Ec : cps = match get broker t0 with None => cps0 | Some tl => add_lags_g tl 0 cps0 end) by congruence.
    subst cps. clear E. destruct (get broker t0) as [tl|].
    - eapply add_lags_g_ok; [|exact Hcp]. intros x Hx. eapply Hf; eauto.
    - rewrite (Hf t0 cps0 cp Hin0 Hcp). exact I.
  Qed.

  (* the snapshot data itself is what the reply carries: the second half only fills in broker offsets and the lag *)
  Definition strip (cp : cpart) := (cp_offsets cp, cp_owner cp, cp_client cp).

  Lemma add_lag_g_strip r cp : strip (add_lag_g r cp) = strip cp.
  Proof.
    unfold add_lag_g, strip. destruct (cp_offsets cp) as [|o os] eqn:Eo; cbv beta iota zeta.
    - destruct (somes r); cbn [cp_offsets cp_owner cp_client]; reflexivity.
    - destruct (somes r); cbv beta iota; [cbn [cp_offsets cp_owner cp_client]; reflexivity|].
      destruct (last (o :: os) None); cbn [cp_offsets cp_owner cp_client]; reflexivity.
  Qed.

  Lemma add_lags_g_strip tl : forall cps i, map strip (add_lags_g tl i cps) = map strip cps.
  Proof.
    induction cps as [|x xs IH]; intros i; cbn [add_lags_g map]; [reflexivity|]. rewrite IH. f_equal.
    destruct (nth_error tl i); [apply add_lag_g_strip | reflexivity].
  Qed.

  Lemma fetch_lags_strip broker snap :
    map (fun tc => (fst tc, map strip (snd tc))) (fetch_topics_lags_g broker snap) = map (fun tc => (fst tc, map strip (snd tc))) snap.
  Proof.
    unfold fetch_topics_lags_g. rewrite map_map. apply map_ext. intros [t cps]. cbn. f_equal.
    destruct (get broker t); [apply add_lags_g_strip | reflexivity].
  Qed.
  (* completeness of the broker half: for every topic the broker map has and every partition it reports, the reply
     carries exactly the recorded broker offsets of that partition (so, with lag_ok, the lag is computed from the newest
     one) - whatever other topics of the group are stale *)
  Lemma add_lag_g_brokers r cp : cp_brokers (add_lag_g r cp) = somes r.
  Proof.
    unfold add_lag_g. destruct (cp_offsets cp) as [|o os]; cbv beta iota zeta.
    - destruct (somes r); reflexivity.
    - destruct (somes r); cbv beta iota; [reflexivity|]. destruct (last (o :: os) None); reflexivity.
  Qed.

  Lemma add_lags_g_nth tl : forall cps i j cp',
    nth_error (add_lags_g tl i cps) j = Some cp' ->
    exists cp, nth_error cps j = Some cp /\
               cp' = match nth_error tl (i + j) with None => cp | Some r => add_lag_g r cp end.
  Proof.
    induction cps as [|x xs IH]; intros i j cp' H; cbn [add_lags_g] in H; [destruct j; discriminate|].
    destruct j as [|j]; cbn [nth_error] in *.
    - inversion H; subst. exists x. rewrite Nat.add_0_r. auto.
    - destruct (IH (S i) j cp' H) as (cp & Hc & E). exists cp. split; [exact Hc|]. rewrite Nat.add_succ_r. exact E.
  Qed.

  Lemma fetch_lags_complete broker snap t cps' tl j cp' r :
    In (t, cps') (fetch_topics_lags_g broker snap) -> get broker t = Some tl ->
    nth_error cps' j = Some cp' -> nth_error tl j = Some r -> cp_brokers cp' = somes r.
  Proof.
    intros Hin Hb Hj Hr. unfold fetch_topics_lags_g in Hin. apply in_map_iff in Hin.
    destruct Hin as (tc & E & _). destruct tc as [t0 cps0]. cbn [fst snd] in E.
    assert (Et : t0 = t) by congruence. subst t0. rewrite Hb in E.
    assert (Ec : cps' = add_lags_g tl 0 cps0) by congruence. subst cps'.
    destruct (add_lags_g_nth tl cps0 0 j cp' Hj) as (cp & _ & ->). cbn [Nat.add]. rewrite Hr. apply add_lag_g_brokers.
  Qed.
End Top2.

Section Replies.
  Variable cf : config.
  Variable now : Z.

  (* the snapshot is one instant of the group: taken in one atomic step from the group's value at that moment *)
  Lemma snapshot_instant prio st c g st' k' :
    exec cf now true prio st (KFetchCons2 c g) = SNext st' k' ->
    st' = st /\ exists grp, group_state st c g = Some grp /\ k' = KFetchCons3 c (snapshot_group grp).
  Proof.
    cbn [exec]. intros H. unfold group_state. destruct (get st c) as [cl|]; [|discriminate].
    destruct (get (cl_consumer cl) g) as [grp|]; [|discriminate]. inversion H. split; [reflexivity|]. eauto.
  Qed.

  Lemma exec_next_fresh prio st k st' c snap :
    exec cf now true prio st k = SNext st' (KFetchCons3 c snap) -> snap_fresh snap.
  Proof. intros H. destruct k; cbn [exec] in H; break_match_hyp H; inversion H; subst. apply snapshot_fresh. Qed.

  Lemma exec_done_reply prio st k st' l :
    exec cf now true prio st k = SDone st' (RConsumer l) ->
    exists c snap cl, k = KFetchCons3 c snap /\ get st c = Some cl /\ l = fetch_topics_lags_g (cl_broker cl) snap.
  Proof.
    intros H. destruct k; cbn [exec] in H; try solve [break_match_hyp H; inversion H].
    - destruct (Nat.eqb (cf_intervals cf) O); [discriminate|].
      destruct (add_broker_offset cf st c t p cnt off) eqn:E; inversion H; subst.
      unfold add_broker_offset in E. break_match_hyp E; inversion E.
    - destruct (fetch_topic st c t) eqn:E; inversion H; subst. unfold fetch_topic in E. break_match_hyp E; inversion E.
    - destruct (get st c) as [cl|] eqn:E; inversion H; subst. exists c, snap, cl. auto.
  Qed.

  Lemma start_not_consumer st r st' l : start cf now st r <> SDone st' (RConsumer l).
  Proof. unfold start. destruct r; intros H; break_match_hyp H; inversion H. Qed.

  Definition inv_reply (gs : gstate) : Prop :=
    (forall i w c snap, nth_error (g_ws gs) i = Some w -> w_run w = Some (KFetchCons3 c snap) -> snap_fresh snap) /\
    (forall i w l, nth_error (g_ws gs) i = Some w -> In (RConsumer l) (w_out w) -> lag_ok l).

  Lemma inv_reply_step gs i gs' t : inv_reply gs -> sched_step cf now true gs i = (gs', t) -> inv_reply gs'.
  Proof.
    intros [Hf Hr] H. unfold sched_step in H. destruct (g_crashed gs); [inversion H; subst; split; auto|].
    destruct (nth_error (g_ws gs) i) as [w|] eqn:Hi; [|inversion H; subst; split; auto].
    assert (G : forall (ws' : list worker) w', ws' = set_nth (g_ws gs) i w' ->
              (forall c snap, w_run w' = Some (KFetchCons3 c snap) -> snap_fresh snap) ->
              (forall l, In (RConsumer l) (w_out w') -> lag_ok l) ->
              forall st' cr pr, inv_reply (mkG st' ws' cr pr)).
    { intros ws' w' -> H1 H2 st' cr pr. split; cbn [g_ws]; intros j x; intros.
      - destruct (nth_error_set_nth_cases _ _ _ _ _ H0) as [[-> ->]|[N Hj]]; eauto.
      - destruct (nth_error_set_nth_cases _ _ _ _ _ H0) as [[-> ->]|[N Hj]]; eauto. }
    destruct (w_run w) as [k|] eqn:Hk.
    - destruct (others_stop (wants k) (g_ws gs) O i); [inversion H; subst; split; auto|].
      destruct (exec cf now true (hd [] (g_prios gs)) (g_st gs) k) as [st' k'|st' rep|] eqn:Hex; inversion H; subst; clear H.
      + eapply G; [reflexivity| |]; cbn.
        * intros c snap E. inversion E; subst. eapply exec_next_fresh; eauto.
        * intros l Hin. eapply Hr; eauto.
      + eapply G; [reflexivity| |]; cbn.
        * intros c snap E. discriminate.
        * intros l Hin. unfold push_reply in Hin.
          assert (X : In (RConsumer l) (w_out w) \/ rep = RConsumer l).
          { destruct rep; auto; apply in_app_or in Hin; destruct Hin as [Hin|[Hin|[]]]; auto; discriminate. }
          destruct X as [X | ->]; [eapply Hr; eauto|].
          destruct (exec_done_reply _ _ _ _ _ Hex) as (c & snap & cl & -> & Hg & ->).
          apply fetch_lags_ok. eapply Hf; eauto.
      + split; cbn; eauto.
    - destruct (w_queue w) as [|r q]; [inversion H; subst; split; auto|].
      destruct (start cf now (g_st gs) r) as [st' k'|st' rep|] eqn:Hst; inversion H; subst; clear H.
      + eapply G; [reflexivity| |]; cbn.
        * intros c snap E. inversion E; subst. exfalso. unfold start in Hst. destruct r; break_match_hyp Hst; inversion Hst.
        * intros l Hin. eapply Hr; eauto.
      + eapply G; [reflexivity| |]; cbn.
        * intros c snap E. discriminate.
        * intros l Hin. unfold push_reply in Hin.
          assert (X : In (RConsumer l) (w_out w) \/ rep = RConsumer l).
          { destruct rep; auto; apply in_app_or in Hin; destruct Hin as [Hin|[Hin|[]]]; auto; discriminate. }
          destruct X as [X | ->]; [eapply Hr; eauto|]. exfalso. eapply start_not_consumer; eauto.
      + split; cbn; eauto.
  Qed.

  (* every fetchConsumer reply ever delivered, in any schedule, is lag-consistent *)
  Theorem conc_reply_consistent_proof st queues prios sched :
    let gs := fst (sched_run cf now true (init_g st queues prios) sched) in
    forall i w l, nth_error (g_ws gs) i = Some w -> In (RConsumer l) (w_out w) -> lag_ok l.
  Proof.
    assert (G : forall sched gs gs' ts, inv_reply gs -> sched_run cf now true gs sched = (gs', ts) -> inv_reply gs').
    { induction sched0 as [|i rest IH]; intros gs gs' ts I H; cbn in H; [inversion H; subst; exact I|].
      destruct (sched_step cf now true gs i) as [gs1 t] eqn:E1. destruct (sched_run cf now true gs1 rest) as [gs2 ts2] eqn:E2.
      inversion H; subst. eapply IH; [|exact E2]. eapply inv_reply_step; eauto. }
    destruct (sched_run cf now true (init_g st queues prios) sched) as [gs ts] eqn:E. cbn.
    assert (I0 : inv_reply (init_g st queues prios)).
    { unfold init_g. split; cbn [g_ws]; intros i w; intros; rewrite nth_error_map in H;
        destruct (nth_error queues i); inversion H; subst; cbn in *; [discriminate | contradiction]. }
    destruct (G sched _ _ _ I0 E) as [_ Hr]. exact Hr.
  Qed.
  Lemma reply_broker_complete prio st c snap st' l :
    exec cf now true prio st (KFetchCons3 c snap) = SDone st' (RConsumer l) ->
    exists cl, get st c = Some cl /\
      forall t cps' tl j cp' r, In (t, cps') l -> get (cl_broker cl) t = Some tl ->
        nth_error cps' j = Some cp' -> nth_error tl j = Some r -> cp_brokers cp' = somes r.
  Proof.
    cbn [exec]. intros H. destruct (get st c) as [cl|]; [|discriminate]. inversion H; subst. exists cl. split; [reflexivity|].
    intros t cps' tl j cp' r. apply fetch_lags_complete.
  Qed.
End Replies.

(* ---------------------------------------------------------------------------------------------- *)
(* Part 2: a request's steps run without interruption = Storage.step                                *)
(* ---------------------------------------------------------------------------------------------- *)
Lemma remove_remove {V} (m : amap V) k : remove (remove m k) k = remove m k.
Proof.
  unfold remove. induction m as [|[k0 v] r IH]; cbn; [reflexivity|].
  destruct (k0 =? k) eqn:E; cbn; [exact IH|]. rewrite E. cbn. f_equal. exact IH.
Qed.

Lemma set_set {V} (m : amap V) k a b : set (set m k a) k b = set m k b.
Proof. unfold set. f_equal. cbn. rewrite Z.eqb_refl. cbn. apply remove_remove. Qed.

Lemma drop_topic_idem t grp : drop_topic t (drop_topic t grp) = drop_topic t grp.
Proof. unfold drop_topic. cbn [g_topics g_last]. rewrite remove_remove. reflexivity. Qed.

Lemma updg_as_map {V} (f : V -> V) (Hf : forall v, f (f v) = f v) (pending : list Z) : forall m : amap V,
  fold_left (fun m g => updg m g f) pending m =
  map (fun kv => if memz (fst kv) pending then (fst kv, f (snd kv)) else kv) m.
Proof.
  induction pending as [|g rest IH]; intros m; cbn [fold_left].
  - cbn. symmetry. rewrite <- (map_id m) at 2. apply map_ext. intros [k v]. reflexivity.
  - rewrite IH. unfold updg. rewrite map_map. apply map_ext. intros [k v]. cbn [fst snd memz existsb].
    destruct (k =? g) eqn:E; cbn [fst snd].
    + fold (memz k rest). destruct (memz k rest); [rewrite Hf|]; reflexivity.
    + fold (memz k rest). reflexivity.
Qed.

Lemma updg_all {V} (f : V -> V) (Hf : forall v, f (f v) = f v) pending (m : amap V) :
  (forall k, In k (keys m) -> In k pending) ->
  fold_left (fun m g => updg m g f) pending m = map_vals f m.
Proof.
  intros Hall. rewrite updg_as_map by exact Hf. unfold map_vals. apply map_ext_in. intros [k v] Hin. cbn [fst snd].
  assert (M : memz k pending = true). { apply memz_In. apply Hall. unfold keys. apply in_map_iff. exists (k, v). auto. }
  rewrite M. reflexivity.
Qed.

Lemma add_lag_agree r cp : add_lag r cp = Some (add_lag_g r cp).
Proof.
  unfold add_lag, add_lag_g. destruct (cp_offsets cp) as [|o os]; [reflexivity|].
  destruct (somes r) as [|b0 bs]; [reflexivity|]. destruct (last (o :: os) None); reflexivity.
Qed.

Lemma add_lags_agree tl : forall cps i, add_lags tl i cps = Some (add_lags_g tl i cps).
Proof.
  induction cps as [|cp rest IH]; intros i; cbn [add_lags add_lags_g]; [reflexivity|].
  rewrite IH. destruct (nth_error tl i); [rewrite add_lag_agree|]; reflexivity.
Qed.

Lemma fetch_lags_agree broker : forall tops, fetch_topics_lags broker tops = Some (fetch_topics_lags_g broker tops).
Proof.
  induction tops as [|[t cps] rest IH]; cbn [fetch_topics_lags fetch_topics_lags_g map fst snd]; [reflexivity|].
  fold (fetch_topics_lags_g broker rest). rewrite IH. destruct (get broker t); [rewrite add_lags_agree|]; reflexivity.
Qed.

Lemma in_get_nodup {V} (m : amap V) k v : NoDup (keys m) -> In (k, v) m -> get m k = Some v.
Proof.
  induction m as [|[k0 v0] r IH]; intros Hn Hin; [destruct Hin|]. cbn in Hn. inversion Hn; subst. cbn.
  destruct Hin as [E|Hin].
  - inversion E; subst. rewrite Z.eqb_refl. reflexivity.
  - destruct (k0 =? k) eqn:E; [|apply IH; assumption]. apply Z.eqb_eq in E. subst k0. exfalso. apply H1.
    unfold keys. apply in_map_iff. exists (k, v). auto.
Qed.

Lemma get_in_list {V} (m : amap V) k v : get m k = Some v -> In (k, v) m.
Proof.
  induction m as [|[k0 v0] r IH]; cbn; [discriminate|]. destruct (k0 =? k) eqn:E.
  - intros H. inversion H; subst. apply Z.eqb_eq in E. subst. auto.
  - intros H. right. apply IH. exact H.
Qed.

Definition wf_state (st : state) : Prop := forall c cl, get st c = Some cl -> NoDup (keys (cl_consumer cl)).

(* listings are compared as sets (Go map iteration order) *)
Definition reply_equiv (a b : reply) : Prop :=
  match a, b with
  | RStrings l, RStrings l' => forall x, In x l <-> In x l'
  | _, _ => a = b
  end.

Lemma reply_equiv_refl a : reply_equiv a a.
Proof. destruct a; cbn; auto. intros x. tauto. Qed.

Section Refine.
  Variable cf : config.
  Variable now : Z.
  Variable prio : list Z.

  Notation rc := (run_cont cf now true prio).

  Lemma run_delt2 c t : forall pending st cl fuel,
    get st c = Some cl -> pending <> [] -> (forall g, In g pending -> get (cl_consumer cl) g <> None) ->
    (length pending < fuel)%nat ->
    rc fuel st (KDelT2 c t pending) =
    Some (set st c (mkCluster (remove (cl_broker cl) t) (fold_left (fun m g => updg m g (drop_topic t)) pending (cl_consumer cl))), RNone).
  Proof.
    induction pending as [|g rest IH]; intros st cl fuel Hg Hne Hall Hf; [congruence|].
    destruct fuel as [|fuel]; [cbn in Hf; lia|]. cbn [run_cont exec]. rewrite Hg.
    destruct (get (cl_consumer cl) g) as [grp|] eqn:Eg; [|exfalso; apply (Hall g); [left; reflexivity | exact Eg]].
    unfold set_consumer. destruct rest as [|g2 rest2].
    - destruct fuel as [|fuel]; [cbn in Hf; lia|]. cbn [run_cont exec]. rewrite get_set_eq. cbn [cl_broker cl_consumer fold_left].
      rewrite set_set. reflexivity.
    - rewrite (IH _ (mkCluster (cl_broker cl) (updg (cl_consumer cl) g (drop_topic t))) fuel).
      + cbn [cl_broker cl_consumer fold_left]. rewrite set_set. reflexivity.
      + apply get_set_eq.
      + discriminate.
      + intros g' Hin. cbn [cl_consumer]. apply get_updg_some. apply Hall. right. exact Hin.
      + cbn in Hf |- *. lia.
  Qed.

  Lemma run_fort2 c t : forall pending st cl acc fuel,
    get st c = Some cl -> pending <> [] -> (forall g, In g pending -> get (cl_consumer cl) g <> None) ->
    (length pending <= fuel)%nat ->
    rc fuel st (KForTopic2 c t pending acc) =
    Some (st, RStrings (acc ++ filter (fun g => match get (cl_consumer cl) g with Some grp => has_topic t grp | None => false end) pending)).
  Proof.
    induction pending as [|g rest IH]; intros st cl acc fuel Hg Hne Hall Hf; [congruence|].
    destruct fuel as [|fuel]; [cbn in Hf; lia|]. cbn [run_cont exec]. rewrite Hg.
    destruct (get (cl_consumer cl) g) as [grp|] eqn:Eg; [|exfalso; apply (Hall g); [left; reflexivity | exact Eg]].
    cbn [filter]. rewrite Eg. destruct rest as [|g2 rest2].
    - cbn [filter]. destruct (has_topic t grp); [reflexivity | rewrite app_nil_r; reflexivity].
    - rewrite (IH st cl _ fuel Hg ltac:(discriminate)); [|intros g' Hin; apply Hall; right; exact Hin | cbn in Hf |- *; lia].
      destruct (has_topic t grp); [rewrite <- app_assoc|]; reflexivity.
  Qed.

  Lemma gbo_broker_only cl cons' t p : get_broker_offset (mkCluster (cl_broker cl) cons') t p = get_broker_offset cl t p.
  Proof. reflexivity. Qed.

  (* the refinement: builder lag's sequential step is what the sectioned handler does when nobody interrupts it *)
  Theorem run_alone_refines_proof st r :
    (1 <= cf_intervals cf)%nat ->
    wf_state st ->
    exists fuel0, forall fuel, (fuel0 <= fuel)%nat ->
      match Storage.step cf now st r with
      | Done st' rep => exists rep', run_alone cf now true prio fuel st r = Some (st', rep') /\ reply_equiv rep rep'
      | Crashed => run_alone cf now true prio fuel st r = None
      end.
  Proof.
    intros HN Hwf. destruct r; cbn [Storage.step].
    - (* SetBrokerOffset *)
      exists 1%nat. intros [|fuel] Hf; [lia|]. unfold run_alone. cbn [start].
      destruct (get st c) as [cl|] eqn:Eg.
      + cbn [run_cont exec]. replace (Nat.eqb (cf_intervals cf) O) with false by (symmetry; apply Nat.eqb_neq; lia).
        destruct (add_broker_offset cf st c t p cnt off) as [st' rep|] eqn:E; [|reflexivity].
        exists rep. split; [reflexivity | apply reply_equiv_refl].
      + unfold add_broker_offset. rewrite Eg. exists RNone. split; reflexivity.
    - (* SetConsumerOffset *)
      exists 3%nat. intros [|[|[|fuel]]] Hf; try lia. unfold run_alone, add_consumer_offset. cbn [start].
      destruct (get st c) as [cl|] eqn:Eg; [|exists RNone; split; reflexivity].
      destruct (too_old cf now ts); [exists RNone; split; reflexivity|].
      destruct (negb (cf_accept cf g)); [exists RNone; split; reflexivity|].
      cbn [run_cont exec]. rewrite Eg. destruct (get_broker_offset cl t p) as [boff cnt] eqn:Eb.
      destruct (cnt =? 0); [exists RNone; split; reflexivity|].
      cbn [run_cont exec]. rewrite Eg. unfold set_consumer. cbn [run_cont exec]. rewrite get_set_eq. cbn [cl_consumer cl_broker].
      unfold ensure_group. rewrite get_set_eq. unfold set_consumer. cbn [cl_consumer cl_broker]. rewrite !set_set. unfold place_commit.
      destruct (get (cl_consumer cl) g) as [grp|];
        match goal with |- context [ring_step ?a ?b ?c ?d] => destruct (ring_step a b c d) as [w' app] eqn:Er end;
        exists RNone; split; reflexivity.
    - (* SetConsumerOwner *)
      exists 3%nat. intros [|[|[|fuel]]] Hf; try lia. unfold run_alone, add_consumer_owner. cbn [start].
      destruct (get st c) as [cl|] eqn:Eg; [|exists RNone; split; reflexivity].
      destruct (negb (cf_accept cf g)); [exists RNone; split; reflexivity|].
      cbn [run_cont exec]. rewrite Eg. unfold set_consumer. cbn [run_cont exec]. rewrite get_set_eq.
      rewrite gbo_broker_only. destruct (get_broker_offset cl t p) as [boff cnt] eqn:Eb.
      destruct (cnt =? 0).
      * exists RNone. split; [|reflexivity]. unfold ensure_group. reflexivity.
      * cbn [run_cont exec]. rewrite get_set_eq. cbn [cl_consumer cl_broker]. unfold ensure_group. rewrite get_set_eq.
        unfold set_consumer. cbn [cl_consumer cl_broker]. rewrite !set_set.
        exists RNone. split; [|reflexivity]. unfold place_owner. destruct (get (cl_consumer cl) g); reflexivity.
    - (* ClearConsumerOwners *)
      exists 2%nat. intros [|[|fuel]] Hf; try lia. unfold run_alone, clear_consumer_owners. cbn [start].
      destruct (get st c) as [cl|] eqn:Eg; [|exists RNone; split; reflexivity].
      destruct (negb (cf_accept cf g)); [exists RNone; split; reflexivity|].
      cbn [run_cont exec]. rewrite Eg. destruct (get (cl_consumer cl) g) as [grp|] eqn:Egg; [|exists RNone; split; reflexivity].
      cbn [run_cont exec]. rewrite Eg, Egg. exists RNone. split; reflexivity.
    - (* DeleteTopic *)
      unfold delete_topic, run_alone. cbn [start]. destruct (get st c) as [cl|] eqn:Eg; [|exists 0%nat; intros; exists RNone; split; reflexivity].
      exists (3 + length (visit_order prio (keys (cl_consumer cl))))%nat. intros fuel Hf.
      destruct fuel as [|fuel]; [lia|]. cbn [run_cont exec]. rewrite Eg.
      destruct (visit_order prio (keys (cl_consumer cl))) as [|g0 ks] eqn:Ev.
      + destruct fuel as [|fuel]; [cbn in Hf; lia|]. cbn [run_cont exec]. rewrite Eg. exists RNone. split; [|reflexivity].
        assert (K : cl_consumer cl = []).
        { destruct (cl_consumer cl) as [|[k v] r] eqn:Ec; [reflexivity|]. exfalso.
          assert (In k (visit_order prio (keys ((k, v) :: r)))) by (apply visit_order_all; cbn; auto). rewrite Ev in H. destruct H. }
        rewrite K. reflexivity.
      + rewrite (run_delt2 c t (g0 :: ks) st cl fuel Eg ltac:(discriminate)).
        * exists RNone. split; [|reflexivity]. rewrite updg_all; [reflexivity | apply drop_topic_idem |].
          intros k Hk. rewrite <- Ev. apply visit_order_all. exact Hk.
        * intros g Hin. apply in_keys_get. apply (visit_order_sub prio). rewrite Ev. exact Hin.
        * cbn in Hf |- *. lia.
    - (* DeleteGroup *)
      exists 2%nat. intros [|[|fuel]] Hf; try lia. unfold run_alone, delete_group. cbn [start].
      destruct (get st c) as [cl|] eqn:Eg; [|exists RNone; split; reflexivity].
      cbn [run_cont exec]. rewrite Eg. destruct (get (cl_consumer cl) g) as [grp|] eqn:Egg; [|exists RNone; split; reflexivity].
      destruct (t =? 0); [exists RNone; split; reflexivity|].
      cbn [run_cont exec]. rewrite Eg, Egg. destruct (remove (g_topics grp) t); [destruct (get (g_topics grp) t)|]; exists RNone; split; reflexivity.
    - (* FetchClusters *)
      exists 0%nat. intros fuel _. unfold run_alone. cbn [start]. eexists. split; [reflexivity | apply reply_equiv_refl].
    - (* FetchConsumers *)
      exists 1%nat. intros [|fuel] Hf; [lia|]. unfold run_alone. cbn [start].
      destruct (get st c) as [cl|] eqn:Eg; [|exists RNil; split; reflexivity].
      cbn [run_cont exec]. rewrite Eg. eexists. split; [reflexivity | apply reply_equiv_refl].
    - (* FetchTopics *)
      exists 1%nat. intros [|fuel] Hf; [lia|]. unfold run_alone. cbn [start].
      destruct (get st c) as [cl|] eqn:Eg; [|exists RNil; split; reflexivity].
      cbn [run_cont exec]. rewrite Eg. eexists. split; [reflexivity | apply reply_equiv_refl].
    - (* FetchConsumer *)
      exists 3%nat. intros [|[|[|fuel]]] Hf; try lia. unfold run_alone, fetch_consumer. cbn [start].
      destruct (get st c) as [cl|] eqn:Eg; [|exists RNil; split; reflexivity].
      cbn [run_cont exec]. rewrite Eg. destruct (get (cl_consumer cl) g) as [grp|] eqn:Egg; [|exists RNil; split; reflexivity].
      destruct (expired cf now (g_last grp)).
      + cbn [run_cont exec]. rewrite Eg. exists RNil. split; reflexivity.
      + cbn [run_cont exec]. rewrite Eg, Egg. cbn [run_cont exec]. rewrite Eg.
        fold (snapshot_group grp). rewrite fetch_lags_agree. eexists. split; [reflexivity | reflexivity].
    - (* FetchTopic *)
      exists 1%nat. intros [|fuel] Hf; [lia|]. unfold run_alone. cbn [start].
      destruct (get st c) as [cl|] eqn:Eg.
      + cbn [run_cont exec]. destruct (fetch_topic st c t) as [st' rep|] eqn:E; [|exfalso; exact (fetch_topic_no_crash _ _ _ E)].
        exists rep. split; [reflexivity | apply reply_equiv_refl].
      + unfold fetch_topic. rewrite Eg. exists RNil. split; reflexivity.
    - (* FetchConsumersForTopic *)
      unfold fetch_consumers_for_topic, run_alone. cbn [start]. destruct (get st c) as [cl|] eqn:Eg; [|exists 0%nat; intros; exists RNil; split; reflexivity].
      exists (2 + length (visit_order prio (keys (cl_consumer cl))))%nat. intros fuel Hf.
      destruct fuel as [|fuel]; [lia|]. cbn [run_cont exec]. rewrite Eg.
      pose proof (Hwf c cl Eg) as Hnd.
      destruct (visit_order prio (keys (cl_consumer cl))) as [|g0 ks] eqn:Ev.
      + eexists. split; [reflexivity|]. cbn [reply_equiv]. intros x. split; [|intros []]. intros Hin. exfalso.
        apply in_map_iff in Hin. destruct Hin as ([k v] & <- & Hf2). apply filter_In in Hf2. destruct Hf2 as [Hin _].
        assert (In k (visit_order prio (keys (cl_consumer cl)))) by (apply visit_order_all; unfold keys; apply in_map_iff; exists (k, v); auto).
        rewrite Ev in H. destruct H.
      + rewrite (run_fort2 c t (g0 :: ks) st cl [] fuel Eg ltac:(discriminate)).
        * eexists. split; [reflexivity|]. cbn [reply_equiv app]. intros x. rewrite <- Ev. split.
          -- intros Hin. apply in_map_iff in Hin. destruct Hin as ([k v] & <- & Hf2). apply filter_In in Hf2. destruct Hf2 as [Hin Hhas].
             cbn [fst snd] in *. apply filter_In. split.
             ++ apply visit_order_all. unfold keys. apply in_map_iff. exists (k, v). auto.
             ++ rewrite (in_get_nodup _ _ _ Hnd Hin). unfold has_topic. exact Hhas.
          -- intros Hin. apply filter_In in Hin. destruct Hin as [_ Hhas].
             destruct (get (cl_consumer cl) x) as [grp|] eqn:Egx; [|discriminate].
             apply in_map_iff. exists (x, grp). split; [reflexivity|]. apply filter_In. split; [apply get_in_list; exact Egx|].
             cbn [snd]. unfold has_topic in Hhas. exact Hhas.
        * intros g Hin. apply in_keys_get. apply (visit_order_sub prio). rewrite Ev. exact Hin.
        * cbn in Hf |- *. lia.
  Qed.
End Refine.

(* ---------------------------------------------------------------------------------------------- *)
(* Part 3: witnesses                                                                               *)
(* ---------------------------------------------------------------------------------------------- *)
Definition w_cf : config := mkConfig 2 100000 0 (fun _ => true).
Definition w_now : Z := 1700000000.

Definition pre_state (clusters : list Z) (pre : list req) : state :=
  fold_left (fun st r => match run_alone w_cf w_now true [] 50 st r with Some (st', _) => st' | None => st end)
            pre (init_state clusters).

(* corpus/C08 case 1: deleteTopic (consumer half) ; commit ; deleteTopic (broker half) ; the topic comes back with
   one partition ; fetchConsumer *)
Definition w_pre : list req :=
  [SetBrokerOffset 1 1 0 2 1000; SetBrokerOffset 1 1 1 2 1001; SetConsumerOffset 1 1 1 1 990 101 (w_now * 1000)].
Definition w_queues : list (list req) :=
  [[DeleteTopic 1 1]; [SetConsumerOffset 1 1 1 1 995 102 (w_now * 1000 + 1000); FetchConsumer 1 1]; [SetBrokerOffset 1 1 0 1 1100]].
Definition w_sched : list nat := [0; 0; 0; 1; 1; 1; 1; 0; 2; 2; 1; 1; 1; 1]%nat.

Lemma w_queues_wf : wf_queues w_queues.
Proof.
  split.
  - intros i j qi qj ri rj c g Hi Hj Hri Hrj Gi Gj.
    destruct i as [|[|[|i]]]; cbn in Hi; try (destruct i; discriminate); inversion Hi; subst qi;
      cbn in Hri; repeat (destruct Hri as [<-|Hri]); try destruct Hri; cbn in Gi; try discriminate;
      destruct j as [|[|[|j]]]; cbn in Hj; try (destruct j; discriminate); inversion Hj; subst qj;
      cbn in Hrj; repeat (destruct Hrj as [<-|Hrj]); try destruct Hrj; cbn in Gj; try discriminate; reflexivity.
  - intros q r Hq Hr. cbn in Hq. repeat (destruct Hq as [<-|Hq]); try destruct Hq;
      cbn in Hr; repeat (destruct Hr as [<-|Hr]); try destruct Hr; cbn; try exact I; lia.
Qed.

(* before commit 54faa50 the schedule crashes the process; after it the same schedule runs to the end *)
Lemma crash_before_fix :
  g_crashed (fst (sched_run w_cf w_now false (init_g (pre_state [1] w_pre) w_queues []) w_sched)) = true /\
  g_crashed (fst (sched_run w_cf w_now true (init_g (pre_state [1] w_pre) w_queues []) w_sched)) = false.
Proof. vm_compute. split; reflexivity. Qed.

(* intervals = 0 (Configure accepts it): the first broker offset panics (ring.New(0) is nil) *)
Lemma crash_at_zero_intervals :
  wf_queues [[SetBrokerOffset 1 1 0 1 50]] /\
  g_crashed (fst (sched_run (mkConfig 0 100000 0 (fun _ => true)) w_now true
                            (init_g (init_state [1]) [[SetBrokerOffset 1 1 0 1 50]] []) [0; 0]%nat)) = true.
Proof.
  split; [|vm_compute; reflexivity]. split.
  - intros i j qi qj ri rj c g Hi Hj Hri Hrj Gi Gj. destruct i as [|i]; [|destruct i; discriminate].
    cbn in Hi. inversion Hi; subst. destruct Hri as [<-|[]]. discriminate.
  - intros q r [<-|[]] [<-|[]]. cbn. lia.
Qed.

(* corpus/C08 case 3: the commit reads the partition count, the whole deleteTopic runs, the commit then re-creates the
   group's entry for the deleted topic.  No sequential order of the two requests ends like that. *)
Definition l_pre : list req :=
  [SetBrokerOffset 1 1 0 2 1000; SetBrokerOffset 1 1 1 2 1001; SetConsumerOffset 1 1 1 1 990 101 (w_now * 1000)].
Definition l_commit : req := SetConsumerOffset 1 1 1 1 995 102 (w_now * 1000 + 1000).
Definition l_queues : list (list req) := [[l_commit]; [DeleteTopic 1 1]].
Definition l_sched : list nat := [0; 0; 1; 1; 1; 1; 0; 0]%nat.

Definition has_topic_in (st : state) (c g t : Z) : bool :=
  match group_state st c g with Some grp => has_topic t grp | None => false end.

Definition seq2 (r1 r2 : req) : option state :=
  match Storage.run w_cf (pre_state [1] l_pre) [(w_now, r1); (w_now, r2)] with Some (st, _) => Some st | None => None end.

Lemma not_linearisable :
  let fin := g_st (fst (sched_run w_cf w_now true (init_g (pre_state [1] l_pre) l_queues []) l_sched)) in
  unfinished (fst (sched_run w_cf w_now true (init_g (pre_state [1] l_pre) l_queues []) l_sched)) = false /\
  has_topic_in fin 1 1 1 = true /\
  option_map (fun st => has_topic_in st 1 1 1) (seq2 l_commit (DeleteTopic 1 1)) = Some false /\
  option_map (fun st => has_topic_in st 1 1 1) (seq2 (DeleteTopic 1 1) l_commit) = Some false.
Proof. vm_compute. repeat split; reflexivity. Qed.
