From Burrow Require Import Int64 Wire WireEnc.
Example placeholder_C06 : True. Proof. exact I. Qed.
