(* C06 - Offsets-topic decoding never crashes or balloons on any bytes.
   Statements only; proofs are in WireProofs.v and WireRoundtripProofs.v.  Model: Wire.v (process_message = the code in
   /repo after the repairs eb5a1a8, 08882db and the second decoder repair), reference encoders: WireEnc.v.  The model is tied to
   core/internal/consumer/kafka_client.go by the probe of checks/c06.py on every run (hostile byte strings through the
   real processConsumerOffsetsMessage in a child process, and through the extracted model). *)
From Coq Require Import ZArith List Bool.
From Burrow Require Import Int64 Wire WireEnc WireProofs WireRoundtripProofs.
Import ListNotations.
Open Scope Z_scope.

(* For every key and value (any lists of integers, in particular every byte string of every length), every allow / deny
   decision and every message offset, processing finishes: no Go panic (makeslice: len out of range), and no loop that
   outruns its input (the model's fuel, which is the number of bytes left plus one, is never exhausted). *)
Theorem C06_process_never_crashes :
  forall (accept : list Z -> bool) (key value : list Z) (o : Z),
    exists rs al, process_message accept key value o = Done rs al.
Proof. exact process_never_crashes. Qed.
Print Assumptions C06_process_never_crashes.

(* MEMORY.  What is PROVED is about the sizes the decoder itself asks for: the model records, in bytes, every allocation
   whose size depends on the message (a string of n bytes: n; a slice of n partition ids: 4n; the assignment map is not
   pre-sized from the message at all since the second repair).  These add up to at most the message size - an addend,
   not a factor - because each of them is paid for by bytes that are present and consumed; no number in the message
   alone decides an allocation.
   What is MEASURED, not proved (checks/c06.py, on the real decoder, runtime.MemStats.TotalAlloc): the footprint of the Go
   runtime - map growth as topics are actually decoded, the few bytes encoding/binary allocates per integer read, one
   StorageRequest and one timer per request emitted, logger fields (nop logger and a real zap core) - against
   size + 64 KiB for messages up to 4 KiB and, for every size up to 1 MiB, against
   64 KiB + 32 x (bytes the decoder actually consumed) + 1 KiB x (requests emitted).
   NEITHER proved nor demanded: a bound independent of the content actually decoded.  A genuine large group-metadata
   message yields one request (and timer) per partition it names and one map entry per topic: cumulative allocation is
   proportional to what it contains.  The property's "within tens of kilobytes, never megabytes" is read as: beyond
   the message size, tens of kilobytes plus a constant per item actually decoded / request actually emitted - never
   anything for content that is merely announced (see design_notes/C06.md). *)
Theorem C06_process_alloc_bounded :
  forall (accept : list Z -> bool) (key value : list Z) (o : Z) rs al,
    process_message accept key value o = Done rs al ->
    0 <= sumz al <= blen key + blen value.
Proof. exact process_alloc_bounded. Qed.
Print Assumptions C06_process_alloc_bounded.

(* Locally: what decoding one group member asks for is at most the number of bytes it consumed. *)
Theorem C06_member_alloc_le_consumed :
  forall vv b,
    match decode_member true vv b with
    | DOk _ r al => 0 <= sumz al <= blen b - blen r
    | DErr al => 0 <= sumz al <= blen b
    | DCrash _ => False
    end.
Proof. exact member_alloc_le_consumed. Qed.
Print Assumptions C06_member_alloc_le_consumed.

(* (the special case for an offset commit, key version 0 or 1) *)
Theorem C06_commit_alloc_bounded :
  forall (accept : list Z -> bool) (key value : list Z) (o : Z) rs al,
    is_commit_key key ->
    process_message accept key value o = Done rs al ->
    0 <= sumz al <= blen key + blen value.
Proof. exact commit_alloc_bounded. Qed.
Print Assumptions C06_commit_alloc_bounded.

(* An offset-commit message produces at most one request, and nothing but a consumer-offset update. *)
Theorem C06_commit_at_most_one :
  forall (accept : list Z -> bool) key value o rs al,
    is_commit_key key ->
    process_message accept key value o = Done rs al ->
    (length rs <= 1)%nat /\ Forall is_offset_update rs.
Proof. exact commit_at_most_one. Qed.
Print Assumptions C06_commit_at_most_one.

(* If an offset-commit message (key and value any byte strings) produces a request r, then the key begins with a complete
   well-formed offset key and the value begins with every field Burrow reads of a well-formed value of version 0, 1 or 3
   (enc_offset_value_read: all of enc_offset_value but the v1 expire timestamp, which Burrow does not read); every string
   is completely present with a possible length (str_ok: null or 0..32767 bytes), every integer completely present; the
   reader's lists accept the group; and r carries exactly those fields and the message's own offset. *)
Theorem C06_commit_update_wellformed :
  forall (accept : list Z -> bool) key value o rs al r,
    bytes key -> bytes value -> is_commit_key key ->
    process_message accept key value o = Done rs al -> In r rs ->
    exists kv g t p vv v restk restv,
      (kv = 0 \/ kv = 1) /\ (vv = 0 \/ vv = 1 \/ vv = 3) /\
      str_ok g /\ str_ok t /\ in_i32 p /\ offset_value_ok v /\
      key = enc_offset_key kv g t p ++ restk /\
      value = enc_offset_value_read vv v ++ restv /\
      accept (str_val g) = true /\
      r = SetConsumerOffset (str_val g) (str_val t) p (ov_offset v) (ov_commit_ts v) o.
Proof. exact commit_update_wellformed. Qed.
Print Assumptions C06_commit_update_wellformed.

(* The property's last sentence: an offset commit in which any field Burrow reads is cut short or carries an impossible
   length - i.e. whose key and value do not begin with a well-formed key and the read fields of a well-formed value -
   is skipped without producing a storage update. *)
Theorem C06_commit_malformed_skipped :
  forall (accept : list Z -> bool) key value o rs al,
    bytes key -> bytes value -> is_commit_key key ->
    ~ commit_wellformed accept key value ->
    process_message accept key value o = Done rs al -> rs = [].
Proof. exact commit_malformed_skipped. Qed.
Print Assumptions C06_commit_malformed_skipped.

(* enc_offset_value_read is enc_offset_value without its last optional field *)
Theorem C06_read_fields_are_a_prefix :
  forall vv v, enc_offset_value vv v = enc_offset_value_read vv v ++ (if vv =? 1 then enc_i64 (ov_expire_ts v) else []).
Proof. exact enc_offset_value_split. Qed.
Print Assumptions C06_read_fields_are_a_prefix.

(* The code before the repair eb5a1a8 (finding F1), on the same model with the bounds switched off: a string length below
   -1 panicked in make, and a topic count read from the wire was an allocation size.  Kept as documentation. *)
Theorem C06_process_crash_unrepaired_refuted :
  exists key value, process_message_unrepaired (fun _ => true) key value 0 = Crash MakeSliceLen.
Proof. exact process_crash_unrepaired_refuted. Qed.
Print Assumptions C06_process_crash_unrepaired_refuted.

Theorem C06_process_alloc_unrepaired_refuted :
  exists key value rs al,
    process_message_unrepaired (fun _ => true) key value 0 = Done rs al /\
    sumz al > 1000000 * (blen key + blen value).
Proof. exact process_alloc_unrepaired_refuted. Qed.
Print Assumptions C06_process_alloc_unrepaired_refuted.

(* The first repair clamped the map size hint to min(numTopics, bytes left / 6): still 48 nominal (76 measured) bytes of
   map per 6 bytes of message for topics that are only announced.  Witness: 2^31-1 topics announced, first name of
   length -2, 600 zero bytes: nothing decoded, 4800 bytes asked for 606 bytes of input.  On the real code before the
   second repair a 128 KiB value of this shape allocated 1.58 MB and a 1 MB value 12.6 MB, with no request produced. *)
Theorem C06_assignment_hint_clamped_refuted :
  exists b al, decode_assignment_clamped b = DErr al /\ blen b = 606 /\ sumz al = 4800.
Proof. exact assignment_hint_clamped_refuted. Qed.
Print Assumptions C06_assignment_hint_clamped_refuted.

(* ---- non-vacuity ---- *)

(* the witnesses of F1 on the repaired model: skipped, nothing allocated beyond the message *)
Example C06_ex_negative_length_skipped :
  process_message (fun _ => true) [0; 0; 255; 254] [] 0 = Done [] [].
Proof. vm_compute. reflexivity. Qed.

Example C06_ex_huge_topic_count_bounded :
  process_message (fun _ => true) [0; 2; 0; 1; 103]
    ([0; 0; 0; 8; 99; 111; 110; 115; 117; 109; 101; 114; 0; 0; 0; 0; 255; 255; 255; 255; 0; 0; 0; 1]
     ++ [255; 255; 255; 255; 255; 255; 0; 0; 0; 0; 0; 0; 0; 0; 0; 0; 0; 6; 0; 0; 127; 255; 255; 255]) 0
  = Done [] [1; 8].
Proof. vm_compute. reflexivity. Qed.

(* the unit test's commit is a commit key, consists of bytes, is well-formed and yields its update ... *)
Example C06_ex_commit_key : is_commit_key lit_okey1.
Proof. exists 1, (skipn 2 lit_okey1). split; [vm_compute; reflexivity | right; reflexivity]. Qed.

Example C06_ex_bytes : bytes lit_okey1 /\ bytes lit_oval0.
Proof. split; repeat constructor; unfold is_byte; cbn; try discriminate; reflexivity. Qed.

Example C06_ex_wellformed : commit_wellformed (fun _ => true) lit_okey1 lit_oval0.
Proof. exact commit_wellformed_example. Qed.

Example C06_ex_update :
  process_message (fun _ => true) lit_okey1 lit_oval0 7
  = Done [SetConsumerOffset b_testgroup b_testtopic 11 8372 1637 7] [9; 9; 8].
Proof. vm_compute. reflexivity. Qed.

(* ... one byte short, or with an impossible metadata length, it yields nothing *)
Example C06_ex_truncated_skipped :
  process_message (fun _ => true) lit_okey1 (removelast lit_oval0) 7 = Done [] [9; 9; 8].
Proof. exact commit_truncated_example. Qed.

Example C06_ex_impossible_length_skipped :
  process_message (fun _ => true) lit_okey1
    [0; 0; 0; 0; 0; 0; 0; 0; 32; 180; 255; 248; 116; 101; 115; 116; 100; 97; 116; 97; 0; 0; 0; 0; 0; 0; 6; 101] 7
  = Done [] [9; 9].
Proof. vm_compute. reflexivity. Qed.
