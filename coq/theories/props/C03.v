From Burrow Require Import Int64 Int64Proofs Eval.
Example placeholder_C03 : True. Proof. exact I. Qed.
