(* C03 — Partition status follows the documented lag rules.
   Statements only; proofs are in EvalProofs.v.  Model: Eval.v (tied to
   core/internal/evaluator/caching.go by the probe of checks/c03.py on every run). *)
From Coq Require Import ZArith List.
From Burrow Require Import Int64 F32 Eval EvalSpec EvalProofs.
From Coq Require Import Reals.
From Flocq Require Import Core IEEE754.Binary IEEE754.Bits.
From Burrow Require Import F32Proofs EvalProofs EvalCompleteProofs.
Import ListNotations.
Open Scope Z_scope.

(* For every non-empty window, broker history, lag, allowed lag and clock value (inside the range
   where Go's int64 stop-rule arithmetic cannot wrap) the computed status is the one the documented
   decision list yields, and that list yields exactly one status. *)
Theorem C03_status_is_documented_procedure :
  forall offs brokers cur now allowed s,
    offs <> [] -> no_overflow offs now ->
    (calc_status (map Some offs) brokers cur now allowed = Ok s <-> Spec offs brokers cur now allowed s).
Proof. exact calc_status_documented. Qed.
Print Assumptions C03_status_is_documented_procedure.

Theorem C03_spec_deterministic :
  forall offs brokers cur now allowed s1 s2,
    Spec offs brokers cur now allowed s1 -> Spec offs brokers cur now allowed s2 -> s1 = s2.
Proof. exact spec_deterministic. Qed.
Print Assumptions C03_spec_deterministic.

Theorem C03_within_allowed_lag_is_ok :
  forall offs brokers cur now allowed,
    cur <= allowed -> calc_status offs brokers cur now allowed = Ok StOK.
Proof. exact within_allowed_is_ok. Qed.
Print Assumptions C03_within_allowed_lag_is_ok.

Theorem C03_shift_offsets :
  forall k offs brokers cur now allowed,
    calc_status_some (shift_offsets k offs) (map (fun b => b + k) brokers) cur now allowed
    = calc_status_some offs brokers cur now allowed.
Proof. exact shift_offsets_invariant. Qed.
Print Assumptions C03_shift_offsets.

Theorem C03_shift_times :
  forall k offs brokers cur now allowed,
    no_overflow offs now -> no_overflow (shift_times k offs) (now + k) ->
    calc_status_some (shift_times k offs) brokers cur (now + k) allowed
    = calc_status_some offs brokers cur now allowed.
Proof. exact shift_times_invariant. Qed.
Print Assumptions C03_shift_times.

(* evaluatePartitionStatus on a window with b unfilled slots followed by commits: the completeness
   gate decides between the rule procedure and OK; first/last commit are reported. *)
Theorem C03_partition_gate :
  forall b c0 cs p minimum allowed now,
    cp_offsets p = repeat None b ++ map Some (c0 :: cs) ->
    eval_partition p minimum allowed now =
    Ok (if f32_ge (part_complete b (S (length cs))) minimum
        then calc_status_some (c0 :: cs) (cp_brokers p) (cp_lag p) now allowed else StOK,
        Some c0, Some (last (c0 :: cs) c0), part_complete b (S (length cs))).
Proof. exact eval_partition_shape. Qed.
Print Assumptions C03_partition_gate.

Theorem C03_incomplete_is_ok :
  forall b c0 cs p minimum allowed now,
    cp_offsets p = repeat None b ++ map Some (c0 :: cs) ->
    f32_ge (part_complete b (S (length cs))) minimum = false ->
    exists st en c, eval_partition p minimum allowed now = Ok (StOK, st, en, c).
Proof. exact incomplete_is_ok. Qed.
Print Assumptions C03_incomplete_is_ok.

(* every window of the shape storage reports (unfilled slots only at the front) is evaluated without dereferencing a
   nil entry, whatever the current lag *)
Theorem C03_no_nil_dereference :
  forall b cs p minimum allowed now,
    cp_offsets p = repeat None b ++ map Some cs ->
    exists r, eval_partition p minimum allowed now = Ok r.
Proof. exact eval_partition_no_crash. Qed.
Print Assumptions C03_no_nil_dereference.

(* a window without any commit (partition known only through an owner update) is empty: OK, no first/last commit,
   completeness 0/N - never "complete" (finding F4, repaired by /repo commit 21f3585) *)
Theorem C03_window_without_commits :
  forall b p minimum allowed now,
    cp_offsets p = repeat None b ->
    eval_partition p minimum allowed now =
    Ok (StOK, None, None,
        match b with O => f32_zero | _ => f32_div (f32_of_int 0) (f32_of_int (Z.of_nat b)) end).
Proof. exact eval_partition_all_nil. Qed.
Print Assumptions C03_window_without_commits.

(* ---- the completeness gate in real numbers (proofs: F32Proofs.v, EvalCompleteProofs.v) ---- *)

(* Complete >= minimum-complete is the comparison of the real values: minimum <= (filled/slots rounded to binary32) *)
Theorem C03_gate_is_real_comparison :
  forall b k minimum,
    (0 < b + k)%nat -> Z.of_nat (b + k) <= 2 ^ 24 -> is_finite 24 128 minimum = true ->
    (f32_ge (part_complete b k) minimum = true <->
     (B2R 24 128 minimum <=
      round radix2 (FLT_exp (-149) 24) ZnearestE (IZR (Z.of_nat k) / IZR (Z.of_nat (b + k))))%R).
Proof. exact gate_is_real_comparison. Qed.
Print Assumptions C03_gate_is_real_comparison.

(* a full window passes the gate exactly when minimum <= 1 *)
Theorem C03_gate_full_window :
  forall k minimum, is_finite 24 128 minimum = true ->
    (f32_ge (part_complete 0 k) minimum = true <-> (B2R 24 128 minimum <= 1)%R).
Proof. exact gate_full_window. Qed.
Print Assumptions C03_gate_full_window.

(* a NaN threshold closes the gate *)
Theorem C03_gate_nan_minimum :
  forall b k minimum, is_nan 24 128 minimum = true -> f32_ge (part_complete b k) minimum = false.
Proof. exact gate_nan_minimum. Qed.
Print Assumptions C03_gate_nan_minimum.

(* evaluatePartitionStatus applies the rules exactly when minimum <= rounded(filled/slots), else reports OK *)
Theorem C03_partition_gate_real :
  forall b c0 cs p minimum allowed now,
    cp_offsets p = repeat None b ++ map Some (c0 :: cs) ->
    Z.of_nat (b + S (length cs)) <= 2 ^ 24 -> is_finite 24 128 minimum = true ->
    let q := round radix2 (FLT_exp (-149) 24) ZnearestE
               (IZR (Z.of_nat (S (length cs))) / IZR (Z.of_nat (b + S (length cs)))) in
    ((B2R 24 128 minimum <= q)%R ->
       eval_partition p minimum allowed now =
       Ok (calc_status_some (c0 :: cs) (cp_brokers p) (cp_lag p) now allowed,
           Some c0, Some (last (c0 :: cs) c0), part_complete b (S (length cs)))) /\
    ((q < B2R 24 128 minimum)%R ->
       eval_partition p minimum allowed now =
       Ok (StOK, Some c0, Some (last (c0 :: cs) c0), part_complete b (S (length cs)))).
Proof. exact partition_gate_real. Qed.
Print Assumptions C03_partition_gate_real.

(* non-vacuity: threshold 0.75 (0x3F400000): 3 of 4 slots passes, 2 of 3 does not *)
Example C03_gate_witness :
  f32_ge (part_complete 1 3) (f32_of_bits 0x3F400000) = true /\
  f32_ge (part_complete 1 2) (f32_of_bits 0x3F400000) = false /\
  is_finite 24 128 (f32_of_bits 0x3F400000) = true.
Proof. exact ex_gate. Qed.
