(* C03 — Partition status follows the documented lag rules.
   Statements only; proofs are in EvalProofs.v.  Model: Eval.v (tied to
   core/internal/evaluator/caching.go by the probe of checks/c03.py on every run). *)
From Coq Require Import ZArith List.
From Burrow Require Import Int64 F32 Eval EvalSpec EvalProofs.
From Coq Require Import Reals.
From Flocq Require Import Core IEEE754.Binary IEEE754.Bits.
From Burrow Require Import F32Proofs EvalProofs EvalCompleteProofs.
Import ListNotations.
Open Scope Z_scope.

(* For every non-empty window, broker history, lag, allowed lag and clock value for which the three int64
   operations of the stop rule do not wrap (`no_wrap`: now*1000, last - first and now*1000 - last fit an int64 --
   the sharp guard; see C03_guard_from_storage for who discharges it and C03_outside_guard_refuted for what
   happens outside) the computed status is the one the documented decision list yields, and that list yields
   exactly one status.  `Spec` (EvalSpec.v) is declarative: integers, quantifiers over the window, no loops.
   REWIND is "some backward step p -> c such that no commit from c on got back to p's offset" -- ANY backward
   step since the repair recorded below (before it, only the first one of the window). *)
Theorem C03_status_is_documented_procedure :
  forall offs brokers cur now allowed s,
    offs <> [] -> no_wrap offs now ->
    (calc_status (map Some offs) brokers cur now allowed = Ok s <-> Spec offs brokers cur now allowed s).
Proof. exact calc_status_documented. Qed.
Print Assumptions C03_status_is_documented_procedure.

Theorem C03_spec_deterministic :
  forall offs brokers cur now allowed s1 s2,
    Spec offs brokers cur now allowed s1 -> Spec offs brokers cur now allowed s2 -> s1 = s2.
Proof. exact spec_deterministic. Qed.
Print Assumptions C03_spec_deterministic.

Theorem C03_within_allowed_lag_is_ok :
  forall offs brokers cur now allowed,
    cur <= allowed -> calc_status offs brokers cur now allowed = Ok StOK.
Proof. exact within_allowed_is_ok. Qed.
Print Assumptions C03_within_allowed_lag_is_ok.

Theorem C03_shift_offsets :
  forall k offs brokers cur now allowed,
    calc_status_some (shift_offsets k offs) (map (fun b => b + k) brokers) cur now allowed
    = calc_status_some offs brokers cur now allowed.
Proof. exact shift_offsets_invariant. Qed.
Print Assumptions C03_shift_offsets.

Theorem C03_shift_times :
  forall k offs brokers cur now allowed,
    no_wrap offs now -> no_wrap (shift_times k offs) (now + k) ->
    calc_status_some (shift_times k offs) brokers cur (now + k) allowed
    = calc_status_some offs brokers cur now allowed.
Proof. exact shift_times_invariant. Qed.
Print Assumptions C03_shift_times.

(* Who discharges the guard.  In a running Burrow the evaluator's clock is time.Now().Unix() (0 <= now, and
   now*1000 fits an int64 until the year 292 million) and every stored commit timestamp is an int64 that is not
   negative: storage admits a commit only if Timestamp >= (clock - expire-group)*1000 (inmemory.go, C09's
   too-old-commit theorem) and the clock is past expire-group.  That is `storage_guard`, and it implies the sharp
   guard; so does the coarse guard of the first version of this file (|now| < 2^51, |ts| < 2^61). *)
Theorem C03_guard_from_storage :
  forall offs now, storage_guard offs now -> no_wrap offs now.
Proof. exact storage_guard_no_wrap. Qed.
Print Assumptions C03_guard_from_storage.

Theorem C03_guard_from_coarse_bounds :
  forall offs now, no_overflow offs now -> no_wrap offs now.
Proof. exact no_overflow_no_wrap. Qed.
Print Assumptions C03_guard_from_coarse_bounds.

(* Outside the guard code and documented procedure do part ways (the model mirrors the wrap, the probe's
   `extreme` cases compare it with the code): timestamps -2^62 and 2^62 make last - first wrap, the code says STOP. *)
Example C03_outside_guard_refuted :
  let offs := [w_c 10 (-4611686018427387904) (Some 5); w_c 20 4611686018427387904 (Some 5)] in
  ~ no_wrap offs 10 /\ ~ Stopped offs 10 /\ calc_status_some offs [30] 10 10 0 = StStop.
Proof. exact overflow_refuted. Qed.
Print Assumptions C03_outside_guard_refuted.

(* REWIND: the model's test is the declarative clause, for every window *)
Theorem C03_rewind_rule :
  forall offs, rewound_unrecovered offs = true <-> RewoundUnrecovered offs.
Proof. exact rewound_unrecovered_spec. Qed.
Print Assumptions C03_rewind_rule.

(* A second backward step that an earlier, recovered one used to hide (10, 5, 10, 3): REWIND.  Genuine defect of the
   pinned tree, repaired in /repo by a fix: commit (known_findings.json, C03): before it calculatePartitionStatus
   examined only the first backward step of the window and this window was WARN. *)
Example C03_second_rewind_is_rewind :
  RewoundUnrecovered second_rewind_window /\
  calc_status_some second_rewind_window [30] 10 4 0 = StRewind.
Proof. exact second_rewind_is_rewind. Qed.
Print Assumptions C03_second_rewind_is_rewind.

Example C03_second_rewind_masked_before_fix :
  RewoundUnrecovered second_rewind_window /\ no_wrap second_rewind_window 4 /\
  calc_status_some_v1 second_rewind_window [30] 10 4 0 = StWarn.
Proof. exact second_rewind_masked_before_fix. Qed.
Print Assumptions C03_second_rewind_masked_before_fix.

Theorem C03_before_fix_agrees_without_rewind :
  forall offs brokers cur now allowed,
    rewind_index offs = None ->
    calc_status_some_v1 offs brokers cur now allowed = calc_status_some offs brokers cur now allowed.
Proof. exact v1_agrees_when_no_rewind. Qed.
Print Assumptions C03_before_fix_agrees_without_rewind.

(* Non-vacuity: one window per rule of the decision list, and one per precedence pair (both rules apply, the
   earlier one wins).  Clock 10 s, commits at 1..3 s. *)
Example C03_ex_rules :
  calc_status_some [w_c 10 1000 (Some 5)] [30] 3 10 3 = StOK /\
  calc_status_some [w_c 10 1000 (Some 5); w_c 20 2000 (Some 5)] [30] 10 10 0 = StStop /\
  calc_status_some [w_c 10 1000 (Some 5); w_c 20 2000 (Some 5)] [30; 20] 10 10 0 = StWarn /\
  calc_status_some [w_c 10 1000 (Some 5); w_c 5 2000 (Some 9); w_c 7 3000 (Some 9)] [30] 10 3 0 = StRewind /\
  calc_status_some [w_c 10 1000 (Some 5); w_c 5 2000 (Some 9); w_c 10 3000 (Some 9)] [30] 10 3 0 = StWarn /\
  calc_status_some [w_c 10 1000 (Some 5); w_c 11 2000 (Some 0); w_c 12 3000 (Some 9)] [30] 10 3 0 = StOK /\
  calc_status_some [w_c 10 1000 (Some 5); w_c 10 2000 (Some 9); w_c 10 3000 (Some 9)] [30] 10 3 0 = StStall /\
  calc_status_some [w_c 10 1000 (Some 5); w_c 11 2000 None; w_c 12 3000 (Some 9)] [30] 10 3 0 = StWarn /\
  calc_status_some [w_c 10 1000 (Some 9); w_c 11 2000 None; w_c 12 3000 (Some 5)] [30] 10 3 0 = StOK.
Proof.
  repeat apply conj; [exact witness_within|exact witness_stop|exact witness_recent_zero_lifts_stop|exact witness_rewind|
                 exact witness_rewind_recovered|exact witness_lag_ok|exact witness_stall|exact witness_warn|exact witness_else].
Qed.
Print Assumptions C03_ex_rules.

Example C03_ex_precedence :
  calc_status_some [w_c 10 1000 (Some 5); w_c 5 2000 (Some 9)] [30] 10 10 0 = StStop /\
  calc_status_some [w_c 10 1000 (Some 0); w_c 5 2000 (Some 9); w_c 7 3000 (Some 9)] [30] 10 3 0 = StRewind /\
  calc_status_some [w_c 10 1000 (Some 0); w_c 10 2000 (Some 9); w_c 10 3000 (Some 9)] [30] 10 3 0 = StOK /\
  calc_status_some [w_c 10 1000 (Some 5); w_c 10 2000 (Some 6); w_c 10 3000 (Some 7)] [30] 10 3 0 = StStall.
Proof.
  repeat apply conj; [exact witness_stop_over_rewind|exact witness_rewind_over_lag_ok|exact witness_lag_ok_over_stall|
                 exact witness_stall_over_warn].
Qed.
Print Assumptions C03_ex_precedence.

(* Known divergence, unreachable: for a window with a nil entry in the MIDDLE that is stopped, Go dereferences only
   the first and last entry and returns STOP, the model's calc_status says Crash.  Storage produces nil entries only
   as a prefix (C02) and evaluatePartitionStatus slices that prefix off (C03_partition_gate), so no such window
   reaches calculatePartitionStatus. *)

(* evaluatePartitionStatus on a window with b unfilled slots followed by commits: the completeness
   gate decides between the rule procedure and OK; first/last commit are reported. *)
Theorem C03_partition_gate :
  forall b c0 cs p minimum allowed now,
    cp_offsets p = repeat None b ++ map Some (c0 :: cs) ->
    eval_partition p minimum allowed now =
    Ok (if f32_ge (part_complete b (S (length cs))) minimum
        then calc_status_some (c0 :: cs) (cp_brokers p) (cp_lag p) now allowed else StOK,
        Some c0, Some (last (c0 :: cs) c0), part_complete b (S (length cs))).
Proof. exact eval_partition_shape. Qed.
Print Assumptions C03_partition_gate.

Theorem C03_incomplete_is_ok :
  forall b c0 cs p minimum allowed now,
    cp_offsets p = repeat None b ++ map Some (c0 :: cs) ->
    f32_ge (part_complete b (S (length cs))) minimum = false ->
    exists st en c, eval_partition p minimum allowed now = Ok (StOK, st, en, c).
Proof. exact incomplete_is_ok. Qed.
Print Assumptions C03_incomplete_is_ok.

(* every window of the shape storage reports (unfilled slots only at the front) is evaluated without dereferencing a
   nil entry, whatever the current lag *)
Theorem C03_no_nil_dereference :
  forall b cs p minimum allowed now,
    cp_offsets p = repeat None b ++ map Some cs ->
    exists r, eval_partition p minimum allowed now = Ok r.
Proof. exact eval_partition_no_crash. Qed.
Print Assumptions C03_no_nil_dereference.

(* a window without any commit (partition known only through an owner update) is empty: OK, no first/last commit,
   completeness 0/N - never "complete" (finding F4, repaired by /repo commit 21f3585) *)
Theorem C03_window_without_commits :
  forall b p minimum allowed now,
    cp_offsets p = repeat None b ->
    eval_partition p minimum allowed now =
    Ok (StOK, None, None,
        match b with O => f32_zero | _ => f32_div (f32_of_int 0) (f32_of_int (Z.of_nat b)) end).
Proof. exact eval_partition_all_nil. Qed.
Print Assumptions C03_window_without_commits.

(* ---- the completeness gate in real numbers (proofs: F32Proofs.v, EvalCompleteProofs.v) ---- *)

(* Complete >= minimum-complete is the comparison of the real values: minimum <= (filled/slots rounded to binary32) *)
Theorem C03_gate_is_real_comparison :
  forall b k minimum,
    (0 < b + k)%nat -> Z.of_nat (b + k) <= 2 ^ 24 -> is_finite 24 128 minimum = true ->
    (f32_ge (part_complete b k) minimum = true <->
     (B2R 24 128 minimum <=
      round radix2 (FLT_exp (-149) 24) ZnearestE (IZR (Z.of_nat k) / IZR (Z.of_nat (b + k))))%R).
Proof. exact gate_is_real_comparison. Qed.
Print Assumptions C03_gate_is_real_comparison.

(* a full window passes the gate exactly when minimum <= 1 *)
Theorem C03_gate_full_window :
  forall k minimum, is_finite 24 128 minimum = true ->
    (f32_ge (part_complete 0 k) minimum = true <-> (B2R 24 128 minimum <= 1)%R).
Proof. exact gate_full_window. Qed.
Print Assumptions C03_gate_full_window.

(* a NaN threshold closes the gate *)
Theorem C03_gate_nan_minimum :
  forall b k minimum, is_nan 24 128 minimum = true -> f32_ge (part_complete b k) minimum = false.
Proof. exact gate_nan_minimum. Qed.
Print Assumptions C03_gate_nan_minimum.

(* evaluatePartitionStatus applies the rules exactly when minimum <= rounded(filled/slots), else reports OK *)
Theorem C03_partition_gate_real :
  forall b c0 cs p minimum allowed now,
    cp_offsets p = repeat None b ++ map Some (c0 :: cs) ->
    Z.of_nat (b + S (length cs)) <= 2 ^ 24 -> is_finite 24 128 minimum = true ->
    let q := round radix2 (FLT_exp (-149) 24) ZnearestE
               (IZR (Z.of_nat (S (length cs))) / IZR (Z.of_nat (b + S (length cs)))) in
    ((B2R 24 128 minimum <= q)%R ->
       eval_partition p minimum allowed now =
       Ok (calc_status_some (c0 :: cs) (cp_brokers p) (cp_lag p) now allowed,
           Some c0, Some (last (c0 :: cs) c0), part_complete b (S (length cs)))) /\
    ((q < B2R 24 128 minimum)%R ->
       eval_partition p minimum allowed now =
       Ok (StOK, Some c0, Some (last (c0 :: cs) c0), part_complete b (S (length cs)))).
Proof. exact partition_gate_real. Qed.
Print Assumptions C03_partition_gate_real.

(* non-vacuity: threshold 0.75 (0x3F400000): 3 of 4 slots passes, 2 of 3 does not *)
Example C03_gate_witness :
  f32_ge (part_complete 1 3) (f32_of_bits 0x3F400000) = true /\
  f32_ge (part_complete 1 2) (f32_of_bits 0x3F400000) = false /\
  is_finite 24 128 (f32_of_bits 0x3F400000) = true.
Proof. exact ex_gate. Qed.
