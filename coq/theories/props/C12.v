From Burrow Require Import ClusterMod.
Example placeholder_C12 : True. Proof. exact I. Qed.
